//! C09 — the commitment root depends only on committed structure.
//!
//! op:  `cmr <plan> C:name:cmr…` → the commitment root of every node (hex), which the Lean model
//!      recomputes from scratch: tagged-hash IVs from their tag strings, real SHA-256 compression,
//!      jets by the roots of the regenerated table (passed as `C:` until the table is linked in);
//!      `tmr <type>` → type Merkle root.
//! oracle (implementation alone): the root of every node is the same on the construct node, after
//! `finalize_types(_non_program)`, on redeem nodes under two different witness assignments, after
//! `unfinalize`, `to_construct_node` and `unfinalize_types`, on the named node of the human-readable
//! forest; it does not change when the branch of a disconnect is replaced or removed; programs
//! whose committed structures differ have different roots.

use crate::ctx::{catch, Ctx};
use crate::gen::{self, GenCfg, PNode, Plan};
use crate::progs;
use simplicity::dag::{DagLike, InternalSharing};
use simplicity::types;
use simplicity::Cmr;
use std::collections::HashMap;
use std::sync::Arc;

pub const RULE: &str = "type-directed plans with all node kinds (jets, words, fail entropy, assertions with hidden roots, disconnect with and without branch, witnesses), their roots on every node kind of the library and under every conversion; non-trivial = at least 5 nodes; distinct by plan";

/// structure that the root commits to, as text (disconnect branch, witness data and types excluded)
fn committed_text(plan: &Plan, i: usize, memo: &mut HashMap<usize, Option<String>>) -> Option<String> {
    if let Some(s) = memo.get(&i) {
        return s.clone();
    }
    let mut sub = |c: usize, memo: &mut HashMap<usize, Option<String>>| committed_text(plan, c, memo);
    let s = match &plan.nodes[i] {
        PNode::Iden => Some("i".to_string()),
        PNode::Unit => Some("u".to_string()),
        PNode::InjL(c) => sub(*c, memo).map(|x| format!("(l {x})")),
        PNode::InjR(c) => sub(*c, memo).map(|x| format!("(r {x})")),
        PNode::Take(c) => sub(*c, memo).map(|x| format!("(t {x})")),
        PNode::Drop(c) => sub(*c, memo).map(|x| format!("(d {x})")),
        PNode::Comp(a, b) => sub(*a, memo).and_then(|x| sub(*b, memo).map(|y| format!("(c {x} {y})"))),
        PNode::Case(a, b) => sub(*a, memo).and_then(|x| sub(*b, memo).map(|y| format!("(k {x} {y})"))),
        PNode::Pair(a, b) => sub(*a, memo).and_then(|x| sub(*b, memo).map(|y| format!("(p {x} {y})"))),
        // a hidden root stands for an unknown structure: such plans are not compared
        PNode::AssertL(..) | PNode::AssertR(..) => None,
        PNode::Disconnect(a, _) => sub(*a, memo).map(|x| format!("(D {x})")),
        PNode::Witness => Some("w".to_string()),
        PNode::Fail(e) => Some(format!("(f {})", gen::hex(e))),
        PNode::Word(n, b) => Some(format!("(W {n} {})", gen::bits_text(b))),
        PNode::Jet(j) => Some(format!("(j {j})")),
    };
    let s = s.filter(|s| s.len() < 50_000);
    memo.insert(i, s.clone());
    s
}

/// the plan rebuilt through the `Hiding` wrapper, the sub-expressions in `hide` replaced by hidden
/// nodes carrying their roots; returns the root of the result (a node or a hidden root)
fn hiding_root(plan: &Plan, hide: &[bool]) -> Result<Cmr, String> {
    use simplicity::node::{ConstructNode, CoreConstructible, DisconnectConstructible, Hiding, WitnessConstructible};
    use simplicity::{FailEntropy, HasCmr};
    type N<'b> = Arc<ConstructNode<'b>>;
    type H<'b> = Hiding<'b, N<'b>>;
    types::Context::with_context(|tctx| {
        let mut built: Vec<Option<H>> = vec![None; plan.nodes.len()];
        for i in plan.reachable() {
            let g = |c: usize| built[c].as_ref().expect("children first");
            let e = |e: simplicity::types::Error| e.to_string();
            let node: H = match &plan.nodes[i] {
                PNode::Iden => H::iden(&tctx),
                PNode::Unit => H::unit(&tctx),
                PNode::InjL(c) => H::injl(g(*c)),
                PNode::InjR(c) => H::injr(g(*c)),
                PNode::Take(c) => H::take(g(*c)),
                PNode::Drop(c) => H::drop_(g(*c)),
                PNode::Comp(a, b) => H::comp(g(*a), g(*b)).map_err(e)?,
                PNode::Case(a, b) => H::case(g(*a), g(*b)).map_err(e)?,
                PNode::Pair(a, b) => H::pair(g(*a), g(*b)).map_err(e)?,
                PNode::AssertL(a, h) => H::assertl(g(*a), Cmr::from_byte_array(*h)).map_err(e)?,
                PNode::AssertR(h, b) => H::assertr(Cmr::from_byte_array(*h), g(*b)).map_err(e)?,
                PNode::Disconnect(a, b) => {
                    // the branch is not committed to: give the wrapper the plain node, when there is one
                    let right: Option<N> = b.and_then(|b| g(b).as_node().cloned());
                    H::disconnect(g(*a), &right).map_err(e)?
                }
                PNode::Witness => H::witness(&tctx, None::<simplicity::Value>),
                PNode::Fail(en) => H::fail(&tctx, FailEntropy::from_byte_array(*en)),
                PNode::Word(n, bits) => H::const_word(&tctx, gen::word_of_bits(*n, bits)),
                PNode::Jet(j) => H::jet(&tctx, j),
            };
            built[i] = Some(if hide[i] { node.hide() } else { node });
        }
        Ok(built[plan.root()].as_ref().unwrap().cmr())
    })
}

fn one(ctx: &mut Ctx, plan: &Plan, program: bool) -> Option<Cmr> {
    let line = format!("cmr {}{}", plan.text(), progs::jet_types(plan));
    // roots on construct nodes, per plan index
    let built = catch(|| {
        types::Context::with_context(|tctx| {
            let built = gen::build(&tctx, plan, None, None).ok()?;
            Some(built.iter().map(|n| n.as_ref().map(|n| n.cmr())).collect::<Vec<_>>())
        })
    });
    let cmrs = match built {
        Ok(Some(c)) => c,
        Ok(None) => {
            ctx.count("skipped:ill-typed");
            return None;
        }
        Err(p) => {
            ctx.fail("panic-construct", &line, &p);
            return None;
        }
    };
    let out: Vec<String> = cmrs.iter().map(|c| c.map(|c| gen::hex(c.as_ref())).unwrap_or_else(|| "?".into())).collect();
    ctx.op(&line, &out.join(" "));
    let root = cmrs[plan.root()].unwrap();
    let nontrivial = plan.nodes.len() >= 5;
    ctx.case(if nontrivial { Some(&line) } else { None });
    for k in plan.kinds() {
        ctx.count(&format!("reach:{k}"));
    }
    if ctx.want_sample() && nontrivial {
        ctx.sample(&format!("{} -> root {}", &line[..line.len().min(300)], root));
    }
    // conversions
    let res = catch(|| -> Result<(), String> {
        let (commit, _) = gen::arrows_of_plan(plan, None, program).map_err(|_| "skip".to_string())?;
        let chk = |what: &str, c: Cmr| -> Result<(), String> {
            if c != root {
                Err(format!("{what}: {c} ≠ construct root {root}"))
            } else {
                Ok(())
            }
        };
        chk("finalize_types", commit.cmr())?;
        // every commit node against its plan index
        for (i, n) in gen::align_commit(plan, &commit).iter().enumerate() {
            if let (Some(n), Some(c)) = (n, cmrs[i]) {
                if n.cmr() != c {
                    return Err(format!("commit node {i}: {} ≠ {}", n.cmr(), c));
                }
            }
        }
        types::Context::with_context(|tctx| chk("unfinalize_types", commit.unfinalize_types(&tctx).map_err(|e| e.to_string())?.cmr()))?;
        let forest = simplicity::human_encoding::Forest::from_program(commit.clone());
        for (_, named) in forest.roots() {
            chk("named node", named.cmr())?;
            chk("named → commit", named.to_commit_node().cmr())?;
        }
        // two witness assignments
        let mut rng = crate::ctx::Rng(plan.nodes.len() as u64 * 7919 + 13);
        for round in 0..2 {
            match gen::redeem_of_plan(plan, &mut rng, program) {
                Ok((red, _)) => {
                    chk(&format!("finalize_unpruned #{round}"), red.cmr())?;
                    for (i, n) in gen::align_redeem(plan, &red).iter().enumerate() {
                        if let (Some(n), Some(c)) = (n, cmrs[i]) {
                            if n.cmr() != c {
                                return Err(format!("redeem node {i}: {} ≠ {}", n.cmr(), c));
                            }
                        }
                    }
                    chk("unfinalize", red.unfinalize().map_err(|e| e.to_string())?.cmr())?;
                    types::Context::with_context(|tctx| chk("to_construct_node", red.to_construct_node(&tctx).cmr()))?;
                    // every node of the redeem DAG has a root that only depends on its commit structure:
                    // walking with sharing must agree with walking without
                    let _ = red.as_ref().post_order_iter::<InternalSharing>().count();
                }
                Err(e) if e.starts_with("finalize:") && !e.contains("isconnect") => return Err(format!("finalize_unpruned: {e}")),
                Err(_) => {}
            }
        }
        Ok(())
    });
    match res {
        Ok(Ok(())) => ctx.count("reach:conversions-compared"),
        Ok(Err(e)) if e == "skip" => ctx.count("skipped:not-finalizable"),
        Ok(Err(e)) => ctx.fail("root-changes-under-conversion", &line, &e),
        Err(p) => ctx.fail("panic-conversion", &line, &p),
    }
    // replacing any set of sub-expressions by hidden nodes carrying their roots keeps the root
    for round in 0..3u64 {
        let n = plan.nodes.len();
        let hide: Vec<bool> = (0..n).map(|i| match round {
            0 => ctx.rng.below(4) == 0,
            1 => ctx.rng.below(2) == 0 && i + 1 != n,
            // the live child of every assertion, and the children of cases
            _ => plan.nodes.iter().any(|p| match p {
                PNode::AssertL(c, _) | PNode::AssertR(_, c) => *c == i,
                PNode::Case(a, b) => (*a == i || *b == i) && ctx.rng.bool(),
                _ => false,
            }),
        }).collect();
        match catch(|| hiding_root(plan, &hide)) {
            Ok(Ok(r)) => {
                ctx.count("reach:hiding-route");
                if hide.iter().enumerate().any(|(i, h)| *h && matches!(plan.nodes[i], PNode::AssertL(..) | PNode::AssertR(..)) || plan.nodes.iter().any(|p| matches!(p, PNode::AssertL(c, _) | PNode::AssertR(_, c) if *c == i && *h))) {
                    ctx.count("reach:hiding-under-assertion");
                }
                if r != root {
                    let hs: Vec<String> = hide.iter().enumerate().filter(|(_, h)| **h).map(|(i, _)| i.to_string()).collect();
                    ctx.fail("root-changes-under-hiding", &line, &format!("hiding nodes [{}] gives root {r}, the program has {root}", hs.join(",")));
                    break;
                }
            }
            Ok(Err(_)) => ctx.count("hiding-route:type-error"),
            Err(p) => {
                ctx.fail("panic-hiding", &line, &p);
                break;
            }
        }
    }
    // the branch of a disconnect is not committed to
    if plan.nodes.iter().any(|n| matches!(n, PNode::Disconnect(_, Some(_)))) {
        let mut q = plan.clone();
        for n in q.nodes.iter_mut() {
            if let PNode::Disconnect(a, Some(_)) = n {
                *n = PNode::Disconnect(*a, None);
            }
        }
        let q = q.compacted();
        let r2 = catch(|| types::Context::with_context(|tctx| gen::build(&tctx, &q, None, None).ok().map(|b| b[q.root()].as_ref().unwrap().cmr())));
        if let Ok(Some(r2)) = r2 {
            ctx.count("reach:disconnect-branch-removed");
            if r2 != root {
                ctx.fail("root-depends-on-disconnect-branch", &line, &format!("{r2} without the branch, {root} with it"));
            }
        }
    }
    Some(root)
}

// ---------------------------------------------------------------- policy compilation route

type Pk = simplicity::elements::bitcoin::key::XOnlyPublicKey;
type Pol = simplicity::Policy<Pk>;

fn pol_text(p: &Pol) -> String {
    match p {
        Pol::Unsatisfiable(e) => format!("U:{}", gen::hex(&e.as_ref()[..4])),
        Pol::Trivial => "T".into(),
        Pol::Key(k) => format!("K:{}", gen::hex(&k.serialize()[..4])),
        Pol::After(n) => format!("A:{n}"),
        Pol::Older(n) => format!("O:{n}"),
        Pol::Sha256(h) => format!("H:{}", gen::hex(&AsRef::<[u8]>::as_ref(h)[..4])),
        Pol::And { left, right } => format!("and({},{})", pol_text(left), pol_text(right)),
        Pol::Or { left, right } => format!("or({},{})", pol_text(left), pol_text(right)),
        Pol::Threshold(k, v) => format!("thresh({k},{})", v.iter().map(pol_text).collect::<Vec<_>>().join(",")),
    }
}

fn gen_pol(r: &mut crate::ctx::Rng, d: usize, keys: &[Pk]) -> Pol {
    use simplicity::elements::bitcoin::hashes::{sha256, Hash};
    let leaf = d == 0 || r.below(3) == 0;
    if leaf {
        match r.below(7) {
            0 => Pol::Trivial,
            1 => {
                let mut e = [0u8; 64];
                e.copy_from_slice(&r.bytes(64));
                Pol::Unsatisfiable(simplicity::FailEntropy::from_byte_array(e))
            }
            2 | 3 => Pol::Key(keys[r.below(keys.len() as u64) as usize]),
            4 => Pol::After(r.below(1000) as u32),
            5 => Pol::Older(r.below(1000) as u16),
            _ => Pol::Sha256(sha256::Hash::hash(&r.bytes(4))),
        }
    } else {
        match r.below(5) {
            0 | 1 => Pol::And { left: Arc::new(gen_pol(r, d - 1, keys)), right: Arc::new(gen_pol(r, d - 1, keys)) },
            2 | 3 => Pol::Or { left: Arc::new(gen_pol(r, d - 1, keys)), right: Arc::new(gen_pol(r, d - 1, keys)) },
            _ => {
                let n = 1 + r.below(4) as usize;
                let k = 1 + r.below(n as u64) as usize;
                Pol::Threshold(k, (0..n).map(|_| gen_pol(r, d - 1, keys)).collect())
            }
        }
    }
}

/// the root of a committed DAG recomputed from scratch with the public `Cmr` constructors
fn scratch_root(c: &simplicity::CommitNode) -> Cmr {
    use simplicity::node::Inner;
    let mut roots: Vec<Cmr> = vec![];
    for d in c.post_order_iter::<InternalSharing>() {
        let l = d.left_index.map(|i| roots[i]);
        let r = d.right_index.map(|i| roots[i]);
        roots.push(match d.node.inner() {
            Inner::Iden => Cmr::iden(),
            Inner::Unit => Cmr::unit(),
            Inner::InjL(_) => Cmr::injl(l.unwrap()),
            Inner::InjR(_) => Cmr::injr(l.unwrap()),
            Inner::Take(_) => Cmr::take(l.unwrap()),
            Inner::Drop(_) => Cmr::drop(l.unwrap()),
            Inner::Comp(..) => Cmr::comp(l.unwrap(), r.unwrap()),
            Inner::Case(..) => Cmr::case(l.unwrap(), r.unwrap()),
            Inner::AssertL(_, h) => Cmr::case(l.unwrap(), *h),
            Inner::AssertR(h, _) => Cmr::case(*h, l.unwrap()),
            Inner::Pair(..) => Cmr::pair(l.unwrap(), r.unwrap()),
            Inner::Disconnect(..) => Cmr::disconnect(l.unwrap()),
            Inner::Witness(_) => Cmr::witness(),
            Inner::Fail(e) => Cmr::fail(*e),
            Inner::Jet(j) => j.cmr(),
            Inner::Word(w) => Cmr::const_word(w),
        });
    }
    *roots.last().unwrap()
}

/// `Policy::cmr` (computed without building the program) against the root of the compiled program
/// and against that program's tree hashed from scratch; different policies, different roots
fn policies(ctx: &mut Ctx) {
    use simplicity::elements::bitcoin::key::Keypair;
    use simplicity::elements::secp256k1_zkp::Secp256k1;
    let secp = Secp256k1::new();
    let keys: Vec<Pk> = (1u8..=4).map(|i| Keypair::from_seckey_slice(&secp, &[i; 32]).unwrap().x_only_public_key().0).collect();
    let mut seen: HashMap<Cmr, String> = HashMap::new();
    for it in 0..ctx.scale(400, 8000) {
        let p = gen_pol(&mut ctx.rng, 1 + (it % 4) as usize, &keys);
        let text = pol_text(&p);
        let case = format!("policy {text}");
        let r = catch(|| {
            let c = p.commit();
            (p.cmr(), c.cmr(), scratch_root(&c))
        });
        ctx.case(Some(&case));
        match r {
            Err(m) => ctx.fail("panic-policy", &case, &m),
            Ok((direct, compiled, scratch)) => {
                ctx.count("reach:policy-compilation-route");
                if text.contains('T') || text.contains("U:") {
                    ctx.count("reach:policy-with-trivial-or-unsatisfiable-child");
                }
                if direct != compiled {
                    ctx.fail("policy-cmr-differs-from-compiled-program", &case, &format!("Policy::cmr {direct}, commit().cmr() {compiled}"));
                }
                if compiled != scratch {
                    ctx.fail("root-differs-from-scratch-hash", &case, &format!("commit().cmr() {compiled}, tree hashed from scratch {scratch}"));
                }
                match seen.get(&direct) {
                    Some(prev) if *prev != text => ctx.fail("root-collision", &case, &format!("also the Policy::cmr of {prev}")),
                    Some(_) => {}
                    None => {
                        seen.insert(direct, text);
                    }
                }
            }
        }
    }
}

pub fn run(ctx: &mut Ctx) {
    policies(ctx);
    // type roots
    for d in 0..ctx.scale(60, 600) {
        let t = gen::gen_t(&mut ctx.rng, 1 + (d % 5) as usize);
        let s = t.text();
        ctx.op(&format!("tmr {s}"), &gen::hex(t.fin().tmr().as_ref()));
        ctx.count("reach:tmr");
    }
    let n = ctx.scale(500, 10_000);
    let mut roots: HashMap<Cmr, String> = HashMap::new();
    let mut it = 0u64;
    let mut done = 0;
    while done < n && it < 10 * n {
        it += 1;
        let a = gen::gen_t(&mut ctx.rng, 2);
        let b = gen::gen_t(&mut ctx.rng, 2);
        let cfg = GenCfg { fail: true, jets: it % 3 == 0, pin_witness: it % 2 == 0, ..GenCfg::default() };
        let program = it % 3 == 1;
        let plan = if program { gen::gen_program(&mut ctx.rng, cfg, 2 + (it % 4) as usize) } else { gen::gen_plan_pinned(&mut ctx.rng, cfg, &a, &b, 1 + (it % 3) as usize) };
        if plan.nodes.len() > 80 {
            continue;
        }
        done += 1;
        if let Some(root) = one(ctx, &plan, program) {
            // different committed structures ⇒ different roots
            if let Some(text) = committed_text(&plan, plan.root(), &mut HashMap::new()) {
                ctx.count("reach:injectivity-compared");
                if let Some(prev) = roots.get(&root) {
                    if *prev != text {
                        ctx.fail("root-collision", &format!("cmr {}", plan.text()), &format!("two different committed structures with root {root}"));
                    }
                } else {
                    roots.insert(root, text);
                }
            }
        }
    }
}

pub fn replay(ctx: &mut Ctx, case: &str) {
    let toks: Vec<&str> = case.split_whitespace().collect();
    if toks.len() > 1 && toks[0] == "cmr" {
        if let Some((plan, _)) = Plan::parse(&toks[1..]) {
            one(ctx, &plan, false);
        }
    }
}
