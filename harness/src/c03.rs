//! C03 — validity, Merkle roots and cost agree with libsimplicity.
//!
//! op:  `dec <prog hex> <wit hex>` → `ok <n> <cmr> <ihr> <amr> <cost> A <arrows> W <values>` | `err`
//!      (the same operation as C01/C02: the Lean decoder + inference + roots + cost bound is the
//!      common specification both implementations are compared with)
//! oracle (the two implementations against each other): `RedeemNode::decode::<Elements>` accepts
//! exactly when `simplicity_sys::tests::run_program(.., CheckOneOne, ..)` does — the one designed
//! exception being programs with a fail node, which C refuses; when both accept, CMR, AMR, IHR and
//! the static cost bound are bit-identical.

use crate::codec::{self, Dec};
use crate::ctx::{catch, Ctx};
use crate::gen::{self, GenCfg};
use crate::progs;

pub const RULE: &str = "program/witness byte pairs: encodings of generated well-typed Elements-jet programs (all jets as leaves, assertions, disconnect, witnesses of every shape), of their pruned forms, bit-flip/truncate/extend mutations of both streams, and random bytes, all within libsimplicity's size limits; non-trivial = at least 4 program bytes; distinct by (program, witness)";

pub fn one(ctx: &mut Ctx, prog: &[u8], wit: &[u8], kind: &str) {
    let line = format!("dec {} {}", gen::hex(prog), gen::hex(wit));
    let r = codec::decode_redeem(prog, wit);
    let c = match catch(|| codec::c_decode(prog, wit)) {
        Ok(c) => c,
        Err(p) => {
            ctx.fail("panic-c-pipeline", &line, &p);
            return;
        }
    };
    ctx.case(if prog.len() >= 4 { Some(&line) } else { None });
    ctx.count(&format!("kind:{kind}"));
    match (&r, &c.verdict) {
        (Dec::Panic(p), _) => ctx.fail("panic-decode", &line, p),
        (Dec::Err(e), Err(_)) => {
            ctx.op(&line, "err");
            ctx.count("reach:both-reject");
            ctx.count(&format!("reach:reject-{}", codec::err_kind(e)));
        }
        (Dec::Err(e), Ok(())) => {
            ctx.op(&line, "err");
            ctx.fail("c-accepts-rust-rejects", &line, &format!("Rust: {e}"));
        }
        (Dec::Ok(red), Err(ce)) => {
            ctx.op(&line, &codec::describe(red));
            if codec::has_fail(red) && ce.contains("FailCode") {
                ctx.count("reach:fail-node-exception");
            } else {
                ctx.fail("rust-accepts-c-rejects", &line, &format!("C: {ce}"));
            }
        }
        (Dec::Ok(red), Ok(())) => {
            ctx.op(&line, &codec::describe(red));
            ctx.count("reach:both-accept");
            ctx.count(&format!("reach:{kind}-both-accept"));
            if ctx.want_sample() {
                ctx.sample(&format!("{line} -> cmr {} cost {}", red.cmr(), red.bounds().cost));
            }
            if red.cmr().as_ref() != c.cmr {
                ctx.fail("cmr-differs", &line, &format!("Rust {} C {}", red.cmr(), gen::hex(&c.cmr)));
            }
            if red.ihr().as_ref() != c.ihr {
                ctx.fail("ihr-differs", &line, &format!("Rust {} C {}", red.ihr(), gen::hex(&c.ihr)));
            }
            if red.amr().as_ref() != c.amr {
                ctx.fail("amr-differs", &line, &format!("Rust {} C {}", red.amr(), gen::hex(&c.amr)));
            }
            match c.cost {
                Some(k) => {
                    ctx.count("reach:cost-compared");
                    if simplicity::Cost::from_milliweight(k) != red.bounds().cost {
                        ctx.fail("cost-differs", &line, &format!("Rust {} C {k}", red.bounds().cost));
                    }
                }
                None => ctx.count("c-cost-unavailable"),
            }
            for d in simplicity::dag::DagLike::post_order_iter::<simplicity::dag::InternalSharing>(red.as_ref()) {
                ctx.count(&format!("reach:accepted-{}", progs::inner_kind(d.node.inner())));
            }
        }
    }
}

pub fn run(ctx: &mut Ctx) {
    let env = progs::dummy_env();
    let n = ctx.scale(300, 8000);
    let mut it = 0u64;
    let mut done = 0;
    while done < n && it < 20 * n {
        it += 1;
        let jets = it % 2 == 0;
        let cfg = GenCfg { fail: it % 7 == 0, jets, jet_pool: if jets && it % 4 == 0 { progs::simple_jets() } else { vec![] }, pin_witness: it % 2 == 0, share_16: 2 + (it % 7), ..GenCfg::default() };
        let plan = gen::gen_program(&mut ctx.rng, cfg, 2 + (it % 5) as usize);
        if plan.nodes.len() > 120 || plan.nodes.len() < 2 {
            continue;
        }
        let Ok(Ok((red, _))) = catch(|| gen::redeem_of_plan(&plan, &mut ctx.rng.fork(), true)) else { continue };
        done += 1;
        let (pb, wb) = red.to_vec_with_witness();
        one(ctx, &pb, &wb, "valid");
        // the pruned form (assertions in place of untaken branches), when the program runs
        if let Ok(Ok(pruned)) = catch(|| red.prune(&env)) {
            let (pp, pw) = pruned.to_vec_with_witness();
            if pp != pb {
                one(ctx, &pp, &pw, "pruned");
            }
        }
        for _ in 0..3 {
            let (p2, w2) = match ctx.rng.below(3) {
                0 => (codec::mutate(&mut ctx.rng, &pb), wb.clone()),
                1 => (pb.clone(), codec::mutate(&mut ctx.rng, &wb)),
                _ => (codec::mutate(&mut ctx.rng, &pb), codec::mutate(&mut ctx.rng, &wb)),
            };
            one(ctx, &p2, &w2, "mutated");
        }
    }
    // witness types from the zoo (sums with equal-width branches padded on one or both sides):
    // libsimplicity reads the witness stream with its own type-directed reader
    {
        let mut done = 0;
        let want = ctx.scale(1000, 12_000);
        for _ in 0..20 * want {
            if done >= want {
                break;
            }
            let k = 1 + ctx.rng.below(3) as usize;
            let mut tys: Vec<gen::T> = (0..k)
                .map(|_| {
                    let d = 1 + ctx.rng.below(3) as usize;
                    gen::gen_t_zoo(&mut ctx.rng, d)
                })
                .collect();
            if ctx.rng.bool() {
                tys.push(gen::T::word(ctx.rng.below(4) as u32));
            }
            if tys.iter().any(|t| t.size() > 24) {
                continue;
            }
            let plan = gen::witness_zoo_plan(&mut ctx.rng.fork(), &tys);
            let Ok(Ok((red, _))) = catch(|| gen::redeem_of_plan(&plan, &mut ctx.rng.fork(), true)) else { continue };
            done += 1;
            let (pb, wb) = red.to_vec_with_witness();
            one(ctx, &pb, &wb, "witness-zoo");
            let w2 = codec::mutate(&mut ctx.rng, &wb);
            one(ctx, &pb, &w2, "witness-zoo-mutated");
        }
    }
    // witness values of every bit length (each witness is hashed on its own into AMR and IHR: all
    // block and padding boundaries of that hash), random values
    let lens: Vec<usize> = if !ctx.quick() {
        (1..=1100).collect()
    } else {
        (1..=24).chain(425..=460).chain(505..=520).chain(945..=965).chain(1020..=1030).collect()
    };
    for l in lens {
        let plan = gen::witness_bits_plan(l);
        match catch(|| gen::redeem_of_plan(&plan, &mut ctx.rng.fork(), true)) {
            Ok(Ok((red, _))) => {
                let (pb, wb) = red.to_vec_with_witness();
                one(ctx, &pb, &wb, "witness-length");
                ctx.count("reach:witness-length-sweep");
            }
            e => ctx.note(&format!("witness-length plan for {l} bits could not be built: {:?}", e.map(|r| r.map(|_| ())))),
        }
    }
    for _ in 0..ctx.scale(1000, 30_000) {
        let lp = 1 + ctx.rng.below(20) as usize;
        let lw = ctx.rng.below(5) as usize;
        let p = ctx.rng.bytes(lp);
        let w = ctx.rng.bytes(lw);
        one(ctx, &p, &w, "random");
    }
}

pub fn replay(ctx: &mut Ctx, case: &str) {
    let toks: Vec<&str> = case.split_whitespace().collect();
    if let ["dec", p, w, ..] = toks.as_slice() {
        if let (Some(p), Some(w)) = (gen::parse_hex(p), gen::parse_hex(w)) {
            one(ctx, &p, &w, "replay");
        }
    }
}
