//! C02 — the decoder is total and accepts only the canonical encoding.
//!
//! ops: `dec <prog hex> <wit hex>` → `ok <n> <cmr> <ihr> <amr> <cost> A <arrows> W <values>` | `err`
//!      `cdec <prog hex>`          → `ok <cmr>` | `err`                     (CommitNode::decode)
//! oracle (implementation alone): no panic, no abort, bounded time; whenever decoding succeeds,
//! re-encoding returns exactly the input bytes of program and witness (commit-time: when no
//! disconnect node carries a branch).  Inputs: encodings of generated programs; their bit-flip /
//! truncate / extend / splice mutations (program and witness); random bytes; encodings
//! hand-assembled to violate one canonicity rule each (unused node, non-canonical order, unshared
//! duplicate, repeated hidden node, trailing byte, non-zero padding, out-of-range back reference,
//! word size 33).  Deeply nested inputs run in a child process (stack overflow = abort).

use crate::codec::{self, Dec};
use crate::ctx::{catch, Ctx};
use crate::gen::{self, GenCfg};
use crate::progs;
use crate::wire::{self, W};
use std::time::Instant;

pub const RULE: &str = "byte strings offered as program and witness: valid encodings of generated programs, their mutations, random bytes, and hand-assembled violations of one canonicity rule each; non-trivial = at least 4 bytes of program; distinct by (program, witness)";

pub fn dec_one(ctx: &mut Ctx, prog: &[u8], wit: &[u8], kind: &str, to_model: bool) -> Option<bool> {
    let line = format!("dec {} {}", gen::hex(prog), gen::hex(wit));
    let t0 = Instant::now();
    let res = codec::decode_redeem(prog, wit);
    let dt = t0.elapsed();
    if dt.as_millis() > 5000 {
        ctx.fail("decode-slow", &line, &format!("{} ms for {} bytes", dt.as_millis(), prog.len() + wit.len()));
    }
    let nontrivial = prog.len() >= 4;
    ctx.case(if nontrivial { Some(&line) } else { None });
    ctx.count(&format!("kind:{kind}"));
    match res {
        Dec::Panic(p) => {
            ctx.fail("panic-decode", &line, &p);
            None
        }
        Dec::Err(e) => {
            if to_model {
                ctx.op(&line, "err");
            }
            ctx.count(&format!("reach:rejected-{}", codec::err_kind(&e)));
            ctx.count(&format!("reach:{kind}-rejected"));
            Some(false)
        }
        Dec::Ok(red) => {
            if to_model {
                ctx.op(&line, &codec::describe(&red));
            }
            ctx.count("reach:accepted");
            ctx.count(&format!("reach:{kind}-accepted"));
            if ctx.want_sample() && nontrivial {
                ctx.sample(&format!("{line} -> accepted, {} nodes", codec::describe(&red).split(' ').nth(1).unwrap_or("?")));
            }
            let (p2, w2) = red.to_vec_with_witness();
            if p2 != prog || w2 != wit {
                ctx.fail("noncanonical-accepted", &line, &format!("re-encodes to prog {} wit {}", gen::hex(&p2), gen::hex(&w2)));
            }
            Some(true)
        }
    }
}

pub fn cdec_one(ctx: &mut Ctx, prog: &[u8], kind: &str) {
    let line = format!("cdec {}", gen::hex(prog));
    match codec::decode_commit(prog) {
        Err(p) => ctx.fail("panic-commit-decode", &line, &p),
        Ok(Err(e)) => {
            ctx.op(&line, "err");
            ctx.count(&format!("reach:commit-rejected-{}", codec::err_kind(&e)));
        }
        Ok(Ok(c)) => {
            ctx.op(&line, &format!("ok {}", c.cmr()));
            ctx.count("reach:commit-accepted");
            ctx.count(&format!("reach:commit-{kind}-accepted"));
            let has_branch = wire::parse(prog).map(|ns| ns.iter().any(|n| matches!(n, W::Disc(..)))).unwrap_or(true);
            if !has_branch {
                let p2 = c.to_vec_without_witness();
                if p2 != prog {
                    ctx.fail("noncanonical-commit-accepted", &line, &format!("re-encodes to {}", gen::hex(&p2)));
                }
            }
        }
    }
    ctx.case(Some(&line));
}

/// encodings that break exactly one canonicity rule of a valid node list
fn violations(ctx: &mut Ctx, prog: &[u8]) -> Vec<(&'static str, Vec<u8>)> {
    let mut out = vec![];
    let Some(ns) = wire::parse(prog) else { return out };
    let n = ns.len();
    let r = &mut ctx.rng;
    // trailing byte / non-zero padding
    let bits = wire::assemble_bits(&ns);
    let mut t = wire::bytes_of(&bits);
    t.push(0);
    out.push(("trailing-byte", t));
    if bits.len() % 8 != 0 {
        let mut b = bits.clone();
        let pad = 8 - b.len() % 8;
        let k = r.below(pad as u64) as usize;
        for i in 0..pad {
            b.push(i == k);
        }
        out.push(("nonzero-padding", wire::bytes_of(&b)));
    }
    // unused node inserted at a random position
    {
        let at = r.below(n as u64) as usize;
        let mut v: Vec<W> = vec![];
        for (i, w) in ns.iter().enumerate() {
            if i == at {
                v.push(if r.bool() { W::Unit } else { W::Iden });
            }
            v.push(w.map_children(&|c| if c >= at { c + 1 } else { c }));
        }
        out.push(("unused-node", wire::assemble(&v)));
    }
    // two adjacent nodes swapped where neither refers to the other
    for _ in 0..4 {
        if n < 3 {
            break;
        }
        let i = r.below(n as u64 - 2) as usize;
        if ns[i + 1].children().contains(&i) {
            continue;
        }
        let sw = |c: usize| if c == i { i + 1 } else if c == i + 1 { i } else { c };
        let mut v: Vec<W> = ns.iter().map(|w| w.map_children(&sw)).collect();
        v.swap(i, i + 1);
        if v != ns {
            out.push(("order-swapped", wire::assemble(&v)));
            break;
        }
    }
    // a shared node duplicated: one of its users points to a fresh copy while the original stays in
    // use elsewhere (so the only rule broken is sharing).  One violation per distinct kind of shared
    // node, so that leaves of every kind (iden, unit, jets, words) and combinators are all covered.
    {
        let mut uses: Vec<Vec<(usize, usize)>> = vec![vec![]; n]; // c -> (user, slot)
        for (i, w) in ns.iter().enumerate() {
            for (slot, c) in w.children().into_iter().enumerate() {
                uses[c].push((i, slot));
            }
        }
        let mut kinds_done: Vec<std::mem::Discriminant<W>> = vec![];
        let mut order: Vec<usize> = (0..n).collect();
        for k in (1..n).rev() {
            order.swap(k, r.below(k as u64 + 1) as usize);
        }
        for c in order {
            if uses[c].len() < 2 || matches!(ns[c], W::Witness | W::Hidden(_)) {
                continue;
            }
            let d = std::mem::discriminant(&ns[c]);
            if kinds_done.contains(&d) || kinds_done.len() >= 4 {
                continue;
            }
            kinds_done.push(d);
            let (i, slot) = uses[c][1 + r.below(uses[c].len() as u64 - 1) as usize];
            // copy of node c inserted right before i; that one reference of node i moves to the copy
            let mut v: Vec<W> = vec![];
            for (k, w) in ns.iter().enumerate() {
                if k == i {
                    v.push(ns[c].clone());
                    let mut chs = w.children();
                    for (j, x) in chs.iter_mut().enumerate() {
                        *x = if j == slot { i } else if *x >= i { *x + 1 } else { *x };
                    }
                    v.push(w.with_children(&chs));
                } else {
                    v.push(w.map_children(&|x| if x >= i { x + 1 } else { x }));
                }
            }
            out.push(("unshared-duplicate", wire::assemble(&v)));
        }
    }
    // a second hidden node with the root of an existing one
    if let Some(h) = ns.iter().find_map(|w| if let W::Hidden(h) = w { Some(h.clone()) } else { None }) {
        // case (take unit?) — graft: [.., hidden h, unit-ish child, case(child, hidden)] is not generally
        // typable; the decoder must reject on the repeated hidden node before typing matters
        let mut v = ns.clone();
        let root = n - 1;
        v.push(W::Hidden(h));
        v.push(W::Case(root, n));
        out.push(("repeated-hidden", wire::assemble(&v)));
    }
    // out-of-range back reference
    for _ in 0..6 {
        let i = r.below(n as u64) as usize;
        if ns[i].children().is_empty() {
            continue;
        }
        let mut v = ns.clone();
        v[i] = ns[i].map_children(&|_| i + 5);
        out.push(("reference-out-of-range", wire::assemble(&v)));
        break;
    }
    // word of size 33
    {
        let mut v = ns.clone();
        let at = r.below(n as u64) as usize;
        v[at] = W::Word(33, (0..64).map(|_| r.bool()).collect());
        out.push(("word-size-33", wire::assemble(&v)));
    }
    out
}

/// `pair (take^k unit) (take^k iden)`: a valid, canonical encoding whose types nest k deep
fn deep_bytes(k: usize) -> Vec<u8> {
    let mut v = vec![W::Unit];
    for i in 0..k {
        v.push(W::Take(i));
    }
    let a = v.len() - 1;
    v.push(W::Iden);
    for _ in 0..k {
        let c = v.len() - 1;
        v.push(W::Take(c));
    }
    let b = v.len() - 1;
    v.push(W::Pair(a, b));
    let r = v.len() - 1;
    v.push(W::Unit);
    v.push(W::Comp(r, r + 1));
    wire::assemble(&v)
}

/// run `vh C02 --case <case>` in a child process; Some(exit ok?) or None on spawn failure
fn child(case: &str, out_dir: &std::path::Path) -> Option<(bool, String)> {
    let exe = std::env::current_exe().ok()?;
    let dir = out_dir.join("child");
    let o = std::process::Command::new(exe).args(["C02", "--case", case, "--out"]).arg(&dir).output().ok()?;
    let stderr = String::from_utf8_lossy(&o.stderr).to_string();
    Some((o.status.success(), stderr.lines().last().unwrap_or("").to_string()))
}

pub fn run(ctx: &mut Ctx) {
    // 1. generated programs, their mutations and violations
    let n = ctx.scale(250, 6000);
    let mut it = 0u64;
    let mut done = 0;
    while done < n && it < 20 * n {
        it += 1;
        let jets = it % 3 == 0;
        let cfg = GenCfg { fail: it % 5 == 0, jets, jet_pool: if jets && it % 2 == 0 { progs::simple_jets() } else { vec![] }, pin_witness: it % 2 == 0, share_16: 2 + (it % 7), ..GenCfg::default() };
        let plan = gen::gen_program(&mut ctx.rng, cfg, 2 + (it % 5) as usize);
        if plan.nodes.len() > 120 || plan.nodes.len() < 2 {
            continue;
        }
        let Ok(Ok((red, _))) = catch(|| gen::redeem_of_plan(&plan, &mut ctx.rng.fork(), true)) else { continue };
        done += 1;
        let (pb, wb) = red.to_vec_with_witness();
        dec_one(ctx, &pb, &wb, "valid", true);
        for _ in 0..3 {
            let (p2, w2) = match ctx.rng.below(3) {
                0 => (codec::mutate(&mut ctx.rng, &pb), wb.clone()),
                1 => (pb.clone(), codec::mutate(&mut ctx.rng, &wb)),
                _ => (codec::mutate(&mut ctx.rng, &pb), codec::mutate(&mut ctx.rng, &wb)),
            };
            dec_one(ctx, &p2, &w2, "mutated", true);
        }
        match wire::parse(&pb) {
            Some(ns) if wire::assemble(&ns) == pb => ctx.count("reach:independent-parser-reassembles"),
            Some(_) => ctx.fail("harness-wire-parser", &format!("dec {} -", gen::hex(&pb)), "independent parser + assembler do not reproduce a valid encoding"),
            None => ctx.count("independent-parser-gave-up"),
        }
        for (kind, bytes) in violations(ctx, &pb) {
            if dec_one(ctx, &bytes, &wb, kind, true) == Some(true) && !matches!(kind, "order-swapped" | "unshared-duplicate" | "unused-node") {
                // accepted: the non-canonical-acceptance oracle inside dec_one has already judged it
            }
        }
        if it % 3 == 0 {
            cdec_one(ctx, &red.unfinalize().map(|c| c.to_vec_without_witness()).unwrap_or_default(), "valid");
            let m = codec::mutate(&mut ctx.rng, &pb);
            cdec_one(ctx, &m, "mutated");
        }
    }
    // 1a. witness streams for witness types from the zoo (sums with equal-width branches padded on one
    //     or both sides, nested): the valid stream, its mutations, and every 0/1-byte and many 2-byte
    //     strings — whatever is accepted must re-encode to itself
    {
        let mut done = 0;
        let want = ctx.scale(40, 800);
        for _ in 0..20 * want {
            if done >= want {
                break;
            }
            let k = 1 + ctx.rng.below(2) as usize;
            let tys: Vec<gen::T> = (0..k)
                .map(|_| {
                    let d = 1 + ctx.rng.below(3) as usize;
                    gen::gen_t_zoo(&mut ctx.rng, d)
                })
                .collect();
            if tys.iter().any(|t| t.size() > 24) || tys.iter().all(|t| t.bw() == 0) {
                continue;
            }
            let plan = gen::witness_zoo_plan(&mut ctx.rng.fork(), &tys);
            let Ok(Ok((red, _))) = catch(|| gen::redeem_of_plan(&plan, &mut ctx.rng.fork(), true)) else { continue };
            done += 1;
            let (pb, wb) = red.to_vec_with_witness();
            dec_one(ctx, &pb, &wb, "zoo-valid", true);
            for _ in 0..4 {
                let w2 = codec::mutate(&mut ctx.rng, &wb);
                dec_one(ctx, &pb, &w2, "zoo-mutated-witness", true);
            }
            dec_one(ctx, &pb, &[], "zoo-short-witness", true);
            let bits: usize = tys.iter().map(|t| t.bw()).sum();
            if bits <= 16 {
                for b in 0..=255u8 {
                    dec_one(ctx, &pb, &[b], "zoo-short-witness", done % 4 == 0);
                }
                for _ in 0..64 {
                    let w = ctx.rng.bytes(2);
                    dec_one(ctx, &pb, &w, "zoo-short-witness", true);
                }
                for b in [0u8, 1, 0x80, 0xff] {
                    dec_one(ctx, &pb, &[b, 0], "zoo-short-witness", true);
                    dec_one(ctx, &pb, &[0, b], "zoo-short-witness", true);
                }
            }
        }
    }
    // 1b. twins: `comp fail (comp (pair L L) unit)` with the leaf L written out twice, for every kind of leaf
    //     (each Elements jet, iden, unit, words): the sharing rule must hold for each of them
    {
        let mut leaves: Vec<(String, W)> = vec![("iden".into(), W::Iden), ("unit".into(), W::Unit)];
        for k in [1u64, 2, 4, 7] {
            leaves.push((format!("word{k}"), W::Word(k, (0..(1usize << (k - 1))).map(|_| ctx.rng.bool()).collect())));
        }
        let all = &simplicity::jet::Elements::ALL[..];
        let take = ctx.scale(60, all.len() as u64) as usize;
        let start = ctx.rng.below(all.len() as u64) as usize;
        for k in 0..take.min(all.len()) {
            let j = all[(start + k * 7) % all.len()];
            let mut bits = vec![];
            let nb = {
                let sink: &mut dyn std::io::Write = &mut bits;
                let mut w = simplicity::BitWriter::new(sink);
                simplicity::jet::Jet::encode(&j, &mut w).unwrap();
                let nb = w.n_total_written();
                w.flush_all().unwrap();
                nb
            };
            let jb: Vec<bool> = (0..nb).map(|i| bits[i / 8] >> (7 - i % 8) & 1 == 1).collect();
            leaves.push((format!("jet:{j}"), W::Jet(jb))); // W::Jet holds the bits after the `11` prefix
        }
        for (name, l) in leaves {
            // a fail node in front supplies the leaf's source type, so that the root is 1 → 1
            let f = W::Fail((0..512).map(|i| i % 3 == 0).collect());
            let canon = vec![f.clone(), l.clone(), W::Pair(1, 1), W::Unit, W::Comp(2, 3), W::Comp(0, 4)];
            let twin = vec![f.clone(), l.clone(), l.clone(), W::Pair(1, 2), W::Unit, W::Comp(3, 4), W::Comp(0, 5)];
            if dec_one(ctx, &wire::assemble(&canon), &[], "twin-canonical", true) == Some(true) {
                ctx.count("reach:twin-canonical-accepted");
            } else {
                ctx.note(&format!("twin family: canonical form of {name} was not accepted"));
            }
            dec_one(ctx, &wire::assemble(&twin), &[], "unshared-duplicate", true);
            cdec_one(ctx, &wire::assemble(&twin), "unshared-duplicate");
        }
    }
    // 2. random bytes
    for _ in 0..ctx.scale(1500, 40_000) {
        let lp = 1 + ctx.rng.below(24) as usize;
        let lw = ctx.rng.below(6) as usize;
        let p = ctx.rng.bytes(lp);
        let w = ctx.rng.bytes(lw);
        dec_one(ctx, &p, &w, "random", true);
        if ctx.rng.below(4) == 0 {
            cdec_one(ctx, &p, "random");
        }
    }
    // 3. large lengths and word sizes: no allocation proportional to the *claimed* size
    for claimed in [1u64 << 20, 1 << 31, (1 << 32) - 1] {
        let mut bits = vec![];
        wire::nat_bits(claimed, &mut bits);
        bits.extend([false, true, false, false, true]); // one unit node, then nothing
        dec_one(ctx, &wire::bytes_of(&bits), &[], "huge-length", true);
    }
    for h in [20u64, 31, 32] {
        let v = vec![W::Word(h, vec![true; 16]), W::Unit];
        dec_one(ctx, &wire::assemble(&v), &[], "huge-word", true);
    }
    // 4. deep nesting, in a child process (a native stack overflow aborts the process)
    for k in [200usize, 50_000] {
        let case = format!("deep {k}");
        match child(&case, &ctx.out_dir.clone()) {
            Some((true, _)) => ctx.count("reach:deep-nesting-ok"),
            Some((false, last)) => ctx.fail("stack-overflow-deep-nesting", &case, &format!("child process decoding the {}-byte encoding of pair (take^{k} unit) (take^{k} iden) aborted: {last}", deep_bytes(k).len())),
            None => ctx.note("could not spawn a child process for the deep-nesting case"),
        }
        ctx.case(Some(&case));
    }
}

pub fn replay(ctx: &mut Ctx, case: &str) {
    let toks: Vec<&str> = case.split_whitespace().collect();
    match toks.as_slice() {
        ["dec", p, w, ..] => {
            if let (Some(p), Some(w)) = (gen::parse_hex(p), gen::parse_hex(w)) {
                dec_one(ctx, &p, &w, "replay", true);
            }
        }
        ["cdec", p] => {
            if let Some(p) = gen::parse_hex(p) {
                cdec_one(ctx, &p, "replay");
            }
        }
        ["cdecv", p] => {
            // debugging aid: the commit-time DAG decoded from an encoding and its re-encoding
            if let Some(p) = gen::parse_hex(p) {
                match codec::decode_commit(&p) {
                    Ok(Ok(c)) => {
                        for d in simplicity::dag::DagLike::post_order_iter::<simplicity::dag::InternalSharing>(c.as_ref()) {
                            eprintln!("{}: {} [{:?} {:?}] : {}", d.index, progs::inner_kind(d.node.inner()), d.left_index, d.right_index, d.node.arrow());
                        }
                        eprintln!("re-encoded {}", gen::hex(&c.to_vec_without_witness()));
                    }
                    e => eprintln!("{:?}", e.map(|r| r.map(|_| ()).map_err(|e| e.to_string()))),
                }
            }
        }
        ["wire", p] => {
            // debugging aid: the node list of an encoding, on stderr
            if let Some(ns) = gen::parse_hex(p).and_then(|p| wire::parse(&p)) {
                for (i, n) in ns.iter().enumerate() {
                    eprintln!("{i}: {n:?}");
                }
            }
        }
        ["deep", k] => {
            // runs inside the child process: abort = finding
            let k: usize = k.parse().unwrap_or(10);
            let b = deep_bytes(k);
            let _ = codec::decode_redeem(&b, &[]);
            let _ = codec::decode_commit(&b);
        }
        _ => {}
    }
}
