//! Shared run context of the correspondence harness.
//!
//! A property module receives a `Ctx` and reports three kinds of things:
//!
//! * `op(line, out)`     — one line-protocol operation together with the output the *implementation*
//!                         produced for it; `check` pipes the same line to the Lean driver and diffs;
//! * `fail(class, case, detail)` — the property's own oracle, evaluated on the implementation's
//!                         output, does not hold for `case` (a violation of the property by the
//!                         implementation, independent of the model);
//! * counters, samples and the distinct-case set that go into the evidence file.

use std::collections::{BTreeMap, HashSet};
use std::fmt::Write as _;
use std::fs::File;
use std::io::{BufWriter, Write};
use std::path::PathBuf;

/// SplitMix64; every random choice of a run derives from one state.
#[derive(Clone)]
pub struct Rng(pub u64);

impl Rng {
    pub fn next(&mut self) -> u64 {
        self.0 = self.0.wrapping_add(0x9E3779B97F4A7C15);
        let mut z = self.0;
        z = (z ^ (z >> 30)).wrapping_mul(0xBF58476D1CE4E5B9);
        z = (z ^ (z >> 27)).wrapping_mul(0x94D049BB133111EB);
        z ^ (z >> 31)
    }
    pub fn below(&mut self, n: u64) -> u64 {
        if n == 0 {
            0
        } else {
            self.next() % n
        }
    }
    pub fn range(&mut self, lo: u64, hi: u64) -> u64 {
        lo + self.below(hi - lo + 1)
    }
    pub fn bool(&mut self) -> bool {
        self.next() & 1 == 1
    }
    pub fn chance(&mut self, num: u64, den: u64) -> bool {
        self.below(den) < num
    }
    pub fn pick<'a, T>(&mut self, xs: &'a [T]) -> &'a T {
        &xs[self.below(xs.len() as u64) as usize]
    }
    pub fn bytes(&mut self, n: usize) -> Vec<u8> {
        (0..n).map(|_| self.next() as u8).collect()
    }
    pub fn fork(&mut self) -> Rng {
        Rng(self.next())
    }
}

#[derive(Clone, Copy, PartialEq, Eq, Debug)]
pub enum Tier {
    Quick,
    Thorough,
}

pub struct Ctx {
    pub prop: String,
    pub seed: u64,
    pub tier: Tier,
    pub rng: Rng,
    pub out_dir: PathBuf,
    ops: BufWriter<File>,
    impl_out: BufWriter<File>,
    fails: BufWriter<File>,
    pub n_ops: u64,
    pub n_fail: u64,
    pub evaluations: u64,
    counters: BTreeMap<String, u64>,
    samples: Vec<String>,
    distinct: HashSet<u64>,
    notes: Vec<String>,
}

pub fn json_str(s: &str) -> String {
    let mut o = String::with_capacity(s.len() + 2);
    o.push('"');
    for c in s.chars() {
        match c {
            '"' => o.push_str("\\\""),
            '\\' => o.push_str("\\\\"),
            '\n' => o.push_str("\\n"),
            '\r' => o.push_str("\\r"),
            '\t' => o.push_str("\\t"),
            c if (c as u32) < 0x20 => {
                let _ = write!(o, "\\u{:04x}", c as u32);
            }
            c => o.push(c),
        }
    }
    o.push('"');
    o
}

pub fn fnv(s: &[u8]) -> u64 {
    let mut h: u64 = 0xcbf29ce484222325;
    for b in s {
        h ^= *b as u64;
        h = h.wrapping_mul(0x100000001b3);
    }
    h
}

impl Ctx {
    pub fn new(prop: &str, seed: u64, tier: Tier, out_dir: PathBuf) -> Ctx {
        std::fs::create_dir_all(&out_dir).expect("create out dir");
        let f = |n: &str| BufWriter::new(File::create(out_dir.join(n)).expect("create file"));
        Ctx {
            prop: prop.to_string(),
            seed,
            tier,
            rng: Rng(seed ^ fnv(prop.as_bytes())),
            ops: f("ops.txt"),
            impl_out: f("impl.out"),
            fails: f("failures.jsonl"),
            out_dir,
            n_ops: 0,
            n_fail: 0,
            evaluations: 0,
            counters: BTreeMap::new(),
            samples: Vec::new(),
            distinct: HashSet::new(),
            notes: Vec::new(),
        }
    }

    pub fn quick(&self) -> bool {
        self.tier == Tier::Quick
    }

    /// `q` cases in the quick tier, `t` in the thorough tier.
    pub fn scale(&self, q: u64, t: u64) -> u64 {
        if self.quick() {
            q
        } else {
            t
        }
    }

    /// One correspondence operation: `line` goes to the Lean driver, `out` is what the
    /// implementation answered.  Neither may contain a newline.
    pub fn op(&mut self, line: &str, out: &str) {
        debug_assert!(!line.contains('\n') && !out.contains('\n'));
        writeln!(self.ops, "{}", line).unwrap();
        writeln!(self.impl_out, "{}", out).unwrap();
        self.n_ops += 1;
    }

    /// The implementation violates the property's own oracle on `case`.
    /// `class` is a short stable classifier (matched against known_findings.json).
    pub fn fail(&mut self, class: &str, case: &str, detail: &str) {
        self.n_fail += 1;
        if self.n_fail <= 200 {
            writeln!(
                self.fails,
                "{{\"property\":{},\"class\":{},\"case\":{},\"detail\":{}}}",
                json_str(&self.prop),
                json_str(class),
                json_str(case),
                json_str(detail)
            )
            .unwrap();
        }
        self.count(&format!("fail:{class}"));
    }

    pub fn count(&mut self, key: &str) {
        *self.counters.entry(key.to_string()).or_insert(0) += 1;
    }
    pub fn count_n(&mut self, key: &str, n: u64) {
        *self.counters.entry(key.to_string()).or_insert(0) += n;
    }
    pub fn get_count(&self, key: &str) -> u64 {
        self.counters.get(key).copied().unwrap_or(0)
    }

    /// One generated case was evaluated; `nontrivial_key`, when given, identifies it for the
    /// count of distinct non-trivial cases.
    pub fn case(&mut self, nontrivial_key: Option<&str>) {
        self.evaluations += 1;
        if let Some(k) = nontrivial_key {
            self.distinct.insert(fnv(k.as_bytes()));
        }
    }

    pub fn sample(&mut self, s: &str) {
        if self.samples.len() < 12 {
            self.samples.push(s.to_string());
        }
    }
    pub fn want_sample(&self) -> bool {
        self.samples.len() < 12
    }

    pub fn note(&mut self, s: &str) {
        self.notes.push(s.to_string());
    }

    pub fn finish(mut self, rule: &str) {
        self.ops.flush().unwrap();
        self.impl_out.flush().unwrap();
        self.fails.flush().unwrap();
        let mut s = String::new();
        s.push_str("{\n");
        let _ = writeln!(s, " \"property\": {},", json_str(&self.prop));
        let _ = writeln!(s, " \"seed\": {},", self.seed);
        let _ = writeln!(s, " \"tier\": {},", json_str(if self.quick() { "quick" } else { "thorough" }));
        let _ = writeln!(s, " \"ops\": {},", self.n_ops);
        let _ = writeln!(s, " \"oracle_failures\": {},", self.n_fail);
        let _ = writeln!(s, " \"evaluations\": {},", self.evaluations);
        let _ = writeln!(s, " \"distinct_nontrivial\": {},", self.distinct.len());
        let _ = writeln!(s, " \"rule\": {},", json_str(rule));
        s.push_str(" \"counters\": {");
        let mut first = true;
        for (k, v) in &self.counters {
            if !first {
                s.push(',');
            }
            first = false;
            let _ = write!(s, "\n  {}: {}", json_str(k), v);
        }
        s.push_str("\n },\n \"samples\": [");
        for (i, x) in self.samples.iter().enumerate() {
            if i > 0 {
                s.push(',');
            }
            let _ = write!(s, "\n  {}", json_str(x));
        }
        s.push_str("\n ],\n \"notes\": [");
        for (i, x) in self.notes.iter().enumerate() {
            if i > 0 {
                s.push(',');
            }
            let _ = write!(s, "\n  {}", json_str(x));
        }
        s.push_str("\n ]\n}\n");
        std::fs::write(self.out_dir.join("stats.json"), s).unwrap();
    }
}

/// > 0 while inside `catch` (expected panics are not printed)
pub static QUIET: std::sync::atomic::AtomicUsize = std::sync::atomic::AtomicUsize::new(0);

/// Run `f` catching panics; the panic message is returned as `Err`.
pub fn catch<T>(f: impl FnOnce() -> T) -> Result<T, String> {
    QUIET.fetch_add(1, std::sync::atomic::Ordering::SeqCst);
    let r = std::panic::catch_unwind(std::panic::AssertUnwindSafe(f));
    QUIET.fetch_sub(1, std::sync::atomic::Ordering::SeqCst);
    match r {
        Ok(v) => Ok(v),
        Err(e) => {
            let msg = if let Some(s) = e.downcast_ref::<&str>() {
                s.to_string()
            } else if let Some(s) = e.downcast_ref::<String>() {
                s.clone()
            } else {
                "panic".to_string()
            };
            Err(msg)
        }
    }
}
