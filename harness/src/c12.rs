//! C12 — redemption programs only ever carry well-typed witnesses.
//!
//! ops (one per route; `V` = candidate values with their *own* types, absent = no candidate):
//!   `route U P <plan> [T:…] V:i:<type>:<compact bits>…`            witnesses at construction + `finalize_unpruned`
//!   `route F P <plan> [T:…] N:i:<name>… M:<name>:<type>:<bits>…`   text → `Forest::parse` → `to_witness_node(&map)` + `finalize_unpruned`
//!   `route P P <plan> [T:…] V:… X:i:L|R… J:… [E:fail]`             the same construction + `finalize_pruned(env)`; `J`: the jet calls of the run (the model runs the program itself); `X`: case nodes of
//!                                                                  which the run used one branch only (from a `SetTracker`), `E:fail`: the run failed
//!   `route D <plan in wire order> [T:…] B:<witness stream bits>`    `RedeemNode::decode(program bytes, stream)`
//!   → `ok W:i:<target type>:<compact bits>…` (every witness node of the returned program, by plan index) | `err` | `err-exec`
//! oracle (implementation alone), for every route: ok / error / panic; for ok: every witness value
//! `is_of_type` the `arrow().target` of its node (`witness-ill-typed`); the target types the program
//! annotates its witness nodes with are the program's principal types — what a decoder infers —
//! (`pruned-witness-type-not-principal` for `finalize_pruned`, found by this property: before the
//! repair "pruning re-infers the types of the pruned program in its own context" a witness node
//! shared between a pruned and an executed branch kept the type the pruned branch forced; fixed
//! case in `regression_cases`); `to_vec_with_witness` + `RedeemNode::decode` of the program's own
//! serialisation succeeds (`own-serialisation-rejected`), returns the same values
//! (`serialisation-changes-values`) and re-encodes to the same bytes; `BitMachine::exec` does not
//! panic (`panic-exec`; debug assertions are on); no route panics (`panic-finalize`,
//! `panic-finalize-pruned`, `panic-decode`, `panic-forest`).  Across routes (`route-disagree`):
//! the text route gives what the construction route gives; `finalize_pruned` gives what pruning
//! the result of `finalize_unpruned` gives, reports an error when `finalize_unpruned` does, and
//! keeps the commitment root on both routes.  Against the documented conversion (`Value::prune`,
//! reference implementation on abstract values below): a candidate of a type above the node's
//! type in the prune order is never rejected (`well-typed-rejected`), the value carried is the
//! converted candidate, also after pruning (`conversion-differs`); pruned types are below the
//! unpruned ones (`pruned-type-not-smaller`); the decoder accepts only the canonical stream
//! (`noncanonical-accepted`).
//!
//! Not a failure, counted: a witness node that the plan shares between two parents is two witness
//! nodes in the text form (commit-time sharing never merges sub-expressions with witnesses) — the
//! map then has the value under both names; the text form merges nodes that had equal identity
//! roots at commitment time, so after pruning the text route's program may be typed differently
//! from the construction route's (both principal for their own DAG).

use crate::codec::{self, Dec};
use crate::ctx::{catch, Ctx, Rng};
use crate::gen::{self, GenCfg, PNode, Plan, PlanGen, T, V};
use crate::progs;
use simplicity::bit_machine::{PruneTracker, SetTracker};
use simplicity::dag::{DagLike, InternalSharing};
use simplicity::human_encoding::{Forest, NamedCommitNode};
use simplicity::jet::Elements;
use simplicity::node::Inner;
use simplicity::types;
use simplicity::{BitMachine, RedeemNode, Value};
use std::collections::{BTreeMap, HashMap, HashSet};
use std::sync::Arc;

pub const RULE: &str = "1→1 plans with witness nodes: (a) `comp (comp wit pin_T) unit` for generated types T (unit, words, sums of unequal width, products), alone or inside the right branch of a case whose selector is the constant L(ε) or a witness (unexecuted / witness-selected branches); (b) type-directed plans (all node kinds, pinned witnesses, witness-selected cases and assertions, jets fed by witnesses, disconnect). One witness node is the focus and gets a candidate of one kind: right type; absent; unit; a type above the node's in the prune order; a narrowed type; a wider type; another shape of equal width; right value with another type on the unused side of a sum; unrelated type. The other witness nodes get right-typed values (or none). Each case goes through finalize_unpruned, the text route, finalize_pruned, and its serialisation through RedeemNode::decode with the canonical and damaged witness streams; non-trivial = focus type is not unit; distinct by (plan, candidates)";

// ------------------------------------------------------------------ reference conversion

/// `Value::prune` on abstract values (value-directed)
fn prune_ref(v: &V, t: &T) -> Option<V> {
    Some(match (v, t) {
        (_, T::One) => V::U,
        (V::L(x), T::Sum(a, _)) => V::L(Box::new(prune_ref(x, a)?)),
        (V::R(x), T::Sum(_, b)) => V::R(Box::new(prune_ref(x, b)?)),
        (V::P(x, y), T::Prod(a, b)) => V::P(Box::new(prune_ref(x, a)?), Box::new(prune_ref(y, b)?)),
        _ => return None,
    })
}

fn zero_ref(t: &T) -> V {
    match t {
        T::One => V::U,
        T::Sum(a, _) => V::L(Box::new(zero_ref(a))),
        T::Prod(a, b) => V::P(Box::new(zero_ref(a)), Box::new(zero_ref(b))),
    }
}

fn compact_text(v: &V) -> String {
    let mut b = vec![];
    gen::compact(v, &mut b);
    gen::bits_text(&b)
}

fn v_of(val: &Value) -> V {
    let t = T::from_fin(val.ty());
    gen::dec_compact(&t, &mut val.iter_compact()).expect("value decodes at its own type")
}

// ------------------------------------------------------------------ candidates

#[derive(Clone, Debug)]
pub struct Cand {
    pub kind: &'static str,
    pub ty: T,
    pub val: V,
}

impl Cand {
    fn lib(&self) -> Value {
        gen::lib_value(&self.ty, &self.val)
    }
    fn token(&self, i: usize) -> String {
        format!("V:{}:{}:{}", i, self.ty.text(), compact_text(&self.val))
    }
}

/// a type strictly above `t`: some unit leaves replaced
fn widen(r: &mut Rng, t: &T, force: &mut bool) -> T {
    match t {
        T::One => {
            if *force || r.below(3) == 0 {
                *force = false;
                loop {
                    let x = gen::gen_t(r, 2);
                    if x != T::One {
                        return x;
                    }
                }
            } else {
                T::One
            }
        }
        T::Sum(a, b) => {
            // decide which side must take the forced replacement before descending
            let left_first = r.bool();
            if left_first {
                let x = widen(r, a, force);
                let y = widen(r, b, force);
                T::sum(x, y)
            } else {
                let y = widen(r, b, force);
                let x = widen(r, a, force);
                T::sum(x, y)
            }
        }
        T::Prod(a, b) => {
            let left_first = r.bool();
            if left_first {
                let x = widen(r, a, force);
                let y = widen(r, b, force);
                T::prod(x, y)
            } else {
                let y = widen(r, b, force);
                let x = widen(r, a, force);
                T::prod(x, y)
            }
        }
    }
}

/// a type strictly below `t` (t ≠ 1): one non-unit subtree replaced by unit
fn narrow(r: &mut Rng, t: &T) -> T {
    match t {
        T::One => T::One,
        T::Sum(a, b) | T::Prod(a, b) => {
            let mk = |x: T, y: T| if matches!(t, T::Sum(..)) { T::sum(x, y) } else { T::prod(x, y) };
            let ca = **a != T::One;
            let cb = **b != T::One;
            match r.below(3) {
                0 => T::One,
                1 if ca => mk(narrow(r, a), (**b).clone()),
                2 if cb => mk((**a).clone(), narrow(r, b)),
                _ if ca => mk(narrow(r, a), (**b).clone()),
                _ if cb => mk((**a).clone(), narrow(r, b)),
                _ => T::One,
            }
        }
    }
}

/// the type of `v : t` with the unused sides of the sums on `v`'s path replaced by other types
fn retype_unused(r: &mut Rng, t: &T, v: &V, changed: &mut bool) -> T {
    match (t, v) {
        (T::Sum(a, b), V::L(x)) => {
            let mut nb = gen::gen_t(r, 2);
            if nb == **b {
                nb = T::prod((**b).clone(), T::word(0));
            }
            *changed = true;
            T::sum(retype_unused(r, a, x, changed), nb)
        }
        (T::Sum(a, b), V::R(x)) => {
            let mut na = gen::gen_t(r, 2);
            if na == **a {
                na = T::sum((**a).clone(), T::One);
            }
            *changed = true;
            T::sum(na, retype_unused(r, b, x, changed))
        }
        (T::Prod(a, b), V::P(x, y)) => T::prod(retype_unused(r, a, x, changed), retype_unused(r, b, y, changed)),
        _ => t.clone(),
    }
}

pub const KINDS: [&str; 9] = ["right", "absent", "unit", "above", "narrow", "wide", "same-width", "unused-side", "unrelated"];

/// candidate of the given kind for a node of target type `t`; `None` = kind not applicable
/// (`Some(None)` = no candidate at all)
fn candidate(r: &mut Rng, kind: &'static str, t: &T) -> Option<Option<Cand>> {
    let mk = |kind, ty: T, r: &mut Rng| {
        let val = gen::gen_v(r, &ty);
        Some(Some(Cand { kind, ty, val }))
    };
    match kind {
        "right" => mk(kind, t.clone(), r),
        "absent" => Some(None),
        "unit" => Some(Some(Cand { kind, ty: T::One, val: V::U })),
        "above" => {
            let mut force = true;
            let ty = widen(r, t, &mut force);
            mk(kind, ty, r)
        }
        "narrow" => {
            if *t == T::One {
                return None;
            }
            let ty = narrow(r, t);
            mk(kind, ty, r)
        }
        "wide" => {
            let bw = t.bw();
            let ty = match r.below(4) {
                0 => {
                    let mut n = 0;
                    while (1usize << n) <= bw {
                        n += 1;
                    }
                    T::word(n)
                }
                1 => T::prod(t.clone(), T::word(r.below(3) as u32)),
                2 => T::sum(t.clone(), t.clone()),
                _ => T::prod(T::word(0), t.clone()),
            };
            mk(kind, ty, r)
        }
        "same-width" => {
            let bw = t.bw();
            for _ in 0..60 {
                let x = gen::gen_t(r, 3);
                if x.bw() == bw && x != *t {
                    return mk(kind, x, r);
                }
            }
            // n bits as a right-nested product, or unit paired with the type
            let ty = T::prod(T::One, t.clone());
            mk(kind, ty, r)
        }
        "unused-side" => {
            let val = gen::gen_v(r, t);
            let mut changed = false;
            let ty = retype_unused(r, t, &val, &mut changed);
            if !changed || ty == *t {
                return None;
            }
            Some(Some(Cand { kind, ty, val }))
        }
        "unrelated" => {
            let ty = gen::gen_t(r, 3);
            mk(kind, ty, r)
        }
        _ => None,
    }
}

fn type_class(t: &T) -> &'static str {
    if *t == T::One {
        return "unit";
    }
    let s = t.text();
    if s.starts_with('w') && s.ends_with('.') && !s[1..s.len() - 1].contains(|c: char| !c.is_ascii_digit()) {
        return "word";
    }
    match t {
        T::Sum(a, b) if a.bw() != b.bw() => "sum-unequal-width",
        T::Sum(..) => "sum-equal-width",
        T::Prod(..) => "product",
        T::One => "unit",
    }
}

// ------------------------------------------------------------------ alignment of results with the plan

/// redeem nodes by plan index; a `case` of the plan may have become `assertl`/`assertr` (pruning)
fn align(plan: &Plan, root: &Arc<RedeemNode>) -> Result<Vec<Option<Arc<RedeemNode>>>, String> {
    let mut out: Vec<Option<Arc<RedeemNode>>> = vec![None; plan.nodes.len()];
    let mut stack = vec![(plan.root(), root.clone())];
    while let Some((i, n)) = stack.pop() {
        if out[i].is_some() {
            continue;
        }
        match (&plan.nodes[i], n.inner()) {
            (PNode::Iden, Inner::Iden) | (PNode::Unit, Inner::Unit) | (PNode::Witness, Inner::Witness(_)) | (PNode::Fail(_), Inner::Fail(_)) | (PNode::Word(..), Inner::Word(_)) | (PNode::Jet(_), Inner::Jet(_)) => {}
            (PNode::InjL(c), Inner::InjL(x)) | (PNode::InjR(c), Inner::InjR(x)) | (PNode::Take(c), Inner::Take(x)) | (PNode::Drop(c), Inner::Drop(x)) => stack.push((*c, x.clone())),
            (PNode::AssertL(c, _), Inner::AssertL(x, _)) | (PNode::AssertR(_, c), Inner::AssertR(_, x)) => stack.push((*c, x.clone())),
            (PNode::Case(a, _), Inner::AssertL(x, _)) => stack.push((*a, x.clone())),
            (PNode::Case(_, b), Inner::AssertR(_, y)) => stack.push((*b, y.clone())),
            (PNode::Comp(a, b), Inner::Comp(x, y)) | (PNode::Case(a, b), Inner::Case(x, y)) | (PNode::Pair(a, b), Inner::Pair(x, y)) => {
                stack.push((*a, x.clone()));
                stack.push((*b, y.clone()));
            }
            (PNode::Disconnect(a, b), Inner::Disconnect(x, y)) => {
                stack.push((*a, x.clone()));
                if let Some(b) = b {
                    stack.push((*b, y.clone()));
                }
            }
            (p, q) => return Err(format!("plan node {i} is {} but the program has {}", p.kind(), progs::inner_kind(q))),
        }
        out[i] = Some(n);
    }
    Ok(out)
}

/// names of the witness nodes by plan index.  A witness node that the plan shares between two
/// parents is *two* witness nodes in the text: at commitment time sub-expressions that contain a
/// witness have no identity root and `NamedCommitNode::from_node` (`MaxSharing`) never shares them.
fn align_named(plan: &Plan, root: &Arc<NamedCommitNode>) -> Result<Vec<Vec<Arc<str>>>, String> {
    let mut out: Vec<Vec<Arc<str>>> = vec![vec![]; plan.nodes.len()];
    let mut seen: HashSet<(usize, usize)> = HashSet::new();
    let mut stack = vec![(plan.root(), root.clone())];
    while let Some((i, n)) = stack.pop() {
        if !seen.insert((i, Arc::as_ptr(&n) as usize)) {
            continue;
        }
        match (&plan.nodes[i], n.inner()) {
            (PNode::Witness, Inner::Witness(_)) => {
                if !out[i].contains(n.name()) {
                    out[i].push(n.name().clone())
                }
            }
            (PNode::Iden, Inner::Iden) | (PNode::Unit, Inner::Unit) | (PNode::Fail(_), Inner::Fail(_)) | (PNode::Word(..), Inner::Word(_)) | (PNode::Jet(_), Inner::Jet(_)) => {}
            (PNode::InjL(c), Inner::InjL(x)) | (PNode::InjR(c), Inner::InjR(x)) | (PNode::Take(c), Inner::Take(x)) | (PNode::Drop(c), Inner::Drop(x)) => stack.push((*c, x.clone())),
            (PNode::AssertL(c, _), Inner::AssertL(x, _)) | (PNode::AssertR(_, c), Inner::AssertR(_, x)) => stack.push((*c, x.clone())),
            (PNode::Comp(a, b), Inner::Comp(x, y)) | (PNode::Case(a, b), Inner::Case(x, y)) | (PNode::Pair(a, b), Inner::Pair(x, y)) => {
                stack.push((*a, x.clone()));
                stack.push((*b, y.clone()));
            }
            (p, q) => return Err(format!("plan node {i} is {} but the forest has {}", p.kind(), progs::inner_kind(q))),
        }
        if seen.len() > 20_000 {
            return Err("unshared text form too large".into());
        }
    }
    Ok(out)
}

/// the decoded program as a plan in wire (= post) order
fn plan_of_redeem(red: &RedeemNode) -> Option<Plan> {
    let mut nodes = vec![];
    for d in red.post_order_iter::<InternalSharing>() {
        let l = d.left_index;
        let r = d.right_index;
        let node = match d.node.inner() {
            Inner::Iden => PNode::Iden,
            Inner::Unit => PNode::Unit,
            Inner::InjL(_) => PNode::InjL(l?),
            Inner::InjR(_) => PNode::InjR(l?),
            Inner::Take(_) => PNode::Take(l?),
            Inner::Drop(_) => PNode::Drop(l?),
            Inner::Comp(..) => PNode::Comp(l?, r?),
            Inner::Case(..) => PNode::Case(l?, r?),
            Inner::Pair(..) => PNode::Pair(l?, r?),
            Inner::AssertL(_, h) => PNode::AssertL(l?, h.as_ref().try_into().ok()?),
            Inner::AssertR(h, _) => PNode::AssertR(h.as_ref().try_into().ok()?, l?),
            Inner::Disconnect(..) => PNode::Disconnect(l?, r),
            Inner::Witness(_) => PNode::Witness,
            Inner::Fail(e) => PNode::Fail(e.as_ref().try_into().ok()?),
            Inner::Word(w) => PNode::Word(w.n() as u32, w.as_value().iter_compact().collect()),
            Inner::Jet(j) => PNode::Jet(*j.as_any().downcast_ref::<Elements>()?),
        };
        nodes.push(node);
    }
    Some(Plan { nodes })
}

fn w_token(i: usize, n: &RedeemNode) -> Option<String> {
    match n.inner() {
        Inner::Witness(v) => Some(format!("W:{}:{}:{}", i, gen::final_text(&n.arrow().target), gen::value_compact_text(v))),
        _ => None,
    }
}

fn answer_aligned(al: &[Option<Arc<RedeemNode>>]) -> String {
    let mut s = String::from("ok");
    for (i, n) in al.iter().enumerate() {
        if let Some(n) = n {
            if let Some(t) = w_token(i, n) {
                s.push(' ');
                s.push_str(&t);
            }
        }
    }
    s
}

/// witness values (and the target types of their nodes) of two programs of the same shape, node
/// by node; with `all_arrows` the arrows of all nodes are compared too
fn same_programs(a: &Arc<RedeemNode>, b: &Arc<RedeemNode>, all_arrows: bool) -> Result<(), String> {
    let mut seen: HashSet<(usize, usize)> = HashSet::new();
    let mut stack = vec![(a.clone(), b.clone())];
    while let Some((a, b)) = stack.pop() {
        if !seen.insert((Arc::as_ptr(&a) as usize, Arc::as_ptr(&b) as usize)) {
            continue;
        }
        if all_arrows && (a.arrow().source != b.arrow().source || a.arrow().target != b.arrow().target) {
            return Err(format!("arrow {} vs {}", a.arrow(), b.arrow()));
        }
        match (a.inner(), b.inner()) {
            (Inner::Witness(v), Inner::Witness(w)) => {
                if a.arrow().target != b.arrow().target {
                    return Err(format!("witness node of target type {} vs {}", a.arrow().target, b.arrow().target));
                }
                if v.ty() != w.ty() || gen::value_compact_text(v) != gen::value_compact_text(w) {
                    return Err(format!("witness {v} : {} vs {w} : {}", v.ty(), w.ty()));
                }
            }
            (Inner::InjL(x), Inner::InjL(y)) | (Inner::InjR(x), Inner::InjR(y)) | (Inner::Take(x), Inner::Take(y)) | (Inner::Drop(x), Inner::Drop(y)) | (Inner::AssertL(x, _), Inner::AssertL(y, _)) | (Inner::AssertR(_, x), Inner::AssertR(_, y)) => {
                stack.push((x.clone(), y.clone()))
            }
            (Inner::Comp(x1, x2), Inner::Comp(y1, y2)) | (Inner::Case(x1, x2), Inner::Case(y1, y2)) | (Inner::Pair(x1, x2), Inner::Pair(y1, y2)) | (Inner::Disconnect(x1, x2), Inner::Disconnect(y1, y2)) => {
                stack.push((x1.clone(), y1.clone()));
                stack.push((x2.clone(), y2.clone()));
            }
            // an `assertl x #h` and an `assertr #h x` with one identity root are one node to the encoder
            // (C08's known finding); the witness values below them are still compared
            (Inner::AssertL(x, _), Inner::AssertR(_, y)) | (Inner::AssertR(_, x), Inner::AssertL(y, _)) if a.ihr() == b.ihr() => {
                stack.push((x.clone(), y.clone()))
            }
            (x, y) => {
                if progs::inner_kind(x) != progs::inner_kind(y) {
                    return Err(format!("node kind {} vs {}", progs::inner_kind(x), progs::inner_kind(y)));
                }
            }
        }
    }
    Ok(())
}

fn same_witnesses(a: &Arc<RedeemNode>, b: &Arc<RedeemNode>) -> Result<(), String> {
    same_programs(a, b, false)
}

/// target types of the witness nodes: annotated (in `a`) vs principal (in `b`, same shape)
fn witness_types_differ(a: &Arc<RedeemNode>, b: &Arc<RedeemNode>) -> Option<String> {
    let mut seen: HashSet<(usize, usize)> = HashSet::new();
    let mut stack = vec![(a.clone(), b.clone())];
    while let Some((a, b)) = stack.pop() {
        if !seen.insert((Arc::as_ptr(&a) as usize, Arc::as_ptr(&b) as usize)) {
            continue;
        }
        match (a.inner(), b.inner()) {
            (Inner::Witness(v), Inner::Witness(_)) => {
                if a.arrow().target != b.arrow().target {
                    return Some(format!("a witness node has target type {} and carries {v}, the principal target type of that node is {}", a.arrow().target, b.arrow().target));
                }
            }
            (Inner::InjL(x), Inner::InjL(y)) | (Inner::InjR(x), Inner::InjR(y)) | (Inner::Take(x), Inner::Take(y)) | (Inner::Drop(x), Inner::Drop(y)) | (Inner::AssertL(x, _), Inner::AssertL(y, _)) | (Inner::AssertR(_, x), Inner::AssertR(_, y)) => {
                stack.push((x.clone(), y.clone()))
            }
            (Inner::Comp(x1, x2), Inner::Comp(y1, y2)) | (Inner::Case(x1, x2), Inner::Case(y1, y2)) | (Inner::Pair(x1, x2), Inner::Pair(y1, y2)) | (Inner::Disconnect(x1, x2), Inner::Disconnect(y1, y2)) => {
                stack.push((x1.clone(), y1.clone()));
                stack.push((x2.clone(), y2.clone()));
            }
            _ => {}
        }
    }
    None
}

// ------------------------------------------------------------------ the oracle on one returned program

/// invariant, own serialisation, execution.  Returns the decoded copy and the serialisation.
fn check_redeem(ctx: &mut Ctx, route: &str, line: &str, red: &Arc<RedeemNode>, env: &progs::Env) -> Option<(Arc<RedeemNode>, Vec<u8>, Vec<u8>)> {
    for d in red.as_ref().post_order_iter::<InternalSharing>() {
        if let Inner::Witness(v) = d.node.inner() {
            if !v.is_of_type(&d.node.arrow().target) {
                ctx.fail("witness-ill-typed", line, &format!("route {route}: witness value {v} of type {} at a node of target type {}", v.ty(), d.node.arrow().target));
                break;
            }
        }
    }
    // execution never panics (wrong-width writes trip the debug assertions of the frame code)
    match catch(|| {
        let mut m = BitMachine::for_program(red).map_err(|e| format!("{e}"))?;
        Ok::<bool, String>(m.exec(red, env).is_ok())
    }) {
        Err(p) => ctx.fail("panic-exec", line, &format!("route {route}: {p}")),
        Ok(Err(_)) => ctx.count("exec:limit"),
        Ok(Ok(true)) => ctx.count(&format!("exec:{route}:success")),
        Ok(Ok(false)) => ctx.count(&format!("exec:{route}:failure")),
    }
    // the types the program is annotated with are its principal types (what a decoder infers)
    let mut not_principal: Option<String> = None;
    match catch(|| {
        types::Context::with_context(|ictx| {
            let c = red.to_construct_node(&ictx);
            let unit = types::Type::unit(&ictx);
            ictx.unify(&c.arrow().source, &unit, "root source").map_err(|e| format!("{e}"))?;
            ictx.unify(&c.arrow().target, &unit, "root target").map_err(|e| format!("{e}"))?;
            c.finalize_unpruned().map_err(|e| format!("{e}"))
        })
    }) {
        Err(p) => ctx.fail("panic-finalize", line, &format!("route {route}: to_construct_node + finalize_unpruned of the returned program: {p}")),
        Ok(Err(e)) => ctx.fail("reinference-fails", line, &format!("route {route}: to_construct_node + finalize_unpruned of the returned program: {e}")),
        Ok(Ok(r3)) => {
            not_principal = witness_types_differ(red, &r3);
            if not_principal.is_none() && same_programs(red, &r3, true).is_err() {
                // arrows of nodes that are not witness nodes: not this property's subject
                ctx.count(&format!("observed:{route}:non-witness-arrow-not-principal"));
            }
        }
    }
    let ser = catch(|| red.to_vec_with_witness());
    let (pb, wb) = match ser {
        Ok(x) => x,
        Err(p) => {
            ctx.fail("panic-serialise", line, &format!("route {route}: {p}"));
            return None;
        }
    };
    let dec = codec::decode_redeem(&pb, &wb);
    if let Some(why) = not_principal {
        // one cause, one class: the consequence for the serialisation is part of the detail
        let consequence = match &dec {
            Dec::Ok(r2) => match same_witnesses(red, r2) {
                Ok(()) => "its own serialisation decodes to the same values".to_string(),
                Err(e) => format!("its own serialisation decodes to other values: {e}"),
            },
            Dec::Err(e) => format!("its own serialisation is rejected by RedeemNode::decode: {e}"),
            Dec::Panic(p) => format!("RedeemNode::decode of its own serialisation panics: {p}"),
        };
        let class = if route == "P" || route == "FP" { "pruned-witness-type-not-principal" } else { "witness-type-not-principal" };
        ctx.fail(class, line, &format!("route {route}: {why}; {consequence}; prog {} wit {}", gen::hex(&pb), gen::hex(&wb)));
        return None;
    }
    match dec {
        Dec::Ok(r2) => {
            if let Err(e) = same_witnesses(red, &r2) {
                ctx.fail("serialisation-changes-values", line, &format!("route {route}: {e}; prog {} wit {}", gen::hex(&pb), gen::hex(&wb)));
            }
            let (pb2, wb2) = r2.to_vec_with_witness();
            if pb2 != pb || wb2 != wb {
                ctx.fail("reencoding-differs", line, &format!("route {route}: prog {} wit {} re-encode to prog {} wit {}", gen::hex(&pb), gen::hex(&wb), gen::hex(&pb2), gen::hex(&wb2)));
            }
            Some((r2, pb, wb))
        }
        Dec::Err(e) => {
            ctx.fail("own-serialisation-rejected", line, &format!("route {route}: RedeemNode::decode: {e}; prog {} wit {}", gen::hex(&pb), gen::hex(&wb)));
            None
        }
        Dec::Panic(p) => {
            ctx.fail("panic-decode", line, &format!("route {route}: {p}"));
            None
        }
    }
}

// ------------------------------------------------------------------ the routes

fn build_root<'b>(ctx: &types::Context<'b>, plan: &Plan, wits: &HashMap<usize, Value>) -> Result<gen::CN<'b>, String> {
    let built = gen::build(ctx, plan, None, Some(wits)).map_err(|e| format!("type:{e}"))?;
    let root = built[plan.root()].as_ref().unwrap().clone();
    let unit = types::Type::unit(ctx);
    ctx.unify(&root.arrow().source, &unit, "root source").map_err(|e| format!("type:{e}"))?;
    ctx.unify(&root.arrow().target, &unit, "root target").map_err(|e| format!("type:{e}"))?;
    Ok(root)
}

fn finalize_kind(e: &simplicity::FinalizeError) -> String {
    match e {
        simplicity::FinalizeError::Execution(x) => format!("exec:{x}"),
        simplicity::FinalizeError::Type(x) => format!("finalize:{x}"),
        simplicity::FinalizeError::DisconnectRedeemTime => "disconnect:".to_string(),
        _ => "other:".to_string(),
    }
}

/// route 1
fn route_u(plan: &Plan, wits: &HashMap<usize, Value>) -> Result<Arc<RedeemNode>, String> {
    types::Context::with_context(|ctx| {
        let root = build_root(&ctx, plan, wits)?;
        root.finalize_unpruned().map_err(|e| finalize_kind(&e))
    })
}

/// route 2
fn route_p(plan: &Plan, wits: &HashMap<usize, Value>, env: &progs::Env) -> Result<Arc<RedeemNode>, String> {
    types::Context::with_context(|ctx| {
        let root = build_root(&ctx, plan, wits)?;
        root.finalize_pruned(env).map_err(|e| finalize_kind(&e))
    })
}

struct ForestSetup {
    forest: Forest,
    names: Vec<Vec<Arc<str>>>,
}

fn forest_setup(plan: &Plan) -> Result<ForestSetup, String> {
    let commit = gen::commit_of_plan(plan, None, true).map_err(|e| format!("type:{e}"))?;
    let text = Forest::from_program(commit).string_serialize();
    if std::env::var("C12_DEBUG").is_ok() {
        eprintln!("TEXT:\n{text}");
    }
    let forest = Forest::parse::<Elements>(&text).map_err(|e| format!("parse:{e}"))?;
    let main = forest.roots().get("main").ok_or("parse:no main")?.clone();
    let names = align_named(plan, &main).map_err(|e| format!("align:{e}"))?;
    if std::env::var("C12_DEBUG").is_ok() {
        eprintln!("NAMES: {:?}\nREPARSED:\n{}", names, forest.string_serialize());
    }
    Ok(ForestSetup { forest, names })
}

/// route 3
fn route_f(fs: &ForestSetup, map: &HashMap<Arc<str>, Value>, pruned: Option<&progs::Env>) -> Result<Arc<RedeemNode>, String> {
    types::Context::with_context(|ctx| {
        let node = fs.forest.to_witness_node(&ctx, map).ok_or("no main")?;
        match pruned {
            None => node.finalize_unpruned().map_err(|e| finalize_kind(&e)),
            Some(env) => node.finalize_pruned(env).map_err(|e| finalize_kind(&e)),
        }
    })
}

fn bits_of(bytes: &[u8]) -> Vec<bool> {
    bytes.iter().flat_map(|b| (0..8).map(move |i| b & (1 << (7 - i)) != 0)).collect()
}

fn bytes_of(bits: &[bool]) -> Vec<u8> {
    let mut out = vec![0u8; (bits.len() + 7) / 8];
    for (i, b) in bits.iter().enumerate() {
        if *b {
            out[i / 8] |= 1 << (7 - i % 8);
        }
    }
    out
}

/// route 4 on one stream; `case` for failures is `dec <prog> <wit>`
fn route_d(ctx: &mut Ctx, planw: &Plan, tables: &str, prog: &[u8], wit: &[u8], stream_kind: &str, env: &progs::Env) {
    let case = format!("dec {} {}", gen::hex(prog), gen::hex(wit));
    let line = format!("route D {}{} B:{}", planw.text(), tables, gen::bits_text(&bits_of(wit)));
    ctx.case(Some(&case));
    match codec::decode_redeem(prog, wit) {
        Dec::Panic(p) => ctx.fail("panic-decode", &case, &p),
        Dec::Err(e) => {
            if stream_kind == "random" {
                ctx.count("reach:D:random");
                ctx.count("cross:D:random:err");
            } else {
                ctx.count(&format!("reach:D:{stream_kind}:err"));
            }
            if codec::err_kind(&e) == "sharing" {
                // two witness nodes became equal: the sharing rule (C01/C02) is not part of this model
                ctx.count("model-skipped:D:sharing-not-maximal");
            } else {
                ctx.op(&line, "err");
            }
        }
        Dec::Ok(red) => {
            if stream_kind == "random" {
                ctx.count("reach:D:random");
                ctx.count("cross:D:random:ok");
            } else {
                ctx.count(&format!("reach:D:{stream_kind}:ok"));
            }
            let mut ans = String::from("ok");
            for d in red.as_ref().post_order_iter::<InternalSharing>() {
                if let Some(t) = w_token(d.index, d.node) {
                    ans.push(' ');
                    ans.push_str(&t);
                }
            }
            if plan_of_redeem(&red).as_ref() != Some(planw) {
                ctx.fail("decode-changes-program", &case, "the witness stream changed the decoded program");
            }
            ctx.op(&line, &ans);
            if let Some((_, pb, wb)) = check_redeem(ctx, "D", &case, &red, env) {
                if pb != prog || wb != wit {
                    ctx.fail("noncanonical-accepted", &case, &format!("re-encodes to prog {} wit {}", gen::hex(&pb), gen::hex(&wb)));
                }
            }
        }
    }
}

fn damaged_stream(r: &mut Rng, wit: &[u8]) -> (&'static str, Vec<u8>) {
    let bits = bits_of(wit);
    let n = bits.len();
    match r.below(7) {
        0 if n > 0 => {
            let mut b = bits.clone();
            let i = r.below(n as u64) as usize;
            b[i] = !b[i];
            ("bit-flip", bytes_of(&b))
        }
        1 if n > 0 => ("truncated", wit[..wit.len() - 1].to_vec()),
        2 => {
            let mut w = wit.to_vec();
            w.push(0);
            ("zero-byte-appended", w)
        }
        3 => {
            let mut w = wit.to_vec();
            w.push(1 << r.below(8));
            ("nonzero-byte-appended", w)
        }
        4 if n > 0 => {
            // what a too wide value does to the stream: extra bits in the middle
            let mut b = bits.clone();
            let i = r.below(n as u64) as usize;
            for _ in 0..(1 + r.below(8)) {
                b.insert(i, r.bool());
            }
            ("bits-inserted", bytes_of(&b))
        }
        5 if n > 0 => {
            // what a too narrow value does: bits missing
            let mut b = bits.clone();
            let k = (1 + r.below(8) as usize).min(n);
            let i = r.below((n - k + 1) as u64) as usize;
            b.drain(i..i + k);
            ("bits-removed", bytes_of(&b))
        }
        _ => ("random", r.bytes(wit.len().max(1))),
    }
}

// ------------------------------------------------------------------ one case

pub struct Case {
    pub plan: Plan,
    /// candidate per witness node (absent = none given)
    pub cands: BTreeMap<usize, Cand>,
    pub focus: usize,
    pub focus_kind: &'static str,
}

fn cand_tokens(cands: &BTreeMap<usize, Cand>) -> String {
    let mut s = String::new();
    for (i, c) in cands {
        s.push(' ');
        s.push_str(&c.token(*i));
    }
    s
}

/// `J:name:in:out|fail` for every distinct recorded jet call
fn jet_call_tokens(calls: &[(Elements, Vec<bool>, Option<Vec<bool>>)]) -> String {
    let mut s = String::new();
    let mut seen = std::collections::HashSet::new();
    for (j, i, o) in calls {
        let key = format!("J:{}:{}:{}", j, gen::bits_text(i), o.as_ref().map(|o| gen::bits_text(o)).unwrap_or_else(|| "fail".into()));
        if seen.insert(key.clone()) {
            s.push(' ');
            s.push_str(&key);
        }
    }
    s
}

/// true when the case was evaluated
pub fn one(ctx: &mut Ctx, c: &Case) -> bool {
    let plan = &c.plan;
    let env = progs::dummy_env();
    let tables = progs::jet_types(plan);
    let (_, arrows) = match catch(|| gen::arrows_of_plan(plan, None, true)) {
        Ok(Ok(x)) => x,
        Ok(Err(_)) => return false,
        Err(p) => {
            ctx.fail("panic-inference", &format!("route U P {}", plan.text()), &p);
            return true;
        }
    };
    let wit_idx: Vec<usize> = plan.reachable().into_iter().filter(|i| plan.nodes[*i] == PNode::Witness).collect();
    let mut tys: HashMap<usize, T> = HashMap::new();
    for i in &wit_idx {
        let f = &arrows[*i].as_ref().unwrap().1;
        if f.bit_width() > 512 {
            return false;
        }
        tys.insert(*i, T::from_fin(f));
    }
    let wits: HashMap<usize, Value> = c.cands.iter().map(|(i, c)| (*i, c.lib())).collect();
    let vtoks = cand_tokens(&c.cands);
    let line_u = format!("route U P {}{}{}", plan.text(), tables, vtoks);
    let kind = c.focus_kind;
    let focus_ty = tys.get(&c.focus).cloned().unwrap_or(T::One);
    ctx.case(if focus_ty != T::One { Some(&line_u) } else { None });
    ctx.count(&format!("reach:type:{}", type_class(&focus_ty)));

    // what the documented conversion gives
    let mut expect: Option<BTreeMap<usize, V>> = Some(BTreeMap::new());
    let mut all_above = true;
    for i in &wit_idx {
        let t = &tys[i];
        let e = match c.cands.get(i) {
            None => Some(zero_ref(t)),
            Some(cd) => {
                if !t.le(&cd.ty) {
                    all_above = false;
                }
                prune_ref(&cd.val, t)
            }
        };
        match (e, expect.as_mut()) {
            (Some(v), Some(m)) => {
                m.insert(*i, v);
            }
            _ => expect = None,
        }
    }

    // ---- route 1: finalize_unpruned
    let res_u = match catch(|| route_u(plan, &wits)) {
        Err(p) => {
            ctx.fail("panic-finalize", &line_u, &format!("finalize_unpruned: {p}"));
            return true;
        }
        Ok(r) => r,
    };
    let mut al_u = None;
    match &res_u {
        Err(e) => {
            ctx.op(&line_u, "err");
            ctx.count(&format!("reach:U:{kind}:err"));
            if all_above {
                ctx.fail("well-typed-rejected", &line_u, &format!("finalize_unpruned rejects candidates whose types are above the node types: {e}"));
            } else if expect.is_some() {
                ctx.fail("conversion-differs", &line_u, &format!("finalize_unpruned rejects candidates that Value::prune converts: {e}"));
            }
        }
        Ok(red) => {
            ctx.count(&format!("reach:U:{kind}:ok"));
            check_redeem(ctx, "U", &line_u, red, &env);
            match align(plan, red) {
                Err(e) => ctx.fail("program-shape", &line_u, &format!("finalize_unpruned: {e}")),
                Ok(al) => {
                    ctx.op(&line_u, &answer_aligned(&al));
                    match &expect {
                        None => ctx.fail("conversion-differs", &line_u, "finalize_unpruned accepts a candidate that Value::prune cannot convert to the node's type"),
                        Some(m) => {
                            for (i, v) in m {
                                if let Some(Inner::Witness(w)) = al[*i].as_ref().map(|n| n.inner()) {
                                    if w.is_of_type(&tys[i].fin()) && v_of(w) != *v {
                                        ctx.fail("conversion-differs", &line_u, &format!("node {i}: carried value {} ≠ converted candidate {}", gen::value_compact_text(w), compact_text(v)));
                                    }
                                }
                            }
                        }
                    }
                    al_u = Some(al);
                }
            }
            if ctx.want_sample() && focus_ty != T::One {
                ctx.sample(&format!("{line_u} -> {}", al_u.as_ref().map(|a| answer_aligned(a)).unwrap_or_default()));
            }
        }
    }

    // ---- route 2: finalize_pruned
    let res_p = match catch(|| route_p(plan, &wits, &env)) {
        Err(p) => {
            ctx.fail("panic-finalize-pruned", &line_u, &format!("finalize_pruned: {p}"));
            None
        }
        Ok(r) => Some(r),
    };
    // the jet calls of the run of the unpruned program: the model of `finalize_pruned` runs the
    // program itself and needs the environment's answers
    let jtoks = match &res_u {
        Ok(red) => match catch(|| progs::run(red, None, &env)) {
            Ok(Ok(run)) => jet_call_tokens(&run.rec.calls),
            _ => String::new(),
        },
        Err(_) => String::new(),
    };
    if let Some(res_p) = &res_p {
        match (&res_u, res_p) {
            (Err(_), Ok(_)) => ctx.fail("route-disagree", &line_u, "finalize_unpruned reports an error, finalize_pruned returns a program"),
            (Err(_), Err(_)) => {
                ctx.op(&format!("route P P {}{}{}", plan.text(), tables, vtoks), "err");
                ctx.count(&format!("reach:P:{kind}:err"));
            }
            (Ok(_), Err(e)) if e.starts_with("exec:") => {
                ctx.op(&format!("route P P {}{}{}{} E:fail", plan.text(), tables, vtoks, jtoks), "err-exec");
                ctx.count("reach:P:execution-failed");
                ctx.count(&format!("cross:P:{kind}:err-exec"));
            }
            (Ok(_), Err(e)) => ctx.fail("route-disagree", &line_u, &format!("finalize_unpruned returns a program, finalize_pruned reports {e}")),
            (Ok(red), Ok(pruned)) => {
                // which branches did the run use (the same run through a SetTracker)
                let mut tracker = SetTracker::default();
                let by_tracker = catch(|| red.prune_with_tracker(&env, &mut tracker));
                let mut xt = String::new();
                if let Some(al) = &al_u {
                    for (i, n) in al.iter().enumerate() {
                        if let (PNode::Case(..), Some(n)) = (&plan.nodes[i], n) {
                            match (tracker.contains_left(n.ihr()), tracker.contains_right(n.ihr())) {
                                (true, false) => xt.push_str(&format!(" X:{i}:L")),
                                (false, true) => xt.push_str(&format!(" X:{i}:R")),
                                _ => {}
                            }
                        }
                    }
                }
                let line_p = format!("route P P {}{}{}{}{}", plan.text(), tables, vtoks, xt, jtoks);
                match &by_tracker {
                    Ok(Ok(q)) => {
                        if q.ihr() != pruned.ihr() || same_witnesses(q, pruned).is_err() {
                            ctx.fail("route-disagree", &line_u, "finalize_pruned ≠ prune of finalize_unpruned");
                        }
                    }
                    _ => ctx.fail("route-disagree", &line_u, "finalize_pruned succeeds, prune of finalize_unpruned does not"),
                }
                match align(plan, pruned) {
                    Err(e) => ctx.fail("program-shape", &line_u, &format!("finalize_pruned: {e}")),
                    Ok(al) => {
                        ctx.op(&line_p, &answer_aligned(&al));
                        let kept = al[c.focus].is_some();
                        ctx.count(&format!("reach:P:{kind}:ok"));
                        ctx.count(if kept { "reach:P:focus-on-executed-branch" } else { "reach:P:focus-on-pruned-branch" });
                        ctx.count(&format!("cross:P:{kind}:ok:{}", if kept { "focus-executed" } else { "focus-pruned" }));
                        // the value after pruning is the candidate converted to the pruned type
                        for (i, n) in al.iter().enumerate() {
                            if let Some(Inner::Witness(w)) = n.as_ref().map(|n| n.inner()) {
                                let pt = T::from_fin(&n.as_ref().unwrap().arrow().target);
                                if !pt.le(&tys[&i]) {
                                    ctx.fail("pruned-type-not-smaller", &line_u, &format!("node {i}: pruned type {} is not below {}", pt.text(), tys[&i].text()));
                                }
                                let want = match c.cands.get(&i) {
                                    None => Some(zero_ref(&pt)),
                                    Some(cd) => prune_ref(&cd.val, &pt),
                                };
                                if w.is_of_type(&pt.fin()) && want.as_ref() != Some(&v_of(w)) {
                                    ctx.fail("conversion-differs", &line_u, &format!("finalize_pruned, node {i}: carried value {} ≠ candidate converted to the pruned type {}", gen::value_compact_text(w), pt.text()));
                                }
                            }
                        }
                    }
                }
                if let Some((r2, pb, wb)) = check_redeem(ctx, "P", &line_u, pruned, &env) {
                    // the decoder's types for the pruned program = the re-inferred types
                    if let Some(planw) = plan_of_redeem(&r2) {
                        route_d(ctx, &planw, &tables, &pb, &wb, "pruned-canonical", &env);
                    }
                }
            }
        }
    }

    // ---- route 3: the text route
    let has_disc = plan.nodes.iter().any(|n| matches!(n, PNode::Disconnect(..)));
    if has_disc {
        ctx.count("text-route-skipped:disconnect");
    } else {
        match catch(|| forest_setup(plan)) {
            Err(p) => ctx.fail("panic-forest", &line_u, &p),
            Ok(Err(e)) => {
                let k = e.split(':').next().unwrap_or("?").to_string();
                if ctx.get_count(&format!("text-route-skipped:{k}")) < 2 {
                    ctx.note(&format!("text route skipped ({}) for {}", e.chars().take(300).collect::<String>().replace('\n', " "), plan.text()));
                }
                ctx.count(&format!("text-route-skipped:{k}"));
            }
            Ok(Ok(fs)) => {
                let mut map: HashMap<Arc<str>, Value> = HashMap::new();
                let mut ntoks = String::new();
                let mut mtoks = String::new();
                let mut ok_names = true;
                for i in &wit_idx {
                    let ns = &fs.names[*i];
                    if ns.is_empty() {
                        ok_names = false;
                        continue;
                    }
                    if ns.len() > 1 {
                        ctx.count("text-route:shared-witness-node-unshared");
                    }
                    ntoks.push_str(&format!(" N:{}:{}", i, ns[0]));
                    if let Some(cd) = c.cands.get(i) {
                        for n in ns {
                            map.insert(n.clone(), cd.lib());
                            mtoks.push_str(&format!(" M:{}:{}:{}", n, cd.ty.text(), compact_text(&cd.val)));
                        }
                    }
                }
                // an entry under a name that no node has is ignored
                map.insert(Arc::from("no_such_witness"), Value::u8(0xff));
                mtoks.push_str(" M:no_such_witness:w3.:11111111");
                if !ok_names {
                    ctx.fail("program-shape", &line_u, "a witness node of the plan has no name in the forest");
                } else {
                    let line_f = format!("route F P {}{}{}{}", plan.text(), tables, ntoks, mtoks);
                    match catch(|| route_f(&fs, &map, None)) {
                        Err(p) => ctx.fail("panic-finalize", &line_u, &format!("to_witness_node + finalize_unpruned: {p}")),
                        Ok(Err(e)) => {
                            ctx.op(&line_f, "err");
                            ctx.count(&format!("reach:F:{kind}:err"));
                            if res_u.is_ok() {
                                ctx.fail("route-disagree", &line_u, &format!("construction route returns a program, text route reports {e}"));
                            }
                        }
                        Ok(Ok(red)) => {
                            ctx.count(&format!("reach:F:{kind}:ok"));
                            match align(plan, &red) {
                                Err(e) => ctx.fail("program-shape", &line_u, &format!("text route: {e}")),
                                Ok(al) => ctx.op(&line_f, &answer_aligned(&al)),
                            }
                            match &res_u {
                                Ok(u) => {
                                    if u.ihr() != red.ihr() || same_witnesses(u, &red).is_err() {
                                        ctx.fail("route-disagree", &line_u, &format!("text route and construction route return different programs: ihr {} vs {}, cmr {} vs {}, {:?}", u.ihr(), red.ihr(), u.cmr(), red.cmr(), same_witnesses(u, &red)));
                                    }
                                }
                                Err(_) => ctx.fail("route-disagree", &line_u, "construction route reports an error, text route returns a program"),
                            }
                            check_redeem(ctx, "F", &line_u, &red, &env);
                        }
                    }
                    // … + finalize_pruned
                    match catch(|| route_f(&fs, &map, Some(&env))) {
                        Err(p) => ctx.fail("panic-finalize-pruned", &line_u, &format!("to_witness_node + finalize_pruned: {p}")),
                        Ok(fp) => {
                            let verdict = match &fp {
                                Ok(_) => "ok",
                                Err(e) if e.starts_with("exec:") => "err-exec",
                                Err(_) => "err",
                            };
                            if verdict == "err-exec" {
                                ctx.count("reach:FP:execution-failed");
                            } else {
                                ctx.count(&format!("reach:FP:{kind}:{verdict}"));
                            }
                            if let Some(rp) = &res_p {
                                match (rp, &fp) {
                                    (Ok(a), Ok(b)) => {
                                        if std::env::var("C12_DEBUG").is_ok() {
                                            eprintln!("P : {}\nFP: {}", codec::describe(a), codec::describe(b));
                                        }
                                        // The text form shares every two nodes that had the same identity root at
                                        // commitment time; after pruning a shared node keeps one type, so the two pruned
                                        // programs may be typed differently (both principal for their own DAG).  What
                                        // pruning preserves on both routes is the commitment root.
                                        if a.cmr() != b.cmr() {
                                            ctx.fail("route-disagree", &line_u, "text route + finalize_pruned and construction + finalize_pruned return programs with different commitment roots");
                                        }
                                        if a.ihr() != b.ihr() {
                                            ctx.count("observed:FP:pruned-program-typed-differently-than-P");
                                        }
                                        check_redeem(ctx, "FP", &line_u, b, &env);
                                    }
                                    (Err(_), Err(_)) => {}
                                    _ => ctx.fail("route-disagree", &line_u, "text route + finalize_pruned and construction + finalize_pruned: one returns a program, the other an error"),
                                }
                            }
                        }
                    }
                }
            }
        }
    }

    // ---- route 4: decoding the serialisation with the canonical and damaged witness streams
    if let Ok(red) = &res_u {
        if let Ok((pb, wb)) = catch(|| red.to_vec_with_witness()) {
            if let Dec::Ok(r2) = codec::decode_redeem(&pb, &wb) {
                if let Some(planw) = plan_of_redeem(&r2) {
                    route_d(ctx, &planw, &tables, &pb, &wb, "canonical", &env);
                    for _ in 0..2 {
                        let (k, w) = damaged_stream(&mut ctx.rng, &wb);
                        route_d(ctx, &planw, &tables, &pb, &w, k, &env);
                    }
                }
            }
        }
    }
    true
}

// ------------------------------------------------------------------ generation

fn push(g: &mut PlanGen, n: PNode) -> usize {
    g.nodes.push(n);
    g.nodes.len() - 1
}

/// `comp (comp wit pin_T) unit`, alone or as the right branch of a case
fn directed_plan(r: &mut Rng, t: &T, shape: u64) -> Plan {
    let mut g = PlanGen::new(r, GenCfg::default());
    let w = push(&mut g, PNode::Witness);
    let p = g.pin(t);
    let c = push(&mut g, PNode::Comp(w, p));
    let u = push(&mut g, PNode::Unit);
    let body = push(&mut g, PNode::Comp(c, u));
    if shape == 0 {
        return Plan { nodes: g.nodes };
    }
    // comp (pair sel unit) (case (take unit) (drop body)),  sel : 1 → 1 + 1
    let sel = match shape {
        1 => {
            let u0 = push(&mut g, PNode::Unit);
            push(&mut g, PNode::InjL(u0))
        }
        2 => {
            let u0 = push(&mut g, PNode::Unit);
            push(&mut g, PNode::InjR(u0))
        }
        _ => g.witness_of(&T::sum(T::One, T::One)),
    };
    let u1 = push(&mut g, PNode::Unit);
    let pr = push(&mut g, PNode::Pair(sel, u1));
    let u2 = push(&mut g, PNode::Unit);
    let tk = push(&mut g, PNode::Take(u2));
    let dr = push(&mut g, PNode::Drop(body));
    let cs = push(&mut g, PNode::Case(tk, dr));
    push(&mut g, PNode::Comp(pr, cs));
    Plan { nodes: g.nodes }.compacted()
}

fn gen_case(ctx: &mut Ctx, it: u64) -> Option<Case> {
    let plan = if it % 5 < 2 {
        let t = gen::gen_t(&mut ctx.rng, 1 + (it % 3) as usize);
        let shape = ctx.rng.below(4);
        directed_plan(&mut ctx.rng, &t, shape)
    } else {
        let depth = 2 + (it % 3) as usize;
        let jets = it % 7 == 0;
        let mut cfg = GenCfg { fail: false, jets, disconnect: it % 4 == 0, ..GenCfg::default() };
        if jets {
            cfg.jet_pool = progs::simple_jets();
        }
        gen::gen_program(&mut ctx.rng, cfg, depth)
    };
    if plan.nodes.len() > 90 {
        ctx.count("generator:too-large");
        return None;
    }
    let arrows = match gen::arrows_of_plan(&plan, None, true) {
        Ok((_, a)) => a,
        Err(_) => {
            ctx.count("generator:type");
            return None;
        }
    };
    let wit_idx: Vec<usize> = plan.reachable().into_iter().filter(|i| plan.nodes[*i] == PNode::Witness).collect();
    if wit_idx.is_empty() {
        ctx.count("generator:no-witness");
        return None;
    }
    if wit_idx.iter().any(|i| arrows[*i].as_ref().unwrap().1.bit_width() > 512) {
        ctx.count("generator:wide-witness");
        return None;
    }
    // the focus is a witness node of non-unit type when there is one (9 in 10)
    let non_unit: Vec<usize> = wit_idx.iter().copied().filter(|i| arrows[*i].as_ref().unwrap().1.bit_width() > 0).collect();
    let focus = if !non_unit.is_empty() && ctx.rng.below(10) != 0 { *ctx.rng.pick(&non_unit) } else { *ctx.rng.pick(&wit_idx) };
    let mut cands = BTreeMap::new();
    let mut focus_kind = "right";
    for i in &wit_idx {
        let t = T::from_fin(&arrows[*i].as_ref().unwrap().1);
        if *i == focus {
            // a kind that applies to this type
            for _ in 0..20 {
                let k = KINDS[ctx.rng.below(KINDS.len() as u64) as usize];
                if let Some(c) = candidate(&mut ctx.rng, k, &t) {
                    focus_kind = k;
                    if let Some(c) = c {
                        cands.insert(*i, c);
                    }
                    break;
                }
            }
        } else if ctx.rng.below(6) != 0 {
            let val = gen::gen_v(&mut ctx.rng, &t);
            cands.insert(*i, Cand { kind: "right", ty: t, val });
        }
    }
    Some(Case { plan, cands, focus, focus_kind })
}

/// the input of F-C12a/b (DESIGN.md sec. 6): a 16-bit witness feeding an 8-bit jet, and its neighbours
fn regression_cases() -> Vec<Case> {
    use PNode as N;
    let plan = Plan { nodes: vec![N::Witness, N::Jet(Elements::Complement8), N::Comp(0, 1), N::Unit, N::Comp(2, 3)] };
    let mk = |kind: &'static str, ty: T, val: V| {
        let mut cands = BTreeMap::new();
        cands.insert(0, Cand { kind, ty, val });
        Case { plan: plan.clone(), cands, focus: 0, focus_kind: kind }
    };
    let word = |n: u32, ones: bool| {
        let t = T::word(n);
        let bits = vec![ones; 1usize << n];
        let v = gen::dec_compact(&t, &mut bits.into_iter()).unwrap();
        (t, v)
    };
    let (t16, v16) = word(4, true);
    let (t8, v8) = word(3, true);
    let (t4, v4) = word(2, true);
    let mut v = vec![mk("wide", t16, v16), mk("right", t8, v8), mk("narrow", t4, v4), mk("unit", T::One, V::U)];
    // a witness node used in the executed and in the pruned branch of a case (finding of this
    // property, class `pruned-witness-type-not-principal`):
    // comp (pair L(ε) unit) (case (take (comp w unit)) (drop (comp (comp w pin_2) unit)))
    let text = "25 wit unit comp,0,1 take,2 unit take,4 injl,5 unit take,7 injr,8 case,6,9 iden unit pair,11,12 comp,13,10 comp,0,14 unit comp,15,16 drop,17 case,3,18 unit injl,20 unit pair,21,22 comp,23,19";
    let toks: Vec<&str> = text.split(' ').collect();
    let (shared, _) = Plan::parse(&toks).expect("plan text");
    for bit in [true, false] {
        let mut cands = BTreeMap::new();
        let val = if bit { V::R(Box::new(V::U)) } else { V::L(Box::new(V::U)) };
        cands.insert(0, Cand { kind: "right", ty: T::word(0), val });
        v.push(Case { plan: shared.clone(), cands, focus: 0, focus_kind: "right" });
    }
    v
}

pub fn run(ctx: &mut Ctx) {
    for c in regression_cases() {
        one(ctx, &c);
    }
    let n = ctx.scale(4000, 60_000);
    let mut done = 0;
    let mut it = 0u64;
    while done < n && it < 20 * n {
        it += 1;
        let Some(c) = gen_case(ctx, it) else {
            ctx.count("generator:rejected");
            continue;
        };
        if one(ctx, &c) {
            done += 1;
        }
    }
}

// ------------------------------------------------------------------ replay

pub fn replay(ctx: &mut Ctx, case: &str) {
    let toks: Vec<&str> = case.split_whitespace().collect();
    if toks.first() == Some(&"dec") && toks.len() >= 3 {
        let (Some(p), Some(w)) = (gen::parse_hex(toks[1]), gen::parse_hex(toks[2])) else {
            ctx.note("replay: case text not understood");
            return;
        };
        let env = progs::dummy_env();
        // the wire plan comes from the program bytes with the canonical stream of zero values
        let planw = match codec::decode_redeem(&p, &w) {
            Dec::Ok(r) => plan_of_redeem(&r),
            _ => None,
        };
        match planw {
            Some(pl) => route_d(ctx, &pl, &progs::jet_types(&pl), &p, &w, "replay", &env),
            None => match codec::decode_redeem(&p, &w) {
                Dec::Panic(m) => ctx.fail("panic-decode", case, &m),
                _ => ctx.note("replay: the stream is rejected"),
            },
        }
        return;
    }
    if toks.len() < 4 || toks[0] != "route" {
        ctx.note("replay: case text not understood");
        return;
    }
    let Some((plan, used)) = Plan::parse(&toks[3..]) else {
        ctx.note("replay: plan not understood");
        return;
    };
    let mut cands = BTreeMap::new();
    for t in &toks[3 + used..] {
        let f: Vec<&str> = t.split(':').collect();
        if f[0] == "V" && f.len() == 4 {
            let (Some(i), Some(ty), Some(bits)) = (f[1].parse::<usize>().ok(), gen::parse_type(f[2]), gen::parse_bits(f[3])) else {
                ctx.note("replay: candidate not understood");
                return;
            };
            let Some(val) = gen::dec_compact(&ty, &mut bits.into_iter()) else {
                ctx.note("replay: candidate bits do not decode");
                return;
            };
            cands.insert(i, Cand { kind: "replay", ty, val });
        }
    }
    let focus = cands.keys().next().copied().unwrap_or(0);
    one(ctx, &Case { plan, cands, focus, focus_kind: "replay" });
}
