//! C11 — value equality, ordering and hashing are semantic (`impl PartialEq/Ord/Hash for Value`,
//! derived ones of `Word`, `src/value.rs`).
//!
//! Values are given by history expressions (see `c10/vx.rs`); each case takes one element of one
//! type and builds it by several unrelated histories, plus near misses: another element of the same
//! type differing in one tag or leaf, and the same compact bits at a different type.
//!
//! ops:   `c <tmrA> <tmrB> <exprA> ; <exprB>`          → `eq=<0|1> cmp=<lt|eq|gt> ha=<h> hb=<h>`
//!        `w <tmrA> <tmrB> <nA> <nB> <exprA> ; <exprB>` → the same for `Word`
//! (`h` = FNV-1a-64 over the bytes `Hash` writes; `tmr` = the type's TMR as the library reports it,
//! the type key of the model).
//! oracle (on the implementation alone, against the reference trees): `==` ⇔ same type and same
//! element; `cmp` = Equal ⇔ `==`; `cmp(a,b)` = reverse of `cmp(b,a)`; `partial_cmp`/`<`/`<=` agree
//! with `cmp`; equal ⇒ equal hash;
//! transitivity of `<=` and of `==` on all triples of each case's pool.

use crate::ctx::{catch, Ctx};
use simplicity::{Value, Word};
use std::cmp::Ordering;
use std::hash::{Hash, Hasher};
use std::rc::Rc;

#[path = "c10/vx.rs"]
pub mod vx;
use vx::*;

pub const RULE: &str = "pools of values per case: one element by 3 unrelated histories (constructors, decoders with dirty padding, sub-value extraction at shifted offsets, prune, machine output), a near miss of the same type (one tag or leaf changed), the same compact bits at another type, an unrelated value; all ordered pairs compared; non-trivial pair = both at least one bit wide; distinct by (historyA, historyB)";

/// FNV-1a over everything `Hash` writes (only `write` is implemented: the integer writes of the
/// default methods arrive as native-endian bytes)
struct Fnv(u64);
impl Hasher for Fnv {
    fn write(&mut self, bytes: &[u8]) {
        for b in bytes {
            self.0 ^= *b as u64;
            self.0 = self.0.wrapping_mul(0x100000001b3);
        }
    }
    fn finish(&self) -> u64 {
        self.0
    }
}
fn h<T: Hash>(x: &T) -> u64 {
    let mut s = Fnv(0xcbf29ce484222325);
    x.hash(&mut s);
    s.finish()
}

fn ord(o: Ordering) -> &'static str {
    match o {
        Ordering::Less => "lt",
        Ordering::Equal => "eq",
        Ordering::Greater => "gt",
    }
}

struct Item {
    e: E,
    t: Ty,
    v: V,
    lib: Value,
    tmr: [u8; 32],
    what: &'static str,
}

fn mk(ctx: &mut Ctx, e: E, what: &'static str) -> Option<Item> {
    let (t, v) = eval_ref(&e).ok()?;
    let line = format!("c - - {} ; U", e.show());
    match catch(|| eval_lib(&e)) {
        Ok(Ok(lib)) => {
            let tmr: [u8; 32] = lib.ty().tmr().to_byte_array();
            Some(Item { e, t, v, lib, tmr, what })
        }
        Ok(Err(s)) => {
            ctx.fail("history-stuck", &line, &format!("the library stops with `{s}` where the reference has a value"));
            None
        }
        Err(m) => {
            ctx.fail("panic-history", &line, &m);
            None
        }
    }
}

/// the expected order: TMR bytes, then compact bits
fn want_cmp(a: &Item, b: &Item) -> Ordering {
    a.tmr.cmp(&b.tmr).then_with(|| compact_of(&a.v).cmp(&compact_of(&b.v)))
}

fn pair(ctx: &mut Ctx, a: &Item, b: &Item) {
    let line = format!("c {} {} {} ; {}", show_hex(&a.tmr), show_hex(&b.tmr), a.e.show(), b.e.show());
    let r = catch(|| (a.lib == b.lib, a.lib.cmp(&b.lib), h(&a.lib), h(&b.lib), a.lib.partial_cmp(&b.lib), a.lib < b.lib, a.lib <= b.lib, a.lib != b.lib));
    let (eq, cmp, ha, hb, pc, lt, le, ne) = match r {
        Ok(x) => x,
        Err(m) => return ctx.fail("panic-compare", &line, &m),
    };
    ctx.op(&line, &format!("eq={} cmp={} ha={:016x} hb={:016x}", eq as u8, ord(cmp), ha, hb));
    let nontrivial = a.t.bw() > 0 && b.t.bw() > 0;
    ctx.case(if nontrivial { Some(&line) } else { None });
    let sem = a.t == b.t && a.v == b.v;
    if a.what == "fixed" || a.what == "replay" {
        ctx.count(&format!("pair-{}-vs-{}", a.what, b.what));
    } else {
        ctx.count(&format!("reach:pair-{}-vs-{}", a.what, b.what));
    }
    ctx.count(if sem { "reach:semantically-equal-pair" } else { "reach:semantically-different-pair" });
    let mut rs = [false; NR];
    routes_of(&a.e, &mut rs);
    routes_of(&b.e, &mut rs);
    for (i, x) in rs.iter().enumerate() {
        if *x {
            ctx.count(&format!("reach:route-{}", ROUTES[i]));
        }
    }
    if (a.t == b.t) != (a.tmr == b.tmr) {
        ctx.fail("tmr-vs-structure", &line, "type equality by TMR differs from structural equality");
    }
    if eq != sem {
        let cls = if sem { "equal-elements-compare-unequal" } else { "different-elements-compare-equal" };
        ctx.fail(cls, &line, &format!("== is {eq}; same type {} same element {}", a.t == b.t, a.v == b.v));
    }
    if ne == eq {
        ctx.fail("ne-vs-eq", &line, "!= is not the negation of ==");
    }
    if (cmp == Ordering::Equal) != eq {
        ctx.fail("cmp-vs-eq", &line, &format!("cmp is {} but == is {eq}", ord(cmp)));
    }
    // which total order it is (TMR, then compact bits lexicographically) is the model's business,
    // not the property's: counted, compared through the op above
    if cmp != want_cmp(a, b) {
        ctx.count("cmp-differs-from-tmr-then-lexicographic");
    }
    if pc != Some(cmp) || lt != (cmp == Ordering::Less) || le != (cmp != Ordering::Greater) {
        ctx.fail("partial-cmp", &line, "partial_cmp / < / <= disagree with cmp");
    }
    match catch(|| b.lib.cmp(&a.lib)) {
        Ok(back) => {
            if back != cmp.reverse() {
                ctx.fail("cmp-antisymmetry", &line, &format!("cmp(a,b) is {} and cmp(b,a) is {}", ord(cmp), ord(back)));
            }
        }
        Err(m) => ctx.fail("panic-compare", &line, &m),
    }
    if eq && ha != hb {
        ctx.fail("equal-values-hash-differently", &line, &format!("{ha:016x} vs {hb:016x}"));
    }
    if sem && ha != hb {
        ctx.count("semantically-equal-hash-differs");
    }
    if !sem && ha == hb {
        ctx.count("hash-collision-of-different-values");
    }
    if ctx.want_sample() && nontrivial && line.len() < 220 && a.what != b.what {
        ctx.sample(&format!("{line} -> eq={} cmp={}", eq as u8, ord(cmp)));
    }
    // Word
    if let (Some(na), Some(nb)) = (a.t.0.word, b.t.0.word) {
        let wline = format!("w {} {} {} {} {} ; {}", show_hex(&a.tmr), show_hex(&b.tmr), na, nb, a.e.show(), b.e.show());
        let r = catch(|| {
            let wa = a.lib.to_word();
            let wb = b.lib.to_word();
            match (wa, wb) {
                (Some(wa), Some(wb)) => Some((wa == wb, wa.cmp(&wb), h(&wa), h(&wb), wa.n(), wb.n(), wb.cmp(&wa))),
                _ => None,
            }
        });
        match r {
            Err(m) => ctx.fail("panic-compare-word", &wline, &m),
            Ok(None) => ctx.fail("to-word-none", &wline, "to_word() of a value of word type is None"),
            Ok(Some((weq, wcmp, wha, whb, ln, lnb, wback))) => {
                if ln != na as usize || lnb != nb as usize {
                    ctx.fail("word-n", &wline, &format!("Word::n() is {ln}/{lnb}"));
                }
                ctx.op(&wline, &format!("eq={} cmp={} ha={:016x} hb={:016x}", weq as u8, ord(wcmp), wha, whb));
                ctx.count("reach:word-pair");
                ctx.count(if sem { "reach:word-pair-equal" } else { "reach:word-pair-different" });
                if weq != sem {
                    ctx.fail(if sem { "equal-words-compare-unequal" } else { "different-words-compare-equal" }, &wline, &format!("== is {weq}"));
                }
                if (wcmp == Ordering::Equal) != weq || wback != wcmp.reverse() {
                    ctx.fail("word-cmp", &wline, &format!("cmp {} reverse {} == {}", ord(wcmp), ord(wback), weq));
                }
                if weq && wha != whb {
                    ctx.fail("equal-words-hash-differently", &wline, &format!("{wha:016x} vs {whb:016x}"));
                }
            }
        }
        // the decoder of words builds the same word
        if na <= 12 && a.what == "history-1" {
            let bits = compact_of(&a.v);
            let bytes = bits_to_bytes(&bits);
            let r = catch(|| {
                let mut it = bit_iter(&bytes, 0);
                Word::from_bits(&mut it, na as u32).ok().map(|w| (Some(&w) == a.lib.to_word().as_ref(), h(&w) == h(&a.lib.to_word().unwrap())))
            });
            ctx.count("word-from-bits-checked");
            if r != Ok(Some((true, true))) {
                ctx.fail("word-from-bits", &wline, &format!("Word::from_bits of the word's own bits: {:?}", r));
            }
        }
    }
}

fn triples(ctx: &mut Ctx, pool: &[Item]) {
    let n = pool.len();
    let r = catch(|| {
        let mut bad: Vec<(usize, usize, usize, &'static str)> = vec![];
        for i in 0..n {
            for j in 0..n {
                for k in 0..n {
                    let (a, b, c) = (&pool[i].lib, &pool[j].lib, &pool[k].lib);
                    if a <= b && b <= c && !(a <= c) {
                        bad.push((i, j, k, "le-transitivity"));
                    }
                    if a < b && b < c && !(a < c) {
                        bad.push((i, j, k, "lt-transitivity"));
                    }
                    if a == b && b == c && a != c {
                        bad.push((i, j, k, "eq-transitivity"));
                    }
                    if a == b && a.cmp(c) != b.cmp(c) {
                        bad.push((i, j, k, "eq-not-congruent-for-cmp"));
                    }
                }
            }
        }
        bad
    });
    ctx.count_n("reach:triple", (n * n * n) as u64);
    match r {
        Err(m) => ctx.fail("panic-compare", "triples", &m),
        Ok(bad) => {
            for (i, j, k, cls) in bad.into_iter().take(3) {
                let case = format!("t {} ; {} ; {}", pool[i].e.show(), pool[j].e.show(), pool[k].e.show());
                ctx.fail(cls, &case, "on this triple");
            }
        }
    }
}

/// the same element (same compact bits) at a type that differs on a side the value does not use
fn retype(r: &mut crate::ctx::Rng, t: &Ty, v: &V) -> Option<Ty> {
    match (&t.0.k, v) {
        (K::Sum(a, b), V::L(x)) => {
            if r.bool() {
                if let Some(a2) = retype(r, a, x) {
                    return Some(Ty::sum(a2, b.clone()));
                }
            }
            let b2 = if b.is_one() { Ty::word(r.below(4) as usize) } else if r.bool() { Ty::one() } else { Ty::prod(b.clone(), Ty::word(0)) };
            Some(Ty::sum(a.clone(), b2))
        }
        (K::Sum(a, b), V::R(y)) => {
            if r.bool() {
                if let Some(b2) = retype(r, b, y) {
                    return Some(Ty::sum(a.clone(), b2));
                }
            }
            let a2 = if a.is_one() { Ty::word(r.below(4) as usize) } else if r.bool() { Ty::one() } else { Ty::prod(a.clone(), Ty::word(0)) };
            Some(Ty::sum(a2, b.clone()))
        }
        (K::Prod(a, b), V::P(x, y)) => {
            if let Some(a2) = retype(r, a, x) {
                return Some(Ty::prod(a2, b.clone()));
            }
            retype(r, b, y).map(|b2| Ty::prod(a.clone(), b2))
        }
        _ => None,
    }
}

fn one_pool(ctx: &mut Ctx, t: &Ty, v: &V, ty_kind: &str, reduced: bool) {
    if let Err(m) = catch(|| one_pool_inner(ctx, t, v, ty_kind, reduced)) {
        ctx.fail("panic-compare", &format!("pool of type {}", t.show()), &m);
    }
}

fn one_pool_inner(ctx: &mut Ctx, t: &Ty, v: &V, ty_kind: &str, reduced: bool) {
    let mut used = [0u64; NR];
    let mut pool: Vec<Item> = vec![];
    let names: [&'static str; 3] = ["history-1", "history-2", "history-3"];
    for (i, name) in names.iter().enumerate() {
        if reduced && i == 2 {
            break;
        }
        let mut budget: i64 = if t.0.size > 2000 { 40 } else { 300 };
        let e = gen_expr(&mut ctx.rng, t, v, if i == 0 { 0 } else { 1 + i }, &mut budget, &mut used);
        if let Some(it) = mk(ctx, e, name) {
            pool.push(it);
        }
    }
    if let Some(v2) = near_miss(&mut ctx.rng, t, v) {
        let mut budget: i64 = 300;
        let e = gen_expr(&mut ctx.rng, t, &v2, 2, &mut budget, &mut used);
        if let Some(it) = mk(ctx, e, "near-miss-element") {
            pool.push(it);
        }
    }
    if let Some(t2) = if reduced { None } else { retype(&mut ctx.rng, t, v) } {
        if has_ty(v, &t2) {
            let mut budget: i64 = 300;
            let e = gen_expr(&mut ctx.rng, &t2, v, 2, &mut budget, &mut used);
            if let Some(it) = mk(ctx, e, "near-miss-type") {
                pool.push(it);
            }
        }
    }
    if !reduced {
        let (t3, _) = gen_ty(&mut ctx.rng, false);
        let v3 = gen_val(&mut ctx.rng, &t3);
        let mut budget: i64 = 200;
        let e = gen_expr(&mut ctx.rng, &t3, &v3, 1, &mut budget, &mut used);
        if let Some(it) = mk(ctx, e, "unrelated") {
            pool.push(it);
        }
    }
    ctx.count(&format!("reach:ty-{ty_kind}"));
    for i in 0..pool.len() {
        for j in 0..pool.len() {
            // all ordered pairs of different items, and a few reflexive ones
            if i != j || (i == 0 && ctx.rng.chance(1, 4)) {
                pair(ctx, &pool[i], &pool[j]);
            }
        }
    }
    triples(ctx, &pool);
}

/// what pruning keeps of `t` for the element `v`: an unused side of a sum becomes `1` (or stays)
fn pruned_ty(r: &mut crate::ctx::Rng, t: &Ty, v: &V) -> Ty {
    match (&t.0.k, v) {
        (K::Sum(a, b), V::L(x)) => Ty::sum(pruned_ty(r, a, x), if r.bool() { Ty::one() } else { b.clone() }),
        (K::Sum(a, b), V::R(y)) => Ty::sum(if r.bool() { Ty::one() } else { a.clone() }, pruned_ty(r, b, y)),
        (K::Prod(a, b), V::P(x, y)) => Ty::prod(pruned_ty(r, a, x), pruned_ty(r, b, y)),
        _ => t.clone(),
    }
}

/// The kin of one library object: values derived from *the same* `Value` (so that buffers are
/// shared, at equal and at different bit offsets) — clones, wrappers `(ε, x)` and `(x, ε)`, every
/// sub-value along random paths (`as_product`/`as_left`/`as_right` + `to_value`), pruned forms and
/// their sub-values.  The expressions name the same histories for the model; the reference type
/// and element of each come from `eval_ref`.
fn kin_pool(ctx: &mut Ctx, t: &Ty, v: &V) {
    let mut used = [0u64; NR];
    let mut budget: i64 = 200;
    let e0 = gen_expr(&mut ctx.rng, t, v, 1, &mut budget, &mut used);
    let r = catch(|| eval_lib(&e0));
    let base = match r {
        Ok(Ok(b)) => b,
        Ok(Err(_)) => return,
        Err(m) => return ctx.fail("panic-history", &format!("c - - {} ; U", e0.show()), &m),
    };
    let mut kin: Vec<(E, Value)> = vec![(e0.clone(), base.clone())];
    kin.push((E::P(Box::new(E::U), Box::new(e0.clone())), Value::product(Value::unit(), base.clone())));
    kin.push((E::P(Box::new(e0.clone()), Box::new(E::U)), Value::product(base.clone(), Value::unit())));
    let pt = pruned_ty(&mut ctx.rng, t, v);
    if pt != *t {
        if let Ok(Some(p)) = catch(|| base.prune(&pt.fin())) {
            kin.push((E::PR(pt.clone(), Box::new(e0.clone())), p));
        }
    }
    // sub-values of everything so far, along the leftmost path and along random paths
    let roots = kin.len();
    for i in 0..roots {
        for leftmost in [true, false] {
            let (mut e, mut val) = kin[i].clone();
            for _ in 0..6 {
                let step = catch(|| {
                    if let Some((a, b)) = val.as_product() {
                        Some(if leftmost || ctx.rng.bool() { (0u8, a.to_value()) } else { (1u8, b.to_value()) })
                    } else if let Some(a) = val.as_left() {
                        Some((2u8, a.to_value()))
                    } else {
                        val.as_right().map(|b| (3u8, b.to_value()))
                    }
                });
                let Ok(Some((k, sub))) = step else { break };
                e = match k {
                    0 => E::A1(Box::new(e)),
                    1 => E::A2(Box::new(e)),
                    2 => E::AL(Box::new(e)),
                    _ => E::AR(Box::new(e)),
                };
                val = sub;
                kin.push((e.clone(), val.clone()));
                if kin.len() >= 14 {
                    break;
                }
            }
        }
    }
    let mut pool: Vec<Item> = vec![];
    for (e, lib) in kin {
        let Ok((t, v)) = eval_ref(&e) else { continue };
        let tmr: [u8; 32] = lib.ty().tmr().to_byte_array();
        pool.push(Item { e, t, v, lib, tmr, what: "kin" });
    }
    ctx.count("reach:kin-pool");
    for i in 0..pool.len() {
        for j in 0..pool.len() {
            if i != j {
                pair(ctx, &pool[i], &pool[j]);
            }
        }
    }
    triples(ctx, &pool);
}

/// `eval_lib` with every distinct sub-expression evaluated once and reused (so that the values of a
/// replayed case share buffers the way the kin of one object do)
fn eval_shared(e: &E, memo: &mut std::collections::HashMap<String, Value>) -> Result<Value, String> {
    let key = e.show();
    if let Some(v) = memo.get(&key) {
        return Ok(v.clone());
    }
    let v = match e {
        E::L(x, b) => Value::left(eval_shared(x, memo)?, b.fin()),
        E::R(a, x) => Value::right(a.fin(), eval_shared(x, memo)?),
        E::P(x, y) => {
            let l = eval_shared(x, memo)?;
            let r = eval_shared(y, memo)?;
            Value::product(l, r)
        }
        E::AL(x) => eval_shared(x, memo)?.as_left().ok_or("stuck")?.to_value(),
        E::AR(x) => eval_shared(x, memo)?.as_right().ok_or("stuck")?.to_value(),
        E::A1(x) => eval_shared(x, memo)?.as_product().ok_or("stuck")?.0.to_value(),
        E::A2(x) => eval_shared(x, memo)?.as_product().ok_or("stuck")?.1.to_value(),
        E::PR(t, x) => eval_shared(x, memo)?.prune(&t.fin()).ok_or("stuck")?,
        other => eval_lib(other)?,
    };
    memo.insert(key, v.clone());
    Ok(v)
}

pub fn replay(ctx: &mut Ctx, case: &str) {
    let toks: Vec<&str> = case.split_whitespace().collect();
    if toks.is_empty() {
        return;
    }
    // the expressions after the fixed arguments, separated by `;`
    let skip = match toks[0] {
        "c" => 3,
        "w" => 5,
        "t" => 1,
        _ => return,
    };
    let mut items: Vec<Item> = vec![];
    let mut memo = std::collections::HashMap::new();
    for part in toks[skip.min(toks.len())..].split(|t| *t == ";") {
        if let Some(e) = E::parse_all(part) {
            if let Some(mut it) = mk(ctx, e, "replay") {
                if let Ok(Ok(shared)) = catch(|| eval_shared(&it.e, &mut memo)) {
                    it.lib = shared;
                }
                items.push(it);
            }
        }
    }
    for i in 0..items.len() {
        for j in 0..items.len() {
            if i != j {
                pair(ctx, &items[i], &items[j]);
            }
        }
    }
    triples(ctx, &items);
}

pub fn run(ctx: &mut Ctx) {
    // the findings of DESIGN.md sec. 6 (repaired) first
    let fixed = [
        ("A1 P W 0 00 W 0 01", "W 0 00"),
        ("DP +1w8 0 7f80ffffffffffffffffffffffffffffffffffffffffffffffffffffffffffffff80", "L U w8"),
        ("M DP +1w3 3 f7ff", "L U w3"),
        ("PR +11 R 1 W 3 a5", "R 1 U"),
        ("U", "P U U"),
        ("Z *11", "P U U"),
        ("L U 1", "R 1 U"),
        ("W 3 80", "W 3 7f"),
        ("W 4 0100", "W 3 01"),
    ];
    for (a, b) in fixed {
        let ta: Vec<&str> = a.split_whitespace().collect();
        let tb: Vec<&str> = b.split_whitespace().collect();
        let ia = mk(ctx, E::parse_all(&ta).unwrap(), "fixed");
        let ib = mk(ctx, E::parse_all(&tb).unwrap(), "fixed");
        if let (Some(ia), Some(ib)) = (ia, ib) {
            pair(ctx, &ia, &ib);
            pair(ctx, &ib, &ia);
            pair(ctx, &ia, &ia);
        }
    }
    let n = ctx.scale(1_200, 30_000);
    // every `period`-th pool is over a word of 512 … 4096 bits, with a reduced pool (the Lean
    // model walks lists: a 4096-bit comparison costs ~0.3 s there)
    let period = ctx.scale(50, 55);
    for it in 0..n {
        let forced_big = it % period == 1;
        let (t, kind) = if forced_big {
            let k = it / period;
            (Ty::word(if k % 10 == 9 { 12 } else if k % 10 == 4 { 11 } else { 9 + (k % 2) as usize }), "word")
        } else {
            gen_ty(&mut ctx.rng, it % 16 == 0)
        };
        let v = if ctx.rng.chance(1, 10) { zero_val(&t) } else { gen_val(&mut ctx.rng, &t) };
        if t.bw() >= 512 {
            ctx.count("reach:ty-word-512-to-4096-bits");
        }
        one_pool(ctx, &t, &v, kind, t.bw() >= 512);
        if it % 4 == 0 && t.bw() < 512 {
            if let Err(m) = catch(|| kin_pool(ctx, &t, &v)) {
                ctx.fail("panic-compare", &format!("kin pool of type {}", t.show()), &m);
            }
        }
    }
    let _ = Rc::new(0);
}
