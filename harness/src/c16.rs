//! C16 — policies compile, satisfy and canonicalise consistently
//! (`Policy::{cmr,commit,satisfy,sorted,normalized}`, `serialize.rs`, `satisfy.rs`, `hiding.rs`).
//!
//! Policy text (prefix form, one token per node): `U:<128 hex>` unsatisfiable(entropy) · `T` trivial ·
//! `K:<64 hex>` key (x-only bytes) · `A:<n>` after · `O:<n>` older · `H:<64 hex>` sha256 image ·
//! `and p q` · `or p q` · `thr:<k>:<n> p1 … pn`.
//!
//! ops:   `sort <policy>`  → `Policy::sorted()` as text
//!        `norm <policy>`  → `Policy::normalized()` as text
//!        `dom <policy>`   → `in` (cmr/commit return) / `out` (they panic on `serialize::threshold`'s assertions)
//!        `sat <sigs> <pres> <lockTime> <seq> <version> <x|h> <policy>` → `ok` / `unsat` / `asmfail`
//!             sigs / pres: comma-separated keys / hash images the satisfier has a signature / preimage
//!             for (`-` = none); the environment has one input with that sequence; `x`: the satisfier's
//!             lock-time answers are the jets' verdicts on the environment, `h`: the library's helper
//!             satisfiers `(ctx, LockTime)`, `(ctx, Sequence)` guarded by non-final sequence / version ≥ 2
//! oracle (on the implementation alone):
//!   roots      `Policy::cmr() == commit().cmr() == satisfy()?.cmr() == satisfy()?.prune(env)?.cmr()`
//!   satisfy    succeeds ⇔ the satisfier's answers make the policy true (own recursive evaluation);
//!              never `AssemblyFailed`; the returned program and its re-pruning run on the Bit Machine
//!   sorting    `sorted` idempotent; equal for a random reordering of commutative children at any depth
//!   no panic inside the domain (1 ≤ n, k ≤ n for thresholds); panic outside is recorded, not a failure

use crate::ctx::{catch, Ctx, Rng};
use simplicity::elements::bitcoin::hashes::{sha256, Hash};
use simplicity::elements::bitcoin::key::{Keypair, XOnlyPublicKey};
use simplicity::elements::{self, confidential, secp256k1_zkp, taproot::ControlBlock, AssetIssuance};
use simplicity::jet::elements::{ElementsEnv, ElementsUtxo};
use simplicity::policy::SatisfierError;
use simplicity::{types, BitMachine, Cmr, ConstructNode, FailEntropy, Policy, Preimage32, Satisfier};
use std::collections::HashMap;
use std::sync::Arc;

pub const RULE: &str = "policy trees (depth ≤ 4, ≤ 40 nodes) over 4 signing keys, 3 hash images, after/older around the environment's lock height/distance and at the ends of the block-height range, trivial and unsatisfiable leaves, and/or/threshold with 1 ≤ n ≤ 5, 0 ≤ k ≤ n × random (and, for a share of the policies, all 128) subsets of available signatures and preimages × environments (lock time by height/by time, sequence final/disabled/by-time/small, version 1/2) × two honest satisfiers × a random reordering of commutative children at any depth; non-trivial = the policy has a combinator node; distinct by (policy, availability, environment)";

type Pk = XOnlyPublicKey;
type Pol = Policy<Pk>;
type Env = ElementsEnv<Arc<elements::Transaction>>;

const N_SIGN_KEYS: usize = 4;
const N_HASHES: usize = 3;

struct World {
    secp: secp256k1_zkp::Secp256k1<secp256k1_zkp::All>,
    keypairs: Vec<Keypair>,
    /// the first `N_SIGN_KEYS` can sign; the rest only appear in sort/norm cases
    keys: Vec<Pk>,
    preimages: Vec<[u8; 32]>,
    /// the first `N_HASHES` have known preimages
    hashes: Vec<sha256::Hash>,
}

impl World {
    fn new() -> World {
        let secp = secp256k1_zkp::Secp256k1::new();
        let keypairs: Vec<Keypair> = (1..=16u8)
            .map(|i| {
                let mut sk = [i; 32];
                sk[0] = 1;
                sk[31] = i.wrapping_mul(37);
                Keypair::from_seckey_slice(&secp, &sk).unwrap()
            })
            .collect();
        let keys = keypairs.iter().map(|k| k.x_only_public_key().0).collect();
        let preimages: Vec<[u8; 32]> = (0..8u8).map(|i| [i.wrapping_mul(29).wrapping_add(3); 32]).collect();
        let hashes = preimages.iter().map(|p| sha256::Hash::hash(p)).collect();
        World { secp, keypairs, keys, preimages, hashes }
    }
}

fn hex(b: &[u8]) -> String {
    let mut s = String::with_capacity(b.len() * 2);
    for x in b {
        s.push_str(&format!("{:02x}", x));
    }
    s
}

fn unhex(s: &str) -> Option<Vec<u8>> {
    if s.len() % 2 != 0 {
        return None;
    }
    (0..s.len() / 2).map(|i| u8::from_str_radix(&s[2 * i..2 * i + 2], 16).ok()).collect()
}

fn enc_into(p: &Pol, out: &mut Vec<String>) {
    match p {
        Policy::Unsatisfiable(e) => out.push(format!("U:{}", hex(e.as_ref()))),
        Policy::Trivial => out.push("T".into()),
        Policy::Key(k) => out.push(format!("K:{}", hex(&k.serialize()))),
        Policy::After(n) => out.push(format!("A:{}", n)),
        Policy::Older(n) => out.push(format!("O:{}", n)),
        Policy::Sha256(h) => out.push(format!("H:{}", hex(&h.to_byte_array()))),
        Policy::And { left, right } => {
            out.push("and".into());
            enc_into(left, out);
            enc_into(right, out);
        }
        Policy::Or { left, right } => {
            out.push("or".into());
            enc_into(left, out);
            enc_into(right, out);
        }
        Policy::Threshold(k, subs) => {
            out.push(format!("thr:{}:{}", k, subs.len()));
            for s in subs {
                enc_into(s, out);
            }
        }
    }
}

fn enc(p: &Pol) -> String {
    let mut v = Vec::new();
    enc_into(p, &mut v);
    v.join(" ")
}

fn dec(t: &[&str], pos: &mut usize) -> Option<Pol> {
    let tok = *t.get(*pos)?;
    *pos += 1;
    if tok == "T" {
        return Some(Policy::Trivial);
    }
    if tok == "and" || tok == "or" {
        let l = Arc::new(dec(t, pos)?);
        let r = Arc::new(dec(t, pos)?);
        return Some(if tok == "and" { Policy::And { left: l, right: r } } else { Policy::Or { left: l, right: r } });
    }
    let parts: Vec<&str> = tok.split(':').collect();
    match (parts[0], parts.len()) {
        ("U", 2) => {
            let b = unhex(parts[1])?;
            let a: [u8; 64] = b.try_into().ok()?;
            Some(Policy::Unsatisfiable(FailEntropy::from_byte_array(a)))
        }
        ("K", 2) => Some(Policy::Key(XOnlyPublicKey::from_slice(&unhex(parts[1])?).ok()?)),
        ("A", 2) => Some(Policy::After(parts[1].parse().ok()?)),
        ("O", 2) => Some(Policy::Older(parts[1].parse().ok()?)),
        ("H", 2) => {
            let a: [u8; 32] = unhex(parts[1])?.try_into().ok()?;
            Some(Policy::Sha256(sha256::Hash::from_byte_array(a)))
        }
        ("thr", 3) => {
            let k: usize = parts[1].parse().ok()?;
            let n: usize = parts[2].parse().ok()?;
            let mut subs = Vec::new();
            for _ in 0..n {
                subs.push(dec(t, pos)?);
            }
            Some(Policy::Threshold(k, subs))
        }
        _ => None,
    }
}

fn dec_all(t: &[&str]) -> Option<Pol> {
    let mut pos = 0;
    let p = dec(t, &mut pos)?;
    if pos == t.len() {
        Some(p)
    } else {
        None
    }
}

// ---------------------------------------------------------------------------------------------
// environment and the honest satisfiers

#[derive(Clone, Copy, PartialEq, Eq, Debug)]
struct EnvSet {
    lock_time: u32,
    seq: u32,
    version: u32,
}

impl EnvSet {
    /// C: `lockHeight(tx)` for a transaction with this one input
    fn lock_height(&self) -> u32 {
        if self.seq != 0xffff_ffff && self.lock_time < 500_000_000 {
            self.lock_time
        } else {
            0
        }
    }
    /// C: `obsolete_lockDistance(tx)`
    fn lock_distance(&self) -> u32 {
        if self.version >= 2 && self.seq < 0x8000_0000 && self.seq & (1 << 22) == 0 {
            self.seq & 0xffff
        } else {
            0
        }
    }
}

fn env_with(e: EnvSet) -> Env {
    let ctrl_blk: [u8; 33] = [
        0xc0, 0xeb, 0x04, 0xb6, 0x8e, 0x9a, 0x26, 0xd1, 0x16, 0x04, 0x6c, 0x76, 0xe8, 0xff, 0x47, 0x33, 0x2f, 0xb7, 0x1d, 0xda, 0x90, 0xff,
        0x4b, 0xef, 0x53, 0x70, 0xf2, 0x52, 0x26, 0xd3, 0xbc, 0x09, 0xfc,
    ];
    ElementsEnv::new(
        Arc::new(elements::Transaction {
            version: e.version,
            lock_time: elements::LockTime::from_consensus(e.lock_time),
            input: vec![elements::TxIn {
                previous_output: elements::OutPoint::default(),
                is_pegin: false,
                script_sig: elements::Script::new(),
                sequence: elements::Sequence(e.seq),
                asset_issuance: AssetIssuance::default(),
                witness: elements::TxInWitness::default(),
            }],
            output: Vec::default(),
        }),
        vec![ElementsUtxo { script_pubkey: elements::Script::new(), asset: confidential::Asset::Null, value: confidential::Value::Null }],
        0,
        Cmr::from_byte_array([0; 32]),
        ControlBlock::from_slice(&ctrl_blk).unwrap(),
        None,
        elements::BlockHash::from_byte_array([0u8; 32]),
    )
}

/// what the satisfier knows (a pure description; the `Satisfier` below is built from it)
#[derive(Clone)]
struct Know {
    sigs: HashMap<Pk, elements::SchnorrSig>,
    pre: HashMap<sha256::Hash, Preimage32>,
    env: EnvSet,
    exact: bool,
}

struct Sat<'a, 'b> {
    ctx: types::Context<'b>,
    k: &'a Know,
    tx: &'a elements::Transaction,
}

impl<'a, 'b> Satisfier<'b, Pk> for Sat<'a, 'b> {
    fn inference_context(&self) -> &types::Context<'b> {
        &self.ctx
    }
    fn lookup_signature(&self, pk: &Pk) -> Option<elements::SchnorrSig> {
        self.k.sigs.get(pk).copied()
    }
    fn lookup_sha256(&self, h: &sha256::Hash) -> Option<Preimage32> {
        self.k.pre.get(h).copied()
    }
    fn check_older(&self, s: elements::Sequence) -> bool {
        if self.k.exact {
            s.0 <= self.k.env.lock_distance()
        } else {
            self.k.env.version >= 2 && Satisfier::<Pk>::check_older(&(&self.ctx, self.tx.input[0].sequence), s)
        }
    }
    fn check_after(&self, l: elements::LockTime) -> bool {
        if self.k.exact {
            match l {
                elements::LockTime::Blocks(h) => h.to_consensus_u32() <= self.k.env.lock_height(),
                _ => false,
            }
        } else {
            self.tx.input[0].sequence.0 != 0xffff_ffff && Satisfier::<Pk>::check_after(&(&self.ctx, self.tx.lock_time), l)
        }
    }
    fn lookup_asm_program(&self, _: Cmr) -> Option<Arc<ConstructNode<'b>>> {
        None
    }
}

/// the harness's own evaluation of the policy under the satisfier's answers (independent of the
/// Lean model): and-both, or-either, threshold-at-least-k
fn truth(p: &Pol, k: &Know) -> bool {
    match p {
        Policy::Trivial => true,
        Policy::Unsatisfiable(_) => false,
        Policy::Key(key) => k.sigs.contains_key(key),
        Policy::Sha256(h) => k.pre.contains_key(h),
        Policy::After(n) => {
            if k.exact {
                *n <= k.env.lock_height()
            } else {
                k.env.seq != 0xffff_ffff && k.env.lock_time < 500_000_000 && *n <= k.env.lock_time
            }
        }
        Policy::Older(n) => {
            if k.exact {
                (*n as u32) <= k.env.lock_distance()
            } else {
                k.env.version >= 2 && k.env.seq & (1 << 31) == 0 && k.env.seq & (1 << 22) == 0 && (*n as u32) <= (k.env.seq & 0xffff)
            }
        }
        Policy::And { left, right } => truth(left, k) && truth(right, k),
        Policy::Or { left, right } => truth(left, k) || truth(right, k),
        Policy::Threshold(kk, subs) => subs.iter().filter(|s| truth(s, k)).count() >= *kk,
    }
}

// ---------------------------------------------------------------------------------------------
// generators

struct GenCfg {
    nkeys: usize,
    nhashes: usize,
    env: EnvSet,
}

fn gen_leaf(r: &mut Rng, w: &World, g: &GenCfg) -> Pol {
    match r.below(12) {
        0 => Policy::Trivial,
        1 => {
            let mut e = [0u8; 64];
            match r.below(3) {
                0 => e = [r.next() as u8; 64],
                1 => e[63] = r.next() as u8,
                _ => e.copy_from_slice(&r.bytes(64)),
            }
            Policy::Unsatisfiable(FailEntropy::from_byte_array(e))
        }
        2 | 3 | 4 => Policy::Key(w.keys[r.below(g.nkeys as u64) as usize]),
        5 | 6 => Policy::Sha256(w.hashes[r.below(g.nhashes as u64) as usize]),
        7 | 8 => {
            let h = g.env.lock_height();
            let lt = g.env.lock_time.min(499_999_999);
            let n = match r.below(8) {
                0 => 0,
                1 => h.saturating_sub(1),
                2 => h,
                3 => (h + 1).min(499_999_999),
                4 => lt,
                5 => 499_999_999,
                6 => r.below(500_000_000) as u32,
                _ => (h as u64 + r.below(5)).saturating_sub(2).min(499_999_999) as u32,
            };
            Policy::After(n)
        }
        _ => {
            let d = g.env.lock_distance();
            let low = g.env.seq & 0xffff;
            let n = match r.below(8) {
                0 => 0,
                1 => d.saturating_sub(1),
                2 => d,
                3 => (d + 1).min(65535),
                4 => low,
                5 => 65535,
                6 => r.below(65536) as u32,
                _ => (low as u64 + r.below(5)).saturating_sub(2).min(65535) as u32,
            };
            Policy::Older(n as u16)
        }
    }
}

fn gen_p(r: &mut Rng, d: usize, w: &World, g: &GenCfg, budget: &mut i32) -> Pol {
    *budget -= 1;
    if d == 0 || *budget <= 0 {
        return gen_leaf(r, w, g);
    }
    match r.below(8) {
        0 | 1 => Policy::And { left: Arc::new(gen_p(r, d - 1, w, g, budget)), right: Arc::new(gen_p(r, d - 1, w, g, budget)) },
        2 | 3 => Policy::Or { left: Arc::new(gen_p(r, d - 1, w, g, budget)), right: Arc::new(gen_p(r, d - 1, w, g, budget)) },
        4 | 5 | 6 => {
            let n = 1 + r.below(5) as usize;
            let subs: Vec<Pol> = (0..n).map(|_| gen_p(r, d - 1, w, g, budget)).collect();
            let k = match r.below(6) {
                0 => 0,
                1 => n,
                _ => r.below(n as u64 + 1) as usize,
            };
            Policy::Threshold(k, subs)
        }
        _ => gen_leaf(r, w, g),
    }
}

/// the same policy with the children of and/or swapped at random and the children of thresholds
/// permuted at random, at every depth
fn shuffle(r: &mut Rng, p: &Pol) -> Pol {
    match p {
        Policy::And { left, right } => {
            let (l, rr) = (Arc::new(shuffle(r, left)), Arc::new(shuffle(r, right)));
            if r.bool() {
                Policy::And { left: l, right: rr }
            } else {
                Policy::And { left: rr, right: l }
            }
        }
        Policy::Or { left, right } => {
            let (l, rr) = (Arc::new(shuffle(r, left)), Arc::new(shuffle(r, right)));
            if r.bool() {
                Policy::Or { left: l, right: rr }
            } else {
                Policy::Or { left: rr, right: l }
            }
        }
        Policy::Threshold(k, subs) => {
            let mut v: Vec<Pol> = subs.iter().map(|s| shuffle(r, s)).collect();
            for i in (1..v.len()).rev() {
                let j = r.below(i as u64 + 1) as usize;
                v.swap(i, j);
            }
            Policy::Threshold(*k, v)
        }
        x => x.clone(),
    }
}

fn gen_env(r: &mut Rng) -> EnvSet {
    let lock_time = match r.below(10) {
        0 => 0,
        1 => 499_999_999,
        2 => 500_000_000 + r.below(1000) as u32,
        3 => r.below(500_000_000) as u32,
        4 => 1 + r.below(3) as u32,
        _ => 90 + r.below(20) as u32,
    };
    let seq = match r.below(12) {
        0 | 1 => 0xffff_ffff,
        2 => 0xffff_fffe,
        3 => (1 << 22) | (5 + r.below(10) as u32),
        4 => (1 << 31) | (5 + r.below(10) as u32),
        5 => 0,
        6 => 0xffff,
        7 => 0x0001_0000 | r.below(20) as u32, // a bit above the 16-bit value: masked away
        _ => 3 + r.below(12) as u32,
    };
    let version = if r.chance(1, 8) { 1 } else { 2 };
    EnvSet { lock_time, seq, version }
}

fn kinds(p: &Pol, out: &mut [bool; 9]) {
    match p {
        Policy::Key(_) => out[0] = true,
        Policy::After(_) => out[1] = true,
        Policy::Older(_) => out[2] = true,
        Policy::Sha256(_) => out[3] = true,
        Policy::And { left, right } => {
            out[4] = true;
            kinds(left, out);
            kinds(right, out);
        }
        Policy::Or { left, right } => {
            out[5] = true;
            kinds(left, out);
            kinds(right, out);
        }
        Policy::Threshold(_, subs) => {
            out[6] = true;
            for s in subs {
                kinds(s, out);
            }
        }
        Policy::Trivial => out[7] = true,
        Policy::Unsatisfiable(_) => out[8] = true,
    }
}
const KIND_NAMES: [&str; 9] = ["pk", "after", "older", "sha256", "and", "or", "threshold", "trivial", "unsatisfiable"];

fn in_domain(p: &Pol) -> bool {
    match p {
        Policy::And { left, right } | Policy::Or { left, right } => in_domain(left) && in_domain(right),
        Policy::Threshold(k, subs) => !subs.is_empty() && *k <= subs.len() && subs.iter().all(in_domain),
        _ => true,
    }
}

// ---------------------------------------------------------------------------------------------
// the cases

fn know_of(w: &World, env: &Env, e: EnvSet, sig_mask: u32, pre_mask: u32, exact: bool) -> Know {
    let sighash = env.c_tx_env().sighash_all();
    let msg = secp256k1_zkp::Message::from_digest(sighash.to_byte_array());
    let mut sigs = HashMap::new();
    for i in 0..N_SIGN_KEYS {
        if sig_mask >> i & 1 == 1 {
            sigs.insert(
                w.keys[i],
                elements::SchnorrSig { sig: w.secp.sign_schnorr_no_aux_rand(&msg, &w.keypairs[i]), hash_ty: elements::SchnorrSighashType::All },
            );
        }
    }
    let mut pre = HashMap::new();
    for i in 0..N_HASHES {
        if pre_mask >> i & 1 == 1 {
            pre.insert(w.hashes[i], w.preimages[i]);
        }
    }
    Know { sigs, pre, env: e, exact }
}

fn sat_line(w: &World, p_text: &str, e: EnvSet, sig_mask: u32, pre_mask: u32, exact: bool) -> String {
    let sigs: Vec<String> = (0..N_SIGN_KEYS).filter(|i| sig_mask >> i & 1 == 1).map(|i| hex(&w.keys[i].serialize())).collect();
    let pres: Vec<String> = (0..N_HASHES).filter(|i| pre_mask >> i & 1 == 1).map(|i| hex(&w.hashes[i].to_byte_array())).collect();
    format!(
        "sat {} {} {} {} {} {} {}",
        if sigs.is_empty() { "-".to_string() } else { sigs.join(",") },
        if pres.is_empty() { "-".to_string() } else { pres.join(",") },
        e.lock_time,
        e.seq,
        e.version,
        if exact { "x" } else { "h" },
        p_text
    )
}

fn runs(prog: &simplicity::RedeemNode, env: &Env) -> Result<(), String> {
    let mut mac = BitMachine::for_program(prog).map_err(|e| format!("for_program: {e}"))?;
    mac.exec(prog, env).map(|_| ()).map_err(|e| format!("exec: {e}"))
}

/// roots + satisfaction of one (policy, availability, environment, satisfier kind)
fn sat_case(ctx: &mut Ctx, w: &World, p: &Pol, p_text: &str, env: &Env, e: EnvSet, sig_mask: u32, pre_mask: u32, exact: bool) {
    let line = sat_line(w, p_text, e, sig_mask, pre_mask, exact);
    let know = know_of(w, env, e, sig_mask, pre_mask, exact);
    let expect = truth(p, &know);
    let res = catch(|| {
        let c1 = p.cmr();
        let c2 = p.commit().cmr();
        let got = types::Context::with_context(|ictx| {
            let sat = Sat { ctx: ictx, k: &know, tx: env.tx() };
            p.satisfy(&sat, env)
        });
        (c1, c2, got)
    });
    let mut ks = [false; 9];
    kinds(p, &mut ks);
    let nontrivial = ks[4] || ks[5] || ks[6];
    ctx.case(if nontrivial { Some(&line) } else { None });
    let (c1, c2, got) = match res {
        Err(msg) => {
            ctx.op(&line, "panic");
            ctx.fail("panic-in-domain", &line, &format!("cmr/commit/satisfy panicked: {msg}"));
            return;
        }
        Ok(x) => x,
    };
    if c1 != c2 {
        ctx.fail("cmr-direct-vs-commit", &line, &format!("Policy::cmr() = {c1}, commit().cmr() = {c2}"));
    }
    ctx.count("oracle:roots-direct-vs-commit");
    let out = match &got {
        Ok(_) => "ok",
        Err(SatisfierError::Unsatisfiable) => "unsat",
        Err(SatisfierError::AssemblyFailed(_)) => "asmfail",
    };
    ctx.op(&line, out);
    match got {
        Ok(prog) => {
            ctx.count("satisfied");
            if !expect {
                ctx.fail("satisfied-but-false", &line, "satisfy returned a program although the satisfier's answers make the policy false");
            }
            if prog.cmr() != c1 {
                ctx.fail("cmr-satisfied", &line, &format!("Policy::cmr() = {c1}, satisfied program = {}", prog.cmr()));
            }
            ctx.count("oracle:roots-satisfied");
            if let Err(m) = runs(&prog, env) {
                ctx.fail("satisfied-program-fails", &line, &m);
            }
            ctx.count("oracle:satisfied-runs");
            // the returned program is already pruned; pruning again gives a program with the same
            // root that runs as well
            match catch(|| prog.prune(env)) {
                Ok(Ok(p2)) => {
                    if p2.cmr() != c1 {
                        ctx.fail("cmr-pruned", &line, &format!("Policy::cmr() = {c1}, re-pruned program = {}", p2.cmr()));
                    }
                    if let Err(m) = runs(&p2, env) {
                        ctx.fail("pruned-program-fails", &line, &m);
                    }
                    ctx.count("oracle:pruned-root-and-runs");
                }
                Ok(Err(e2)) => ctx.fail("pruned-program-fails", &line, &format!("prune of the satisfied program: {e2}")),
                Err(m) => ctx.fail("panic-in-domain", &line, &format!("prune of the satisfied program panicked: {m}")),
            }
        }
        Err(SatisfierError::Unsatisfiable) => {
            ctx.count("unsatisfied");
            if expect {
                ctx.fail("true-but-unsatisfied", &line, "satisfy answered Unsatisfiable although the satisfier's answers make the policy true");
            }
        }
        Err(SatisfierError::AssemblyFailed(err)) => {
            ctx.fail("assembly-failed", &line, &format!("honest satisfier, policy {} under its answers, yet the assembled program fails: {err}", expect));
        }
    }
    ctx.count("oracle:satisfy-iff-true");
    let tag = if expect { "sat" } else { "unsat" };
    for (i, k) in ks.iter().enumerate() {
        if *k {
            ctx.count(&format!("reach:{}:{}", KIND_NAMES[i], tag));
        }
    }
    ctx.count(if exact { "satisfier:exact" } else { "satisfier:helper" });
    if ctx.want_sample() && nontrivial && ctx.n_ops % 97 == 0 {
        ctx.sample(&format!("{line} -> {out}"));
    }
}

/// sorting (and normalisation) of one policy and of one reordering of it
fn sort_case(ctx: &mut Ctx, p: &Pol, q: &Pol) {
    let (pt, qt) = (enc(p), enc(q));
    let case = format!("sortpair {pt} | {qt}");
    let res = catch(|| {
        let s1 = p.clone().sorted();
        let s11 = s1.clone().sorted();
        let s2 = q.clone().sorted();
        (s1, s11, s2, p.clone().normalized())
    });
    ctx.case(None);
    let (s1, s11, s2, nm) = match res {
        Err(m) => {
            ctx.fail("panic-in-domain", &case, &format!("sorted/normalized panicked: {m}"));
            return;
        }
        Ok(x) => x,
    };
    ctx.op(&format!("sort {pt}"), &enc(&s1));
    if qt != pt {
        ctx.op(&format!("sort {qt}"), &enc(&s2));
        ctx.count("sort:reordered-differs-textually");
    }
    ctx.op(&format!("norm {pt}"), &enc(&nm));
    if s11 != s1 {
        ctx.fail("sort-not-idempotent", &case, &format!("sorted = {} ; sorted twice = {}", enc(&s1), enc(&s11)));
    }
    if s2 != s1 {
        ctx.fail("sort-not-permutation-invariant", &case, &format!("sorted(p) = {} ; sorted(q) = {}", enc(&s1), enc(&s2)));
    }
    ctx.count("oracle:sort-idempotent");
    ctx.count("oracle:sort-permutation-invariant");
    let mut ks = [false; 9];
    kinds(p, &mut ks);
    for (i, k) in ks.iter().enumerate() {
        if *k {
            ctx.count(&format!("reach:{}:sort", KIND_NAMES[i]));
        }
    }
    if s1 != *p {
        ctx.count("sort:changed-the-policy");
    }
    if nm != *p {
        ctx.count("norm:changed-the-policy");
    }
}

/// `dom`: the panics of `serialize::threshold` are exactly the model's domain predicate
fn dom_case(ctx: &mut Ctx, p: &Pol) {
    let pt = enc(p);
    let ok = catch(|| (p.cmr(), p.commit().cmr())).is_ok();
    ctx.op(&format!("dom {pt}"), if ok { "in" } else { "out" });
    ctx.case(None);
    if in_domain(p) && !ok {
        ctx.fail("panic-in-domain", &format!("dom {pt}"), "cmr/commit panicked on a policy whose thresholds have 1 <= n and k <= n");
    }
    ctx.count(if ok { "dom:in" } else { "dom:out(panics by design)" });
}

/// the text form compares keys, hashes and entropy as big-endian numbers of their bytes: check that
/// the Rust `Ord` of the three types is the lexicographic order of those bytes
fn check_order_assumption(ctx: &mut Ctx, w: &World) {
    let mut bad = 0;
    for a in &w.keys {
        for b in &w.keys {
            if a.cmp(b) != a.serialize().cmp(&b.serialize()) {
                bad += 1;
            }
        }
    }
    for a in &w.hashes {
        for b in &w.hashes {
            if a.cmp(b) != a.to_byte_array().cmp(&b.to_byte_array()) {
                bad += 1;
            }
        }
    }
    let mut r = ctx.rng.fork();
    let es: Vec<[u8; 64]> = (0..24)
        .map(|i| {
            let mut e = [0u8; 64];
            if i % 3 == 0 {
                e[r.below(64) as usize] = r.next() as u8;
            } else {
                e.copy_from_slice(&r.bytes(64));
            }
            e
        })
        .collect();
    for a in &es {
        for b in &es {
            if FailEntropy::from_byte_array(*a).cmp(&FailEntropy::from_byte_array(*b)) != a.cmp(b) {
                bad += 1;
            }
        }
    }
    ctx.count_n("assumption:ord-is-byte-order-pairs-checked", (w.keys.len() * w.keys.len() + w.hashes.len() * w.hashes.len() + es.len() * es.len()) as u64);
    if bad > 0 {
        ctx.fail("harness-assumption-byte-order", "order of keys/hashes/entropy", &format!("{bad} pairs on which the Rust Ord is not the byte order the text form assumes"));
    }
}

pub fn replay(ctx: &mut Ctx, case: &str) {
    let w = World::new();
    let t: Vec<&str> = case.split_whitespace().collect();
    if t.is_empty() {
        return;
    }
    match t[0] {
        "sat" if t.len() >= 8 => {
            let e = EnvSet { lock_time: t[3].parse().unwrap(), seq: t[4].parse().unwrap(), version: t[5].parse().unwrap() };
            let exact = t[6] == "x";
            let mask = |s: &str, names: Vec<String>| -> u32 {
                if s == "-" {
                    return 0;
                }
                let mut m = 0;
                for h in s.split(',') {
                    if let Some(i) = names.iter().position(|n| n == h) {
                        m |= 1 << i;
                    }
                }
                m
            };
            let sig_mask = mask(t[1], (0..N_SIGN_KEYS).map(|i| hex(&w.keys[i].serialize())).collect());
            let pre_mask = mask(t[2], (0..N_HASHES).map(|i| hex(&w.hashes[i].to_byte_array())).collect());
            if let Some(p) = dec_all(&t[7..]) {
                let env = env_with(e);
                sat_case(ctx, &w, &p, &enc(&p), &env, e, sig_mask, pre_mask, exact);
            }
        }
        "sortpair" => {
            let rest = &t[1..];
            if let Some(bar) = rest.iter().position(|x| *x == "|") {
                if let (Some(p), Some(q)) = (dec_all(&rest[..bar]), dec_all(&rest[bar + 1..])) {
                    sort_case(ctx, &p, &q);
                }
            }
        }
        "dom" => {
            if let Some(p) = dec_all(&t[1..]) {
                dom_case(ctx, &p);
            }
        }
        _ => {}
    }
}

pub fn run(ctx: &mut Ctx) {
    let w = World::new();
    check_order_assumption(ctx, &w);

    // 0. the counterexample of the repaired sort defect and a few fixed shapes first
    {
        let a = |n| Policy::<Pk>::After(n);
        let p = Policy::And { left: Arc::new(Policy::Or { left: Arc::new(a(1)), right: Arc::new(a(2)) }), right: Arc::new(a(3)) };
        let q = Policy::And { left: Arc::new(Policy::Or { left: Arc::new(a(2)), right: Arc::new(a(1)) }), right: Arc::new(a(3)) };
        sort_case(ctx, &p, &q);
        let t = Policy::Threshold(1, vec![q.clone(), p.clone(), Policy::Key(w.keys[1]), Policy::Key(w.keys[0])]);
        let mut r = ctx.rng.fork();
        let t2 = shuffle(&mut r, &t);
        sort_case(ctx, &t, &t2);
    }

    // 1. outside the domain: the excluded points of `satisfy_iff` run on the real code
    {
        let mut r = ctx.rng.fork();
        let g = GenCfg { nkeys: N_SIGN_KEYS, nhashes: N_HASHES, env: EnvSet { lock_time: 100, seq: 10, version: 2 } };
        for i in 0..ctx.scale(40, 400) {
            let n = r.below(4) as usize;
            let subs: Vec<Pol> = (0..n).map(|_| gen_leaf(&mut r, &w, &g)).collect();
            let k = if n == 0 { r.below(2) as usize } else { n + 1 + r.below(2) as usize };
            let bad = Policy::Threshold(k, subs);
            let p = match i % 3 {
                0 => bad,
                1 => Policy::And { left: Arc::new(Policy::Trivial), right: Arc::new(bad) },
                _ => Policy::Threshold(1, vec![Policy::Trivial, bad]),
            };
            dom_case(ctx, &p);
        }
    }

    // 1b. observation (not part of C16's quantifier, never a failure): the library's helper
    //     satisfiers used WITHOUT the guards are not honest — `(ctx, LockTime)::check_after` compares
    //     heights only (a final sequence disables the lock time), `(ctx, Sequence)::check_older`
    //     ignores the transaction version — and `satisfy` then answers `AssemblyFailed`
    {
        struct Raw<'a, 'b> {
            ctx: types::Context<'b>,
            tx: &'a elements::Transaction,
        }
        impl<'a, 'b> Satisfier<'b, Pk> for Raw<'a, 'b> {
            fn inference_context(&self) -> &types::Context<'b> {
                &self.ctx
            }
            fn check_older(&self, s: elements::Sequence) -> bool {
                Satisfier::<Pk>::check_older(&(&self.ctx, self.tx.input[0].sequence), s)
            }
            fn check_after(&self, l: elements::LockTime) -> bool {
                Satisfier::<Pk>::check_after(&(&self.ctx, self.tx.lock_time), l)
            }
        }
        for (e, p) in [
            (EnvSet { lock_time: 100, seq: 0xffff_ffff, version: 2 }, Policy::<Pk>::After(100)),
            (EnvSet { lock_time: 100, seq: 7, version: 1 }, Policy::<Pk>::Older(7)),
            (EnvSet { lock_time: 100, seq: 7, version: 2 }, Policy::<Pk>::And { left: Arc::new(Policy::After(100)), right: Arc::new(Policy::Older(7)) }),
        ] {
            let env = env_with(e);
            let got = catch(|| {
                types::Context::with_context(|ictx| {
                    let sat = Raw { ctx: ictx, tx: env.tx() };
                    p.satisfy(&sat, &env).map(|_| ())
                })
            });
            let out = match got {
                Ok(Ok(())) => "ok",
                Ok(Err(SatisfierError::Unsatisfiable)) => "unsat",
                Ok(Err(SatisfierError::AssemblyFailed(_))) => "asmfail",
                Err(_) => "panic",
            };
            ctx.count(&format!("observation:unguarded-helper-satisfier:{out}"));
            ctx.note(&format!(
                "observation (outside C16: the satisfier is not honest): unguarded library helper satisfiers, policy `{}`, lockTime={} sequence={:#x} version={} -> satisfy: {}",
                enc(&p), e.lock_time, e.seq, e.version, out
            ));
        }
    }

    // 2. random policies × environment × availability × satisfier kind; sorting of each
    let iters = ctx.scale(5_000, 40_000);
    let all_subsets_every = ctx.scale(120, 60);
    for it in 0..iters {
        let mut r = ctx.rng.fork();
        let e = gen_env(&mut r);
        let g = GenCfg { nkeys: N_SIGN_KEYS, nhashes: N_HASHES, env: e };
        let depth = 1 + (it % 4) as usize;
        let mut budget = 40;
        let p = gen_p(&mut r, depth, &w, &g, &mut budget);
        let pt = enc(&p);
        let env = env_with(e);
        if it % all_subsets_every == 0 {
            let exact = r.bool();
            for m in 0..128u32 {
                sat_case(ctx, &w, &p, &pt, &env, e, m & 15, m >> 4, exact);
            }
            ctx.count("policies-with-all-128-subsets");
        } else {
            let reps = 1 + r.below(3);
            for _ in 0..reps {
                let sig_mask = match r.below(6) {
                    0 => 15,
                    1 => 0,
                    _ => r.below(16) as u32,
                };
                let pre_mask = match r.below(6) {
                    0 => 7,
                    1 => 0,
                    _ => r.below(8) as u32,
                };
                sat_case(ctx, &w, &p, &pt, &env, e, sig_mask, pre_mask, r.bool());
            }
        }
        let q = shuffle(&mut r, &p);
        sort_case(ctx, &p, &q);
        if it % 16 == 0 {
            dom_case(ctx, &p);
        }
    }

    // 3. sorting over a wider alphabet (16 keys, 8 hash images, entropy differing in one byte), deeper
    //    trees, several reorderings of each
    let iters = ctx.scale(3_000, 30_000);
    for it in 0..iters {
        let mut r = ctx.rng.fork();
        let g = GenCfg { nkeys: w.keys.len(), nhashes: w.hashes.len(), env: EnvSet { lock_time: 3, seq: 2, version: 2 } };
        let mut budget = 60;
        let p = gen_p(&mut r, 2 + (it % 4) as usize, &w, &g, &mut budget);
        for _ in 0..2 {
            let q = shuffle(&mut r, &p);
            sort_case(ctx, &p, &q);
        }
    }
}
