//! C01 — program and witness bit-encoding round-trips.
//!
//! ops: `enc R <plan> W:i:bits… T:… C:… K:…` → `prog=<hex> wit=<hex>`   (to_vec_with_witness)
//!      `enc C <plan> T:… C:… K:…`           → `prog=<hex>`             (to_vec_without_witness)
//!      `dec <prog hex> <wit hex> T:… C:… K:…` → `ok <n> <cmr> <ihr> <amr> <cost> A <arrows> W <values>` | `err`
//!      The model encodes the plan itself (types by the reference unifier, identity roots by
//!      SHA-256, post order under the encoder's sharing, back references, compact witness stream)
//!      and decodes the bytes itself (node list, canonical order, inference, witness stream).
//! oracle (implementation alone): decoding the serialisation succeeds; the decoded program has the
//! same commitment root, the same arrow, identity root and annotated root at every node, the same
//! witness value at every witness node; re-serialising reproduces the bytes.

use crate::codec::{self, Dec};
use crate::ctx::{catch, Ctx};
use crate::gen::{self, GenCfg, PNode, Plan};
use crate::progs;
use simplicity::node::Inner;
use simplicity::{BitIter, CommitNode, RedeemNode};
use std::collections::HashSet;

pub const RULE: &str = "type-directed 1→1 plans (all node kinds incl. Elements jets, words, fail, assertions with hidden roots, disconnect with branch, witness-selected cases; pooled sharing: diamonds, repeated children) built in a fresh context, random witness values of the inferred types; commit-time encodings for plans whose witness/disconnect-containing sub-expressions occur once; non-trivial = at least 8 nodes; distinct by (plan, witnesses)";

/// node-by-node comparison of two redeem DAGs with the same shape
fn same(a: &RedeemNode, b: &RedeemNode, seen: &mut HashSet<(usize, usize)>) -> Result<(), String> {
    let key = (a as *const _ as usize, b as *const _ as usize);
    if !seen.insert(key) {
        return Ok(());
    }
    if a.cmr() != b.cmr() {
        return Err(format!("cmr {} vs {}", a.cmr(), b.cmr()));
    }
    if a.arrow().source != b.arrow().source || a.arrow().target != b.arrow().target {
        return Err(format!("arrow {} vs {}", a.arrow(), b.arrow()));
    }
    if a.ihr() != b.ihr() {
        return Err(format!("ihr {} vs {}", a.ihr(), b.ihr()));
    }
    if a.amr() != b.amr() {
        return Err(format!("amr {} vs {}", a.amr(), b.amr()));
    }
    match (a.inner(), b.inner()) {
        (Inner::Witness(v), Inner::Witness(w)) => {
            if gen::value_compact_text(v) != gen::value_compact_text(w) || v.ty() != w.ty() {
                return Err(format!("witness {v} vs {w}"));
            }
        }
        (Inner::InjL(x), Inner::InjL(y)) | (Inner::InjR(x), Inner::InjR(y)) | (Inner::Take(x), Inner::Take(y)) | (Inner::Drop(x), Inner::Drop(y)) => same(x, y, seen)?,
        (Inner::AssertL(x, h), Inner::AssertL(y, k)) | (Inner::AssertR(h, x), Inner::AssertR(k, y)) => {
            if h != k {
                return Err("hidden root differs".into());
            }
            same(x, y, seen)?
        }
        (Inner::Comp(x1, x2), Inner::Comp(y1, y2)) | (Inner::Case(x1, x2), Inner::Case(y1, y2)) | (Inner::Pair(x1, x2), Inner::Pair(y1, y2)) | (Inner::Disconnect(x1, x2), Inner::Disconnect(y1, y2)) => {
            same(x1, y1, seen)?;
            same(x2, y2, seen)?
        }
        (x, y) => {
            if progs::inner_kind(x) != progs::inner_kind(y) {
                return Err(format!("node kind {} vs {}", progs::inner_kind(x), progs::inner_kind(y)));
            }
        }
    }
    Ok(())
}

/// at commitment time, sub-expressions containing witness or disconnect nodes must occur once
fn commit_time_ok(plan: &Plan) -> bool {
    let n = plan.nodes.len();
    let mut unique = vec![false; n];
    let mut indeg = vec![0usize; n];
    for i in 0..n {
        let ch = match &plan.nodes[i] {
            PNode::Disconnect(a, _) => vec![*a],
            nd => nd.children(),
        };
        unique[i] = matches!(plan.nodes[i], PNode::Witness | PNode::Disconnect(..)) || ch.iter().any(|c| unique[*c]);
    }
    // in-degree counted over the commit-time DAG reachable from the root (tree multiplicity matters:
    // a unique node under a shared non-unique parent is impossible, parents of unique nodes are unique)
    let mut stack = vec![plan.root()];
    let mut seen = vec![false; n];
    while let Some(i) = stack.pop() {
        if seen[i] {
            continue;
        }
        seen[i] = true;
        let ch = match &plan.nodes[i] {
            PNode::Disconnect(a, _) => vec![*a],
            nd => nd.children(),
        };
        for c in ch {
            indeg[c] += 1;
            stack.push(c);
        }
    }
    (0..n).all(|i| !(unique[i] && indeg[i] > 1))
}

pub fn one(ctx: &mut Ctx, plan: &Plan) -> bool {
    let tables = progs::jet_types(plan);
    // redemption time
    let built = catch(|| gen::redeem_of_plan(plan, &mut ctx.rng.fork(), true));
    let (red, wits) = match built {
        Ok(Ok(x)) => x,
        Ok(Err(_)) => return false,
        Err(p) => {
            ctx.fail("panic-finalize", &format!("enc R {}", plan.text()), &p);
            return true;
        }
    };
    let line = format!("enc R {}{}", plan.text(), progs::extras(plan, &wits, &[]));
    let (pb, wb) = red.to_vec_with_witness();
    ctx.op(&line, &format!("prog={} wit={}", gen::hex(&pb), gen::hex(&wb)));
    let nontrivial = plan.nodes.len() >= 8;
    ctx.case(if nontrivial { Some(&line) } else { None });
    for k in plan.kinds() {
        ctx.count(&format!("reach:redeem-{k}"));
    }
    if ctx.want_sample() && nontrivial {
        ctx.sample(&format!("{} -> prog={} wit={}", &line[..line.len().min(300)], gen::hex(&pb), gen::hex(&wb)));
    }
    match codec::decode_redeem(&pb, &wb) {
        Dec::Ok(r2) => {
            ctx.op(&format!("dec {} {}{}", gen::hex(&pb), gen::hex(&wb), tables), &codec::describe(&r2));
            if let Err(e) = same(&red, &r2, &mut HashSet::new()) {
                ctx.fail("roundtrip-differs", &line, &e);
            }
            let (pb2, wb2) = r2.to_vec_with_witness();
            if pb2 != pb || wb2 != wb {
                ctx.fail("reencoding-differs", &line, &format!("prog {} wit {} re-encode to prog {} wit {}", gen::hex(&pb), gen::hex(&wb), gen::hex(&pb2), gen::hex(&wb2)));
            }
            ctx.count("reach:redeem-roundtrip");
        }
        Dec::Err(e) => ctx.fail("own-serialisation-rejected", &line, &format!("RedeemNode::decode: {e}; prog {} wit {}", gen::hex(&pb), gen::hex(&wb))),
        Dec::Panic(p) => ctx.fail("panic-decode", &line, &p),
    }
    // commitment time: disconnect nodes are holes there (a branch attached at construction time
    // would constrain the types of a program it is not part of: outside C01's quantifier)
    let mut cplan = plan.clone();
    for n in cplan.nodes.iter_mut() {
        if let PNode::Disconnect(a, Some(_)) = n {
            *n = PNode::Disconnect(*a, None);
        }
    }
    let cplan = cplan.compacted();
    let plan = &cplan;
    let tables = progs::jet_types(plan);
    if commit_time_ok(plan) {
        if let Ok(Ok(commit)) = catch(|| gen::commit_of_plan(plan, None, true)) {
            let cline = format!("enc C {}{}", plan.text(), tables);
            let cb = commit.to_vec_without_witness();
            ctx.op(&cline, &format!("prog={}", gen::hex(&cb)));
            // commitment-time identity roots, node by node (the encoder shares by them)
            let aligned = gen::align_commit(plan, &commit);
            let items: Vec<String> = (0..plan.nodes.len())
                .map(|i| match &aligned[i] {
                    None => ".".to_string(),
                    Some(n) => n.ihr().map(|h| gen::hex(h.as_ref())).unwrap_or_else(|| "-".to_string()),
                })
                .collect();
            ctx.op(&format!("cihr {}{}", plan.text(), tables), &format!("ihrs {}", items.join(" ")));
            ctx.count("reach:commit-identity-roots-compared");
            for k in plan.kinds() {
                ctx.count(&format!("reach:commit-{k}"));
            }
            match catch(|| CommitNode::decode::<_, simplicity::jet::Elements>(BitIter::from(&cb[..]))) {
                Ok(Ok(c2)) => {
                    ctx.count("reach:commit-roundtrip");
                    if c2.cmr() != commit.cmr() || c2.arrow().source != commit.arrow().source || c2.ihr() != commit.ihr() {
                        ctx.fail("commit-roundtrip-differs", &cline, "root cmr/arrow/ihr changes");
                    }
                    let cb2 = c2.to_vec_without_witness();
                    if cb2 != cb {
                        ctx.fail("commit-reencoding-differs", &cline, &format!("{} re-encodes to {}", gen::hex(&cb), gen::hex(&cb2)));
                    }
                }
                Ok(Err(e)) => ctx.fail("own-commit-serialisation-rejected", &cline, &format!("CommitNode::decode: {e}; prog {}", gen::hex(&cb))),
                Err(p) => ctx.fail("panic-commit-decode", &cline, &p),
            }
        } else {
            ctx.count("commit-time-skipped:not-a-program-without-branches");
        }
    } else {
        ctx.count("commit-time-skipped:shared-unique-subexpression");
    }
    true
}

/// `comp (pair w_1 (pair w_2 (… w_k))) unit` with every witness pinned to a type from the zoo (sums
/// with equal-width branches padded on one side only, nested), the last one a bit or a byte: every
/// witness value must come back bit for bit whatever follows it in the stream
fn witness_zoo(ctx: &mut Ctx) -> bool {
    let k = 2 + ctx.rng.below(3) as usize;
    let mut tys = vec![];
    for i in 0..k {
        let t = if i + 1 == k && ctx.rng.bool() {
            gen::T::word(ctx.rng.below(4) as u32)
        } else {
            let d = 1 + ctx.rng.below(3) as usize;
            gen::gen_t_zoo(&mut ctx.rng, d)
        };
        if t.size() > 24 {
            return false;
        }
        tys.push(t);
    }
    let plan = gen::witness_zoo_plan(&mut ctx.rng.fork(), &tys);
    for t in &tys {
        let (s, l, r) = gen::padding_profile(t);
        ctx.count_n("zoo:sums", s as u64);
        ctx.count_n("zoo:equal-width-sums-left-padded-only", l as u64);
        ctx.count_n("zoo:equal-width-sums-right-padded-only", r as u64);
    }
    if one(ctx, &plan) {
        ctx.count("reach:witness-zoo");
        true
    } else {
        false
    }
}

/// `assertl x H` and `assertr H x` over the same `x` and the same hidden root in one program: at
/// commitment time the two have different identity roots (left and right are not interchangeable)
/// and must both survive the round trip
fn twin_assertions(ctx: &mut Ctx) {
    use PNode::*;
    for shape in 0..3 {
        let mut h = [0u8; 32];
        h.copy_from_slice(&ctx.rng.bytes(32));
        let mut nodes: Vec<PNode> = vec![];
        let mut push = |nodes: &mut Vec<PNode>, n: PNode| {
            nodes.push(n);
            nodes.len() - 1
        };
        // x : A × C → D, used under both assertions (one node object: the two summands coincide)
        let x = match shape {
            0 => push(&mut nodes, Unit),
            1 => {
                let i = push(&mut nodes, Iden);
                push(&mut nodes, Drop(i))
            }
            _ => {
                let u = push(&mut nodes, Unit);
                push(&mut nodes, Take(u))
            }
        };
        let al = push(&mut nodes, AssertL(x, h));
        let ar = push(&mut nodes, AssertR(h, x));
        let mut side = |nodes: &mut Vec<PNode>, left: bool, a: usize| {
            let u = push(nodes, Unit);
            let inj = push(nodes, if left { InjL(u) } else { InjR(u) });
            let u2 = push(nodes, Unit);
            let p = push(nodes, Pair(inj, u2));
            push(nodes, Comp(p, a))
        };
        let l = side(&mut nodes, true, al);
        let r = side(&mut nodes, false, ar);
        let p = push(&mut nodes, Pair(l, r));
        let u = push(&mut nodes, Unit);
        push(&mut nodes, Comp(p, u));
        if one(ctx, &Plan { nodes }) {
            ctx.count("reach:twin-assertions");
        }
    }
}

pub fn run(ctx: &mut Ctx) {
    twin_assertions(ctx);
    let nz = ctx.scale(250, 8000);
    let mut done = 0;
    for _ in 0..20 * nz {
        if done >= nz {
            break;
        }
        if witness_zoo(ctx) {
            done += 1;
        }
    }
    let n = ctx.scale(600, 15_000);
    let mut it = 0u64;
    let mut done = 0;
    while done < n && it < 20 * n {
        it += 1;
        let jets = it % 3 == 0;
        let cfg = GenCfg { fail: it % 5 == 0, jets, jet_pool: if jets && it % 2 == 0 { progs::simple_jets() } else { vec![] }, pin_witness: it % 2 == 0, share_16: 2 + (it % 7), ..GenCfg::default() };
        let plan = gen::gen_program(&mut ctx.rng, cfg, 2 + (it % 6) as usize);
        if plan.nodes.len() > 150 || plan.nodes.len() < 2 {
            continue;
        }
        if one(ctx, &plan) {
            done += 1;
        }
    }
}

pub fn replay(ctx: &mut Ctx, case: &str) {
    let toks: Vec<&str> = case.split_whitespace().collect();
    if toks.len() > 2 && toks[0] == "enc" {
        if let Some((plan, _)) = Plan::parse(&toks[2..]) {
            one(ctx, &plan);
        }
    }
    let _ = RedeemNode::decode::<std::vec::IntoIter<u8>, std::vec::IntoIter<u8>, simplicity::jet::Elements>;
}
