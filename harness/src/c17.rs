//! C17 — the human-readable encoding round-trips; parsing terminates on every string.
//!
//! ops (Lean model `HumanLex/HumanTy/HumanText/HumanProg.lean`, driver `Driver/C17.lean`):
//!   `render P|N <plan> T:… C:…`  → `ok <statements>`: the model of
//!        `Forest::from_program(commit).string_serialize()` — conversion under MaxSharing, the
//!        Namer's names, the pointer walk, the three sections, every spelling, the type printer —
//!        compared with the real text after dropping comment lines and collapsing white space;
//!   `parse <text hex> T:… C:…`   → `ok <root cmr> <nodes>` | `no`: the model's lexer + parser of the
//!        rendered grammar + name resolution + type check against the annotations, on rendered texts
//!        and on mutations of them that stay inside the flat grammar (reorder, swap children,
//!        duplicate / delete a line, change an annotation, rename, change a literal, rewire);
//!   `lex <text hex>`             → `ok` | `lexerr`: the model's lexer on arbitrary strings;
//!   `ty <type>`                  → `<printed> back|noparse`: type printer and type parser
//!        (including the nesting limit).
//! oracle (implementation alone):
//!   committed program → `from_program` → `string_serialize` → `parse` → one root `main`, same CMR,
//!   same name / kind / literal data / arrow / IHR at every node object (lock-step walk of both DAGs),
//!   same `to_vec_without_witness` bytes (also against the commit's own bytes when those decode)
//!   → render again (identical text) → parse again;
//!   generated source text → `parse` → the same round trip, and the CMR of the API-built program;
//!   the arrows of the parsed forest written back as annotations are accepted;
//!   arbitrary strings → `parse` returns (no panic, no abort, no hang: 10^5 levels of nesting run in
//!   child processes with a time limit), and whatever parses to a single program round-trips.
//! classes: one per clause (`reparse-cmr`, `reparse-node-differs`, `reparse-encoding`,
//!   `render-not-fixpoint`, `second-generation`, `panic-*`, `abort-on-nesting`, `hang-on-nesting`, …) and
//!   one per repaired defect, by cause of the re-parse error (`fail-entropy-no-0x`,
//!   `type-2exp-over-512`, `type-display-truncated`, `namer-name-collision`,
//!   `rendered-annotation-rejected`, `rendered-text-rejected`).

use crate::ctx::{catch, Ctx, Rng};
use crate::gen::{self, GenCfg, PNode, Plan, T};
use crate::progs;
use simplicity::dag::{DagLike, InternalSharing};
use simplicity::human_encoding::{Error as HErr, Forest, NamedCommitNode};
use simplicity::jet::Elements;
use simplicity::node::Inner;
use simplicity::{Cmr, CommitNode};
use std::collections::{BTreeSet, HashMap, HashSet};
use std::sync::Arc;
use std::time::{Duration, Instant};

pub const RULE: &str = "committed programs from the type-directed plan generator (all node kinds, hole-only disconnects, hidden roots, words up to 4096 bits, jets, shared node objects and repeated equal sub-expressions; sub-expressions that contain a witness or disconnect have one parent, as the library requires at commitment time — a shared witness OBJECT has no text form) rendered and reparsed; source texts generated from plans (inline and named sub-expressions, duplicated sub-expressions, #{expr} and literal roots, holes, annotations, aliases, comments); arbitrary strings; non-trivial = at least 5 nodes / 5 statements / 16 bytes; distinct by plan or text";

// ------------------------------------------------------------------------------------------ helpers

fn hex_of(s: &str) -> String {
    if s.is_empty() {
        "-".into()
    } else {
        gen::hex(s.as_bytes())
    }
}

/// comment lines dropped, white space collapsed
fn canon(text: &str) -> String {
    let mut toks: Vec<&str> = Vec::new();
    for l in text.lines() {
        if l.trim_start().starts_with("--") {
            continue;
        }
        toks.extend(l.split_whitespace());
    }
    toks.join(" ")
}

fn err_kinds(e: &simplicity::human_encoding::ErrorSet) -> BTreeSet<&'static str> {
    e.iter()
        .map(|e| match e {
            HErr::Bad2ExpNumber(..) => "bad-2exp",
            HErr::BadWordLength { .. } => "bad-word-length",
            HErr::EntropyInsufficient { .. } => "entropy-insufficient",
            HErr::EntropyTooMuch { .. } => "entropy-too-much",
            HErr::HoleAtCommitTime { .. } => "hole-at-commit",
            HErr::HoleFilledAtCommitTime => "hole-filled",
            HErr::NameIllegal(_) => "name-illegal",
            HErr::NameIncomplete(_) => "name-incomplete",
            HErr::NameMissing(_) => "name-missing",
            HErr::NameRepeated(_) => "name-repeated",
            HErr::NoMain => "no-main",
            HErr::ParseFailed(_) => "parse-failed",
            HErr::LexFailed(_) => "lex-failed",
            HErr::NumberOutOfRange(_) => "number-out-of-range",
            HErr::TypeCheck(_) => "type-check",
            HErr::Undefined(_) => "undefined",
            HErr::UnknownJet(_) => "unknown-jet",
            HErr::WitnessDisconnectRepeated { .. } => "witness-repeated",
        })
        .collect()
}

fn kind_of(n: &NamedCommitNode) -> &'static str {
    match n.inner() {
        Inner::Iden => "iden",
        Inner::Unit => "unit",
        Inner::InjL(_) => "injl",
        Inner::InjR(_) => "injr",
        Inner::Take(_) => "take",
        Inner::Drop(_) => "drop",
        Inner::Comp(..) => "comp",
        Inner::Case(..) => "case",
        Inner::Pair(..) => "pair",
        Inner::AssertL(..) => "assertl",
        Inner::AssertR(..) => "assertr",
        Inner::Disconnect(..) => "disconnect",
        Inner::Witness(_) => "witness",
        Inner::Fail(_) => "fail",
        Inner::Word(_) => "word",
        Inner::Jet(_) => "jet",
    }
}

/// lock-step walk of two named DAGs: same shape, names, payloads, roots and arrows at every node;
/// returns the number of node objects, or what differs
fn compare_named(a: &Arc<NamedCommitNode>, b: &Arc<NamedCommitNode>, names: bool) -> Result<usize, String> {
    let mut seen: HashMap<*const NamedCommitNode, *const NamedCommitNode> = HashMap::new();
    let mut stack = vec![(a.clone(), b.clone())];
    while let Some((x, y)) = stack.pop() {
        let (px, py) = (Arc::as_ptr(&x), Arc::as_ptr(&y));
        if let Some(prev) = seen.get(&px) {
            if *prev != py {
                return Err(format!("sharing differs at {}", x.name()));
            }
            continue;
        }
        seen.insert(px, py);
        if kind_of(&x) != kind_of(&y) {
            return Err(format!("kind {} vs {} at {}", kind_of(&x), kind_of(&y), x.name()));
        }
        if names && x.name() != y.name() {
            return Err(format!("name {} vs {}", x.name(), y.name()));
        }
        if x.cmr() != y.cmr() {
            return Err(format!("cmr differs at {}", x.name()));
        }
        if x.arrow() != y.arrow() {
            return Err(format!("arrow differs at {}: {} vs {}", x.name(), x.arrow(), y.arrow()));
        }
        if x.ihr() != y.ihr() {
            return Err(format!("ihr differs at {}", x.name()));
        }
        let same_payload = match (x.inner(), y.inner()) {
            (Inner::AssertL(_, h), Inner::AssertL(_, k)) => h == k,
            (Inner::AssertR(h, _), Inner::AssertR(k, _)) => h == k,
            (Inner::Disconnect(_, h), Inner::Disconnect(_, k)) => !names || h == k,
            (Inner::Fail(e), Inner::Fail(f)) => e.as_ref() == f.as_ref(),
            (Inner::Word(w), Inner::Word(v)) => w == v,
            (Inner::Jet(j), Inner::Jet(k)) => j == k,
            _ => true,
        };
        if !same_payload {
            return Err(format!("payload differs at {}", x.name()));
        }
        match (x.left_child(), y.left_child()) {
            (Some(l), Some(m)) => stack.push((l.clone(), m.clone())),
            (None, None) => {}
            _ => return Err(format!("arity differs at {}", x.name())),
        }
        match (x.right_child(), y.right_child()) {
            (Some(l), Some(m)) => stack.push((l.clone(), m.clone())),
            (None, None) => {}
            _ => return Err(format!("arity differs at {}", x.name())),
        }
    }
    // the second DAG must not share more than the first
    let nb = b.as_ref().post_order_iter::<InternalSharing>().count();
    if nb != seen.len() {
        return Err(format!("{} node objects vs {}", seen.len(), nb));
    }
    Ok(seen.len())
}

/// classify a re-parse failure of a rendered text by its cause
fn reparse_class(text: &str, e: &simplicity::human_encoding::ErrorSet) -> &'static str {
    let kinds = err_kinds(e);
    if text.contains("...") {
        "type-display-truncated"
    } else if kinds.contains("bad-2exp") {
        "type-2exp-over-512"
    } else if text.contains(" := fail ") && (kinds.contains("parse-failed") || kinds.contains("lex-failed") || kinds.contains("entropy-insufficient")) {
        "fail-entropy-no-0x"
    } else if kinds.contains("name-repeated") {
        "namer-name-collision"
    } else if kinds.contains("type-check") {
        "rendered-annotation-rejected"
    } else {
        "rendered-text-rejected"
    }
}

struct Round {
    nodes: usize,
    text: String,
}

/// the property on one forest with the single root `main`: render → parse → compare → render → parse.
/// `Err((class, detail))` names the first clause that fails.
fn round_trip(forest: &Forest, reference_bytes: Option<&[u8]>) -> Result<Round, (&'static str, String)> {
    let main = forest.roots().get("main").ok_or(("no-main-root", String::new()))?.clone();
    let text = forest.string_serialize();
    let f2 = match Forest::parse::<Elements>(&text) {
        Ok(f) => f,
        Err(e) => return Err((reparse_class(&text, &e), format!("{}", e).chars().take(300).collect())),
    };
    if f2.roots().len() != 1 {
        return Err(("reparse-roots", format!("roots {:?}", f2.roots().keys().collect::<Vec<_>>())));
    }
    let m2 = f2.roots().get("main").ok_or(("reparse-roots", "no main".to_string()))?.clone();
    if m2.cmr() != main.cmr() {
        return Err(("reparse-cmr", format!("{} vs {}", m2.cmr(), main.cmr())));
    }
    let nodes = compare_named(&main, &m2, true).map_err(|e| ("reparse-node-differs", e))?;
    let bytes = main.to_commit_node().to_vec_without_witness();
    let b2 = m2.to_commit_node().to_vec_without_witness();
    if bytes != b2 {
        return Err(("reparse-encoding", format!("{} vs {}", gen::hex(&bytes), gen::hex(&b2))));
    }
    if let Some(r) = reference_bytes {
        if r != &b2[..] {
            return Err(("reparse-encoding-vs-commit", format!("{} vs {}", gen::hex(r), gen::hex(&b2))));
        }
    }
    let text2 = f2.string_serialize();
    if text2 != text {
        return Err(("render-not-fixpoint", format!("second rendering differs: {}", canon(&text2).chars().take(300).collect::<String>())));
    }
    let f3 = Forest::parse::<Elements>(&text2).map_err(|e| ("second-generation", format!("{}", e).chars().take(300).collect::<String>()))?;
    match f3.roots().get("main") {
        Some(m3) if m3.cmr() == main.cmr() => {}
        _ => return Err(("second-generation", "root differs".into())),
    }
    Ok(Round { nodes, text })
}

// ------------------------------------------------------------------------------------------ programs

/// the commit-time form: disconnects without an attached branch
fn hole_only(plan: &Plan) -> Plan {
    let mut q = plan.clone();
    for n in q.nodes.iter_mut() {
        if let PNode::Disconnect(a, Some(_)) = n {
            *n = PNode::Disconnect(*a, None);
        }
    }
    q.compacted()
}

/// copy every sub-expression that contains a witness or a disconnect once per parent (the
/// commit-time domain: such sub-expressions are unique); `None` when that makes the plan too large
fn unshare_unique(plan: &Plan) -> Option<Plan> {
    let n = plan.nodes.len();
    let mut unique = vec![false; n];
    for i in 0..n {
        unique[i] = matches!(plan.nodes[i], PNode::Witness | PNode::Disconnect(..)) || plan.nodes[i].children().iter().any(|c| unique[*c]);
    }
    fn copy(plan: &Plan, unique: &[bool], i: usize, memo: &mut HashMap<usize, usize>, out: &mut Vec<PNode>) -> Option<usize> {
        if !unique[i] {
            if let Some(j) = memo.get(&i) {
                return Some(*j);
            }
        }
        if out.len() > 200 {
            return None;
        }
        let mut c = |k: usize, memo: &mut HashMap<usize, usize>, out: &mut Vec<PNode>| copy(plan, unique, k, memo, out);
        let node = match &plan.nodes[i] {
            PNode::InjL(a) => PNode::InjL(c(*a, memo, out)?),
            PNode::InjR(a) => PNode::InjR(c(*a, memo, out)?),
            PNode::Take(a) => PNode::Take(c(*a, memo, out)?),
            PNode::Drop(a) => PNode::Drop(c(*a, memo, out)?),
            PNode::Comp(a, b) => {
                let x = c(*a, memo, out)?;
                PNode::Comp(x, c(*b, memo, out)?)
            }
            PNode::Case(a, b) => {
                let x = c(*a, memo, out)?;
                PNode::Case(x, c(*b, memo, out)?)
            }
            PNode::Pair(a, b) => {
                let x = c(*a, memo, out)?;
                PNode::Pair(x, c(*b, memo, out)?)
            }
            PNode::AssertL(a, h) => PNode::AssertL(c(*a, memo, out)?, *h),
            PNode::AssertR(h, b) => PNode::AssertR(*h, c(*b, memo, out)?),
            PNode::Disconnect(a, _) => PNode::Disconnect(c(*a, memo, out)?, None),
            nd => nd.clone(),
        };
        out.push(node);
        let j = out.len() - 1;
        if !unique[i] {
            memo.insert(i, j);
        }
        Some(j)
    }
    let mut out = Vec::new();
    copy(plan, &unique, plan.root(), &mut HashMap::new(), &mut out)?;
    Some(Plan { nodes: out })
}

/// `comp (pair <plan> <extra>) unit` for a closed `extra : 1 → X`
fn with_extra(plan: &Plan, extra: Vec<PNode>) -> Plan {
    let mut nodes = plan.nodes.clone();
    let root = nodes.len() - 1;
    let off = nodes.len();
    for n in extra {
        nodes.push(match n {
            PNode::InjL(c) => PNode::InjL(c + off),
            PNode::InjR(c) => PNode::InjR(c + off),
            PNode::Take(c) => PNode::Take(c + off),
            PNode::Drop(c) => PNode::Drop(c + off),
            PNode::Comp(a, b) => PNode::Comp(a + off, b + off),
            PNode::Case(a, b) => PNode::Case(a + off, b + off),
            PNode::Pair(a, b) => PNode::Pair(a + off, b + off),
            PNode::AssertL(a, h) => PNode::AssertL(a + off, h),
            PNode::AssertR(h, b) => PNode::AssertR(h, b + off),
            PNode::Disconnect(a, b) => PNode::Disconnect(a + off, b.map(|b| b + off)),
            n => n,
        });
    }
    let e = nodes.len() - 1;
    nodes.push(PNode::Pair(root, e));
    let p = nodes.len() - 1;
    nodes.push(PNode::Unit);
    let u = nodes.len() - 1;
    nodes.push(PNode::Comp(p, u));
    Plan { nodes }
}

fn word_extra(r: &mut Rng, n: u32) -> Vec<PNode> {
    let bits: Vec<bool> = (0..(1usize << n)).map(|_| r.bool()).collect();
    vec![PNode::Word(n, bits)]
}

/// `injr^k unit : 1 → 1 + (1 + (…))`
fn deep_extra(k: usize) -> Vec<PNode> {
    let mut v = vec![PNode::Unit];
    for i in 0..k {
        v.push(PNode::InjR(i));
    }
    v
}

fn fail_extra(r: &mut Rng) -> Vec<PNode> {
    // comp (pair (injl unit) unit) (case unit fail) : 1 → 1
    let mut e = [0u8; 64];
    for b in e.iter_mut() {
        *b = r.next() as u8;
    }
    vec![PNode::Unit, PNode::InjL(0), PNode::Unit, PNode::Pair(1, 2), PNode::Unit, PNode::Fail(e), PNode::Case(4, 5), PNode::Comp(3, 6)]
}

/// at commitment time the library treats sub-expressions that contain a witness or a disconnect
/// as unique: a node OBJECT of that kind with two parents has no text form at all
/// (`WitnessDisconnectRepeated`) and is outside the property's domain (as for C01)
fn commit_time_ok(plan: &Plan) -> bool {
    let n = plan.nodes.len();
    let mut unique = vec![false; n];
    for i in 0..n {
        unique[i] = matches!(plan.nodes[i], PNode::Witness | PNode::Disconnect(..)) || plan.nodes[i].children().iter().any(|c| unique[*c]);
    }
    let mut indeg = vec![0usize; n];
    for i in plan.reachable() {
        for c in plan.nodes[i].children() {
            indeg[c] += 1;
        }
    }
    (0..n).all(|i| !(unique[i] && indeg[i] > 1))
}

fn program_case(ctx: &mut Ctx, plan: &Plan, program: bool, tag: &str) {
    if !commit_time_ok(plan) {
        ctx.count("outside-domain:shared-witness-object");
        return;
    }
    let line = format!("render {} {}{}", if program { "P" } else { "N" }, plan.text(), progs::jet_types(plan));
    let commit = match catch(|| gen::commit_of_plan(plan, None, program)) {
        Ok(Ok(c)) => c,
        Ok(Err(_)) => {
            ctx.count("skipped:ill-typed");
            return;
        }
        Err(p) => {
            ctx.fail("panic-construct", &line, &p);
            return;
        }
    };
    let rendered = catch(|| {
        let f = Forest::from_program(commit.clone());
        let t = f.string_serialize();
        (f, t)
    });
    let (forest, text) = match rendered {
        Ok(x) => x,
        Err(p) => {
            ctx.fail("panic-render", &line, &p);
            return;
        }
    };
    ctx.op(&line, &format!("ok {}", canon(&text)));
    let nontrivial = plan.nodes.len() >= 5;
    ctx.case(if nontrivial { Some(&line) } else { None });
    // the committed program's own encoding is the reference when it is a valid encoding (a DAG
    // with two node objects of one identity hash encodes unused nodes and does not decode)
    let bytes = commit.to_vec_without_witness();
    let decodes = catch(|| CommitNode::decode::<_, Elements>(simplicity::BitIter::from(bytes.clone().into_iter())).is_ok()).unwrap_or(false);
    if !decodes {
        ctx.count("reach:commit-encoding-not-canonical");
    }
    let res = catch(|| round_trip(&forest, if decodes { Some(&bytes[..]) } else { None }));
    match res {
        Err(p) => ctx.fail("panic-reparse", &line, &p),
        Ok(Err((class, detail))) => ctx.fail(class, &line, &detail),
        Ok(Ok(round)) => {
            for k in plan.kinds() {
                ctx.count(&format!("reach:render-{k}"));
            }
            ctx.count(&format!("reach:programs-{tag}"));
            let n_plan = plan.reachable().len();
            if round.nodes < n_plan {
                ctx.count("reach:equal-identity-merged");
            }
            let mut parents = vec![0usize; plan.nodes.len()];
            for n in &plan.nodes {
                for c in n.children() {
                    parents[c] += 1;
                }
            }
            if parents.iter().any(|p| *p >= 2) {
                ctx.count("reach:shared-node-object");
            }
            let c = canon(&round.text);
            for (pat, name) in [("?hole", "hole"), (" #", "hidden-root"), ("const 0b", "word-binary"), ("const 0x", "word-hex"), ("? ", "type-option"), ("2^", "type-2exp"), (" * ", "type-product"), (" + ", "type-sum"), ("(", "type-parens")] {
                if c.contains(pat) || c.ends_with(pat.trim_end()) {
                    ctx.count(&format!("reach:text-{name}"));
                }
            }
            if ctx.want_sample() && nontrivial && ctx.rng.chance(1, 20) {
                ctx.sample(&format!("{} => {}", &line[..line.len().min(200)], &c[..c.len().min(300)]));
            }
            // the model's parser on the rendered text and on mutations inside the flat grammar
            let jets = progs::jet_types(plan);
            parse_op(ctx, &round.text, &jets, "rendered");
            for _ in 0..(1 + ctx.rng.below(2)) {
                if let Some((m, kind)) = mutate_flat(&mut ctx.rng, &round.text) {
                    parse_op(ctx, &m, &jets, kind);
                }
            }
        }
    }
}

/// Oracle only (no model op): committed programs in which one witness / disconnect node *object*,
/// or a sub-expression containing one, is used twice in the same typing context (both uses have
/// the same arrow: `pair w w`, `pair S S`).  `from_program` names each use on its own; the text must
/// parse back to the same CMR, types and encoding.
fn shared_witness_case(ctx: &mut Ctx, plan: &Plan, tag: &str) {
    shared_witness_case_k(ctx, plan, tag, None)
}

/// `known`: the class under which a rejected type annotation is reported (the known finding for
/// one witness object whose two uses sit in *different* typing contexts)
fn shared_witness_case_k(ctx: &mut Ctx, plan: &Plan, tag: &str, known: Option<&'static str>) {
    let line = format!("renderS P {}", plan.text());
    let commit = match catch(|| gen::commit_of_plan(plan, None, true)) {
        Ok(Ok(c)) => c,
        Ok(Err(_)) => return ctx.count("skipped:shared-witness-ill-typed"),
        Err(p) => return ctx.fail("panic-construct", &line, &p),
    };
    let forest = match catch(|| Forest::from_program(commit.clone())) {
        Ok(f) => f,
        Err(p) => return ctx.fail("panic-render", &line, &p),
    };
    ctx.case(Some(&line));
    if std::env::var("VERIF_DEBUG").is_ok() {
        eprintln!("{}", forest.string_serialize());
    }
    match catch(|| round_trip(&forest, None)) {
        Err(p) => ctx.fail("panic-reparse", &line, &p),
        Ok(Err((class, detail))) => {
            let class = match known {
                Some(k) if class == "rendered-annotation-rejected" => k,
                _ => class,
            };
            ctx.fail(class, &line, &detail)
        }
        Ok(Ok(_)) => ctx.count(&format!("reach:shared-witness-object-{tag}")),
    }
}

/// literals of every length around each limit the parser knows (fail entropy: 512 bits, hidden
/// roots: 64 hex digits, words: powers of two), in hex and binary spelling: a result or an error
/// list, never a panic
fn literal_boundaries(ctx: &mut Ctx) {
    let digits = |r: &mut Rng, n: usize, hex: bool| -> String {
        (0..n).map(|_| if hex { char::from_digit(r.below(16) as u32, 16).unwrap() } else { char::from_digit(r.below(2) as u32, 2).unwrap() }).collect()
    };
    let mut texts: Vec<String> = vec![];
    for n in (120..=136).chain([1, 2, 63, 64, 65, 255, 256, 257]) {
        let d = digits(&mut ctx.rng, n, true);
        texts.push(format!("main := comp (pair (injl unit) unit) (case unit (fail 0x{d}))"));
    }
    for n in (500..=530).chain([1, 7, 8, 9, 127, 128, 129, 255, 256, 257, 1023, 1024, 1025]) {
        let d = digits(&mut ctx.rng, n, false);
        texts.push(format!("main := comp (pair (injl unit) unit) (case unit (fail 0b{d}))"));
    }
    for n in (60..=68).chain([0, 1, 31, 32, 33, 127, 128, 129]) {
        let d = digits(&mut ctx.rng, n, true);
        texts.push(format!("main := comp (pair (injl unit) unit) (assertl unit #{d})"));
    }
    for n in [0usize, 1, 2, 3, 4, 5, 7, 8, 9, 15, 16, 17, 31, 32, 33, 63, 64, 65, 127, 128, 129, 255, 256, 257, 511, 512, 513, 1023, 1024, 1025] {
        let d = digits(&mut ctx.rng, n, false);
        texts.push(format!("main := comp (const 0b{d}) unit"));
        if n % 4 == 0 || n < 20 {
            let h = digits(&mut ctx.rng, (n + 3) / 4, true);
            texts.push(format!("main := comp (const 0x{h}) unit"));
        }
    }
    for t in texts {
        arbitrary_case(ctx, &t, "literal-boundary");
    }
}

fn shared_witness_family(ctx: &mut Ctx) {
    use PNode::*;
    let close = |mut nodes: Vec<PNode>, a: usize| {
        nodes.push(Unit);
        let u = nodes.len() - 1;
        nodes.push(Comp(a, u));
        Plan { nodes }
    };
    // pair w w, w of free type and of pinned types
    shared_witness_case(ctx, &close(vec![Witness, Pair(0, 0)], 1), "pair-w-w");
    for _ in 0..ctx.scale(6, 60) {
        let d = 1 + ctx.rng.below(3) as usize;
        let t = gen::gen_t(&mut ctx.rng, d);
        if t.size() > 24 {
            continue;
        }
        let mut rng = ctx.rng.fork();
        let mut g = gen::PlanGen::new(&mut rng, GenCfg { pin_witness: true, ..GenCfg::default() });
        g.witness_of(&t); // the last node pushed: `comp witness pin_t` (or the bare witness)
        let mut nodes = g.finish().nodes;
        let w = nodes.len() - 1;
        nodes.push(Pair(w, w));
        let a = nodes.len() - 1;
        shared_witness_case(ctx, &close(nodes, a), "pair-pinned");
    }
    // S = comp (pair witness word8) lt_8, used twice
    let s = vec![Witness, Word(3, vec![true, false, true, false, false, true, true, false]), Pair(0, 1), Jet(Elements::Lt8), Comp(2, 3)];
    let mut nodes = s.clone();
    nodes.push(Pair(4, 4));
    shared_witness_case(ctx, &close(nodes, 5), "pair-s-s");
    let mut nodes = s.clone();
    nodes.extend([InjL(4), InjR(4), Pair(5, 6)]);
    shared_witness_case(ctx, &close(nodes, 7), "injl-injr-s");
    // one witness object whose uses constrain it differently (`comp const w` forces the source, `take w`
    // does not): each rendered copy carries the object's arrow, which the second copy does not have
    // on its own, and annotations in `main` are checks, not constraints — known finding
    let nodes = vec![Word(1, vec![true, true]), Witness, Comp(0, 1), Witness, Unit, Pair(3, 4), Take(1), Comp(5, 6), Pair(2, 7)];
    shared_witness_case_k(ctx, &close(nodes, 8), "different-contexts", Some("shared-witness-object-not-renderable"));
    // a disconnect hole used twice
    let nodes = vec![Iden, Unit, Pair(0, 1), Disconnect(2, None), Pair(3, 3)];
    shared_witness_case(ctx, &close(nodes, 4), "pair-disconnect");
}

/// `parse` op: the implementation's verdict on a text of the flat grammar
fn parse_op(ctx: &mut Ctx, text: &str, jets: &str, kind: &str) {
    if text.len() > 60_000 {
        return;
    }
    let r = catch(|| Forest::parse::<Elements>(text));
    let out = match r {
        Err(p) => {
            ctx.fail("panic-parse", &format!("parse {}{}", hex_of(text), jets), &p);
            return;
        }
        Ok(Err(_)) => "no".to_string(),
        Ok(Ok(f)) => {
            if f.roots().len() != 1 || !f.roots().contains_key("main") {
                "no".to_string()
            } else {
                let m = &f.roots()["main"];
                format!("ok {} {}", m.cmr(), m.as_ref().post_order_iter::<InternalSharing>().count())
            }
        }
    };
    ctx.count(&format!("reach:parse-{kind}"));
    ctx.count(&format!("n:parse-{kind}-{}", if out.starts_with("ok") { "ok" } else { "no" }));
    ctx.op(&format!("parse {}{}", hex_of(text), jets), &out);
}

/// statement lines of a rendered text (comments dropped), each as its tokens
fn flat_lines(text: &str) -> Vec<Vec<String>> {
    text.lines()
        .filter(|l| !l.trim_start().starts_with("--") && !l.trim().is_empty())
        .map(|l| l.split_whitespace().map(|s| s.to_string()).collect())
        .collect()
}

fn unflat(lines: &[Vec<String>]) -> String {
    lines.iter().map(|l| l.join(" ")).collect::<Vec<_>>().join("\n")
}

/// a mutation of a rendered text that stays inside the flat grammar of the model's parser
fn mutate_flat(r: &mut Rng, text: &str) -> Option<(String, &'static str)> {
    let mut lines = flat_lines(text);
    if lines.is_empty() {
        return None;
    }
    let kind = r.below(8);
    let applicable: Vec<usize> = (0..lines.len())
        .filter(|i| {
            let l = &lines[*i];
            match kind {
                1 => l.len() > 4 && matches!(l[2].as_str(), "comp" | "case" | "pair"),
                5 => l[0] != "main",
                6 => l.iter().any(|t| t.starts_with('#') || t.starts_with("0x")),
                7 => l.len() > 3 && matches!(l[2].as_str(), "comp" | "case" | "pair" | "injl" | "injr" | "take" | "drop"),
                _ => true,
            }
        })
        .collect();
    if applicable.is_empty() {
        return None;
    }
    let i = *r.pick(&applicable);
    match kind {
        0 => {
            let j = r.below(lines.len() as u64) as usize;
            lines.swap(i, j);
            Some((unflat(&lines), "mut-reorder"))
        }
        1 => {
            lines[i].swap(3, 4);
            Some((unflat(&lines), "mut-swap-children"))
        }
        2 => {
            let l = lines[i].clone();
            lines.push(l);
            Some((unflat(&lines), "mut-duplicate"))
        }
        3 => {
            lines.remove(i);
            Some((unflat(&lines), "mut-delete"))
        }
        4 => {
            // change the target annotation
            let l = &mut lines[i];
            let k = l.iter().position(|t| t == "->")?;
            let repl = ["1", "2", "2^8", "(2 * 1)", "2?", "(1 + 2)"];
            l.truncate(k + 1);
            l.push(r.pick(&repl).to_string());
            Some((unflat(&lines), "mut-annotation"))
        }
        5 => {
            // rename one definition (its references become missing) or consistently
            let old = lines[i][0].clone();
            let new = format!("{old}x");
            let all = r.bool();
            for l in lines.iter_mut() {
                for (k, t) in l.iter_mut().enumerate() {
                    if *t == old && (all || k == 0) {
                        *t = new.clone();
                    }
                }
            }
            Some((unflat(&lines), if all { "mut-rename" } else { "mut-rename-def" }))
        }
        6 => {
            // change a digit of a literal (hidden root, word, entropy)
            let l = &mut lines[i];
            let k = l.iter().position(|t| t.starts_with('#') || t.starts_with("0x"))?;
            let mut cs: Vec<char> = l[k].chars().collect();
            let p = cs.len() - 1 - r.below((cs.len() - 2).max(1) as u64) as usize;
            cs[p] = if cs[p] == '0' { '1' } else { '0' };
            l[k] = cs.into_iter().collect();
            Some((unflat(&lines), "mut-literal"))
        }
        _ => {
            // replace a child by another defined name (may be ill-typed, cyclic, or repeat a witness)
            let j = r.below(lines.len() as u64) as usize;
            let name = lines[j][0].clone();
            let l = &mut lines[i];
            let at = if l.len() > 4 && !l[4].starts_with('#') && l[4] != ":" && r.bool() { 4 } else { 3 };
            if l[at].starts_with('#') {
                return None;
            }
            l[at] = name;
            Some((unflat(&lines), "mut-rewire"))
        }
    }
}

fn programs(ctx: &mut Ctx) {
    let n = ctx.scale(350, 4_500);
    let mut it = 0u64;
    let mut done = 0;
    while done < n && it < 10 * n {
        it += 1;
        let jets = it % 3 == 0;
        let cfg = GenCfg {
            fail: it % 3 != 0,
            jets,
            jet_pool: if jets && it % 2 == 0 { progs::simple_jets() } else { vec![] },
            pin_witness: it % 2 == 0,
            share_16: 2 + (it % 9),
            ..GenCfg::default()
        };
        let program = it % 4 != 1;
        let base = if program {
            gen::gen_program(&mut ctx.rng, cfg, 2 + (it % 5) as usize)
        } else {
            let a = gen::gen_t(&mut ctx.rng, 2);
            let b = gen::gen_t(&mut ctx.rng, 2);
            gen::gen_plan_pinned(&mut ctx.rng, cfg, &a, &b, 1 + (it % 3) as usize)
        };
        let holes = hole_only(&base);
        if !commit_time_ok(&holes) {
            ctx.count("generated:witness-object-with-two-parents-copied");
        }
        let Some(mut plan) = unshare_unique(&holes) else { continue };
        if plan.nodes.len() > 90 {
            continue;
        }
        let mut tag = "generated";
        if program && it % 11 == 0 {
            let n = 6 + (it / 11 % 4) as u32; // 64 … 512 bits
            let w = word_extra(&mut ctx.rng, n);
            plan = with_extra(&plan, w);
            tag = "large-word";
        } else if program && it % 7 == 0 {
            plan = with_extra(&plan, deep_extra(3 + (it % 50) as usize));
            tag = "deep-type";
        }
        done += 1;
        program_case(ctx, &plan, program, tag);
    }
}

/// inputs of the classes that are false on the pinned tree, each under its own class
fn finding_probes(ctx: &mut Ctx) {
    let base = Plan { nodes: vec![PNode::Unit] };
    for i in 0..ctx.scale(24, 80) {
        // fail entropy (once rendered without `0x`), leading digits of every kind
        let mut f = fail_extra(&mut ctx.rng);
        if let PNode::Fail(e) = &mut f[5] {
            e[0] = [0x0b, 0x0a, 0xb0, 0x12, 0x9f, 0xff, 0x00, 0x20][i as usize % 8];
        }
        program_case(ctx, &with_extra(&base, f), true, "probe-fail");
        // words wider than 512 bits (once printed as a type the parser refused)
        let w = word_extra(&mut ctx.rng, 10 + (i % 3) as u32);
        program_case(ctx, &with_extra(&base, w), true, "probe-word-over-512");
        // types deeper than 64 levels (once truncated)
        program_case(ctx, &with_extra(&base, deep_extra(60 + 3 * i as usize)), true, "probe-deep-type");
    }
    // user names of the form the Namer generates (once defined twice in the rendering)
    for k in 0..ctx.scale(20, 500) {
        // every prefix of the Namer with the index the Namer will choose first
        let pre = ["id", "ut", "jl", "jr", "dp", "tk", "cp", "cs", "pr", "jt"][k as usize % 10];
        let body = match pre {
            "id" => "comp iden X".to_string(),
            "ut" => "comp X unit".to_string(),
            "jl" => "comp (pair (injl X) X) unit".to_string(),
            "jr" => "comp (pair (injr X) X) unit".to_string(),
            "dp" => "comp (pair X X) (drop X)".to_string(),
            "tk" => "comp (pair X X) (take X)".to_string(),
            "cp" => "comp (comp X X) X".to_string(),
            "cs" => "comp (pair (injl X) X) (case X X)".to_string(),
            "pr" => "comp (pair X X) X".to_string(),
            _ => "comp (pair (const 0x00) (const 0x01)) (comp jet_eq_8 X)".to_string(),
        };
        let src = format!("{pre}{} := unit\nmain := {}", 1 + k / 10 % 3, body.replace('X', &format!("{pre}{}", 1 + k / 10 % 3)));
        source_case(ctx, &src, "probe-namer");
    }
    for s in [
        "id1 := unit\nmain := comp iden id1",
        "ut2 := iden\nmain := comp ut2 unit",
        "wit1 := unit\nmain := comp witness wit1",
        "cp1 := unit\npr2 := unit\nmain := comp (pair (comp iden cp1) pr2) unit",
        "const1 := unit\nmain := comp (const 0x00) const1",
        "hole0 := unit\nmain := comp (pair (disconnect iden ?hole0) hole0) unit",
    ] {
        source_case(ctx, s, "probe-namer");
    }
}

// ------------------------------------------------------------------------------------------ types

/// the depth the type parser records for the printed form: words, `1` and `2` are atoms
fn syn_depth(t: &T) -> usize {
    if t.text().starts_with('w') || *t == T::One {
        return 1;
    }
    match t {
        T::One => 1,
        T::Sum(a, b) if **a == T::One => 1 + syn_depth(b),
        T::Sum(a, b) | T::Prod(a, b) => 1 + syn_depth(a).max(syn_depth(b)),
    }
}

fn type_ops(ctx: &mut Ctx) {
    let mut cases: Vec<T> = Vec::new();
    for n in 0..=12u32 {
        cases.push(T::word(n));
        cases.push(T::sum(T::One, T::word(n)));
        cases.push(T::prod(T::word(n), T::One));
        cases.push(T::sum(T::prod(T::word(n), T::word(0)), T::sum(T::One, T::sum(T::One, T::word(n)))));
    }
    // option chains and combs around the former display limit (64) and around the nesting limit (1000)
    for k in [1usize, 2, 5, 30, 63, 64, 65, 70, 200, 998, 999, 1000, 1001, 1002, 1500] {
        let mut t = T::One;
        for _ in 0..k {
            t = T::sum(T::One, t);
        }
        cases.push(t);
        let mut t = T::One;
        for _ in 0..k {
            t = T::prod(t, T::word(0));
        }
        cases.push(t);
        let mut t = T::word(1);
        for _ in 0..k {
            t = T::sum(T::word(3), t);
        }
        cases.push(t);
    }
    // more than 10000 nodes (the former length limit)
    let mut t = T::word(9);
    for _ in 0..6 {
        t = T::prod(t, T::word(9));
    }
    cases.push(t);
    for d in 0..ctx.scale(300, 3000) {
        cases.push(gen::gen_t(&mut ctx.rng, 1 + (d % 7) as usize));
    }
    for t in cases {
        let depth = {
            // iterative enough: the deepest case has 1500 levels
            syn_depth(&t)
        };
        let line = format!("ty {}", t.text());
        let f = t.fin();
        let printed = format!("{}", f).replace('×', "*");
        let src = format!("x := witness : {} -> 1", printed);
        let back = match catch(|| Forest::parse::<Elements>(&src)) {
            Err(p) => {
                ctx.fail("panic-parse", &line, &p);
                continue;
            }
            Ok(Ok(forest)) => match forest.roots().get("x") {
                Some(x) if x.arrow().source == f => "back",
                _ => "other",
            },
            Ok(Err(_)) => "noparse",
        };
        ctx.op(&line, &format!("{printed} {back}"));
        ctx.count("reach:type-printed");
        if back == "back" {
            ctx.count("reach:type-parsed-back");
            if depth > 1000 {
                ctx.fail("type-over-limit-accepted", &line, "a type deeper than MAX_NESTING_DEPTH was accepted");
            }
        } else if depth > 1000 && back == "noparse" {
            // deeper than MAX_NESTING_DEPTH: refused by the parser's limit (see tools/meta/C17.json);
            // the model's parser says the same
            ctx.count("outcome:type-deeper-than-the-parser-limit");
        } else {
            let class = if printed.contains("...") {
                "type-display-truncated"
            } else if ["2^1024", "2^2048", "2^4096"].iter().any(|w| printed.contains(w)) {
                "type-2exp-over-512"
            } else {
                "type-print-parse"
            };
            ctx.fail(class, &line, &format!("`{}` → {back}", printed.chars().take(200).collect::<String>()));
        }
    }
}

// ------------------------------------------------------------------------------------------ source texts

const NAMES: &[&str] = &["a", "b", "c", "x1", "y2", "foo", "Foo_bar", "n.1", "it's", "a-b", "_t", "-x", "main2", "unit1", "witness_", "comp.", "id9x", "q'", "Z", "k--k", "jet", "jet_", "const_", "two", "x.y.z", "lhs", "rhs", "tmp", "node", "w"];

struct Src<'a> {
    plan: &'a Plan,
    named: Vec<Option<String>>,
    emitted: Vec<bool>,
    lines: Vec<String>,
    feats: BTreeSet<&'static str>,
    hidden_expr: HashMap<[u8; 32], String>,
    size: usize,
}

impl<'a> Src<'a> {
    fn ws(r: &mut Rng) -> &'static str {
        match r.below(10) {
            0 => "  ",
            1 => "\t",
            2 => "\n    ",
            _ => " ",
        }
    }

    fn word_text(r: &mut Rng, n: u32, bits: &[bool]) -> String {
        if n >= 2 && (n > 6 || r.bool()) {
            let mut s = String::from("0x");
            for c in bits.chunks(4) {
                let v = c.iter().fold(0u8, |a, b| a * 2 + *b as u8);
                s.push(std::char::from_digit(v as u32, 16).unwrap());
            }
            s
        } else {
            format!("0b{}", gen::bits_text(bits))
        }
    }

    /// the text of node `i` in argument position
    fn arg(&mut self, r: &mut Rng, i: usize) -> String {
        if let Some(n) = self.named[i].clone() {
            self.define(r, i);
            self.feats.insert("named-expr");
            return n;
        }
        self.feats.insert("inline-expr");
        let e = self.expr(r, i);
        let atomic = !e.contains(' ');
        if !atomic && r.chance(2, 3) {
            self.feats.insert("parens");
            format!("({e})")
        } else if atomic && r.chance(1, 10) {
            format!("({e})")
        } else {
            e
        }
    }

    fn expr(&mut self, r: &mut Rng, i: usize) -> String {
        self.size += 1;
        let w = Self::ws(r);
        match self.plan.nodes[i].clone() {
            PNode::Iden => "iden".into(),
            PNode::Unit => "unit".into(),
            PNode::Witness => "witness".into(),
            PNode::InjL(c) => format!("injl{w}{}", self.arg(r, c)),
            PNode::InjR(c) => format!("injr{w}{}", self.arg(r, c)),
            PNode::Take(c) => format!("take{w}{}", self.arg(r, c)),
            PNode::Drop(c) => format!("drop{w}{}", self.arg(r, c)),
            PNode::Comp(a, b) => {
                let x = self.arg(r, a);
                format!("comp{w}{x} {}", self.arg(r, b))
            }
            PNode::Case(a, b) => {
                let x = self.arg(r, a);
                format!("case{w}{x} {}", self.arg(r, b))
            }
            PNode::Pair(a, b) => {
                let x = self.arg(r, a);
                format!("pair{w}{x} {}", self.arg(r, b))
            }
            PNode::AssertL(a, h) => {
                let x = self.arg(r, a);
                format!("assertl{w}{x} {}", self.hidden(&h))
            }
            PNode::AssertR(h, b) => {
                let hh = self.hidden(&h);
                format!("assertr{w}{hh} {}", self.arg(r, b))
            }
            PNode::Disconnect(a, _) => {
                self.feats.insert("hole");
                let x = self.arg(r, a);
                format!("disconnect{w}{x} ?h{}", i)
            }
            PNode::Fail(e) => {
                self.feats.insert("fail");
                format!("fail 0x{}", gen::hex(&e))
            }
            PNode::Word(n, bits) => {
                let t = Self::word_text(r, n, &bits);
                self.feats.insert(if t.starts_with("0x") { "word-hex" } else { "word-binary" });
                format!("const {t}")
            }
            PNode::Jet(j) => {
                self.feats.insert("jet");
                format!("jet_{j}")
            }
        }
    }

    fn hidden(&mut self, h: &[u8; 32]) -> String {
        if let Some(e) = self.hidden_expr.get(h) {
            self.feats.insert("root-of-expr");
            format!("#{{{e}}}")
        } else {
            self.feats.insert("root-literal");
            format!("#{}", gen::hex(h))
        }
    }

    fn define(&mut self, r: &mut Rng, i: usize) {
        if self.emitted[i] {
            return;
        }
        self.emitted[i] = true;
        let name = self.named[i].clone().unwrap();
        let e = self.expr(r, i);
        self.lines.push(format!("{name} := {e}"));
    }
}

/// closed expressions whose roots stand for hidden branches written as `#{expr}`
fn hidden_menu() -> Vec<(String, [u8; 32])> {
    let exprs = ["unit", "iden", "take unit", "pair unit unit", "injl unit", "comp iden unit", "const 0x00", "drop (take iden)"];
    exprs
        .iter()
        .filter_map(|e| {
            let f = Forest::parse::<Elements>(&format!("x := {e}")).ok()?;
            let c: Cmr = f.roots().get("x")?.cmr();
            let mut h = [0u8; 32];
            h.copy_from_slice(c.as_ref());
            Some((e.to_string(), h))
        })
        .collect()
}

/// the statements of a source text for `plan` (shuffled), its features, and the plan with the
/// hidden roots that were replaced by roots of expressions
fn source_of_plan(r: &mut Rng, plan: &Plan, menu: &[(String, [u8; 32])], namer_names: bool) -> Option<(Vec<String>, BTreeSet<&'static str>, Plan)> {
    let mut plan = plan.clone();
    // some hidden branches become `#{expr}`
    let mut hidden_expr = HashMap::new();
    for n in plan.nodes.iter_mut() {
        if let PNode::AssertL(_, h) | PNode::AssertR(h, _) = n {
            if r.chance(1, 2) && !menu.is_empty() {
                let (e, c) = r.pick(menu).clone();
                *h = c;
                hidden_expr.insert(c, e);
            }
        }
    }
    let n = plan.nodes.len();
    let mut parents = vec![0usize; n];
    for i in plan.reachable() {
        for c in plan.nodes[i].children() {
            parents[c] += 1;
        }
    }
    // number of paths from the root (capped): a name that contains a witness or disconnect must be
    // reachable in one way only (`WitnessDisconnectRepeated`)
    let mut paths = vec![0usize; n];
    paths[plan.root()] = 1;
    for i in (0..n).rev() {
        for c in plan.nodes[i].children() {
            paths[c] = (paths[c] + paths[i]).min(2);
        }
    }
    let mut unique = vec![false; n];
    for i in 0..n {
        unique[i] = matches!(plan.nodes[i], PNode::Witness | PNode::Disconnect(..)) || plan.nodes[i].children().iter().any(|c| unique[*c]);
    }
    let mut pool: Vec<String> = NAMES.iter().map(|s| s.to_string()).collect();
    for k in 0..n {
        pool.push(format!("v{k}"));
    }
    if namer_names {
        for (k, p) in ["id", "ut", "jl", "jr", "dp", "tk", "cp", "cs", "pr", "jt", "const", "wit", "asstl", "disc"].iter().enumerate() {
            pool.insert(k, format!("{p}{}", 1 + r.below(4)));
        }
    }
    let mut used: HashSet<String> = HashSet::new();
    let mut named: Vec<Option<String>> = vec![None; n];
    let bias = r.below(12);
    for i in plan.reachable() {
        let want = if i == plan.root() {
            true
        } else if unique[i] && paths[i] > 1 {
            false
        } else if parents[i] >= 2 {
            r.chance(3, 4)
        } else {
            r.below(16) < bias
        };
        if want {
            let name = if i == plan.root() {
                "main".to_string()
            } else {
                let mut k = r.below(pool.len().min(40) as u64) as usize;
                while k < pool.len() && used.contains(&pool[k]) {
                    k += 1;
                }
                if k < pool.len() {
                    pool[k].clone()
                } else {
                    format!("fresh.{i}")
                }
            };
            used.insert(name.clone());
            named[i] = Some(name);
        }
    }
    let mut s = Src { plan: &plan, named, emitted: vec![false; n], lines: vec![], feats: BTreeSet::new(), hidden_expr, size: 0 };
    let root = plan.root();
    s.define(r, root);
    if s.size > 400 {
        return None;
    }
    if parents.iter().enumerate().any(|(i, p)| *p >= 2 && s.named[i].is_none()) {
        s.feats.insert("repeated-subexpr");
    }
    let mut lines = std::mem::take(&mut s.lines);
    let mut feats = std::mem::take(&mut s.feats);
    drop(s);
    // aliases: the definition moves to `<name>_alias`, the name refers to it
    if lines.len() >= 2 && r.chance(1, 4) {
        let k = r.below(lines.len() as u64) as usize;
        let name = lines[k].split(' ').next().unwrap().to_string();
        if name != "main" {
            let alias = format!("al.{name}");
            let body = lines[k].splitn(2, " := ").nth(1).unwrap().to_string();
            lines[k] = format!("{alias} := {body}");
            lines.push(format!("{name} := {alias}"));
            feats.insert("alias");
        }
    }
    for i in (1..lines.len()).rev() {
        let j = r.below(i as u64 + 1) as usize;
        lines.swap(i, j);
    }
    Some((lines, feats, plan))
}

/// statements → text with comments and blank lines
fn layout(r: &mut Rng, stmts: &[String], feats: &mut BTreeSet<&'static str>) -> String {
    let mut text = String::new();
    for l in stmts {
        if r.chance(1, 6) {
            text.push_str("-- a comment := unit : 1 -> 1\n");
            feats.insert("comment");
        }
        text.push_str(l);
        if r.chance(1, 8) {
            text.push_str("   -- trailing");
            feats.insert("comment");
        }
        text.push('\n');
        if r.chance(1, 5) {
            text.push('\n');
        }
    }
    text
}

/// add annotations taken from the forest the un-annotated statements parse to
fn annotate(r: &mut Rng, stmts: &[String], forest: &Forest, feats: &mut BTreeSet<&'static str>) -> Vec<String> {
    let mut arrows: HashMap<String, (String, String)> = HashMap::new();
    for root in forest.roots().values() {
        for d in root.as_ref().post_order_iter::<InternalSharing>() {
            let a = d.node.arrow();
            let (s, t) = (format!("{}", a.source).replace('×', "*"), format!("{}", a.target).replace('×', "*"));
            if s.len() + t.len() < 400 {
                arrows.insert(d.node.name().to_string(), (s, t));
            }
        }
    }
    let mut out: Vec<String> = Vec::new();
    for l in stmts {
        let name = l.split(' ').next().unwrap_or("");
        match arrows.get(name) {
            Some((s, t)) => match r.below(6) {
                0 => {
                    out.push(format!("{l} : {s} -> {t}"));
                    feats.insert("annotation-full");
                }
                1 => {
                    out.push(format!("{l} : _ -> {t}"));
                    feats.insert("annotation-partial");
                }
                2 => {
                    out.push(format!("{l}:{s}->_"));
                    feats.insert("annotation-partial");
                }
                3 => {
                    let decl = format!("{name} : {s} -> {t}");
                    if r.bool() {
                        out.push(l.clone());
                        out.push(decl);
                    } else {
                        out.push(decl);
                        out.push(l.clone());
                    }
                    feats.insert("type-only-line");
                }
                _ => out.push(l.clone()),
            },
            None => out.push(l.clone()),
        }
    }
    out
}

/// the property on one source text; returns whether it parsed to a single program
fn source_case(ctx: &mut Ctx, text: &str, tag: &str) -> Option<Forest> {
    let case = format!("source {}", hex_of(text));
    let t0 = Instant::now();
    let r = catch(|| Forest::parse::<Elements>(text));
    let dt = t0.elapsed();
    if dt > Duration::from_secs(20) {
        ctx.fail("parse-slow", &case, &format!("{} bytes took {:?}", text.len(), dt));
    }
    let forest = match r {
        Err(p) => {
            ctx.fail("panic-parse", &case, &p);
            return None;
        }
        Ok(Err(e)) => {
            for k in err_kinds(&e) {
                ctx.count(&format!("reach:error-{k}"));
            }
            ctx.count(&format!("outcome:{tag}-err"));
            if tag == "generated" && ctx.get_count("outcome:generated-err") <= 3 {
                ctx.note(&format!("generated source rejected ({:?}): {}", err_kinds(&e), text.replace('\n', " | ").chars().take(600).collect::<String>()));
            }
            return None;
        }
        Ok(Ok(f)) => f,
    };
    ctx.count(&format!("outcome:{tag}-ok"));
    if forest.roots().len() != 1 || !forest.roots().contains_key("main") {
        ctx.count("skipped:not-a-single-program");
        return Some(forest);
    }
    match catch(|| round_trip(&forest, None)) {
        Err(p) => ctx.fail("panic-reparse", &case, &p),
        Ok(Err((class, detail))) => ctx.fail(class, &case, &detail),
        Ok(Ok(_)) => ctx.count(&format!("reach:source-roundtrip-{tag}")),
    }
    Some(forest)
}

fn sources(ctx: &mut Ctx) {
    let menu = hidden_menu();
    let n = ctx.scale(500, 6_000);
    let mut it = 0u64;
    let mut done = 0;
    while done < n && it < 10 * n {
        it += 1;
        let jets = it % 3 == 0;
        let cfg = GenCfg {
            fail: it % 2 == 0,
            jets,
            jet_pool: if jets { progs::simple_jets() } else { vec![] },
            pin_witness: it % 2 == 0,
            share_16: 3 + (it % 8),
            ..GenCfg::default()
        };
        let mut base = hole_only(&gen::gen_program(&mut ctx.rng, cfg, 2 + (it % 4) as usize));
        if base.nodes.len() > 70 {
            continue;
        }
        if it % 6 == 0 {
            let f = fail_extra(&mut ctx.rng);
            base = with_extra(&base, f);
        }
        let Some((stmts, mut feats, plan)) = source_of_plan(&mut ctx.rng, &base, &menu, false) else { continue };
        let text = layout(&mut ctx.rng, &stmts, &mut feats);
        // the API-built program of the same plan
        let Ok(Ok(commit)) = catch(|| gen::commit_of_plan(&plan, None, true)) else {
            ctx.count("skipped:ill-typed");
            continue;
        };
        done += 1;
        let case = format!("source {}", hex_of(&text));
        ctx.case(if text.len() >= 16 && plan.nodes.len() >= 5 { Some(&case) } else { None });
        let Some(forest) = source_case(ctx, &text, "generated") else {
            ctx.count("skipped:generated-source-rejected");
            continue;
        };
        if let Some(m) = forest.roots().get("main") {
            if m.cmr() != commit.cmr() {
                ctx.fail("source-cmr-differs-from-api", &case, &format!("{} vs {}", m.cmr(), commit.cmr()));
            } else {
                ctx.count("reach:source-cmr-equals-api");
            }
        }
        // with annotations
        let ann = annotate(&mut ctx.rng, &stmts, &forest, &mut feats);
        let annotated = layout(&mut ctx.rng, &ann, &mut feats);
        if ann != stmts {
            if source_case(ctx, &annotated, "annotated").is_none() {
                ctx.fail("annotated-source-rejected", &format!("source {}", hex_of(&annotated)), "the arrows of the parsed forest, written as annotations, are rejected");
            }
        }
        for f in &feats {
            ctx.count(&format!("reach:source-{f}"));
        }
        for k in plan.kinds() {
            ctx.count(&format!("reach:source-{k}"));
        }
        if ctx.want_sample() && ctx.rng.chance(1, 30) {
            ctx.sample(&format!("source: {}", annotated.replace('\n', " | ").chars().take(300).collect::<String>()));
        }
    }
}

// ------------------------------------------------------------------------------------------ arbitrary strings

const VOCAB: &[&str] = &[
    ":=", "->", "#{", "(", ")", "+", "*", ":", "}", "?", "const", "assertl", "assertr", "fail", "disconnect", "case", "comp", "pair", "injl", "injr", "take", "drop", "unit", "iden", "witness",
    "jet_add_8", "jet_verify", "jet_nope", "_", "0b0101", "0b1", "0x00", "0xdeadbeef", "0x0", "1", "2", "2^8", "2^256", "2^3", "2^1024", "2^99999999999", "main", "a", "b", "x1", "it's", "-", "--", "\n", "\n", " ",
    "#abcd1234abcd1234abcd1234abcd1234abcd1234abcd1234abcd1234abcd1234", "#AB", "0", "3", "^", "=", ">", "{", "é", "\"", "\t", "prim", "_x", "jet_", "0x", "0b", "2^", "2^0",
];

fn lex_op(ctx: &mut Ctx, text: &str, verdict: Option<&BTreeSet<&'static str>>) {
    if text.len() > 20_000 {
        return;
    }
    let out = match verdict {
        Some(k) if k.contains("lex-failed") => "lexerr",
        _ => "ok",
    };
    ctx.op(&format!("lex {}", hex_of(text)), out);
    ctx.count(&format!("reach:lex-{out}"));
}

/// parse an arbitrary string: it must return; what parses to one program must round-trip
fn arbitrary_case(ctx: &mut Ctx, text: &str, tag: &str) {
    let case = format!("source {}", hex_of(text));
    ctx.case(if text.len() >= 16 { Some(&case) } else { None });
    let t0 = Instant::now();
    let r = catch(|| Forest::parse::<Elements>(text));
    let dt = t0.elapsed();
    if dt > Duration::from_secs(20) {
        ctx.fail("parse-slow", &case, &format!("{} bytes took {:?}", text.len(), dt));
    }
    ctx.count(&format!("reach:arbitrary-{tag}"));
    match r {
        Err(p) => ctx.fail("panic-parse", &case, &p),
        Ok(Err(e)) => {
            if std::env::var("VERIF_DEBUG").is_ok() {
                eprintln!("{e}");
            }
            let k = err_kinds(&e);
            if k.is_empty() {
                ctx.fail("empty-error-list", &case, "Err with no error in it");
            }
            for x in &k {
                ctx.count(&format!("reach:error-{x}"));
            }
            lex_op(ctx, text, Some(&k));
        }
        Ok(Ok(forest)) => {
            ctx.count(&format!("outcome:{tag}-ok"));
            lex_op(ctx, text, None);
            if forest.roots().len() == 1 && forest.roots().contains_key("main") {
                match catch(|| round_trip(&forest, None)) {
                    Err(p) => ctx.fail("panic-reparse", &case, &p),
                    Ok(Err((class, detail))) => ctx.fail(class, &case, &detail),
                    Ok(Ok(_)) => ctx.count("reach:arbitrary-roundtrip"),
                }
            } else if !forest.roots().is_empty() {
                // several roots: rendering must still not panic
                if let Err(p) = catch(|| forest.string_serialize()) {
                    ctx.fail("panic-render", &case, &p);
                }
            }
        }
    }
}

fn mutate_text(r: &mut Rng, text: &str) -> String {
    let mut cs: Vec<char> = text.chars().collect();
    for _ in 0..1 + r.below(4) {
        if cs.is_empty() {
            break;
        }
        let i = r.below(cs.len() as u64) as usize;
        match r.below(6) {
            0 => {
                cs.remove(i);
            }
            1 => cs.insert(i, *r.pick(&['(', ')', '?', '#', ':', '=', '-', '>', '0', 'x', '^', '_', ' ', '\n', '{', '}', '+', '*', 'é'])),
            2 => {
                let j = r.below(cs.len() as u64) as usize;
                cs.swap(i, j);
            }
            3 => {
                let w = *r.pick(VOCAB);
                for (k, c) in w.chars().enumerate() {
                    cs.insert((i + k).min(cs.len()), c);
                }
            }
            4 => {
                // delete up to the end of the line
                let mut j = i;
                while j < cs.len() && cs[j] != '\n' {
                    j += 1;
                }
                cs.drain(i..j);
            }
            _ => {
                // duplicate a stretch
                let j = (i + 1 + r.below(30) as usize).min(cs.len());
                let seg: Vec<char> = cs[i..j].to_vec();
                for (k, c) in seg.into_iter().enumerate() {
                    cs.insert(j + k, c);
                }
            }
        }
    }
    cs.into_iter().collect()
}

fn nested_text(shape: &str, n: usize) -> String {
    match shape {
        "parens" => format!("main := {}unit{}", "(".repeat(n), ")".repeat(n)),
        "take" => format!("main := comp (pair {}unit unit) unit", "take ".repeat(n)),
        "comp" => format!("main := {}unit", "comp unit ".repeat(n)),
        "type-parens" => format!("main := unit : {}1{} -> 1", "(".repeat(n), ")".repeat(n)),
        "type-option" => format!("main := witness : 1 -> 1{}", "?".repeat(n)),
        "type-sum-chain" => format!("main := witness : 1 -> 1{}", " + 1".repeat(n)),
        "type-product-nest" => format!("main := witness : 1 -> {}1{}", "(1 * ".repeat(n), ")".repeat(n)),
        "hash-brace" => format!("main := {}unit{} unit", "assertr #{".repeat(n), "} unit".repeat(n)),
        "statements" => {
            let mut s = String::new();
            for i in 0..n {
                s.push_str(&format!("n{} := take n{}\n", i + 1, i));
            }
            s.push_str(&format!("n0 := unit\nmain := comp (pair n{n} unit) unit\n"));
            s
        }
        _ => String::new(),
    }
}

const SHAPES: &[&str] = &["parens", "take", "comp", "type-parens", "type-option", "type-sum-chain", "type-product-nest", "hash-brace", "statements"];

/// run `vh C17 --case child:<shape>:<n>` with a time limit; (finished, success, last line)
fn child(out_dir: &std::path::Path, shape: &str, n: usize, limit: Duration) -> Option<(bool, bool, String)> {
    let exe = std::env::current_exe().ok()?;
    let dir = out_dir.join(format!("child-{shape}-{n}"));
    let mut ch = std::process::Command::new(exe)
        .args(["C17", "--case", &format!("child:{shape}:{n}"), "--out"])
        .arg(&dir)
        .stdout(std::process::Stdio::piped())
        .stderr(std::process::Stdio::piped())
        .spawn()
        .ok()?;
    let t0 = Instant::now();
    loop {
        match ch.try_wait() {
            Ok(Some(st)) => {
                let mut s = String::new();
                use std::io::Read;
                if let Some(mut o) = ch.stdout.take() {
                    let _ = o.read_to_string(&mut s);
                }
                if !st.success() {
                    if let Some(mut o) = ch.stderr.take() {
                        let _ = o.read_to_string(&mut s);
                    }
                }
                return Some((true, st.success(), s.lines().last().unwrap_or("").to_string()));
            }
            Ok(None) => {
                if t0.elapsed() > limit {
                    let _ = ch.kill();
                    let _ = ch.wait();
                    return Some((false, false, String::new()));
                }
                std::thread::sleep(Duration::from_millis(20));
            }
            Err(_) => return None,
        }
    }
}

fn arbitrary(ctx: &mut Ctx, seeds: &[String]) {
    // random bytes as (lossy) UTF-8
    for i in 0..ctx.scale(400, 8000) {
        let len = 1 + ctx.rng.below(if i % 10 == 0 { 400 } else { 40 }) as usize;
        let bytes: Vec<u8> = if i % 3 == 0 {
            ctx.rng.bytes(len)
        } else {
            // bytes biased to the lexer's alphabet
            let alpha = b" \n:=->#{}()+*?_012^xbabcdefuniticomp'.-";
            (0..len).map(|_| alpha[ctx.rng.below(alpha.len() as u64) as usize]).collect()
        };
        let s = String::from_utf8_lossy(&bytes).to_string();
        arbitrary_case(ctx, &s, "random-bytes");
    }
    // token soups
    for i in 0..ctx.scale(600, 12_000) {
        let len = 1 + ctx.rng.below(if i % 10 == 0 { 120 } else { 14 }) as usize;
        let mut s = String::new();
        if i % 2 == 0 {
            s.push_str("main := ");
        }
        for _ in 0..len {
            s.push_str(*ctx.rng.pick(VOCAB));
            if ctx.rng.chance(4, 5) {
                s.push(' ');
            }
        }
        arbitrary_case(ctx, &s, "token-soup");
    }
    // mutations of valid texts
    if !seeds.is_empty() {
        for _ in 0..ctx.scale(600, 12_000) {
            let base = ctx.rng.pick(seeds).clone();
            let m = mutate_text(&mut ctx.rng, &base);
            arbitrary_case(ctx, &m, "mutation");
        }
    }
    // one text per error kind of the parser, varied
    for i in 0..ctx.scale(40, 600) {
        for t in [
            format!("prim{i} := unit\nmain := unit"),
            "_ := unit\nmain := unit".to_string(),
            format!("a{i} : 1 -> 2^{}\nmain := unit", 1 << (i % 12)),
            format!("a := unit\na := iden : 2^{} -> _\nmain := a", 1 << (i % 9)),
            format!("main := comp jet_nope{i} unit"),
            format!("main := comp (const 0b{}) unit", "1".repeat(1 + (i as usize % 7))),
            format!("main := fail 0x{}", "ab".repeat(1 + (i as usize % 24))),
            format!("main := fail 0x{}", "cd".repeat(65 + (i as usize % 5))),
            format!("main := unit : 2^{} -> 1", 3 + i),
            format!("main := unit : 2^{}{} -> 1", 5 + i, "0".repeat(12)),
            format!("w := witness\nmain := comp (pair w w) unit -- {i}"),
            format!("main := comp (disconnect iden unit) unit -- {i}"),
            format!("main := comp ?h{i} unit"),
            format!("x{i} := y{i}\ny{i} := x{i}\nmain := x{i}"),
        ] {
            arbitrary_case(ctx, &t, "error-kinds");
        }
    }
    // adversarial nesting, in process
    for shape in SHAPES {
        for n in [10usize, 100, 999, 1000, 1001, 1500] {
            let t = nested_text(shape, n);
            arbitrary_case(ctx, &t, "nesting-in-process");
            ctx.count(&format!("n:nesting-{shape}-{n}"));
        }
    }
}

type ChildResult = (&'static str, usize, Option<(bool, bool, String)>, f64);

/// 10^5 levels in child processes (a stack overflow aborts the process), started at the beginning
/// of the run and collected at its end.  The lexer computes the position of every token by a scan
/// from the start of the input, so the time is quadratic in the length: the long shapes get fewer
/// levels.
fn start_children(ctx: &Ctx) -> Vec<std::thread::JoinHandle<ChildResult>> {
    let mut hs = Vec::new();
    let limit = Duration::from_secs(if ctx.quick() { 150 } else { 900 });
    for shape in SHAPES {
        // quick tier: texts of at most about 100 KB, except the two inputs that once overflowed the
        // stack, which are kept as they were found
        let (q, t): (usize, usize) = match *shape {
            "parens" | "type-parens" => (50_000, 100_000),
            "take" => (20_000, 100_000),
            "type-option" | "type-sum-chain" => (100_000, 100_000),
            "comp" => (10_000, 60_000),
            "type-product-nest" => (16_000, 60_000),
            "hash-brace" => (6_000, 40_000),
            _ => (5_000, 30_000),
        };
        let n0 = if ctx.quick() { q } else { t };
        for n in [n0, n0 / 2, n0 / 4] {
            let out_dir = ctx.out_dir.clone();
            hs.push(std::thread::spawn(move || {
                let t0 = Instant::now();
                let r = child(&out_dir, shape, n, limit);
                (*shape, n, r, t0.elapsed().as_secs_f64())
            }));
        }
    }
    hs
}

fn collect_children(ctx: &mut Ctx, hs: Vec<std::thread::JoinHandle<ChildResult>>) {
    for h in hs {
        let Ok((shape, n, r, secs)) = h.join() else { continue };
        let case = format!("child:{shape}:{n}");
        match r {
            None => ctx.count("skipped:child-spawn-failed"),
            Some((false, _, _)) => ctx.fail("hang-on-nesting", &case, "no answer within the time limit"),
            Some((true, false, last)) => ctx.fail("abort-on-nesting", &case, &format!("the process died: {last}")),
            Some((true, true, last)) => {
                ctx.count("reach:nesting-in-child-process");
                ctx.count(&format!("outcome:nesting-{shape}-{n}-{}", last.split_whitespace().nth(1).unwrap_or("?")));
                ctx.note(&format!("{case}: {last} in {secs:.1}s"));
            }
        }
        ctx.case(Some(&case));
    }
}

// ------------------------------------------------------------------------------------------ run / replay

pub fn run(ctx: &mut Ctx) {
    let children = start_children(ctx);
    type_ops(ctx);
    programs(ctx);
    sources(ctx);
    // seeds for the mutations: rendered programs and source texts
    let mut seeds: Vec<String> = Vec::new();
    let menu = hidden_menu();
    for i in 0..40u64 {
        let cfg = GenCfg { jets: i % 2 == 0, jet_pool: progs::simple_jets(), fail: false, ..GenCfg::default() };
        let plan = hole_only(&gen::gen_program(&mut ctx.rng, cfg, 2 + (i % 3) as usize));
        if plan.nodes.len() > 40 {
            continue;
        }
        if let Some((t, _, _)) = source_of_plan(&mut ctx.rng, &plan, &menu, false) {
            seeds.push(t.join("\n"));
        }
        if let Ok(Ok(c)) = catch(|| gen::commit_of_plan(&plan, None, true)) {
            seeds.push(Forest::from_program(c).string_serialize());
        }
    }
    arbitrary(ctx, &seeds);
    finding_probes(ctx);
    literal_boundaries(ctx);
    shared_witness_family(ctx);
    // source texts whose names look like the Namer's
    for it in 0..ctx.scale(60, 1200) {
        let cfg = GenCfg { pin_witness: it % 2 == 0, ..GenCfg::default() };
        let base = hole_only(&gen::gen_program(&mut ctx.rng, cfg, 2 + (it % 3) as usize));
        if base.nodes.len() > 50 {
            continue;
        }
        if let Some((stmts, _, _)) = source_of_plan(&mut ctx.rng, &base, &menu, true) {
            source_case(ctx, &stmts.join("\n"), "namer-style-names");
        }
    }
    collect_children(ctx, children);
}

pub fn replay(ctx: &mut Ctx, case: &str) {
    let toks: Vec<&str> = case.split_whitespace().collect();
    if toks.is_empty() {
        return;
    }
    if let Some(rest) = case.strip_prefix("child:") {
        let mut it = rest.split(':');
        let shape = it.next().unwrap_or("");
        let n: usize = it.next().and_then(|s| s.parse().ok()).unwrap_or(0);
        let t = nested_text(shape, n);
        let t0 = Instant::now();
        let r = Forest::parse::<Elements>(&t);
        let verdict = match &r {
            Ok(_) => "ok".to_string(),
            Err(e) => format!("err:{}", err_kinds(e).into_iter().collect::<Vec<_>>().join(",")),
        };
        println!("child-result {verdict} bytes={} ms={}", t.len(), t0.elapsed().as_millis());
        // dropping the result must not overflow the stack either
        drop(r);
        println!("child-result {verdict} bytes={} ms={}", t.len(), t0.elapsed().as_millis());
        return;
    }
    match toks[0] {
        "renderS" if toks.len() > 2 => {
            if let Some((plan, _)) = Plan::parse(&toks[2..]) {
                shared_witness_case(ctx, &plan, "replay");
            }
        }
        "render" if toks.len() > 2 => {
            if let Some((plan, _)) = Plan::parse(&toks[2..]) {
                program_case(ctx, &plan, toks[1] == "P", "replay");
            }
        }
        "source" | "parse" | "lex" if toks.len() > 1 => {
            let bytes = if toks[1] == "-" { Some(vec![]) } else { gen::parse_hex(toks[1]) };
            if let Some(b) = bytes {
                let text = String::from_utf8_lossy(&b).to_string();
                arbitrary_case(ctx, &text, "replay");
            }
        }
        "ty" if toks.len() > 1 => {
            if let Some(t) = gen::parse_type(toks[1]) {
                let printed = format!("{}", t.fin()).replace('×', "*");
                let src = format!("x := witness : {} -> 1", printed);
                match Forest::parse::<Elements>(&src) {
                    Ok(f) if f.roots().get("x").map(|x| x.arrow().source == t.fin()).unwrap_or(false) => {}
                    _ => ctx.fail("type-print-parse", case, &printed.chars().take(200).collect::<String>()),
                }
            }
        }
        _ => {}
    }
}
