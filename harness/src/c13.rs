//! C13 — bit streams and naturals: `encode_natural`, `BitIter::{read_natural, read_bit, read_u2,
//! read_u8, n_total_read, len, close, byte_slice_window}`, `BitWriter::{write_bit, write_bits_be,
//! write, n_total_written, flush_all}`, `BitCollector::collect_bits`.
//!
//! ops (one line each, answered by the Lean model `Drv.C13.handle`):
//!   `enc n`                     → `<hex of the flushed sink> <n_total_written>`
//!   `dec ty bound skip hex`     → `ok v read=<n_total_read> len=<len>` | `eof` | `overflow` | `badindex got max`
//!   `rd src op…`                → `s/0/<len>` then per op `<result>/<n_total_read>/<len>`
//!                                 (`src` = `hex` or `hex:start:end`; ops `b u2 u8 n:ty:bound c`)
//!   `wr op…`                    → per op `<n_total_written>:<bytes in the sink>`, then the sink
//!                                 (ops `b0 b1 be:n:len by:hex n:k f`)
//!   `win hex s e`               → `<bits> len=<len>`
//!   `col bits`                  → `<hex> <bit length>`
//!
//! oracle (on the implementation alone, against a bit-list reference written here): an encoded
//! natural is the reference code, zero padded, and decodes back consuming exactly the written bits;
//! whatever `read_natural` accepts is the canonical code of the value returned, within the result
//! type and the bound; numbers of 33 bits and more, numbers above the bound or the result type are
//! errors (never a truncated value) and an in-range canonical code is never refused; every reader
//! op returns the next bits of the stream at every alignment with `n_total_read`/`len` consistent;
//! every writer op appends its bits, `n_total_written` counts them, `flush_all` pads with zeros;
//! what was written is read back; a window yields exactly bits `start..end`; `close` succeeds iff
//! fewer than eight bits are left and all are zero.

use crate::ctx::{catch, Ctx};
use simplicity::{encode_natural, BitCollector, BitIter, BitWriter};
use std::cell::RefCell;
use std::io::Write as _;
use std::rc::Rc;

pub const RULE: &str = "naturals: exhaustive small, ±64 around every power of two up to 2^32+64, 33–50-bit numbers as hand-made bit strings, random/mutated strings, every result type and bounds n-1/n/n+1/0; reader and writer op sequences at every alignment with counters after every op; all windows of small slices; collect_bits; close after every prefix. non-trivial = natural ≥ 2 or a rejected string, a sequence with an op at a non-zero bit offset, a window with start or end off a byte boundary, a non-empty bit list; distinct by op line";

const TYPES: [&str; 9] = ["u8", "i8", "u16", "i16", "u32", "i32", "u64", "i64", "usize"];

fn ty_max(ty: &str) -> u64 {
    match ty {
        "u8" => u8::MAX as u64,
        "i8" => i8::MAX as u64,
        "u16" => u16::MAX as u64,
        "i16" => i16::MAX as u64,
        "u32" => u32::MAX as u64,
        "i32" => i32::MAX as u64,
        "u64" => u64::MAX,
        "i64" => i64::MAX as u64,
        "usize" => usize::MAX as u64,
        _ => panic!("type {ty}"),
    }
}

// ---------------------------------------------------------------- reference (bit lists)

fn bits_of(bytes: &[u8]) -> Vec<bool> {
    bytes.iter().flat_map(|b| (0..8).map(move |i| b & (1 << (7 - i)) != 0)).collect()
}

fn pack(bits: &[bool]) -> Vec<u8> {
    let mut out = vec![0u8; (bits.len() + 7) / 8];
    for (i, b) in bits.iter().enumerate() {
        if *b {
            out[i / 8] |= 1 << (7 - i % 8);
        }
    }
    out
}

fn hex(b: &[u8]) -> String {
    if b.is_empty() {
        return "-".into();
    }
    b.iter().map(|x| format!("{:02x}", x)).collect()
}

fn unhex(s: &str) -> Vec<u8> {
    if s == "-" {
        return vec![];
    }
    (0..s.len() / 2).map(|i| u8::from_str_radix(&s[2 * i..2 * i + 2], 16).unwrap()).collect()
}

fn bits_str(b: &[bool]) -> String {
    if b.is_empty() {
        return "-".into();
    }
    b.iter().map(|x| if *x { '1' } else { '0' }).collect()
}

/// reference encoder (the definition of the code): `depth` ones, a zero, then per level the
/// value without its leading one, innermost length first
fn enc_nat(n: u128) -> Vec<bool> {
    fn blen(n: u128) -> u128 {
        127 - n.leading_zeros() as u128
    }
    fn suffix(n: u128, out: &mut Vec<bool>) {
        if n <= 1 {
            return;
        }
        let len = blen(n);
        suffix(len, out);
        for i in (0..len).rev() {
            out.push(n & (1u128 << i) != 0);
        }
    }
    fn depth(n: u128) -> usize {
        if n <= 1 {
            0
        } else {
            1 + depth(blen(n))
        }
    }
    let mut out = vec![true; depth(n)];
    out.push(false);
    suffix(n, &mut out);
    out
}

#[derive(Debug, Clone, PartialEq)]
enum Ref {
    Eof,
    /// a length field above 100: the number has more than 100 bits
    Huge,
    Val(u128, usize),
}

/// reference decoder without any limit of the implementation (numbers up to 2^101)
fn ref_decode(bits: &[bool]) -> Ref {
    let mut pos = 0;
    let mut depth = 0usize;
    loop {
        match bits.get(pos) {
            None => return Ref::Eof,
            Some(true) => {
                depth += 1;
                pos += 1;
            }
            Some(false) => {
                pos += 1;
                break;
            }
        }
    }
    let mut len: u128 = 0;
    loop {
        if len > 100 {
            return Ref::Huge;
        }
        let mut n: u128 = 1;
        for _ in 0..len {
            match bits.get(pos) {
                None => return Ref::Eof,
                Some(b) => {
                    n = 2 * n + *b as u128;
                    pos += 1;
                }
            }
        }
        if depth == 0 {
            return Ref::Val(n, pos);
        }
        depth -= 1;
        len = n;
    }
}

// ---------------------------------------------------------------- the implementation

/// `read_natural::<ty>(bound)`; the error as the protocol word
fn read_nat<I: Iterator<Item = u8>>(it: &mut BitIter<I>, ty: &str, bound: Option<u64>) -> Result<u64, String> {
    macro_rules! go {
        ($t:ty) => {
            it.read_natural::<$t>(bound.map(|b| <$t>::try_from(b).expect("bound fits the type")))
                .map(|v| v as u64)
                .map_err(|e| err_word(&format!("{:?}", e)))
        };
    }
    match ty {
        "u8" => go!(u8),
        "i8" => go!(i8),
        "u16" => go!(u16),
        "i16" => go!(i16),
        "u32" => go!(u32),
        "i32" => go!(i32),
        "u64" => go!(u64),
        "i64" => go!(i64),
        "usize" => go!(usize),
        _ => panic!("type {ty}"),
    }
}

fn err_word(dbg: &str) -> String {
    if dbg.starts_with("EndOfStream") {
        "eof".into()
    } else if dbg.starts_with("Overflow") {
        "overflow".into()
    } else if dbg.starts_with("BadIndex") {
        let nums: Vec<String> = dbg
            .split(|c: char| !c.is_ascii_digit())
            .filter(|s| !s.is_empty())
            .map(|s| s.to_string())
            .collect();
        format!("badindex {} {}", nums.first().cloned().unwrap_or_default(), nums.get(1).cloned().unwrap_or_default())
    } else {
        format!("other:{}", dbg.replace(' ', "_"))
    }
}

fn bound_tok(b: Option<u64>) -> String {
    b.map(|x| x.to_string()).unwrap_or_else(|| "none".into())
}

// ---------------------------------------------------------------- enc

fn do_enc(ctx: &mut Ctx, n: u64, kind: &str) {
    let line = format!("enc {n}");
    let r = catch(|| {
        let mut sink = Vec::new();
        let mut w = BitWriter::new(&mut sink);
        let ret = encode_natural(n as usize, &mut w).unwrap();
        let written = w.n_total_written();
        w.flush_all().unwrap();
        (sink, written, ret)
    });
    let (sink, written, ret) = match r {
        Ok(x) => x,
        Err(m) => {
            ctx.op(&line, "panic");
            ctx.fail("panic-encode-natural", &line, &m);
            return;
        }
    };
    ctx.op(&line, &format!("{} {}", hex(&sink), written));
    ctx.count(&format!("reach:enc-{kind}"));
    ctx.case(if n >= 2 { Some(&line) } else { None });
    let model = enc_nat(n as u128);
    let got = bits_of(&sink);
    if written != model.len() || ret != model.len() {
        ctx.fail("nat-encode-count", &line, &format!("n_total_written={written} returned={ret} reference={}", model.len()));
    }
    if got.len() < model.len() || got[..model.len()] != model[..] || got[model.len()..].iter().any(|b| *b) || got.len() != (model.len() + 7) / 8 * 8 {
        ctx.fail("nat-encode-bits", &line, &format!("sink {} reference {}", hex(&sink), bits_str(&model)));
        return;
    }
    // decode what was written: the number, exactly the written bits
    let r = catch(|| {
        let mut it = BitIter::from(&sink[..]);
        let v = read_nat(&mut it, "u32", None);
        (v, it.n_total_read())
    });
    match r {
        Err(m) => ctx.fail("panic-read-natural", &line, &m),
        Ok((Ok(v), read)) => {
            if n >= 1 << 32 {
                ctx.fail("nat-large-accepted", &line, &format!("{n} (≥ 2^32) encoded by encode_natural is accepted as {v}"));
            } else if v != n || read != written {
                ctx.fail("nat-roundtrip", &line, &format!("decoded {v} reading {read} bits, written {written}"));
            }
        }
        Ok((Err(e), _)) => {
            if n < 1 << 32 {
                ctx.fail("nat-roundtrip", &line, &format!("own encoding rejected: {e}"));
            } else if e != "overflow" {
                ctx.fail("nat-error-kind", &line, &format!("{n} ≥ 2^32 rejected as {e}, expected overflow"));
            }
        }
    }
}

// ---------------------------------------------------------------- dec

fn do_dec(ctx: &mut Ctx, ty: &str, bound: Option<u64>, skip: usize, bytes: &[u8], kind: &str) {
    let line = format!("dec {ty} {} {skip} {}", bound_tok(bound), hex(bytes));
    let r = catch(|| {
        let mut it = BitIter::from(bytes);
        for _ in 0..skip {
            let _ = it.next();
        }
        let v = read_nat(&mut it, ty, bound);
        (v, it.n_total_read(), it.len())
    });
    let (res, read, len) = match r {
        Ok(x) => x,
        Err(m) => {
            ctx.op(&line, "panic");
            ctx.fail("panic-read-natural", &line, &m);
            return;
        }
    };
    let out = match &res {
        Ok(v) => format!("ok {v} read={read} len={len}"),
        Err(e) => e.clone(),
    };
    ctx.op(&line, &out);
    let all = bits_of(bytes);
    let start = skip.min(all.len());
    let bits = &all[start..];
    let rf = ref_decode(bits);
    let tmax = ty_max(ty) as u128;
    let acceptable = |m: u128| m < (1u128 << 32) && m <= tmax && bound.map_or(true, |b| m <= b as u128);
    ctx.count(&format!("reach:dec-{kind}"));
    ctx.count(&format!("reach:dec-type-{ty}"));
    ctx.count(&format!("reach:dec-align-{}", start % 8));
    ctx.count(if bound.is_some() { "reach:dec-bound-some" } else { "reach:dec-bound-none" });
    match &res {
        Ok(_) => ctx.count("reach:dec-accepted"),
        Err(e) => ctx.count(&format!("reach:dec-err-{}", e.split(' ').next().unwrap())),
    }
    let nontrivial = match &rf {
        Ref::Val(m, _) => *m >= 2,
        _ => true,
    };
    ctx.case(if nontrivial { Some(&line) } else { None });
    if ctx.want_sample() && matches!(rf, Ref::Val(m, _) if m > 1000) {
        ctx.sample(&format!("{line} -> {out}"));
    }
    match (&res, &rf) {
        (Ok(v), Ref::Val(m, used)) => {
            let v = *v as u128;
            if v != *m {
                ctx.fail(if *m >= 1 << 32 { "nat-truncated" } else { "nat-wrong-value" }, &line, &format!("the string encodes {m}, returned {v}"));
            } else if !acceptable(*m) {
                ctx.fail("nat-out-of-range-accepted", &line, &format!("{m} is above the result type, the bound or 2^32-1, returned Ok"));
            }
            if read != start + used {
                ctx.fail("nat-consumed", &line, &format!("n_total_read={read}, the code has {used} bits after {start}"));
            }
            if enc_nat(v) != bits[..(*used).min(bits.len())] {
                ctx.fail("nat-noncanonical", &line, &format!("accepted bits {} are not the code of {v}", bits_str(&bits[..*used])));
            }
            if len != all.len() - read {
                ctx.fail("reader-len", &line, &format!("len()={len}, {} bits are left", all.len() - read));
            }
        }
        (Ok(v), other) => {
            ctx.fail("nat-noncanonical", &line, &format!("accepted as {v}, the reference says {:?}", other));
        }
        (Err(e), Ref::Val(m, _)) => {
            if acceptable(*m) {
                ctx.fail("nat-valid-rejected", &line, &format!("the canonical code of {m} within type and bound is rejected: {e}"));
            } else {
                let want = if *m >= 1 << 32 || *m > tmax { "overflow".to_string() } else { format!("badindex {m} {}", bound.unwrap()) };
                if *e != want {
                    ctx.fail("nat-error-kind", &line, &format!("got {e}, expected {want}"));
                }
            }
        }
        (Err(e), Ref::Huge) => {
            if e != "overflow" {
                ctx.fail("nat-error-kind", &line, &format!("got {e}, expected overflow"));
            }
        }
        (Err(e), Ref::Eof) => {
            if e != "eof" && e != "overflow" {
                ctx.fail("nat-error-kind", &line, &format!("got {e} on a truncated string"));
            }
        }
    }
}

// ---------------------------------------------------------------- rd

#[derive(Clone, Debug)]
enum ROp {
    Bit,
    U2,
    U8,
    Nat(String, Option<u64>),
    Close,
}

impl ROp {
    fn tok(&self) -> String {
        match self {
            ROp::Bit => "b".into(),
            ROp::U2 => "u2".into(),
            ROp::U8 => "u8".into(),
            ROp::Nat(t, b) => format!("n:{t}:{}", bound_tok(*b)),
            ROp::Close => "c".into(),
        }
    }
    fn parse(s: &str) -> ROp {
        let p: Vec<&str> = s.split(':').collect();
        match p[0] {
            "b" => ROp::Bit,
            "u2" => ROp::U2,
            "u8" => ROp::U8,
            "c" => ROp::Close,
            "n" => ROp::Nat(p[1].to_string(), if p[2] == "none" { None } else { Some(p[2].parse().unwrap()) }),
            _ => panic!("rop {s}"),
        }
    }
    fn name(&self) -> &'static str {
        match self {
            ROp::Bit => "bit",
            ROp::U2 => "u2",
            ROp::U8 => "u8",
            ROp::Nat(..) => "nat",
            ROp::Close => "close",
        }
    }
}

/// one reader op sequence on `bytes` (or on the window `start..end` of it)
fn do_rd(ctx: &mut Ctx, bytes: &[u8], window: Option<(usize, usize)>, ops: &[ROp], kind: &str) {
    let src = match window {
        None => hex(bytes),
        Some((s, e)) => format!("{}:{s}:{e}", hex(bytes)),
    };
    let mut line = format!("rd {src}");
    for o in ops {
        line.push(' ');
        line.push_str(&o.tok());
    }
    let all = bits_of(bytes);
    let (start, end) = window.unwrap_or((0, all.len()));
    // where `close` looks: the end of the last byte of the (sub)slice
    let byte_end = (end + 7) / 8 * 8;
    let r = catch(|| {
        let mut it = match window {
            None => BitIter::from(bytes),
            Some((s, e)) => BitIter::byte_slice_window(bytes, s, e),
        };
        let mut outs: Vec<String> = vec![format!("s/{}/{}", it.n_total_read(), it.len())];
        let mut fails: Vec<(String, String)> = vec![];
        let mut reach: Vec<String> = vec![];
        let mut pos = start;
        let mut offzero = false;
        for (i, op) in ops.iter().enumerate() {
            let align = pos % 8;
            if align != 0 {
                offzero = true;
            }
            let avail = end - pos;
            match op {
                ROp::Bit => {
                    let g = it.read_bit().ok();
                    let want = if avail >= 1 { Some(all[pos]) } else { None };
                    if g != want {
                        fails.push(("reader-bit".into(), format!("op {i}: read_bit at bit {pos} gave {:?}, stream has {:?}", g, want)));
                    }
                    if want.is_some() {
                        pos += 1;
                    }
                    outs.push(match g {
                        Some(b) => format!("{}", b as u8),
                        None => "e".into(),
                    });
                    reach.push(if want.is_some() { format!("reach:rd-bit-align{align}") } else { "reach:rd-bit-eof".to_string() });
                }
                ROp::U2 => {
                    let g = it.read_u2().ok().map(u8::from);
                    let want = if avail >= 2 { Some(all[pos] as u8 * 2 + all[pos + 1] as u8) } else { None };
                    if g != want {
                        fails.push(("reader-u2".into(), format!("op {i}: read_u2 at bit {pos} gave {:?}, stream has {:?}", g, want)));
                    }
                    // `match (self.next(), self.next())`: a lone last bit is consumed by the failing call
                    pos += avail.min(2);
                    outs.push(match g {
                        Some(v) => format!("{v}"),
                        None => "e".into(),
                    });
                    reach.push(if want.is_some() { format!("reach:rd-u2-align{align}") } else { "reach:rd-u2-eof".to_string() });
                }
                ROp::U8 => {
                    let g = it.read_u8().ok();
                    let want = if avail >= 8 { Some((0..8).fold(0u8, |a, k| a * 2 + all[pos + k] as u8)) } else { None };
                    if g != want {
                        fails.push(("reader-u8".into(), format!("op {i}: read_u8 at bit {pos} gave {:?}, stream has {:?}", g, want)));
                    }
                    if want.is_some() {
                        pos += 8;
                    }
                    outs.push(match g {
                        Some(v) => format!("{v}"),
                        None => "e".into(),
                    });
                    reach.push(if want.is_some() { format!("reach:rd-u8-align{align}") } else { "reach:rd-u8-eof".to_string() });
                }
                ROp::Nat(ty, bound) => {
                    let g = read_nat(&mut it, ty, *bound);
                    let rf = ref_decode(&all[pos..end]);
                    let tmax = ty_max(ty) as u128;
                    let ok = |m: u128| m < (1u128 << 32) && m <= tmax && bound.map_or(true, |b| m <= b as u128);
                    match (&g, &rf) {
                        (Ok(v), Ref::Val(m, used)) if *v as u128 == *m && ok(*m) => {
                            pos += used;
                        }
                        (Err(_), Ref::Val(m, _)) if !ok(*m) => {}
                        (Err(_), Ref::Eof) | (Err(_), Ref::Huge) => {}
                        _ => fails.push(("reader-nat".into(), format!("op {i}: read_natural::<{ty}>({:?}) at bit {pos} gave {:?}, the stream holds {:?}", bound, g, rf))),
                    }
                    reach.push(if g.is_ok() { format!("reach:rd-nat-align{align}") } else { "reach:rd-nat-err".to_string() });
                    match g {
                        Ok(v) => outs.push(format!("{v}")),
                        Err(e) => {
                            // the reader's position after a failed read_natural is not specified
                            outs.push(e.replace(' ', ":"));
                            return (outs, fails, reach, offzero, true);
                        }
                    }
                }
                ROp::Close => {
                    // consumes the reader; always the last op
                    let left = &all[pos..byte_end];
                    // only padding (fewer than eight bits up to the end of the last byte) is left, all zero
                    let want = byte_end - pos < 8 && left.iter().all(|b| !*b);
                    let g = it.close();
                    let dbg = format!("{:?}", g);
                    let word = match &g {
                        Ok(()) => "ok".to_string(),
                        Err(_) => {
                            let nums: Vec<&str> = dbg.split(|c: char| !c.is_ascii_digit()).filter(|s| !s.is_empty()).collect();
                            if dbg.contains("TrailingBytes") {
                                format!("trailing:{}", nums[0])
                            } else {
                                format!("padding:{}:{}", nums[0], nums[1])
                            }
                        }
                    };
                    if g.is_ok() != want {
                        fails.push((
                            if window.is_some() { "close-window".into() } else { "close".into() },
                            format!("close after {} bits: {:?}; unread bits up to the end of the last byte: {}", pos - start, g, bits_str(left)),
                        ));
                    }
                    reach.push(format!("reach:close-{}", if g.is_ok() { "ok" } else if dbg.contains("Trailing") { "trailing" } else { "padding" }));
                    reach.push(format!("reach:close-align{align}"));
                    outs.push(word);
                    return (outs, fails, reach, offzero, true);
                }
            }
            let tr = it.n_total_read();
            let ln = it.len();
            if tr != pos - start {
                fails.push(("reader-total".into(), format!("op {i} ({}): n_total_read={tr}, {} bits were delivered", op.name(), pos - start)));
            }
            if ln != end - pos {
                fails.push(("reader-len".into(), format!("op {i} ({}): len()={ln}, {} bits are left", op.name(), end - pos)));
            }
            let last = outs.pop().unwrap();
            outs.push(format!("{last}/{tr}/{ln}"));
        }
        (outs, fails, reach, offzero, false)
    });
    match r {
        Err(m) => {
            ctx.op(&line, "panic");
            ctx.fail("panic-reader", &line, &m);
        }
        Ok((outs, fails, reach, offzero, _)) => {
            ctx.op(&line, &outs.join(" "));
            ctx.count(&format!("reach:rd-{kind}"));
            for k in reach {
                ctx.count(&k);
            }
            ctx.case(if offzero { Some(&line) } else { None });
            if ctx.want_sample() && ops.len() > 4 && offzero {
                ctx.sample(&format!("{line} -> {}", outs.join(" ")));
            }
            for (c, d) in fails {
                ctx.fail(&c, &line, &d);
            }
        }
    }
}

// ---------------------------------------------------------------- wr

#[derive(Clone, Debug)]
enum WOp {
    Bit(bool),
    Be(u64, usize),
    Bytes(Vec<u8>),
    Nat(u64),
    Flush,
}

impl WOp {
    fn tok(&self) -> String {
        match self {
            WOp::Bit(b) => format!("b{}", *b as u8),
            WOp::Be(n, l) => format!("be:{n}:{l}"),
            WOp::Bytes(b) => format!("by:{}", hex(b)),
            WOp::Nat(n) => format!("n:{n}"),
            WOp::Flush => "f".into(),
        }
    }
    fn parse(s: &str) -> WOp {
        let p: Vec<&str> = s.split(':').collect();
        match p[0] {
            "b0" => WOp::Bit(false),
            "b1" => WOp::Bit(true),
            "be" => WOp::Be(p[1].parse().unwrap(), p[2].parse().unwrap()),
            "by" => WOp::Bytes(unhex(p[1])),
            "n" => WOp::Nat(p[1].parse().unwrap()),
            "f" => WOp::Flush,
            _ => panic!("wop {s}"),
        }
    }
    fn name(&self) -> &'static str {
        match self {
            WOp::Bit(_) => "bit",
            WOp::Be(..) => "be",
            WOp::Bytes(_) => "bytes",
            WOp::Nat(_) => "nat",
            WOp::Flush => "flush",
        }
    }
}

struct Shared(Rc<RefCell<Vec<u8>>>);
impl std::io::Write for Shared {
    fn write(&mut self, buf: &[u8]) -> std::io::Result<usize> {
        self.0.borrow_mut().extend_from_slice(buf);
        Ok(buf.len())
    }
    fn flush(&mut self) -> std::io::Result<()> {
        Ok(())
    }
}

/// one writer op sequence (the caller ends it with `f`), then the sink is read back
fn do_wr(ctx: &mut Ctx, ops: &[WOp], kind: &str) {
    let mut line = "wr".to_string();
    for o in ops {
        line.push(' ');
        line.push_str(&o.tok());
    }
    let r = catch(|| {
        let sink = Rc::new(RefCell::new(Vec::new()));
        let mut w = BitWriter::new(Shared(sink.clone()));
        let mut model: Vec<bool> = vec![]; // the stream including padding
        let mut counted = 0usize;
        let mut flushed_at = 0usize;
        let mut outs = vec![];
        let mut fails: Vec<(String, String)> = vec![];
        let mut reach = vec![];
        let mut offzero = false;
        for (i, op) in ops.iter().enumerate() {
            let align = model.len() % 8;
            if align != 0 {
                offzero = true;
            }
            let before = model.len();
            match op {
                WOp::Bit(b) => {
                    w.write_bit(*b).unwrap();
                    model.push(*b);
                }
                WOp::Be(n, len) => {
                    let ret = w.write_bits_be(*n, *len).unwrap();
                    if ret != *len {
                        fails.push(("writer-return".into(), format!("op {i}: write_bits_be returned {ret} for {len} bits")));
                    }
                    for k in (0..*len).rev() {
                        model.push(n & (1u64 << k) != 0);
                    }
                }
                WOp::Bytes(bs) => {
                    let ret = w.write(bs).unwrap();
                    if ret != bs.len() {
                        fails.push(("writer-return".into(), format!("op {i}: write returned {ret} for {} bytes", bs.len())));
                    }
                    model.extend(bits_of(bs));
                }
                WOp::Nat(n) => {
                    let ret = encode_natural(*n as usize, &mut w).unwrap();
                    let e = enc_nat(*n as u128);
                    if ret != e.len() {
                        fails.push(("nat-encode-count".into(), format!("op {i}: encode_natural({n}) returned {ret}, the code has {} bits", e.len())));
                    }
                    model.extend(e);
                }
                WOp::Flush => {
                    w.flush_all().unwrap();
                    while model.len() % 8 != 0 {
                        model.push(false);
                    }
                    flushed_at = model.len();
                }
            }
            if !matches!(op, WOp::Flush) {
                counted += model.len() - before;
            }
            let tw = w.n_total_written();
            if tw != counted {
                fails.push(("writer-total".into(), format!("op {i} ({}): n_total_written={tw}, {counted} bits were written", op.name())));
            }
            let sl = sink.borrow().len();
            // bytes reach the sink lazily: a full cache is written by the next bit or by flush_all
            let want_sink = if model.len() > flushed_at { (model.len() - 1) / 8 } else { model.len() / 8 };
            if sl != want_sink {
                fails.push(("writer-sink".into(), format!("op {i} ({}): {sl} bytes in the sink, expected {want_sink}", op.name())));
            } else if sink.borrow()[..] != pack(&model)[..sl] {
                fails.push(("writer-bits".into(), format!("op {i} ({}): sink {} differs from the written bits {}", op.name(), hex(&sink.borrow()), bits_str(&model))));
            }
            outs.push(format!("{tw}:{sl}"));
            reach.push(format!("reach:wr-{}-align{align}", op.name()));
        }
        let bytes = sink.borrow().clone();
        outs.push(hex(&bytes));
        (outs, fails, reach, offzero, bytes, model)
    });
    match r {
        Err(m) => {
            ctx.op(&line, "panic");
            ctx.fail("panic-writer", &line, &m);
        }
        Ok((outs, fails, reach, offzero, bytes, model)) => {
            ctx.op(&line, &outs.join(" "));
            ctx.count(&format!("reach:wr-{kind}"));
            for k in reach {
                ctx.count(&k);
            }
            ctx.case(if offzero { Some(&line) } else { None });
            if ctx.want_sample() && ops.len() > 4 && offzero {
                ctx.sample(&format!("{line} -> {}", outs.join(" ")));
            }
            for (c, d) in fails {
                ctx.fail(&c, &line, &d);
            }
            let flushed = matches!(ops.last(), Some(WOp::Flush));
            if flushed {
                if bits_of(&bytes) != model {
                    ctx.fail("writer-bits", &line, &format!("flushed sink {} is not the written bits with zero padding {}", hex(&bytes), bits_str(&model)));
                }
                read_back(ctx, &line, ops, &bytes);
            }
        }
    }
}

/// what was written is read back op by op through the bit reader
fn read_back(ctx: &mut Ctx, line: &str, ops: &[WOp], bytes: &[u8]) {
    let r = catch(|| {
        let mut it = BitIter::from(bytes);
        let mut pos = 0usize;
        let mut rops: Vec<ROp> = vec![];
        for (i, op) in ops.iter().enumerate() {
            match op {
                WOp::Bit(b) => {
                    rops.push(ROp::Bit);
                    if it.read_bit().ok() != Some(*b) {
                        return Err(format!("op {i}: bit {b} not read back"));
                    }
                    pos += 1;
                }
                WOp::Be(n, len) => {
                    let mut k = *len;
                    while k > 0 {
                        if k >= 8 {
                            rops.push(ROp::U8);
                            let want = ((n >> (k - 8)) & 0xff) as u8;
                            let g = it.read_u8().ok();
                            if g != Some(want) {
                                return Err(format!("op {i}: bits {}..{} of {n} read back as {:?}, written {want}", k - 8, k, g));
                            }
                            k -= 8;
                            pos += 8;
                        } else if k >= 2 {
                            rops.push(ROp::U2);
                            let want = ((n >> (k - 2)) & 3) as u8;
                            let g = it.read_u2().ok().map(u8::from);
                            if g != Some(want) {
                                return Err(format!("op {i}: bits {}..{} of {n} read back as {:?}, written {want}", k - 2, k, g));
                            }
                            k -= 2;
                            pos += 2;
                        } else {
                            rops.push(ROp::Bit);
                            let want = n & 1 != 0;
                            if it.read_bit().ok() != Some(want) {
                                return Err(format!("op {i}: last bit of {n} not read back"));
                            }
                            k -= 1;
                            pos += 1;
                        }
                    }
                }
                WOp::Bytes(bs) => {
                    for b in bs {
                        rops.push(ROp::U8);
                        let g = it.read_u8().ok();
                        if g != Some(*b) {
                            return Err(format!("op {i}: byte {b} read back as {:?}", g));
                        }
                        pos += 8;
                    }
                }
                WOp::Nat(n) => {
                    rops.push(ROp::Nat("u64".into(), None));
                    let g = read_nat(&mut it, "u64", None);
                    if *n < 1 << 32 {
                        if g != Ok(*n) {
                            return Err(format!("op {i}: natural {n} read back as {:?}", g));
                        }
                        pos += enc_nat(*n as u128).len();
                    } else {
                        if g.is_ok() {
                            return Err(format!("op {i}: natural {n} ≥ 2^32 read back as {:?}", g));
                        }
                        return Ok(rops);
                    }
                }
                WOp::Flush => {
                    while pos % 8 != 0 {
                        rops.push(ROp::Bit);
                        if it.read_bit().ok() != Some(false) {
                            return Err(format!("op {i}: padding bit at {pos} is not a zero"));
                        }
                        pos += 1;
                    }
                }
            }
            if it.n_total_read() != pos {
                return Err(format!("op {i}: n_total_read={} after {pos} bits", it.n_total_read()));
            }
        }
        if it.close().is_err() {
            return Err("close after reading everything back fails".into());
        }
        rops.push(ROp::Close);
        Ok(rops)
    });
    match r {
        Err(m) => ctx.fail("panic-reader", line, &m),
        Ok(Err(d)) => ctx.fail("write-read", line, &d),
        Ok(Ok(rops)) => {
            ctx.count("reach:write-read-back");
            // the same reads as a model op
            if rops.len() <= 400 {
                do_rd(ctx, bytes, None, &rops, "readback");
            }
        }
    }
}

// ---------------------------------------------------------------- win, col

fn do_win(ctx: &mut Ctx, bytes: &[u8], s: usize, e: usize) {
    let line = format!("win {} {s} {e}", hex(bytes));
    let r = catch(|| {
        let it = BitIter::byte_slice_window(bytes, s, e);
        let len = it.len();
        let got: Vec<bool> = it.collect();
        (got, len)
    });
    match r {
        Err(m) => {
            ctx.op(&line, "panic");
            ctx.fail("panic-window", &line, &m);
        }
        Ok((got, len)) => {
            ctx.op(&line, &format!("{} len={len}", bits_str(&got)));
            ctx.count(&format!("reach:win-start-mod8={}", s % 8));
            ctx.count(&format!("reach:win-end-mod8={}", e % 8));
            ctx.count(if s == e {
                "reach:win-empty"
            } else if s / 8 == (e - 1) / 8 {
                "reach:win-inside-one-byte"
            } else {
                "reach:win-across-bytes"
            });
            ctx.case(if s % 8 != 0 || e % 8 != 0 { Some(&line) } else { None });
            let all = bits_of(bytes);
            if got != all[s..e] {
                ctx.fail("window", &line, &format!("yields {} bits {}, bits {s}..{e} are {}", got.len(), bits_str(&got), bits_str(&all[s..e])));
            }
            if len != e - s {
                ctx.fail("window-len", &line, &format!("len()={len}, the window has {} bits", e - s));
            }
        }
    }
}

fn do_col(ctx: &mut Ctx, bits: &[bool]) {
    let line = format!("col {}", bits_str(bits));
    let r = catch(|| bits.iter().copied().collect_bits());
    match r {
        Err(m) => {
            ctx.op(&line, "panic");
            ctx.fail("panic-collect", &line, &m);
        }
        Ok((bytes, n)) => {
            ctx.op(&line, &format!("{} {n}", hex(&bytes)));
            ctx.count(&format!("reach:col-len-mod8={}", bits.len() % 8));
            ctx.case(if bits.is_empty() { None } else { Some(&line) });
            if n != bits.len() || bytes != pack(bits) {
                ctx.fail("collect", &line, &format!("collect_bits gives {} / {n}, expected {} / {}", hex(&bytes), hex(&pack(bits)), bits.len()));
            }
            // and the bits come back through the reader
            let back: Vec<bool> = BitIter::from(&bytes[..]).take(n).collect();
            if back != bits {
                ctx.fail("collect-read", &line, "bits collected and read back differ");
            }
        }
    }
}

// ---------------------------------------------------------------- replay

/// re-evaluate one recorded case (an op line)
pub fn replay(ctx: &mut Ctx, case: &str) {
    let t: Vec<&str> = case.split_whitespace().collect();
    match t[0] {
        "enc" => do_enc(ctx, t[1].parse().unwrap(), "replay"),
        "dec" => {
            let bound = if t[2] == "none" { None } else { Some(t[2].parse().unwrap()) };
            do_dec(ctx, t[1], bound, t[3].parse().unwrap(), &unhex(t[4]), "replay")
        }
        "rd" => {
            let p: Vec<&str> = t[1].split(':').collect();
            let bytes = unhex(p[0]);
            let w = if p.len() == 3 { Some((p[1].parse().unwrap(), p[2].parse().unwrap())) } else { None };
            let ops: Vec<ROp> = t[2..].iter().map(|s| ROp::parse(s)).collect();
            do_rd(ctx, &bytes, w, &ops, "replay")
        }
        "wr" => {
            let ops: Vec<WOp> = t[1..].iter().map(|s| WOp::parse(s)).collect();
            do_wr(ctx, &ops, "replay")
        }
        "win" => do_win(ctx, &unhex(t[1]), t[2].parse().unwrap(), t[3].parse().unwrap()),
        "col" => {
            let bits: Vec<bool> = if t[1] == "-" { vec![] } else { t[1].chars().map(|c| c == '1').collect() };
            do_col(ctx, &bits)
        }
        _ => {}
    }
}

// ---------------------------------------------------------------- generation

fn rand_ty(ctx: &mut Ctx) -> &'static str {
    TYPES[ctx.rng.below(TYPES.len() as u64) as usize]
}

/// bounds around `n` that fit the type
fn bounds_near(n: u64, ty: &str) -> Vec<Option<u64>> {
    let m = ty_max(ty);
    let mut v = vec![None];
    for b in [n.saturating_sub(1), n, n.saturating_add(1), 0] {
        let b = b.min(m);
        if !v.contains(&Some(b)) {
            v.push(Some(b));
        }
    }
    v
}

fn nat_all(ctx: &mut Ctx, n: u64, all_types: bool, kind: &str) {
    do_enc(ctx, n, kind);
    let bytes = pack(&enc_nat(n as u128));
    if all_types {
        for ty in TYPES {
            for b in bounds_near(n, ty) {
                do_dec(ctx, ty, b, 0, &bytes, kind);
            }
        }
    } else {
        do_dec(ctx, "u32", None, 0, &bytes, kind);
        let ty = TYPES[(n % 9) as usize];
        for b in bounds_near(n, ty) {
            do_dec(ctx, ty, b, 0, &bytes, kind);
        }
    }
}

fn rand_rops(ctx: &mut Ctx, max: u64, close: bool) -> Vec<ROp> {
    let k = ctx.rng.below(max + 1);
    let mut ops = vec![];
    for _ in 0..k {
        ops.push(match ctx.rng.below(8) {
            0 | 1 | 2 => ROp::Bit,
            3 | 4 => ROp::U2,
            5 | 6 => ROp::U8,
            _ => {
                let ty = rand_ty(ctx);
                let b = match ctx.rng.below(3) {
                    0 => None,
                    1 => Some(ctx.rng.below(40).min(ty_max(ty))),
                    _ => Some(ctx.rng.below(ty_max(ty).min(100_000) + 1)),
                };
                ROp::Nat(ty.to_string(), b)
            }
        });
    }
    if close {
        ops.push(ROp::Close);
    }
    ops
}

fn rand_nat(ctx: &mut Ctx) -> u64 {
    match ctx.rng.below(6) {
        0 => 1 + ctx.rng.below(4),
        1 => 1 + ctx.rng.below(300),
        2 => 1 + ctx.rng.below(70_000),
        3 => (1u64 << ctx.rng.below(33)).saturating_add(ctx.rng.below(3)).saturating_sub(1).max(1),
        4 => 1 + ctx.rng.below((1u64 << 32) - 1),
        _ => (1u64 << 32) + ctx.rng.below(1 << 20),
    }
}

fn rand_bytes(ctx: &mut Ctx, max_len: u64) -> Vec<u8> {
    let len = ctx.rng.below(max_len + 1) as usize;
    let mode = ctx.rng.below(4);
    (0..len)
        .map(|_| match mode {
            0 => ctx.rng.next() as u8,
            1 => {
                if ctx.rng.below(3) == 0 {
                    0xff
                } else {
                    ctx.rng.next() as u8
                }
            }
            2 => {
                if ctx.rng.below(2) == 0 {
                    0
                } else {
                    1 << ctx.rng.below(8)
                }
            }
            _ => (ctx.rng.next() & ctx.rng.next()) as u8,
        })
        .collect()
}

pub fn run(ctx: &mut Ctx) {
    // ---- 1. naturals through the real encoder and back
    let small = ctx.scale(65_536, 300_000);
    for n in 1..=small {
        nat_all(ctx, n, false, "small");
    }
    // the limits of the result types, every type
    for c in [127u64, 128, 255, 256, 32767, 32768, 65535, 65536] {
        let w = ctx.scale(3, 40);
        for d in 0..=2 * w {
            nat_all(ctx, c + d - w, true, "type-limit");
        }
    }
    let around = ctx.scale(64, 64);
    let all_ty_within = ctx.scale(8, 64);
    for p in 1..=32u32 {
        let b = 1u64 << p;
        for d in 0..=around {
            for n in [b - d.min(b - 1), b + d] {
                if (n == b && d > 0) || n == 0 {
                    continue;
                }
                nat_all(ctx, n, d <= all_ty_within, "power-of-two");
            }
        }
    }
    // beyond: the real encoder takes any usize
    for p in 33u32..=63 {
        for d in 0..ctx.scale(2, 10) {
            nat_all(ctx, (1u64 << p) + d, false, "large-real-encoder");
            nat_all(ctx, (1u64 << p) - 1 - d, false, "large-real-encoder");
        }
    }
    nat_all(ctx, u64::MAX, false, "large-real-encoder");
    for _ in 0..ctx.scale(3_000, 30_000) {
        let n = 1 + ctx.rng.below((1u64 << 32) - 1);
        nat_all(ctx, n, false, "random");
    }

    // ---- 2. numbers of 33–50 bits (and a few far larger ones) as hand-made bit strings
    let mut large: Vec<u128> = (0..ctx.scale(64, 200)).map(|d| (1u128 << 32) + d as u128).collect();
    for p in 33..=50u32 {
        for d in 0..ctx.scale(3, 8) as u128 {
            large.push((1u128 << p) + d);
            large.push((1u128 << p) - 1 - d);
        }
    }
    for _ in 0..ctx.scale(2_000, 20_000) {
        large.push((1u128 << 32) + ctx.rng.below(1 << 50) as u128 % ((1u128 << 50) - (1u128 << 32)));
    }
    for p in [64u32, 65, 70, 90, 100] {
        large.push(1u128 << p);
        large.push((1u128 << p) + 12345);
    }
    for (i, n) in large.iter().enumerate() {
        let mut bits = enc_nat(*n);
        // low 32 bits of n as what a truncating decoder would return
        let extra = ctx.rng.below(12) as usize;
        for _ in 0..extra {
            bits.push(ctx.rng.bool());
        }
        let bytes = pack(&bits);
        for ty in ["u32", "u64", "usize", TYPES[i % 9]] {
            do_dec(ctx, ty, None, 0, &bytes, "large-hand-encoded");
        }
        do_dec(ctx, "u64", Some(u64::MAX), 0, &bytes, "large-hand-encoded");
    }

    // ---- 3. arbitrary and mutated strings, every type, bounds, every alignment
    for it in 0..ctx.scale(120_000, 1_000_000) {
        let (bytes, skip) = if it % 2 == 0 {
            (rand_bytes(ctx, 7), ctx.rng.below(9) as usize)
        } else {
            // a valid code at a random offset, then damaged
            let skip = ctx.rng.below(9) as usize;
            let mut bits: Vec<bool> = (0..skip).map(|_| ctx.rng.bool()).collect();
            let n = rand_nat(ctx);
            bits.extend(enc_nat(n as u128));
            for _ in 0..ctx.rng.below(10) {
                bits.push(ctx.rng.bool());
            }
            match ctx.rng.below(4) {
                0 => {
                    let k = skip + ctx.rng.below((bits.len() - skip) as u64) as usize;
                    bits[k] = !bits[k];
                }
                1 => {
                    let k = skip + ctx.rng.below((bits.len() - skip) as u64) as usize;
                    bits.truncate(k.max(skip));
                }
                _ => {}
            }
            (pack(&bits), skip)
        };
        let ty = rand_ty(ctx);
        let bound = match ctx.rng.below(4) {
            0 => None,
            1 => Some(ctx.rng.below(100).min(ty_max(ty))),
            2 => match ref_decode(&bits_of(&bytes)[skip.min(bytes.len() * 8)..]) {
                Ref::Val(m, _) if m < (1 << 64) => Some(((m as u64).saturating_add(ctx.rng.below(3)).saturating_sub(1)).min(ty_max(ty))),
                _ => Some(ctx.rng.below(1 << 20).min(ty_max(ty))),
            },
            _ => Some(ty_max(ty)),
        };
        do_dec(ctx, ty, bound, skip, &bytes, if it % 2 == 0 { "random-string" } else { "mutated-code" });
    }
    // every string of up to 12 bits (thorough: 16), zero padded
    let maxbits = ctx.scale(14, 17);
    for len in 1..=maxbits {
        for v in 0..(1u64 << len) {
            let bits: Vec<bool> = (0..len).rev().map(|k| v & (1 << k) != 0).collect();
            do_dec(ctx, TYPES[(v % 9) as usize], None, 0, &pack(&bits), "exhaustive-string");
        }
    }

    // ---- 4. reader op sequences on byte strings, plain and windowed
    for it in 0..ctx.scale(90_000, 800_000) {
        let bytes = if it % 3 == 0 {
            // a stream that holds naturals, so that `n` ops succeed at every alignment
            let mut bits = vec![];
            for _ in 0..ctx.rng.below(5) {
                match ctx.rng.below(3) {
                    0 => {
                        let n = rand_nat(ctx);
                        bits.extend(enc_nat(n as u128))
                    }
                    1 => bits.push(ctx.rng.bool()),
                    _ => {
                        for _ in 0..ctx.rng.below(10) {
                            bits.push(ctx.rng.bool())
                        }
                    }
                }
            }
            pack(&bits)
        } else {
            rand_bytes(ctx, 6)
        };
        let window = if it % 4 == 1 {
            let n = bytes.len() as u64 * 8;
            let s = ctx.rng.below(n + 1);
            let e = s + ctx.rng.below(n - s + 1);
            Some((s as usize, e as usize))
        } else {
            None
        };
        let close = ctx.rng.below(4) != 0;
        let ops = rand_rops(ctx, 12, close);
        do_rd(ctx, &bytes, window, &ops, if window.is_some() { "window-sequence" } else { "plain-sequence" });
    }
    // close after every prefix of every one-byte string, and of two-byte strings
    for b in 0..=255u8 {
        for k in 0..=8usize {
            let mut ops = vec![ROp::Bit; k];
            ops.push(ROp::Close);
            do_rd(ctx, &[b], None, &ops, "close-exhaustive");
        }
    }
    for _ in 0..ctx.scale(3_000, 30_000) {
        let b = [if ctx.rng.bool() { 0 } else { ctx.rng.next() as u8 }, if ctx.rng.bool() { 0 } else { 1 << ctx.rng.below(8) }];
        let k = ctx.rng.below(17) as usize;
        let mut ops = vec![ROp::Bit; k];
        ops.push(ROp::Close);
        do_rd(ctx, &b, None, &ops, "close-two-bytes");
    }
    do_rd(ctx, &[], None, &[ROp::Bit, ROp::U2, ROp::U8, ROp::Close], "plain-sequence");
    do_rd(ctx, &[], None, &[ROp::Close], "plain-sequence");

    // ---- 5. writer op sequences, read back
    for _ in 0..ctx.scale(50_000, 400_000) {
        let k = ctx.rng.below(12);
        let mut ops = vec![];
        for _ in 0..k {
            ops.push(match ctx.rng.below(10) {
                0 | 1 | 2 => WOp::Bit(ctx.rng.bool()),
                3 | 4 | 5 => {
                    let len = match ctx.rng.below(4) {
                        0 => ctx.rng.below(9),
                        1 => 56 + ctx.rng.below(9),
                        _ => ctx.rng.below(65),
                    } as usize;
                    let n = match ctx.rng.below(3) {
                        0 => ctx.rng.next(),
                        1 => ctx.rng.next() & ((1u64 << (len.min(63))) - 1),
                        _ => u64::MAX,
                    };
                    WOp::Be(n, len)
                }
                6 | 7 => {
                    let n = ctx.rng.below(4) as usize;
                    WOp::Bytes(ctx.rng.bytes(n))
                }
                8 => WOp::Nat(rand_nat(ctx)),
                _ => WOp::Flush,
            });
        }
        ops.push(WOp::Flush);
        do_wr(ctx, &ops, "sequence");
    }
    // every single op at every alignment
    for rep in 0..ctx.scale(1, 10) {
        for a in 0..8usize {
            for op in [WOp::Bit(true), WOp::Be(0x1ff, 9), WOp::Be(u64::MAX, 64), WOp::Be(5, 0), WOp::Bytes(vec![0xa5, 0x5a]), WOp::Nat(65536), WOp::Flush] {
                let mut ops: Vec<WOp> = (0..a).map(|_| WOp::Bit(rep == 0 || ctx.rng.bool())).collect();
                ops.push(op);
                ops.push(WOp::Flush);
                do_wr(ctx, &ops, "single-op");
            }
        }
    }

    // ---- 6. windows: every (start, end) of slices of 0..=3 (thorough 0..=5) bytes
    let maxlen = ctx.scale(3, 5) as usize;
    for len in 0..=maxlen {
        let slices = if len == 0 { 1 } else { 40 };
        for i in 0..slices {
            let sl: Vec<u8> = match i {
                0 => vec![0xff; len],
                1 => vec![0x00; len],
                _ => ctx.rng.bytes(len),
            };
            for s in 0..=len * 8 {
                for e in s..=len * 8 {
                    do_win(ctx, &sl, s, e);
                }
            }
        }
    }

    // ---- 7. collect_bits: every bit list of up to 10 bits, random longer ones
    for len in 0..=ctx.scale(12, 15) {
        for v in 0..(1u64 << len) {
            let bits: Vec<bool> = (0..len).rev().map(|k| v & (1 << k) != 0).collect();
            do_col(ctx, &bits);
        }
    }
    for _ in 0..ctx.scale(10_000, 100_000) {
        let len = ctx.rng.below(80) as usize;
        let bits: Vec<bool> = (0..len).map(|_| ctx.rng.bool()).collect();
        do_col(ctx, &bits);
    }

    // ---- 8. negative bounds of the signed result types: everything is above the bound
    //         (oracle only: the model's bounds are naturals)
    for n in (1u64..=ctx.scale(40, 600)).chain([100, 127, 30000]) {
        let bytes = pack(&enc_nat(n as u128));
        let r = catch(|| {
            let a = BitIter::from(&bytes[..]).read_natural::<i32>(Some(-1)).is_err();
            let b = BitIter::from(&bytes[..]).read_natural::<i64>(Some(i64::MIN)).is_err();
            let c = BitIter::from(&bytes[..]).read_natural::<i16>(Some(-5)).is_err();
            a && b && c
        });
        ctx.count("reach:dec-negative-bound");
        ctx.case(None);
        match r {
            Ok(true) => {}
            Ok(false) => ctx.fail("nat-negative-bound", &format!("dec i32 none 0 {}", hex(&bytes)), &format!("{n} accepted under a negative bound")),
            Err(m) => ctx.fail("panic-read-natural", &format!("dec i32 none 0 {}", hex(&bytes)), &m),
        }
    }
}
