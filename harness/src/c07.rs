//! C07 — static resource bounds cover every execution.
//!
//! Same generated executions as C05 (module `c05`), observed through the `verif-hooks` counters of
//! the Bit Machine (debug assertions and overflow checks are on in this build): the cell and frame
//! high-water marks never exceed `extra_cells`/`extra_frames` plus the IO allowance, on failing
//! runs too; the marks and the static bounds are also compared with the Lean model's instrumented
//! machine.  Programs whose bounds exceed the hard limits must be refused by `for_program`.

use crate::ctx::{catch, Ctx};
use crate::gen::{self, PNode, Plan};
use simplicity::BitMachine;

pub const RULE: &str = "executions of C05's type-directed programs (failing runs included) with the verif-hooks high-water marks, plus deeply nested comp/disconnect chains and programs over the hard limits; non-trivial = at least 4 nodes executed; distinct by (plan, witnesses, input)";

/// `comp` chain over a word type: needs `depth` frames and `depth * 2^n` cells
fn limit_case(ctx: &mut Ctx, n: u32, depth: usize) {
    // comp (comp (… witness : 1 → w_n …) iden) unit : 1 → 1 with a wide middle type
    let mut nodes = vec![PNode::Unit, PNode::Word(n.min(10), (0..(1usize << n.min(10))).map(|i| i % 3 == 0).collect())];
    let mut cur = 1usize; // word : 1 → w
    for _ in 0..depth {
        nodes.push(PNode::Iden);
        let id = nodes.len() - 1;
        nodes.push(PNode::Comp(cur, id));
        cur = nodes.len() - 1;
    }
    nodes.push(PNode::Unit);
    let u = nodes.len() - 1;
    nodes.push(PNode::Comp(cur, u));
    let plan = Plan { nodes };
    let line = format!("limits {} {}", n, depth);
    let res = catch(|| {
        let red = gen::redeem_with(&plan, &Default::default(), true).map_err(|e| format!("build:{e}"))?;
        let b = red.bounds();
        Ok::<_, String>((BitMachine::for_program(&red).is_ok(), b.extra_cells, b.extra_frames))
    });
    match res {
        Ok(Ok((accepted, cells, frames))) => {
            ctx.case(Some(&line));
            ctx.count(if accepted { "reach:limits-accepted" } else { "reach:limits-refused" });
            let over = cells > 2147483647 || frames + 2 > 1048576;
            if over && accepted {
                ctx.fail("limit-not-enforced", &line, &format!("for_program accepts extra_cells={cells} extra_frames={frames}"));
            }
            if !over && !accepted {
                ctx.fail("limit-refuses-small", &line, &format!("for_program refuses extra_cells={cells} extra_frames={frames}"));
            }
        }
        Ok(Err(_)) => ctx.count("limits:build-failed"),
        Err(p) => ctx.fail("panic-limits", &line, &p),
    }
}

pub fn run(ctx: &mut Ctx) {
    crate::props::c05::run_gen(ctx, true);
    for depth in [1usize, 10, 1000, 200_000] {
        limit_case(ctx, 6, depth);
    }
}

pub fn replay(ctx: &mut Ctx, case: &str) {
    if let Some(c) = crate::props::c05::parse_case(case) {
        crate::props::c05::one(ctx, &c, true);
    }
}
