//! C07 — static resource bounds cover every execution.
//!
//! Same generated executions as C05 (module `c05`), observed through the `verif-hooks` counters of
//! the Bit Machine (debug assertions and overflow checks are on in this build): the cell and frame
//! high-water marks never exceed `extra_cells`/`extra_frames` plus the IO allowance, on failing
//! runs too; the marks and the static bounds are also compared with the Lean model's instrumented
//! machine.  Programs whose bounds exceed the hard limits must be refused by `for_program`.

use crate::ctx::{catch, Ctx};
use crate::gen::{self, PNode, Plan};
use simplicity::BitMachine;

pub const RULE: &str = "executions of C05's type-directed programs (failing runs included) with the verif-hooks high-water marks, plus deeply nested comp/disconnect chains and programs over the hard limits; non-trivial = at least 4 nodes executed; distinct by (plan, witnesses, input)";

/// `comp` chain over a word type: needs `depth` frames and `depth * 2^n` cells
fn limit_case(ctx: &mut Ctx, n: u32, depth: usize) {
    // comp (comp (… witness : 1 → w_n …) iden) unit : 1 → 1 with a wide middle type
    let mut nodes = vec![PNode::Unit, PNode::Word(n.min(10), (0..(1usize << n.min(10))).map(|i| i % 3 == 0).collect())];
    let mut cur = 1usize; // word : 1 → w
    for _ in 0..depth {
        nodes.push(PNode::Iden);
        let id = nodes.len() - 1;
        nodes.push(PNode::Comp(cur, id));
        cur = nodes.len() - 1;
    }
    nodes.push(PNode::Unit);
    let u = nodes.len() - 1;
    nodes.push(PNode::Comp(cur, u));
    let plan = Plan { nodes };
    let line = format!("limits {} {}", n, depth);
    let res = catch(|| {
        let red = gen::redeem_with(&plan, &Default::default(), true).map_err(|e| format!("build:{e}"))?;
        let b = red.bounds();
        Ok::<_, String>((BitMachine::for_program(&red).is_ok(), b.extra_cells, b.extra_frames))
    });
    match res {
        Ok(Ok((accepted, cells, frames))) => {
            ctx.case(Some(&line));
            ctx.count(if accepted { "reach:limits-accepted" } else { "reach:limits-refused" });
            let over = cells > 2147483647 || frames + 2 > 1048576;
            if over && accepted {
                ctx.fail("limit-not-enforced", &line, &format!("for_program accepts extra_cells={cells} extra_frames={frames}"));
            }
            if !over && !accepted {
                ctx.fail("limit-refuses-small", &line, &format!("for_program refuses extra_cells={cells} extra_frames={frames}"));
            }
        }
        Ok(Err(_)) => ctx.count("limits:build-failed"),
        Err(p) => ctx.fail("panic-limits", &line, &p),
    }
}

/// `comp (… (comp iden iden) …) iden : A → A` over the word type of 2^n bits, `depth` comps: source,
/// target and extra cells are each within the limit while their sum may not be (the buffer that
/// `for_program` allocates has source + target + extra cells)
fn near_limit_case(ctx: &mut Ctx, n: usize, depth: usize) {
    use simplicity::node::CoreConstructible;
    use simplicity::types::{Context, Type};
    let line = format!("nearlimit {n} {depth}");
    let res = catch(|| {
        let red = Context::with_context(|tc| {
            let iden = std::sync::Arc::<simplicity::ConstructNode>::iden(&tc);
            let a = Type::two_two_n(&tc, n);
            tc.unify(&iden.arrow().source, &a, "type of iden").map_err(|e| format!("build:{e}"))?;
            let mut prog = iden.clone();
            for _ in 0..depth {
                prog = std::sync::Arc::<simplicity::ConstructNode>::comp(&prog, &iden).map_err(|e| format!("build:{e}"))?;
            }
            prog.finalize_unpruned().map_err(|e| format!("build:{e}"))
        })?;
        let b = red.bounds();
        let (s, t) = (red.arrow().source.bit_width(), red.arrow().target.bit_width());
        let accepted = BitMachine::for_program(&red).is_ok();
        Ok::<_, String>((accepted, s, t, b.extra_cells, b.extra_frames))
    });
    match res {
        Ok(Ok((accepted, s, t, cells, frames))) => {
            ctx.case(Some(&line));
            ctx.count(if accepted { "reach:near-limit-accepted" } else { "reach:near-limit-refused" });
            let within = s as u128 + t as u128 + cells as u128 <= 2147483647 && frames as u128 + 2 <= 1048576;
            if !within && accepted {
                ctx.fail("limit-not-enforced", &line, &format!("for_program accepts source {s} + target {t} + extra_cells {cells} cells, extra_frames {frames}"));
            }
            if within && !accepted {
                ctx.fail("limit-refuses-small", &line, &format!("for_program refuses source {s} + target {t} + extra_cells {cells} cells, extra_frames {frames}"));
            }
        }
        Ok(Err(_)) => ctx.count("limits:build-failed"),
        Err(p) => ctx.fail("panic-limits", &line, &p),
    }
}

/// `comp (pair (injl|injr unit) unit) (case A B)` where one branch needs many cells and few frames
/// (a wide `comp`) and the other no cells and many frames (a chain of zero-width `comp`s), in both
/// branch orders and with both selections: case branches of unequal, *incomparable* cost
fn incomparable_case(ctx: &mut Ctx, word_n: u32, depth: usize, wide_left: bool, take_left: bool) {
    use PNode::*;
    // every use of `unit` is its own node: a shared node has one type
    let mut nodes: Vec<PNode> = vec![];
    let mut push = |nodes: &mut Vec<PNode>, n: PNode| {
        nodes.push(n);
        nodes.len() - 1
    };
    // wide: comp (comp unit word) unit : X → 1, with a 2^word_n-bit middle type
    let u1 = push(&mut nodes, Unit);
    let w = push(&mut nodes, Word(word_n, (0..(1usize << word_n)).map(|i| i % 2 == 0).collect()));
    let c1 = push(&mut nodes, Comp(u1, w));
    let u2 = push(&mut nodes, Unit);
    let wide = push(&mut nodes, Comp(c1, u2));
    // deep: comp unit (comp unit (… unit))
    let mut deep = push(&mut nodes, Unit);
    for _ in 0..depth {
        let u = push(&mut nodes, Unit);
        deep = push(&mut nodes, Comp(u, deep));
    }
    let (l, r) = if wide_left { (wide, deep) } else { (deep, wide) };
    let cs = push(&mut nodes, Case(l, r));
    let u3 = push(&mut nodes, Unit);
    let sel = push(&mut nodes, if take_left { InjL(u3) } else { InjR(u3) });
    let u4 = push(&mut nodes, Unit);
    let pr = push(&mut nodes, Pair(sel, u4));
    push(&mut nodes, Comp(pr, cs));
    let plan = Plan { nodes }.compacted();
    let c = crate::props::c05::Case { plan, wits: Default::default(), input_bits: vec![], dirty: false };
    if crate::props::c05::one(ctx, &c, true) {
        ctx.count("reach:incomparable-case-branches");
    } else {
        ctx.count("incomparable-case-not-built");
        if let Err(e) = crate::gen::redeem_with(&c.plan, &c.wits, false) {
            ctx.note(&format!("incomparable case plan failed: {e} :: {}", c.plan.text()));
        }
    }
}

pub fn run(ctx: &mut Ctx) {
    // around the hard cell limit: every part within it, the sum on both sides of it
    for (n, depth) in [(29usize, 1usize), (29, 2), (28, 5), (28, 6), (28, 7), (30, 0), (30, 1), (27, 13), (27, 14), (31, 0), (26, 29), (26, 30), (20, 2044), (20, 2046), (20, 2047)] {
        near_limit_case(ctx, n, depth);
    }
    for word_n in [3u32, 6] {
        for depth in [2usize, 5, 9] {
            for wide_left in [false, true] {
                for take_left in [false, true] {
                    incomparable_case(ctx, word_n, depth, wide_left, take_left);
                }
            }
        }
    }
    crate::props::c05::run_gen(ctx, true);
    for depth in [1usize, 10, 1000, 200_000] {
        limit_case(ctx, 6, depth);
    }
}

pub fn replay(ctx: &mut Ctx, case: &str) {
    let toks: Vec<&str> = case.split_whitespace().collect();
    if let ["nearlimit", n, d] = toks.as_slice() {
        if let (Ok(n), Ok(d)) = (n.parse(), d.parse()) {
            near_limit_case(ctx, n, d);
        }
        return;
    }
    if let ["limits", n, d] = toks.as_slice() {
        if let (Ok(n), Ok(d)) = (n.parse(), d.parse()) {
            limit_case(ctx, n, d);
        }
        return;
    }
    if let Some(c) = crate::props::c05::parse_case(case) {
        crate::props::c05::one(ctx, &c, true);
    }
}
