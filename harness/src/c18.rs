//! C18 — DAG iteration: `DagLike::{post_order_iter, rtl_post_order_iter, pre_order_iter,
//! verbose_pre_order_iter, is_shared_as}` (src/dag.rs) on index-array DAGs with four trackers:
//! `NoSharing`, `InternalSharing` (pointer identity), a hash-keyed tracker (SHA-256 of the
//! structure: tag + children hashes, `None` for nodes without a sharing id and their ancestors —
//! the shape of `MaxSharing`), and a tracker with an arbitrary, possibly non-congruent key.
//! A second route builds real `CommitNode`s with the pointer structure of the DAG and iterates
//! them with the library's own `MaxSharing` / `InternalSharing` / `NoSharing`.
//!
//! ops (one DAG, one policy per line; node `i` = `l.<tag>` | `u.<tag>.<j>` | `b.<tag>.<j>.<k>`,
//! children before parents, root last, tag `x` = no sharing id; policy `key` appends one key per
//! node, `-` = none):
//!   `all  <pol> <md> <n> <nodes…> [<keys…>]` → `post … | rtl … | pre … | vpre … | vcut … | shared …`
//!   `post|rtl|pre|vpre|shared <pol> <md|-> <n> <nodes…> [<keys…>]` → that section alone
//!   items: post/rtl `node:index:left:right`, pre `node`, vpre `node:parent:index:depth:n_children_yielded:is_complete`,
//!   shared `<0|1> rf=<RootFresh> cg=<key is a congruence>`
//! oracle (on the implementation's outputs alone), classes:
//!   post-index (consecutive numbering) post-child (arity, child yielded earlier, the item at the
//!   reported index is the class of the actual child) post-dup (a keyed class twice) post-missing
//!   (a reachable node's class never yielded; congruent keys) post-count / post-tree (NoSharing =
//!   the unfolded tree in post order; pointer sharing = every object once) post-rootlast post-first
//!   post-ref (differs from the recursive reference walk); rtl-* the same against the *original*
//!   children, rtl-mirror (= real post-order of the child-swapped DAG with indices swapped back),
//!   rtl-first; pre-first pre-parent (a parent was yielded earlier) pre-dup pre-set (same classes as
//!   post-order) pre-second pre-tree; vpre-first (first yields = pre-order) vpre-bracket (every node
//!   n+1 times, counts 0..n, is_complete on the last, children between, parent/depth/index true)
//!   vpre-depth (limit respected); shared-ptr shared-iff (accepts ⇔ both walks visit the same
//!   objects in the same order; under RootFresh) shared-partition (hash policy: ⇔ no two distinct
//!   objects are structurally equal) shared-tree (NoSharing: ⇔ the DAG is a tree); panic-*.

use crate::ctx::{self, Ctx};
use simplicity::dag::{Dag, DagLike, InternalSharing, MaxSharing, NoSharing, SharingTracker, SwapChildren};
use simplicity::hashes::{sha256, HashEngine};
use std::collections::{HashMap, HashSet};
use std::fmt::Write as _;

pub const RULE: &str = "index-array DAGs (every node reachable from the root): all shapes up to 6 nodes (quick) / 7 nodes and a stride of the 8-node shapes (thorough) in pointer post-order numbering, plus random DAGs up to 2000 nodes (ladders of diamonds, child-and-grandchild, repeated children, unary chains, local and global sharing), each under NoSharing, pointer sharing, structural-hash sharing (several tag assignments, some nodes without sharing id) and arbitrary keys; non-trivial = some node is reachable along two paths; distinct by (node list, policy, keys)";

#[derive(Clone, Copy, PartialEq, Eq, Debug)]
pub enum Ch {
    Nul,
    Un(usize),
    Bin(usize, usize),
}

#[derive(Debug)]
pub struct Nd {
    ch: Ch,
    hash: Option<[u8; 32]>,
    akey: Option<u32>,
}

#[derive(Clone, Copy)]
pub struct H<'a>(usize, &'a [Nd]);

impl<'a> DagLike for H<'a> {
    type Node = Nd;
    fn data(&self) -> &Nd {
        &self.1[self.0]
    }
    fn as_dag_node(&self) -> Dag<Self> {
        match self.1[self.0].ch {
            Ch::Nul => Dag::Nullary,
            Ch::Un(l) => Dag::Unary(H(l, self.1)),
            Ch::Bin(l, r) => Dag::Binary(H(l, self.1), H(r, self.1)),
        }
    }
}

/// identity-hash sharing: the key is the SHA-256 of the structure (as `MaxSharing` keys by IHR)
#[derive(Default, Clone)]
pub struct HashSharing {
    map: HashMap<[u8; 32], usize>,
}
impl<D: DagLike<Node = Nd>> SharingTracker<D> for HashSharing {
    fn record(&mut self, d: &D, index: usize) -> Option<usize> {
        let k = d.data().hash?;
        if let Some(i) = self.map.get(&k) {
            Some(*i)
        } else {
            self.map.insert(k, index);
            None
        }
    }
    fn seen_before(&self, d: &D) -> Option<usize> {
        d.data().hash.and_then(|k| self.map.get(&k).copied())
    }
}

/// a user tracker with an arbitrary key per node
#[derive(Default, Clone)]
pub struct KeySharing {
    map: HashMap<u32, usize>,
}
impl<D: DagLike<Node = Nd>> SharingTracker<D> for KeySharing {
    fn record(&mut self, d: &D, index: usize) -> Option<usize> {
        let k = d.data().akey?;
        if let Some(i) = self.map.get(&k) {
            Some(*i)
        } else {
            self.map.insert(k, index);
            None
        }
    }
    fn seen_before(&self, d: &D) -> Option<usize> {
        d.data().akey.and_then(|k| self.map.get(&k).copied())
    }
}

#[derive(Clone, Copy, PartialEq, Eq, Debug)]
enum Pol {
    None,
    Ptr,
    Hash,
    Key,
}
impl Pol {
    fn name(self) -> &'static str {
        match self {
            Pol::None => "none",
            Pol::Ptr => "ptr",
            Pol::Hash => "hash",
            Pol::Key => "key",
        }
    }
}

#[derive(Clone, PartialEq, Debug)]
struct It {
    node: usize,
    index: usize,
    l: Option<usize>,
    r: Option<usize>,
}
#[derive(Clone, PartialEq, Debug)]
struct Vi {
    node: usize,
    parent: Option<usize>,
    index: usize,
    depth: usize,
    ncy: usize,
    complete: bool,
}

/// more items than any iteration of a generated case can legitimately yield (walks are bounded by
/// `Limits::none_cap` ≤ 5000 items, the verbose iterator yields at most three times as many)
const RUNAWAY: usize = 40_000;

struct Obs {
    post: Vec<It>,
    rtl: Vec<It>,
    pre: Vec<usize>,
    vpre: Vec<Vi>,
    vcut: Vec<Vi>,
    shared: bool,
    post_ptr: Vec<usize>,
}

fn observe<'a, S>(h: H<'a>, md: usize) -> Obs
where
    S: SharingTracker<H<'a>> + SharingTracker<SwapChildren<H<'a>>> + Default,
{
    let it = |d: simplicity::dag::PostOrderIterItem<H<'a>>| It { node: d.node.0, index: d.index, l: d.left_index, r: d.right_index };
    let vi = |d: simplicity::dag::PreOrderIterItem<H<'a>>| Vi {
        node: d.node.0,
        parent: d.parent.map(|p| p.0),
        index: d.index,
        depth: d.depth,
        ncy: d.n_children_yielded,
        complete: d.is_complete,
    };
    // `take`: an iteration that runs away (possible only in a broken tree) is cut and reported
    Obs {
        post: h.post_order_iter::<S>().take(RUNAWAY).map(it).collect(),
        rtl: h.rtl_post_order_iter::<S>().take(RUNAWAY).map(it).collect(),
        pre: h.pre_order_iter::<S>().take(RUNAWAY).map(|d| d.0).collect(),
        vpre: h.verbose_pre_order_iter::<S>(None).take(RUNAWAY).map(vi).collect(),
        vcut: h.verbose_pre_order_iter::<S>(Some(md)).take(RUNAWAY).map(vi).collect(),
        shared: h.is_shared_as::<S>(),
        post_ptr: h.post_order_iter::<InternalSharing>().take(RUNAWAY).map(|d| d.node.0).collect(),
    }
}

// ---------------------------------------------------------------- formatting

fn o2s(o: Option<usize>) -> String {
    o.map(|x| x.to_string()).unwrap_or_else(|| "-".into())
}
fn fmt_items(v: &[It]) -> String {
    let mut s = format!("n={}", v.len());
    for i in v {
        let _ = write!(s, " {}:{}:{}:{}", i.node, i.index, o2s(i.l), o2s(i.r));
    }
    s
}
fn fmt_pre(v: &[usize]) -> String {
    let mut s = format!("n={}", v.len());
    for i in v {
        let _ = write!(s, " {}", i);
    }
    s
}
fn fmt_v(v: &[Vi]) -> String {
    let mut s = format!("n={}", v.len());
    for i in v {
        let _ = write!(s, " {}:{}:{}:{}:{}:{}", i.node, o2s(i.parent), i.index, i.depth, i.ncy, i.complete as u8);
    }
    s
}

/// a generated case: shape, tags (None = no sharing id), arbitrary keys
#[derive(Clone)]
struct Case {
    ch: Vec<Ch>,
    tags: Vec<Option<u32>>,
    keys: Vec<Option<u32>>,
}

fn fmt_nodes(c: &Case) -> String {
    let mut s = format!("{}", c.ch.len());
    for (i, ch) in c.ch.iter().enumerate() {
        let t = c.tags[i].map(|x| x.to_string()).unwrap_or_else(|| "x".into());
        match ch {
            Ch::Nul => {
                let _ = write!(s, " l.{t}");
            }
            Ch::Un(j) => {
                let _ = write!(s, " u.{t}.{j}");
            }
            Ch::Bin(j, k) => {
                let _ = write!(s, " b.{t}.{j}.{k}");
            }
        }
    }
    s
}
fn op_line(verb: &str, pol: Pol, md: Option<usize>, c: &Case) -> String {
    let mut s = format!("{verb} {} {} {}", pol.name(), o2s(md), fmt_nodes(c));
    if pol == Pol::Key {
        for k in &c.keys {
            let _ = write!(s, " {}", k.map(|x| x.to_string()).unwrap_or_else(|| "-".into()));
        }
    }
    s
}

fn parse_line(line: &str) -> Option<(String, Pol, Option<usize>, Case)> {
    let t: Vec<&str> = line.split_whitespace().collect();
    if t.len() < 5 {
        return None;
    }
    let pol = match t[1] {
        "none" => Pol::None,
        "ptr" => Pol::Ptr,
        "hash" => Pol::Hash,
        "key" => Pol::Key,
        _ => return None,
    };
    let md = if t[2] == "-" { None } else { Some(t[2].parse().ok()?) };
    let n: usize = t[3].parse().ok()?;
    if t.len() < 4 + n {
        return None;
    }
    let mut ch = vec![];
    let mut tags = vec![];
    for tok in &t[4..4 + n] {
        let p: Vec<&str> = tok.split('.').collect();
        let tag = if p.get(1)? == &"x" { None } else { Some(p[1].parse().ok()?) };
        tags.push(tag);
        ch.push(match (p[0], p.len()) {
            ("l", 2) => Ch::Nul,
            ("u", 3) => Ch::Un(p[2].parse().ok()?),
            ("b", 4) => Ch::Bin(p[2].parse().ok()?, p[3].parse().ok()?),
            _ => return None,
        });
    }
    let mut keys = vec![None; n];
    if pol == Pol::Key {
        if t.len() < 4 + 2 * n {
            return None;
        }
        for (i, tok) in t[4 + n..4 + 2 * n].iter().enumerate() {
            keys[i] = if *tok == "-" { None } else { Some(tok.parse().ok()?) };
        }
    }
    Some((t[0].to_string(), pol, md, Case { ch, tags, keys }))
}

// ---------------------------------------------------------------- the DAG as the library sees it

fn children(ch: Ch) -> (Option<usize>, Option<usize>) {
    match ch {
        Ch::Nul => (None, None),
        Ch::Un(l) => (Some(l), None),
        Ch::Bin(l, r) => (Some(l), Some(r)),
    }
}

fn build_nodes(c: &Case) -> Vec<Nd> {
    let mut nodes: Vec<Nd> = Vec::with_capacity(c.ch.len());
    for (i, ch) in c.ch.iter().enumerate() {
        let (l, r) = children(*ch);
        let hash = (|| {
            let tag = c.tags[i]?;
            let mut e = sha256::Hash::engine();
            e.input(&[match ch {
                Ch::Nul => 0u8,
                Ch::Un(_) => 1,
                Ch::Bin(..) => 2,
            }]);
            e.input(&tag.to_le_bytes());
            if let Some(l) = l {
                e.input(&nodes[l].hash?);
            }
            if let Some(r) = r {
                e.input(&nodes[r].hash?);
            }
            Some(sha256::Hash::from_engine(e).to_byte_array())
        })();
        nodes.push(Nd { ch: *ch, hash, akey: c.keys[i] });
    }
    nodes
}

/// class of every node under the policy: the least index with the same key (None = unkeyed)
fn classes(c: &Case, nodes: &[Nd], pol: Pol) -> Vec<Option<usize>> {
    let n = nodes.len();
    match pol {
        Pol::None => vec![None; n],
        Pol::Ptr => (0..n).map(Some).collect(),
        Pol::Hash => {
            let mut first: HashMap<[u8; 32], usize> = HashMap::new();
            nodes.iter().enumerate().map(|(i, nd)| nd.hash.map(|h| *first.entry(h).or_insert(i))).collect()
        }
        Pol::Key => {
            let mut first: HashMap<u32, usize> = HashMap::new();
            c.keys.iter().enumerate().map(|(i, k)| k.map(|k| *first.entry(k).or_insert(i))).collect()
        }
    }
}

fn same(cls: &[Option<usize>], a: usize, b: usize) -> bool {
    a == b || (cls[a].is_some() && cls[a] == cls[b])
}

/// nodes with one key have children in the same classes
fn congruent(c: &Case, cls: &[Option<usize>]) -> bool {
    for i in 0..c.ch.len() {
        if let Some(f) = cls[i] {
            if f != i {
                let (a, b) = (children(c.ch[i]), children(c.ch[f]));
                let ok = |x: Option<usize>, y: Option<usize>| match (x, y) {
                    (None, None) => true,
                    (Some(x), Some(y)) => same(cls, x, y),
                    _ => false,
                };
                if !ok(a.0, b.0) || !ok(a.1, b.1) {
                    return false;
                }
            }
        }
    }
    true
}

fn root_fresh(cls: &[Option<usize>]) -> bool {
    let r = cls.len() - 1;
    match cls[r] {
        None => true,
        Some(f) => f == r,
    }
}

/// size of the tree unfolding below every node (saturating)
fn unfolded(c: &Case) -> Vec<u64> {
    let mut s: Vec<u64> = vec![];
    for ch in &c.ch {
        s.push(match ch {
            Ch::Nul => 1,
            Ch::Un(l) => s[*l].saturating_add(1),
            Ch::Bin(l, r) => s[*l].saturating_add(s[*r]).saturating_add(1),
        });
    }
    s
}

/// the unfolded tree in post order / pre order (explicit stack)
fn tree_order(c: &Case, post: bool, rtl: bool) -> Vec<usize> {
    let mut out = vec![];
    let mut st: Vec<(usize, bool)> = vec![(c.ch.len() - 1, false)];
    while let Some((i, done)) = st.pop() {
        if done {
            out.push(i);
            continue;
        }
        let (l, r) = children(c.ch[i]);
        let (first, second) = if rtl && r.is_some() { (r, l) } else { (l, r) };
        if post {
            st.push((i, true));
        } else {
            out.push(i);
        }
        if let Some(x) = second {
            st.push((x, false));
        }
        if let Some(x) = first {
            st.push((x, false));
        }
    }
    out
}

/// recursive reference walk (children looked up before descending); also counts which of the seven
/// child-pattern cases of `PostOrderIter::next` and the skip-on-second-encounter branch occur
struct RefWalk<'c> {
    c: &'c Case,
    cls: &'c [Option<usize>],
    rtl: bool,
    seen: HashMap<usize, usize>,
    outs: Vec<It>,
    pat: [u32; 8],
    cap: usize,
    over: bool,
}
impl<'c> RefWalk<'c> {
    fn new(c: &'c Case, cls: &'c [Option<usize>], rtl: bool, cap: usize) -> Self {
        RefWalk { c, cls, rtl, seen: HashMap::new(), outs: vec![], pat: [0; 8], cap, over: false }
    }
    fn sb(&self, i: usize) -> Option<usize> {
        self.cls[i].and_then(|k| self.seen.get(&k).copied())
    }
    fn visit(&mut self, i: usize) -> usize {
        // explicit recursion is fine: depth ≤ number of nodes (≤ 2000)
        if self.outs.len() > self.cap {
            self.over = true;
            return 0;
        }
        let (l, r) = children(self.c.ch[i]);
        let (sl, sr) = (l.and_then(|x| self.sb(x)), r.and_then(|x| self.sb(x)));
        let p = match (l, r, sl, sr) {
            (None, _, _, _) => 0,
            (Some(_), None, Some(_), _) => 1,
            (Some(_), None, None, _) => 2,
            (Some(_), Some(_), Some(_), Some(_)) => 3,
            (Some(_), Some(_), None, Some(_)) => 4,
            (Some(_), Some(_), Some(_), None) => 5,
            (Some(_), Some(_), None, None) => 6,
        };
        self.pat[p] += 1;
        let (mut li, mut ri) = (sl, sr);
        if self.rtl {
            if let (Some(r), None) = (r, sr) {
                ri = Some(self.visit(r));
            }
            if let (Some(l), None) = (l, sl) {
                li = Some(self.visit(l));
            }
        } else {
            if let (Some(l), None) = (l, sl) {
                li = Some(self.visit(l));
            }
            if let (Some(r), None) = (r, sr) {
                ri = Some(self.visit(r));
            }
        }
        if let Some(x) = self.sb(i) {
            self.pat[7] += 1;
            return x;
        }
        let idx = self.outs.len();
        if let Some(k) = self.cls[i] {
            self.seen.insert(k, idx);
        }
        self.outs.push(It { node: i, index: idx, l: li, r: ri });
        idx
    }
}

const PATTERNS: [&str; 8] = [
    "pattern-no-child",
    "pattern-left-repeat",
    "pattern-left-new",
    "pattern-repeat-repeat",
    "pattern-new-repeat",
    "pattern-repeat-new",
    "pattern-new-new",
    "pattern-skip-already-yielded",
];

// ---------------------------------------------------------------- the oracle

struct Flags {
    congruent: bool,
    root_fresh: bool,
}

/// invariant of a post-order item list against the children `kids(i)` of the DAG it claims to walk
fn check_items(pre: &str, items: &[It], c: &Case, cls: &[Option<usize>], fl: &Flags, fails: &mut Vec<(String, String)>) {
    let n = c.ch.len();
    let mut keyed: HashSet<usize> = HashSet::new();
    for (pos, o) in items.iter().enumerate() {
        if o.index != pos {
            fails.push((format!("{pre}-index"), format!("item {pos} carries index {}", o.index)));
            return;
        }
        if o.node >= n {
            fails.push((format!("{pre}-child"), format!("item {pos}: node {} does not exist", o.node)));
            return;
        }
        let (cl, cr) = children(c.ch[o.node]);
        for (side, ch, ci) in [("left", cl, o.l), ("right", cr, o.r)] {
            match (ch, ci) {
                (None, None) => {}
                (Some(ch), Some(ci)) => {
                    if ci >= pos {
                        fails.push((format!("{pre}-child"), format!("item {pos} (node {}): {side} child index {ci} is not earlier", o.node)));
                    } else if !same(cls, items[ci].node, ch) {
                        fails.push((
                            format!("{pre}-child"),
                            format!("item {pos} (node {}): {side} child is node {ch} but item {ci} is node {}, another class", o.node, items[ci].node),
                        ));
                    }
                }
                _ => fails.push((format!("{pre}-child"), format!("item {pos} (node {}): {side} index {:?} for child {:?}", o.node, ci, ch))),
            }
        }
        if let Some(k) = cls[o.node] {
            if !keyed.insert(k) {
                fails.push((format!("{pre}-dup"), format!("class of node {} yielded twice (second time at {pos})", o.node)));
            }
        }
    }
    if fl.congruent {
        // every node of the DAG is reachable from the root: its class must have been yielded
        let mut have_obj = vec![false; n];
        for o in items {
            have_obj[o.node] = true;
        }
        for i in 0..n {
            let ok = have_obj[i] || cls[i].map(|k| keyed.contains(&k)).unwrap_or(false);
            if !ok {
                fails.push((format!("{pre}-missing"), format!("node {i} is reachable but no item represents it")));
                break;
            }
        }
    }
    if fl.root_fresh {
        if items.last().map(|o| o.node) != Some(n - 1) {
            fails.push((format!("{pre}-rootlast"), format!("last item is {:?}, the root is {}", items.last().map(|o| o.node), n - 1)));
        }
    }
}

fn check_verbose(name: &str, v: &[Vi], c: &Case, md: Option<usize>, fails: &mut Vec<(String, String)>) {
    // bracket structure: X(0) [left sub-walk] X(1) [right sub-walk] X(2)
    let mut st: Vec<Vi> = vec![];
    let mut next_index = 0usize;
    let bad = |fails: &mut Vec<(String, String)>, pos: usize, why: String| fails.push((format!("{name}-bracket"), format!("yield {pos}: {why}")));
    for (pos, it) in v.iter().enumerate() {
        if it.node >= c.ch.len() {
            return bad(fails, pos, "node does not exist".into());
        }
        let (l, r) = children(c.ch[it.node]);
        let nch = l.is_some() as usize + r.is_some() as usize;
        if let Some(md) = md {
            if it.depth > md {
                fails.push((format!("{name}-depth"), format!("yield {pos}: depth {} exceeds the limit {md}", it.depth)));
                return;
            }
        }
        if it.ncy == 0 {
            if it.index != next_index {
                return bad(fails, pos, format!("first yield carries index {}, expected {next_index}", it.index));
            }
            next_index += 1;
            match st.last() {
                None => {
                    if pos != 0 || it.node != c.ch.len() - 1 || it.parent.is_some() || it.depth != 0 {
                        return bad(fails, pos, "a first yield outside any parent that is not the root at depth 0".into());
                    }
                }
                Some(top) => {
                    let (tl, tr) = children(c.ch[top.node]);
                    let want = if top.ncy == 0 { tl } else { tr };
                    if it.parent != Some(top.node) || it.depth != top.depth + 1 || want != Some(it.node) {
                        return bad(
                            fails,
                            pos,
                            format!("node {} (parent {:?}, depth {}) yielded under node {} (depth {}, {} children done)", it.node, it.parent, it.depth, top.node, top.depth, top.ncy),
                        );
                    }
                    if md.map(|m| top.depth >= m).unwrap_or(false) {
                        fails.push((format!("{name}-depth"), format!("yield {pos}: child of a node at the depth limit")));
                        return;
                    }
                }
            }
            if it.complete != (nch == 0) {
                return bad(fails, pos, format!("is_complete={} on the first yield of a node with {nch} children", it.complete));
            }
            if nch > 0 {
                st.push(it.clone());
            }
        } else {
            let Some(top) = st.last_mut() else {
                return bad(fails, pos, "repeated yield with nothing open".into());
            };
            if top.node != it.node || top.ncy + 1 != it.ncy || top.index != it.index || top.depth != it.depth || top.parent != it.parent {
                return bad(fails, pos, format!("repeated yield {:?} does not continue {:?}", it, top));
            }
            top.ncy = it.ncy;
            if it.complete != (it.ncy == nch) {
                return bad(fails, pos, format!("is_complete={} with {} of {nch} children yielded", it.complete, it.ncy));
            }
            if it.ncy == nch {
                st.pop();
            }
        }
    }
    if !st.is_empty() {
        bad(fails, v.len(), format!("iteration ended with node {} still open", st[0].node));
    }
}

fn oracle(c: &Case, pol: Pol, md: usize, cls: &[Option<usize>], fl: &Flags, unf: &[u64], o: &Obs, cap: u64) -> (Vec<(String, String)>, [u32; 8]) {
    let n = c.ch.len();
    let root = n - 1;
    let mut fails: Vec<(String, String)> = vec![];
    for (name, len) in [("post", o.post.len()), ("rtl", o.rtl.len()), ("pre", o.pre.len()), ("vpre", o.vpre.len()), ("vcut", o.vcut.len())] {
        if len >= RUNAWAY {
            fails.push(("runaway-iteration".into(), format!("{name}: more than {RUNAWAY} items from a DAG of {n} nodes whose walk has at most {cap} items")));
        }
    }
    if !fails.is_empty() {
        return (fails, [0; 8]);
    }
    // ---- post-order and its right-to-left variant
    check_items("post", &o.post, c, cls, fl, &mut fails);
    check_items("rtl", &o.rtl, c, cls, fl, &mut fails);
    let mut w = RefWalk::new(c, cls, false, usize::MAX);
    w.visit(root);
    if w.outs != o.post {
        fails.push(("post-ref".into(), "differs from the recursive reference walk".into()));
    }
    let pat = w.pat;
    let mut wr = RefWalk::new(c, cls, true, usize::MAX);
    wr.visit(root);
    if wr.outs != o.rtl {
        fails.push(("rtl-ref".into(), "differs from the recursive right-to-left reference walk".into()));
    }
    // first item: the leaf reached by always taking the first (post) / last (rtl) child
    let (mut a, mut b) = (root, root);
    loop {
        match c.ch[a] {
            Ch::Nul => break,
            Ch::Un(l) | Ch::Bin(l, _) => a = l,
        }
    }
    loop {
        match c.ch[b] {
            Ch::Nul => break,
            Ch::Un(l) => b = l,
            Ch::Bin(_, r) => b = r,
        }
    }
    if o.post.first().map(|x| x.node) != Some(a) {
        fails.push(("post-first".into(), format!("first item {:?}, leftmost leaf {a}", o.post.first().map(|x| x.node))));
    }
    if o.rtl.first().map(|x| x.node) != Some(b) {
        fails.push(("rtl-first".into(), format!("first item {:?}, rightmost leaf {b}", o.rtl.first().map(|x| x.node))));
    }
    // the mirror route: real post-order of the child-swapped DAG, indices swapped back
    {
        let mc = Case {
            ch: c.ch.iter().map(|x| if let Ch::Bin(l, r) = x { Ch::Bin(*r, *l) } else { *x }).collect(),
            tags: c.tags.clone(),
            keys: c.keys.clone(),
        };
        let mut mnodes = build_nodes(&mc);
        // the tracker must see the keys of the original nodes
        let orig = build_nodes(c);
        for (m, on) in mnodes.iter_mut().zip(orig.iter()) {
            m.hash = on.hash;
        }
        let h = H(root, &mnodes);
        let conv = |d: simplicity::dag::PostOrderIterItem<H>| {
            let bin = matches!(mnodes[d.node.0].ch, Ch::Bin(..));
            It { node: d.node.0, index: d.index, l: if bin { d.right_index } else { d.left_index }, r: if bin { d.left_index } else { d.right_index } }
        };
        let m: Vec<It> = match pol {
            Pol::None => h.post_order_iter::<NoSharing>().map(conv).collect(),
            Pol::Ptr => h.post_order_iter::<InternalSharing>().map(conv).collect(),
            Pol::Hash => h.post_order_iter::<HashSharing>().map(conv).collect(),
            Pol::Key => h.post_order_iter::<KeySharing>().map(conv).collect(),
        };
        if m != o.rtl {
            fails.push(("rtl-mirror".into(), "rtl_post_order_iter differs from post_order_iter on the child-swapped DAG with the indices swapped back".into()));
        }
    }
    match pol {
        Pol::None => {
            if o.post.len() as u64 != unf[root] {
                fails.push(("post-count".into(), format!("{} items, the unfolded tree has {}", o.post.len(), unf[root])));
            }
            if unf[root] <= cap {
                if o.post.iter().map(|x| x.node).collect::<Vec<_>>() != tree_order(c, true, false) {
                    fails.push(("post-tree".into(), "NoSharing post-order is not the post-order of the unfolded tree".into()));
                }
                if o.rtl.iter().map(|x| x.node).collect::<Vec<_>>() != tree_order(c, true, true) {
                    fails.push(("rtl-tree".into(), "NoSharing rtl post-order is not the right-to-left post-order of the unfolded tree".into()));
                }
                if o.pre != tree_order(c, false, false) {
                    fails.push(("pre-tree".into(), "NoSharing pre-order is not the pre-order of the unfolded tree".into()));
                }
            }
        }
        Pol::Ptr => {
            if o.post.len() != n || o.rtl.len() != n || o.pre.len() != n {
                fails.push(("post-count".into(), format!("pointer sharing yields {} / {} / {} items for {n} objects", o.post.len(), o.rtl.len(), o.pre.len())));
            }
        }
        _ => {}
    }
    // ---- pre-order
    if o.pre.first() != Some(&root) {
        fails.push(("pre-first".into(), format!("first item {:?}, root {root}", o.pre.first())));
    }
    {
        let mut yielded = vec![false; n];
        let mut keyed: HashSet<usize> = HashSet::new();
        let mut has_parent = vec![false; n]; // some parent object was yielded before
        for (pos, &x) in o.pre.iter().enumerate() {
            if x >= n {
                fails.push(("pre-parent".into(), format!("node {x} does not exist")));
                break;
            }
            if pos > 0 && !has_parent[x] {
                fails.push(("pre-parent".into(), format!("item {pos} (node {x}) is yielded before any of its parents")));
                break;
            }
            if let Some(k) = cls[x] {
                if !keyed.insert(k) {
                    fails.push(("pre-dup".into(), format!("class of node {x} yielded twice (second time at {pos})")));
                    break;
                }
            }
            yielded[x] = true;
            let (l, r) = children(c.ch[x]);
            for ch in [l, r].into_iter().flatten() {
                has_parent[ch] = true;
            }
        }
        if fl.congruent {
            // same classes as the post-order iteration
            let pk: HashSet<usize> = o.post.iter().filter_map(|x| cls[x.node]).collect();
            let mut post_obj = vec![false; n];
            for x in &o.post {
                post_obj[x.node] = true;
            }
            for i in 0..n {
                let in_pre = yielded[i] || cls[i].map(|k| keyed.contains(&k)).unwrap_or(false);
                let in_post = post_obj[i] || cls[i].map(|k| pk.contains(&k)).unwrap_or(false);
                if in_pre != in_post || !in_pre {
                    fails.push(("pre-set".into(), format!("class of node {i}: pre-order {in_pre}, post-order {in_post}")));
                    break;
                }
            }
            // (an unkeyed node below a keyed one is walked again by the post-order iterator when the
            // keyed node is met a second time, but not by the pre-order one: the counts agree when
            // keyed nodes have keyed children only — true of the three policies of the property)
            let closed = (0..n).all(|i| {
                let (l, r) = children(c.ch[i]);
                cls[i].is_none() || [l, r].into_iter().flatten().all(|x| cls[x].is_some())
            });
            if closed && o.pre.len() != o.post.len() {
                fails.push(("pre-set".into(), format!("pre-order yields {} items, post-order {}", o.pre.len(), o.post.len())));
            }
        }
        if fl.congruent && fl.root_fresh {
            if let (Some(l), _) = children(c.ch[root]) {
                if o.pre.get(1) != Some(&l) {
                    fails.push(("pre-second".into(), format!("second item {:?}, the root's left child is {l}", o.pre.get(1))));
                }
            }
        }
    }
    // ---- verbose pre-order
    check_verbose("vpre", &o.vpre, c, None, &mut fails);
    check_verbose("vcut", &o.vcut, c, Some(md), &mut fails);
    let firsts: Vec<usize> = o.vpre.iter().filter(|x| x.ncy == 0).map(|x| x.node).collect();
    if firsts != o.pre {
        fails.push(("vpre-first".into(), "the first yields of the verbose iterator are not the pre-order iteration".into()));
    }
    // with a limit: exactly the first yields of depth ≤ limit whose ancestors were all first yields
    // (bracket check) — and nothing is lost above the limit when the limit is not reached
    if o.vpre.iter().all(|x| x.depth <= md) && !(o.vcut == o.vpre) {
        fails.push(("vcut-depth".into(), "the depth limit is never reached but the limited iteration differs".into()));
    }
    // ---- is_shared_as
    let ids: Vec<usize> = o.post.iter().map(|x| x.node).collect();
    if fl.root_fresh && o.shared != (ids == o.post_ptr) {
        fails.push(("shared-iff".into(), format!("is_shared_as = {} but pointer walk {} the requested walk", o.shared, if ids == o.post_ptr { "equals" } else { "differs from" })));
    }
    match pol {
        Pol::Ptr => {
            if !o.shared {
                fails.push(("shared-ptr".into(), "is_shared_as::<InternalSharing> rejects".into()));
            }
        }
        Pol::None => {
            if o.shared != (unf[root] == n as u64) {
                fails.push(("shared-tree".into(), format!("is_shared_as::<NoSharing> = {} on a DAG of {n} objects unfolding to {} nodes", o.shared, unf[root])));
            }
        }
        Pol::Hash => {
            if cls.iter().all(|k| k.is_some()) {
                let injective = cls.iter().enumerate().all(|(i, k)| *k == Some(i));
                if o.shared != injective {
                    fails.push(("shared-partition".into(), format!("is_shared_as = {} although structurally equal distinct objects {}", o.shared, if injective { "do not exist" } else { "exist" })));
                }
            }
        }
        Pol::Key => {}
    }
    (fails, pat)
}

// ---------------------------------------------------------------- one case

fn features(c: &Case) -> Vec<&'static str> {
    let n = c.ch.len();
    let mut parents: Vec<Vec<usize>> = vec![vec![]; n];
    let mut f = vec![];
    let (mut diamond, mut cg, mut rep, mut chain) = (false, false, false, false);
    let mut ulen = vec![0usize; n];
    for (i, ch) in c.ch.iter().enumerate() {
        match ch {
            Ch::Nul => {}
            Ch::Un(l) => {
                parents[*l].push(i);
                ulen[i] = if matches!(c.ch[*l], Ch::Un(_)) { ulen[*l] + 1 } else { 1 };
                if ulen[i] >= 3 {
                    chain = true;
                }
            }
            Ch::Bin(l, r) => {
                if l == r {
                    rep = true;
                } else {
                    parents[*r].push(i);
                }
                parents[*l].push(i);
                let kids = |x: usize| {
                    let (a, b) = children(c.ch[x]);
                    [a, b]
                };
                if kids(*l).contains(&Some(*r)) || kids(*r).contains(&Some(*l)) {
                    cg = true;
                }
            }
        }
    }
    for p in &parents {
        if p.len() >= 2 {
            diamond = true;
        }
    }
    if diamond {
        f.push("shape-diamond");
    }
    if cg {
        f.push("shape-child-and-grandchild");
    }
    if rep {
        f.push("shape-repeated-child");
    }
    if chain {
        f.push("shape-unary-chain");
    }
    if n == 1 {
        f.push("shape-single-node");
    }
    if n >= 500 {
        f.push("shape-500-to-2000-nodes");
    }
    if !diamond && !rep {
        f.push("shape-tree");
    }
    f
}

struct Limits {
    none_cap: u64,
}

fn one(ctx: &mut Ctx, c: &Case, pol: Pol, md: usize, kind: &str, lim: &Limits) {
    let n = c.ch.len();
    let nodes = build_nodes(c);
    let cls = classes(c, &nodes, pol);
    let fl = Flags { congruent: congruent(c, &cls), root_fresh: root_fresh(&cls) };
    let unf = unfolded(c);
    let small = n <= 8;
    let case_line = op_line(if small { "all" } else { "post" }, pol, Some(md), c);
    if pol != Pol::Key && !(fl.congruent && fl.root_fresh) {
        ctx.fail("harness-policy", &case_line, "a policy of the property is not a congruence / not root-fresh on this DAG (harness defect or SHA-256 collision)");
    }
    // a policy with unkeyed nodes walks the unfolding below them: bound the size of the answer
    let mut probe = RefWalk::new(c, &cls, false, lim.none_cap as usize);
    probe.visit(n - 1);
    if probe.over {
        ctx.count(&format!("skipped:{}-walk-longer-than-{}", pol.name(), lim.none_cap));
        return;
    }
    let h = H(n - 1, &nodes);
    let obs = ctx::catch(|| match pol {
        Pol::None => observe::<NoSharing>(h, md),
        Pol::Ptr => observe::<InternalSharing>(h, md),
        Pol::Hash => observe::<HashSharing>(h, md),
        Pol::Key => observe::<KeySharing>(h, md),
    });
    let obs = match obs {
        Ok(o) => o,
        Err(msg) => {
            ctx.fail("panic-iterator", &case_line, &format!("an iterator panicked: {msg}"));
            ctx.case(None);
            return;
        }
    };
    // correspondence
    let shared = format!("{} rf={} cg={}", obs.shared as u8, fl.root_fresh as u8, fl.congruent as u8);
    if small {
        ctx.op(
            &case_line,
            &format!("post {} | rtl {} | pre {} | vpre {} | vcut {} | shared {}", fmt_items(&obs.post), fmt_items(&obs.rtl), fmt_pre(&obs.pre), fmt_v(&obs.vpre), fmt_v(&obs.vcut), shared),
        );
    } else {
        ctx.op(&op_line("post", pol, None, c), &fmt_items(&obs.post));
        ctx.op(&op_line("rtl", pol, None, c), &fmt_items(&obs.rtl));
        ctx.op(&op_line("pre", pol, None, c), &fmt_pre(&obs.pre));
        ctx.op(&op_line("vpre", pol, None, c), &fmt_v(&obs.vpre));
        ctx.op(&op_line("vpre", pol, Some(md), c), &fmt_v(&obs.vcut));
        ctx.op(&op_line("shared", pol, None, c), &shared);
    }
    // oracle
    let (fails, pat) = oracle(c, pol, md, &cls, &fl, &unf, &obs, lim.none_cap);
    for (class, detail) in &fails {
        ctx.fail(class, &case_line, detail);
    }
    // coverage
    ctx.count(&format!("kind:{kind}"));
    ctx.count(&format!("reach:policy-{}", match pol {
        Pol::Key if fl.congruent => "key-congruent",
        Pol::Key => "key-not-congruent",
        p => p.name(),
    }));
    if !fl.root_fresh {
        ctx.count("reach:key-not-root-fresh");
    }
    if pol == Pol::Hash && c.tags.iter().any(|t| t.is_none()) {
        ctx.count("reach:hash-with-unsharable-nodes");
    }
    for (i, p) in pat.iter().enumerate() {
        if *p > 0 {
            ctx.count(&format!("reach:{}", PATTERNS[i]));
        }
    }
    let feats = features(c);
    for f in &feats {
        ctx.count(&format!("reach:{f}"));
    }
    if obs.shared {
        ctx.count("reach:is-shared-as-accepts");
    } else {
        ctx.count("reach:is-shared-as-rejects");
    }
    if obs.vcut.len() < obs.vpre.len() {
        ctx.count("reach:verbose-depth-limit-cuts");
    }
    let nontrivial = feats.contains(&"shape-diamond") || feats.contains(&"shape-repeated-child");
    ctx.case(if nontrivial { Some(&case_line) } else { None });
    if ctx.want_sample() && nontrivial && n >= 5 && n <= 8 && pol != Pol::None && ctx.rng.chance(1, 40) {
        ctx.sample(&format!("{} -> post {} | shared {}", op_line("all", pol, Some(md), c), fmt_items(&obs.post), shared));
    }
}

pub fn replay(ctx: &mut Ctx, case: &str) {
    if let Some((_, pol, md, c)) = parse_line(case) {
        let ok = c.ch.iter().enumerate().all(|(i, ch)| match ch {
            Ch::Nul => true,
            Ch::Un(l) => *l < i,
            Ch::Bin(l, r) => *l < i && *r < i,
        });
        if ok && !c.ch.is_empty() {
            one(ctx, &c, pol, md.unwrap_or(1), "replay", &Limits { none_cap: 200_000 });
            return;
        }
    }
    if case.starts_with("real ") {
        real::replay(ctx, case);
        return;
    }
    ctx.note(&format!("replay: cannot parse case {case}"));
}

// ---------------------------------------------------------------- generators

/// replayable choice sequence: enumerates every outcome of a deterministic choosing process
struct Chooser {
    rec: Vec<(usize, usize)>,
    pos: usize,
}
impl Chooser {
    fn choose(&mut self, k: usize) -> usize {
        if self.pos < self.rec.len() {
            self.pos += 1;
            self.rec[self.pos - 1].0
        } else {
            self.rec.push((0, k));
            self.pos += 1;
            0
        }
    }
    fn advance(&mut self) -> bool {
        while let Some((c, k)) = self.rec.pop() {
            if c + 1 < k {
                self.rec.push((c + 1, k));
                self.pos = 0;
                return true;
            }
        }
        false
    }
}

fn gen_node(ch: &mut Chooser, nodes: &mut Vec<Ch>, left: &mut usize) -> usize {
    let kinds = if !nodes.is_empty() || *left > 0 { 3 } else { 1 };
    match ch.choose(kinds) {
        0 => nodes.push(Ch::Nul),
        1 => {
            let c = gen_child(ch, nodes, left);
            nodes.push(Ch::Un(c));
        }
        _ => {
            let l = gen_child(ch, nodes, left);
            let r = gen_child(ch, nodes, left);
            nodes.push(Ch::Bin(l, r));
        }
    }
    nodes.len() - 1
}
fn gen_child(ch: &mut Chooser, nodes: &mut Vec<Ch>, left: &mut usize) -> usize {
    let e = nodes.len();
    let c = ch.choose(e + (*left > 0) as usize);
    if c < e {
        c
    } else {
        *left -= 1;
        gen_node(ch, nodes, left)
    }
}

/// every DAG with at most `max` nodes, all reachable from the root, numbered in pointer post-order
fn for_all_shapes(max: usize, mut f: impl FnMut(&[Ch])) {
    let mut ch = Chooser { rec: vec![], pos: 0 };
    loop {
        let mut nodes = vec![];
        let mut left = max - 1;
        ch.pos = 0;
        gen_node(&mut ch, &mut nodes, &mut left);
        f(&nodes);
        if !ch.advance() {
            break;
        }
    }
}

fn prune(ch: &[Ch]) -> Vec<Ch> {
    let n = ch.len();
    let mut reach = vec![false; n];
    reach[n - 1] = true;
    for i in (0..n).rev() {
        if reach[i] {
            let (l, r) = children(ch[i]);
            for c in [l, r].into_iter().flatten() {
                reach[c] = true;
            }
        }
    }
    let mut new = vec![usize::MAX; n];
    let mut out = vec![];
    for i in 0..n {
        if reach[i] {
            new[i] = out.len();
            out.push(match ch[i] {
                Ch::Nul => Ch::Nul,
                Ch::Un(l) => Ch::Un(new[l]),
                Ch::Bin(l, r) => Ch::Bin(new[l], new[r]),
            });
        }
    }
    out
}

fn random_shape(r: &mut ctx::Rng, n: usize, style: u64) -> Vec<Ch> {
    // grown bottom-up; `orphans` are the nodes without a parent so far, every new inner node adopts
    // one, and the leftover orphans are joined at the end: every node is reachable from the last one
    let mut ch: Vec<Ch> = vec![Ch::Nul];
    let mut orphans: Vec<usize> = vec![0];
    while ch.len() < n || orphans.len() > 1 {
        let i = ch.len();
        let take = |r: &mut ctx::Rng, orphans: &mut Vec<usize>| {
            let k = if r.chance(3, 4) { orphans.len() - 1 } else { r.below(orphans.len() as u64) as usize };
            orphans.swap_remove(k)
        };
        let near = |r: &mut ctx::Rng, w: usize| i - 1 - r.below(w.min(i) as u64) as usize;
        let kid = |ch: &Vec<Ch>, r: &mut ctx::Rng, x: usize| match ch[x] {
            Ch::Nul => x,
            Ch::Un(l) => l,
            Ch::Bin(l, rr) => {
                if r.bool() {
                    l
                } else {
                    rr
                }
            }
        };
        let node = if ch.len() >= n {
            let a = take(r, &mut orphans);
            let b = take(r, &mut orphans);
            Ch::Bin(a, b)
        } else {
            let leaf_ok = orphans.len() < if style == 4 { 8 } else { 3 };
            let dice = r.below(12);
            if leaf_ok && dice < if style == 4 { 5 } else { 2 } {
                Ch::Nul
            } else {
                let o = take(r, &mut orphans);
                match style {
                    // global sharing: the other child anywhere below
                    0 => match dice % 4 {
                        0 => Ch::Un(o),
                        1 => Ch::Bin(r.below(i as u64) as usize, o),
                        _ => Ch::Bin(o, r.below(i as u64) as usize),
                    },
                    // local sharing: deep DAGs
                    1 => match dice % 4 {
                        0 => Ch::Un(o),
                        1 => Ch::Bin(near(r, 4), o),
                        _ => Ch::Bin(o, near(r, 4)),
                    },
                    // ladders: repeated children, child-and-grandchild, diamonds
                    2 => match dice % 6 {
                        0 => Ch::Bin(o, o),
                        1 => Ch::Bin(o, kid(&ch, r, o)),
                        2 => Ch::Bin(kid(&ch, r, o), o),
                        3 => Ch::Un(o),
                        4 => Ch::Bin(o, near(r, 3)),
                        _ => Ch::Bin(near(r, 3), o),
                    },
                    // unary chains with occasional joins
                    3 => match dice {
                        2 => Ch::Bin(o, near(r, 30)),
                        3 => Ch::Bin(near(r, 30), o),
                        _ => Ch::Un(o),
                    },
                    // mostly a tree
                    _ => {
                        if !orphans.is_empty() && dice % 3 != 0 {
                            let o2 = take(r, &mut orphans);
                            Ch::Bin(o, o2)
                        } else if dice == 11 {
                            Ch::Bin(o, near(r, 5))
                        } else {
                            Ch::Un(o)
                        }
                    }
                }
            }
        };
        ch.push(node);
        orphans.push(i);
    }
    prune(&ch)
}

fn random_tags(r: &mut ctx::Rng, n: usize, variety: u64, unsharable: bool) -> Vec<Option<u32>> {
    (0..n).map(|_| if unsharable && r.chance(1, 12) { None } else { Some(r.below(variety) as u32) }).collect()
}

fn random_keys(r: &mut ctx::Rng, c: &[Ch], mode: u64) -> Vec<Option<u32>> {
    let n = c.len();
    match mode {
        // arbitrary, mostly not a congruence
        0 => (0..n).map(|_| if r.chance(1, 5) { None } else { Some(r.below(4) as u32) }).collect(),
        // pointer identity in disguise
        1 => (0..n).map(|i| Some((i as u32) * 7 + 3)).collect(),
        // arbitrary with many classes
        2 => (0..n).map(|_| Some(r.below(n as u64 + 1) as u32)).collect(),
        // structural classes of a random tagging, renamed, with unkeyed leaves (and ancestors)
        _ => {
            let tags = random_tags(r, n, 2, true);
            let cs = Case { ch: c.to_vec(), tags, keys: vec![None; n] };
            let nodes = build_nodes(&cs);
            let cls = classes(&cs, &nodes, Pol::Hash);
            cls.iter().map(|k| k.map(|k| (k as u32) * 3 + 1)).collect()
        }
    }
}

pub fn run(ctx: &mut Ctx) {
    let quick = ctx.quick();
    let lim = Limits { none_cap: if quick { 2_000 } else { 1_500 } };

    // 1. every DAG shape up to the bound, every policy
    let max = if quick { 6 } else { 8 };
    let mut shapes: Vec<Vec<Ch>> = vec![];
    let mut count8 = 0u64;
    for_all_shapes(max, |s| {
        if s.len() == 8 {
            count8 += 1;
            if count8 % 32 != 0 {
                return;
            }
        }
        shapes.push(s.to_vec());
    });
    ctx.note(&format!("exhaustive part: {} shapes with at most {} nodes{}", shapes.len(), max, if max == 8 { " (8-node shapes: every 32nd)" } else { "" }));
    for s in &shapes {
        let n = s.len();
        let mut r = ctx.rng.fork();
        let md = r.below(3) as usize + (n > 4) as usize;
        // all tags equal: as much structural identification as possible
        let c0 = Case { ch: s.clone(), tags: vec![Some(0); n], keys: random_keys(&mut r, s, 0) };
        one(ctx, &c0, Pol::None, md, "exhaustive", &lim);
        one(ctx, &c0, Pol::Ptr, md, "exhaustive", &lim);
        one(ctx, &c0, Pol::Hash, md, "exhaustive", &lim);
        one(ctx, &c0, Pol::Key, md, "exhaustive", &lim);
        let km = 1 + r.below(3);
        let c1 = Case { ch: s.clone(), tags: random_tags(&mut r, n, 2, true), keys: random_keys(&mut r, s, km) };
        one(ctx, &c1, Pol::Hash, md, "exhaustive", &lim);
        one(ctx, &c1, Pol::Key, md, "exhaustive", &lim);
    }

    // the single-node DAG under every policy, a few taggings
    for v in 0..ctx.scale(6, 130) as u32 {
        let c = Case { ch: vec![Ch::Nul], tags: vec![if v % 6 == 5 { None } else { Some(v) }], keys: vec![if v % 2 == 0 { None } else { Some(v) }] };
        for pol in [Pol::None, Pol::Ptr, Pol::Hash, Pol::Key] {
            one(ctx, &c, pol, (v % 2) as usize, "single-node", &lim);
        }
    }

    // 2. random DAGs
    let sizes: Vec<(u64, usize, usize)> = if quick {
        vec![(1500, 9, 40), (150, 41, 200), (24, 201, 700), (8, 1200, 2000)]
    } else {
        vec![(30_000, 9, 40), (3000, 41, 200), (360, 201, 700), (130, 1200, 2000)]
    };
    for (cnt, lo, hi) in sizes {
        for it in 0..cnt {
            let mut r = ctx.rng.fork();
            let n = r.range(lo as u64, hi as u64) as usize;
            let style = it % 5;
            let s = random_shape(&mut r, n, style);
            let n = s.len();
            let md = r.below(6) as usize;
            let kind = format!("random-{}-{}", ["global", "local", "ladder", "chain", "tree"][style as usize], if hi <= 40 { "small" } else if hi <= 200 { "medium" } else if hi <= 700 { "large" } else { "xl" });
            let variety = if r.bool() { 1 } else { 2 + r.below(3) };
            let unsharable = r.chance(1, 3);
            let km = if n > 60 { 1 + r.below(3) } else { r.below(4) };
            let keys = random_keys(&mut r, &s, km);
            let c = Case { tags: random_tags(&mut r, n, variety, unsharable), keys, ch: s };
            one(ctx, &c, Pol::None, md, &kind, &lim);
            one(ctx, &c, Pol::Ptr, md, &kind, &lim);
            one(ctx, &c, Pol::Hash, md, &kind, &lim);
            if n <= 700 || it % 2 == 0 {
                one(ctx, &c, Pol::Key, md, &kind, &lim);
            }
        }
    }

    // 3. the library's own node type and trackers
    real::run(ctx);
}

#[path = "c18/real.rs"]
mod real;
