//! C20 — results are independent of threads and scheduling.
//!
//! op:  `par <n> <schedule> X:<digests of the shared objects> G:<k>:<p|n|x>:<plan;…>:<witnesses>:<input>…
//!       [B:<tid>:<k>…] o:<tid>:<ctx>:<op>…`
//!   `<schedule>` = `t.t.t…`: the turnstile order — exactly this interleaving of whole operations is
//!        enforced on the real library (every slot first draws one probe name, so that the position of
//!        the global name counter is observed) — or `free`: all threads start at a barrier and run
//!        unsynchronised.
//!   `<op>` = micro operations on the thread's own persistent inference contexts:
//!        `F` fresh variable (`Arrow::iden`) · `P,a,b` / `S,a,b` product / sum of two handles ·
//!        `C,h,<type>` unify with a complete type · `D,h` display (`to_incomplete`) · `Z,h` finalize ·
//!        `M,n` `Final::two_two_n(n)` (thread-local table) · `R,k` read shared object k;
//!        or a whole library operation `W,<names drawn>,<digest of the sequential result>,<kind>.<prog>.<s|i>.<arg>`
//!        on program `<prog>` of the table, `s` = the one `Arc` shared by all threads, `i` = a copy the
//!        thread builds for itself:  inf (build in a fresh context + finalize_types: every arrow, or the
//!        type error text) · roots (cmr/ihr/amr/cost/arrows/witnesses of every node) · enc · dec (RedeemNode /
//!        CommitNode::decode) · exec (Bit Machine, Elements jets through C, shared environment) · prune ·
//!        reinf (to_construct_node in a fresh context + finalize) · val (shared Value/Final reads) ·
//!        pol (policy commit/satisfy/execute) · hum (human-readable forest and back) · drop (concurrent
//!        drop of handles into one DAG) · build (one node per operation in a persistent context) ·
//!        loop (the same execution 20–59 times back to back).
//!   Besides the mixed histories: "hammer" cases (all threads repeat exec/prune/decode/roots on one
//!   shared program, or on the same plan with per-thread witness values) and a sweep over the jets
//!   (`comp wit (comp jet unit)`, every thread with its own jet input, executed in loops by 4 or 16
//!   threads at once; quick: a third of the jets chosen by the seed, thorough: all jets three times).
//!   answer: `T0 [@d:]<result>… T1 … solo=ok` — per thread the canonical results (type-variable names
//!        numbered by first occurrence, whole operations as digests), `@d` = distance of the slot's probe
//!        name from the base; `solo=ok` iff every result equals the one of the sequential run.
//!   The Lean model (`ConcModel.run`) replays the same history: it computes the micro results and the
//!   counter positions itself and takes the whole operations as opaque steps.
//! oracle (implementation alone): every operation's canonical result under threads equals the result
//!   of running the threads' operation lists one after the other on one thread
//!   (`result-differs-under-threads`); no panic in a thread (`panic-thread`); all threads finish before
//!   a generous watchdog (`deadlock-or-hang`); under the turnstile every operation draws as many names
//!   as sequentially, free-running the counter advances by the sum of the sequential draws
//!   (`name-count-differs`); after all threads are done nothing of a dropped DAG is
//!   alive (`leak-after-drop`); `Final::two_two_n(n).tmr() == Tmr::TWO_TWO_N[n]` (`memo-table-wrong`).

use crate::codec;
use crate::ctx::{catch, fnv, Ctx, Rng};
use crate::gen::{self, GenCfg, PNode, Plan, T};
use crate::progs::{self, Env, Outcome};
use simplicity::dag::{DagLike, InternalSharing};
use simplicity::elements::bitcoin::hashes::{sha256, Hash};
use simplicity::elements::bitcoin::key::{Keypair, XOnlyPublicKey};
use simplicity::elements::{self, secp256k1_zkp};
use simplicity::jet::{Elements, Jet};
use simplicity::node::CoreConstructible;
use simplicity::types::arrow::Arrow;
use simplicity::types::{self, CompleteBound, Final, Incomplete};
use simplicity::{BitIter, Cmr, CommitNode, ConstructNode, Policy, Preimage32, RedeemNode, Satisfier, Tmr, Value};
use std::collections::HashMap;
use std::sync::atomic::{AtomicBool, Ordering};
use std::sync::{mpsc, Arc, Barrier, Condvar, Mutex, Weak};
use std::time::Duration;

pub const RULE: &str = "histories of 2, 4 or 16 threads × 3..40 operations per thread, drawn from 8 micro operations on the thread's own persistent inference contexts and 13 kinds of whole library operations (type-directed programs of ≤ 60 nodes with all node kinds, Elements jets incl. sha256/secp256k1/introspection fed by witnesses, ill-typed variants, 8 policies) on independent programs (one per thread, built by the thread) or on one program shared through Arc; schedules: uniformly random interleavings, round robin, thread blocks and bursts, enforced with a turnstile, plus free-running from a barrier; plus contention cases: all threads repeating operations on one shared program / on one plan with per-thread witnesses, and every Elements jet executed in loops by 4 or 16 threads with per-thread inputs; non-trivial = at least two threads perform operations; distinct by the whole line";

// ------------------------------------------------------------------------------------------------
// specification of a case (everything that is in the op line)

#[derive(Clone, Debug, PartialEq)]
enum Micro {
    F,
    P(usize, usize),
    S(usize, usize),
    C(usize, T),
    D(usize),
    Z(usize),
    M(usize),
    R(usize),
}

const WKINDS: [&str; 13] = ["inf", "roots", "enc", "dec", "exec", "prune", "reinf", "val", "pol", "hum", "drop", "build", "loop"];

#[derive(Clone, Debug, PartialEq)]
struct Whole {
    kind: &'static str,
    prog: usize,
    shared: bool,
    arg: usize,
}

impl Whole {
    fn text(&self) -> String {
        format!("{}.{}.{}.{}", self.kind, self.prog, if self.shared { "s" } else { "i" }, self.arg)
    }
    fn parse(s: &str) -> Option<Whole> {
        let f: Vec<&str> = s.split('.').collect();
        if f.len() != 4 {
            return None;
        }
        let kind = WKINDS.iter().find(|k| **k == f[0])?;
        Some(Whole { kind, prog: f[1].parse().ok()?, shared: f[2] == "s", arg: f[3].parse().ok()? })
    }
}

#[derive(Clone, Debug, PartialEq)]
enum OpKind {
    Micro(Micro),
    Whole(Whole),
}

#[derive(Clone, Debug)]
struct OpSpec {
    tid: usize,
    ctx: usize,
    kind: OpKind,
}

#[derive(Clone, Debug)]
struct ProgSpec {
    plan: Plan,
    /// 'p' program 1→1 (finalize_types), 'n' pinned a→b, 'x' ill-typed
    flavour: char,
    wits: Vec<(usize, Vec<bool>)>,
    input: Option<Vec<bool>>,
}

#[derive(Clone, Debug)]
struct CaseSpec {
    n: usize,
    sched: Option<Vec<usize>>,
    progs: Vec<ProgSpec>,
    /// plan built node by node by thread t (`build` operations)
    build: Vec<(usize, usize)>,
    ops: Vec<OpSpec>,
}

impl ProgSpec {
    fn text(&self, k: usize) -> String {
        let plan: Vec<String> = self.plan.nodes.iter().map(|n| n.text()).collect();
        let wits = if self.wits.is_empty() {
            "-".to_string()
        } else {
            self.wits.iter().map(|(i, b)| format!("{}={}", i, gen::bits_text(b))).collect::<Vec<_>>().join(";")
        };
        let input = match &self.input {
            None => "N".to_string(),
            Some(b) => format!("I{}", gen::bits_text(b)),
        };
        format!("G:{}:{}:{};{}:{}:{}", k, self.flavour, self.plan.nodes.len(), plan.join(";"), wits, input)
    }
    fn parse(tok: &str) -> Option<(usize, ProgSpec)> {
        let f: Vec<&str> = tok.split(':').collect();
        if f.len() != 6 || f[0] != "G" {
            return None;
        }
        let k = f[1].parse().ok()?;
        let flavour = f[2].chars().next()?;
        let ptoks: Vec<&str> = f[3].split(';').collect();
        let (plan, used) = Plan::parse(&ptoks)?;
        if used != ptoks.len() {
            return None;
        }
        let mut wits = vec![];
        if f[4] != "-" {
            for w in f[4].split(';') {
                let (i, b) = w.split_once('=')?;
                wits.push((i.parse().ok()?, gen::parse_bits(b)?));
            }
        }
        let input = if f[5] == "N" { None } else { Some(gen::parse_bits(f[5].strip_prefix('I')?)?) };
        Some((k, ProgSpec { plan, flavour, wits, input }))
    }
}

fn micro_text(m: &Micro) -> String {
    match m {
        Micro::F => "F".into(),
        Micro::P(a, b) => format!("P,{a},{b}"),
        Micro::S(a, b) => format!("S,{a},{b}"),
        Micro::C(h, t) => format!("C,{h},{}", t.text()),
        Micro::D(h) => format!("D,{h}"),
        Micro::Z(h) => format!("Z,{h}"),
        Micro::M(n) => format!("M,{n}"),
        Micro::R(k) => format!("R,{k}"),
    }
}

fn parse_micro(s: &str) -> Option<Micro> {
    let f: Vec<&str> = s.split(',').collect();
    let n = |i: usize| -> Option<usize> { f.get(i)?.parse().ok() };
    Some(match (f[0], f.len()) {
        ("F", 1) => Micro::F,
        ("P", 3) => Micro::P(n(1)?, n(2)?),
        ("S", 3) => Micro::S(n(1)?, n(2)?),
        ("C", 3) => Micro::C(n(1)?, gen::parse_type(f[2])?),
        ("D", 2) => Micro::D(n(1)?),
        ("Z", 2) => Micro::Z(n(1)?),
        ("M", 2) => Micro::M(n(1)?),
        ("R", 2) => Micro::R(n(1)?),
        _ => return None,
    })
}

// ------------------------------------------------------------------------------------------------
// the objects shared by all threads of a case

struct ProgObj {
    spec: ProgSpec,
    wits: HashMap<usize, Value>,
    commit: Option<Arc<CommitNode>>,
    redeem: Option<Arc<RedeemNode>>,
    input: Option<Value>,
    bytes: Option<(Vec<u8>, Vec<u8>)>,
}

struct PolWorld {
    keys: Vec<XOnlyPublicKey>,
    sigs: Vec<elements::SchnorrSig>,
    preimages: Vec<[u8; 32]>,
    hashes: Vec<sha256::Hash>,
    policies: Vec<Policy<XOnlyPublicKey>>,
}

struct World {
    progs: Vec<ProgObj>,
    finals: Vec<Arc<Final>>,
    values: Vec<Value>,
    pol: PolWorld,
}

fn assert_shareable<X: Send + Sync + 'static>() {}
#[allow(dead_code)]
fn static_checks() {
    assert_shareable::<World>();
    assert_shareable::<Arc<RedeemNode>>();
    assert_shareable::<Arc<CommitNode>>();
    assert_shareable::<Arc<Final>>();
    assert_shareable::<Value>();
}

fn pol_world(env: &Env) -> PolWorld {
    let secp = secp256k1_zkp::Secp256k1::new();
    let keypairs: Vec<Keypair> = (1..=3u8)
        .map(|i| {
            let mut sk = [i; 32];
            sk[0] = 1;
            sk[31] = i.wrapping_mul(37);
            Keypair::from_seckey_slice(&secp, &sk).unwrap()
        })
        .collect();
    let keys: Vec<XOnlyPublicKey> = keypairs.iter().map(|k| k.x_only_public_key().0).collect();
    let sighash = env.c_tx_env().sighash_all();
    let msg = secp256k1_zkp::Message::from_digest(sighash.to_byte_array());
    let sigs = keypairs.iter().map(|kp| elements::SchnorrSig { sig: secp.sign_schnorr_no_aux_rand(&msg, kp), hash_ty: elements::SchnorrSighashType::All }).collect();
    let preimages: Vec<[u8; 32]> = (0..2u8).map(|i| [i.wrapping_mul(29).wrapping_add(3); 32]).collect();
    let hashes: Vec<sha256::Hash> = preimages.iter().map(|p| sha256::Hash::hash(p)).collect();
    let k = |i: usize| Arc::new(Policy::Key(keys[i]));
    let h = |i: usize| Arc::new(Policy::Sha256(hashes[i]));
    let policies = vec![
        Policy::Key(keys[0]),
        Policy::And { left: k(0), right: h(0) },
        Policy::Or { left: k(1), right: h(1) },
        Policy::Threshold(2, vec![Policy::Key(keys[0]), Policy::Key(keys[1]), Policy::Key(keys[2])]),
        Policy::And { left: Arc::new(Policy::Or { left: k(0), right: k(1) }), right: Arc::new(Policy::Trivial) },
        Policy::Or { left: Arc::new(Policy::After(0)), right: k(2) },
        Policy::Threshold(1, vec![Policy::Sha256(hashes[0]), Policy::Key(keys[2])]),
        Policy::Sha256(hashes[1]),
    ];
    PolWorld { keys, sigs, preimages, hashes, policies }
}

const N_POL: usize = 8;

struct Sat<'a, 'b> {
    ctx: types::Context<'b>,
    w: &'a PolWorld,
    mask: usize,
}

impl<'a, 'b> Satisfier<'b, XOnlyPublicKey> for Sat<'a, 'b> {
    fn inference_context(&self) -> &types::Context<'b> {
        &self.ctx
    }
    fn lookup_signature(&self, pk: &XOnlyPublicKey) -> Option<elements::SchnorrSig> {
        let i = self.w.keys.iter().position(|k| k == pk)?;
        if self.mask >> i & 1 == 1 {
            Some(self.w.sigs[i])
        } else {
            None
        }
    }
    fn lookup_sha256(&self, h: &sha256::Hash) -> Option<Preimage32> {
        let i = self.w.hashes.iter().position(|k| k == h)?;
        if self.mask >> (3 + i) & 1 == 1 {
            Some(self.w.preimages[i])
        } else {
            None
        }
    }
    fn check_older(&self, _: elements::Sequence) -> bool {
        false
    }
    fn check_after(&self, _: elements::LockTime) -> bool {
        false
    }
    fn lookup_asm_program(&self, _: Cmr) -> Option<Arc<ConstructNode<'b>>> {
        None
    }
}

fn value_of_bits(ty: &Final, bits: &[bool]) -> Option<Value> {
    let mut bytes = vec![0u8; bits.len() / 8 + 1];
    for (i, b) in bits.iter().enumerate() {
        if *b {
            bytes[i / 8] |= 1 << (7 - i % 8);
        }
    }
    Value::from_compact_bits(&mut BitIter::from(bytes), ty).ok()
}

fn build_prog(spec: &ProgSpec) -> ProgObj {
    let program = spec.flavour == 'p';
    let mut obj = ProgObj { spec: spec.clone(), wits: HashMap::new(), commit: None, redeem: None, input: None, bytes: None };
    if spec.flavour == 'x' {
        return obj;
    }
    let Ok(Ok((commit, arrows))) = catch(|| gen::arrows_of_plan(&spec.plan, None, program)) else { return obj };
    for (i, bits) in &spec.wits {
        if let Some(Some((_, tgt))) = arrows.get(*i) {
            if let Some(v) = value_of_bits(tgt, bits) {
                obj.wits.insert(*i, v);
            }
        }
    }
    obj.commit = Some(commit);
    if let Ok(Ok(red)) = catch(|| gen::redeem_with(&spec.plan, &obj.wits, program)) {
        if let Some(bits) = &spec.input {
            obj.input = value_of_bits(&red.arrow().source, bits);
        }
        if program {
            obj.bytes = Some(red.to_vec_with_witness());
        }
        obj.redeem = Some(red);
    }
    obj
}

fn plain(f: &Final) -> String {
    match f.bound() {
        CompleteBound::Unit => "1".into(),
        CompleteBound::Sum(a, b) => format!("+{}{}", plain(a), plain(b)),
        CompleteBound::Product(a, b) => format!("*{}{}", plain(a), plain(b)),
    }
}

/// `Incomplete` as text, names numbered by first occurrence in `seen`
fn shown(inc: &Incomplete, seen: &mut Vec<String>) -> String {
    match inc {
        Incomplete::Free(s) => {
            let k = match seen.iter().position(|x| x == s) {
                Some(k) => k,
                None => {
                    seen.push(s.clone());
                    seen.len() - 1
                }
            };
            format!("v{k}")
        }
        Incomplete::Cycle => "~".into(),
        Incomplete::Sum(a, b) => format!("+{}{}", shown(a, seen), shown(b, seen)),
        Incomplete::Product(a, b) => format!("*{}{}", shown(a, seen), shown(b, seen)),
        Incomplete::Final(f) => plain(f),
    }
}

/// replace every type-variable name (`<prefix>_<digits>`) of a message by `v<k>`, k by first occurrence
fn canon_names(s: &str) -> String {
    let mut out = String::with_capacity(s.len());
    let mut seen: Vec<String> = vec![];
    let cs: Vec<char> = s.chars().collect();
    let mut i = 0;
    while i < cs.len() {
        if cs[i].is_ascii_alphabetic() || cs[i] == '_' {
            let st = i;
            while i < cs.len() && (cs[i].is_ascii_alphanumeric() || cs[i] == '_') {
                i += 1;
            }
            let w: String = cs[st..i].iter().collect();
            let is_var = match w.rfind('_') {
                Some(p) => p > 0 && p + 1 < w.len() && w[p + 1..].chars().all(|c| c.is_ascii_digit()) && w[..p].chars().all(|c| c.is_ascii_lowercase() || c == '_'),
                None => false,
            };
            if is_var {
                let k = match seen.iter().position(|x| *x == w) {
                    Some(k) => k,
                    None => {
                        seen.push(w.clone());
                        seen.len() - 1
                    }
                };
                out.push_str(&format!("v{k}"));
            } else {
                out.push_str(&w);
            }
        } else {
            out.push(cs[i]);
            i += 1;
        }
    }
    out
}

fn shared_text(w: &World, k: usize) -> String {
    let k = k % n_shared(w).max(1);
    let np = w.progs.len();
    if k < np {
        let p = &w.progs[k];
        match (&p.redeem, &p.commit) {
            (Some(r), _) => format!("R {} {} {} {}>{}", r.cmr(), r.ihr(), r.amr(), gen::final_text(&r.arrow().source), gen::final_text(&r.arrow().target)),
            (None, Some(c)) => format!("C {} {}>{}", c.cmr(), gen::final_text(&c.arrow().source), gen::final_text(&c.arrow().target)),
            _ => "none".into(),
        }
    } else if k < np + w.finals.len() {
        let f = &w.finals[k - np];
        format!("F {} {} {} {}", gen::final_text(f), f.tmr(), f.bit_width(), f)
    } else if k < np + w.finals.len() + w.values.len() {
        let v = &w.values[k - np - w.finals.len()];
        format!("V {} {} {}", gen::value_padded_text(v), gen::value_compact_text(v), v)
    } else {
        "none".into()
    }
}

fn n_shared(w: &World) -> usize {
    w.progs.len() + w.finals.len() + w.values.len()
}

fn build_world(spec: &CaseSpec) -> World {
    let env = progs::dummy_env();
    let pol = pol_world(&env);
    let progs: Vec<ProgObj> = spec.progs.iter().map(build_prog).collect();
    // shared types and values: taken from the programs (sources, targets, witnesses) + fixed ones
    let mut finals: Vec<Arc<Final>> = vec![Final::unit(), Final::two_two_n(3).unwrap(), Final::two_two_n(8).unwrap(), Final::ctx8()];
    let mut values: Vec<Value> = vec![Value::unit(), Value::u8(0xa5), Value::u64(0x0123_4567_89ab_cdef)];
    for p in &progs {
        if let Some(r) = &p.redeem {
            finals.push(Arc::clone(&r.arrow().source));
            finals.push(Arc::clone(&r.arrow().target));
        }
        let mut ks: Vec<&usize> = p.wits.keys().collect();
        ks.sort();
        for k in ks.into_iter().take(2) {
            values.push(p.wits[k].shallow_clone());
        }
    }
    finals.truncate(12);
    values.truncate(10);
    World { progs, finals, values, pol }
}

// ------------------------------------------------------------------------------------------------
// one thread

struct MicroCtx<'b> {
    ctx: types::Context<'b>,
    tys: Vec<types::Type<'b>>,
}

struct BuildCtx<'b> {
    ctx: types::Context<'b>,
    built: Vec<Option<gen::CN<'b>>>,
    order: Vec<usize>,
    pos: usize,
    finished: bool,
}

struct OpOut {
    text: String,
    tags: Vec<&'static str>,
}

fn out(text: String) -> OpOut {
    OpOut { text, tags: vec![] }
}

struct Local {
    tid: usize,
    /// names seen in the results of micro operations (numbering per thread)
    seen: Vec<String>,
    /// the thread's own copies of programs (`i` operations)
    own: HashMap<usize, Option<Arc<RedeemNode>>>,
    own_commit: HashMap<usize, Option<Arc<CommitNode>>>,
    victims: Vec<Arc<RedeemNode>>,
    /// the thread's own transaction environment (`ElementsEnv` is neither Send nor Sync: the type
    /// system already forbids sharing it)
    env: Env,
}

fn run_micro<'b>(w: &World, mc: &mut MicroCtx<'b>, seen: &mut Vec<String>, m: &Micro) -> OpOut {
    let nh = mc.tys.len();
    let text = match m {
        Micro::F => {
            let a = Arrow::iden(&mc.ctx);
            mc.tys.push(a.source.shallow_clone());
            format!("h{nh}")
        }
        Micro::P(a, b) | Micro::S(a, b) => {
            if *a >= nh || *b >= nh {
                "bad".into()
            } else {
                let (x, y) = (mc.tys[*a].shallow_clone(), mc.tys[*b].shallow_clone());
                let t = if matches!(m, Micro::P(..)) { types::Type::product(&mc.ctx, x, y) } else { types::Type::sum(&mc.ctx, x, y) };
                mc.tys.push(t);
                format!("h{nh}")
            }
        }
        Micro::C(h, t) => {
            if *h >= nh {
                "bad".into()
            } else {
                let c = types::Type::complete(&mc.ctx, t.fin());
                match mc.ctx.unify(&mc.tys[*h], &c, "c20") {
                    Ok(()) => "ok".into(),
                    Err(types::Error::Bind { existing_bound, new_bound, .. }) => {
                        let e = shown(&existing_bound, seen);
                        let n = shown(&new_bound, seen);
                        format!("err:{e}:{n}")
                    }
                    Err(e) => format!("err?{}", canon_names(&e.to_string()).replace(' ', "_")),
                }
            }
        }
        Micro::D(h) => {
            if *h >= nh {
                "bad".into()
            } else {
                format!("d:{}", shown(&mc.tys[*h].to_incomplete(), seen))
            }
        }
        Micro::Z(h) => {
            if *h >= nh {
                "bad".into()
            } else {
                match mc.tys[*h].finalize() {
                    Ok(f) => format!("z:{}", plain(&f)),
                    Err(e) => format!("zerr?{}", canon_names(&e.to_string()).replace(' ', "_")),
                }
            }
        }
        Micro::M(n) => match Final::two_two_n(*n) {
            Ok(f) => {
                let t = f.tmr();
                if t != Tmr::TWO_TWO_N[*n] || f.bit_width() != 1usize << *n {
                    format!("m:WRONG-{}-{}", t, f.bit_width())
                } else {
                    format!("m:{}", gen::hex(t.as_ref()))
                }
            }
            Err(_) => "bad".into(),
        },
        Micro::R(k) => format!("r:{:016x}", fnv(shared_text(w, *k).as_bytes())),
    };
    out(text)
}

fn describe_redeem(r: &RedeemNode) -> String {
    codec::describe(r)
}

fn jet_family(j: &Elements) -> &'static str {
    let n = j.to_string();
    if n.starts_with("sha_256") {
        "jet-sha256"
    } else if n.starts_with("fe_")
        || n.starts_with("ge_")
        || n.starts_with("gej_")
        || n.starts_with("scalar_")
        || n.starts_with("bip_0340")
        || n.starts_with("check_sig")
        || n.starts_with("point_verify")
        || n.starts_with("linear_")
        || n.starts_with("decompress")
        || n.starts_with("generate")
        || n.starts_with("swu")
        || n.starts_with("hash_to_curve")
    {
        "jet-secp"
    } else if j.source_ty().to_final().bit_width() <= 64 && (n.contains("input") || n.contains("output") || n.contains("lock") || n.contains("version") || n.contains("tap") || n.contains("script") || n.contains("current") || n.contains("issuance") || n.contains("genesis") || n.contains("tx_") || n.contains("num_") || n.contains("hash")) {
        "jet-introspection"
    } else {
        "jet-other"
    }
}

fn exec_out(r: &RedeemNode, input: Option<&Value>, env: &Env) -> OpOut {
    match progs::run(r, input, env) {
        Ok(run) => {
            let mut s = match &run.outcome {
                Outcome::Ok(v) => format!("ok {}", gen::value_compact_text(v)),
                Outcome::Fail(k) => format!("fail {k}"),
                Outcome::Other(e) => format!("other {e}"),
            };
            let mut tags = vec![];
            for (j, i, o) in &run.rec.calls {
                s.push_str(&format!(" J:{}:{}:{}", j, gen::bits_text(i), o.as_ref().map(|o| gen::bits_text(o)).unwrap_or_else(|| "fail".into())));
                let t = jet_family(j);
                if !tags.contains(&t) {
                    tags.push(t);
                }
            }
            s.push_str(&format!(" cells={} frames={} visited={}", run.max_cells, run.max_frames, run.rec.nodes_visited));
            OpOut { text: s, tags }
        }
        Err(e) => out(format!("limit {e}")),
    }
}

fn own_redeem(w: &World, l: &mut Local, k: usize) -> Option<Arc<RedeemNode>> {
    if let Some(r) = l.own.get(&k) {
        return r.clone();
    }
    let p = &w.progs[k];
    let r = if p.redeem.is_some() {
        // the thread's own copy: own witness values (re-decoded from bits), own inference context
        let mut wits = HashMap::new();
        for (i, v) in &p.wits {
            let bits: Vec<bool> = v.iter_compact().collect();
            wits.insert(*i, value_of_bits(v.ty(), &bits).expect("witness re-decodes"));
        }
        gen::redeem_with(&p.spec.plan.clone(), &wits, p.spec.flavour == 'p').ok()
    } else {
        None
    };
    l.own.insert(k, r.clone());
    r
}

fn own_commit(w: &World, l: &mut Local, k: usize) -> Option<Arc<CommitNode>> {
    if let Some(r) = l.own_commit.get(&k) {
        return r.clone();
    }
    let p = &w.progs[k];
    let c = if p.commit.is_some() { gen::commit_of_plan(&p.spec.plan.clone(), None, p.spec.flavour == 'p').ok() } else { None };
    l.own_commit.insert(k, c.clone());
    c
}

fn run_whole<'b>(w: &World, l: &mut Local, bc: &mut BuildCtx<'b>, op: &Whole) -> OpOut {
    if op.prog >= w.progs.len() {
        return out("bad-prog".into());
    }
    let p = &w.progs[op.prog];
    let program = p.spec.flavour == 'p';
    let red: Option<Arc<RedeemNode>> = match op.kind {
        "roots" | "enc" | "dec" | "exec" | "prune" | "reinf" | "loop" => {
            if op.shared {
                p.redeem.clone()
            } else {
                own_redeem(w, l, op.prog)
            }
        }
        _ => None,
    };
    match op.kind {
        "inf" => {
            let plan = if op.shared { None } else { Some(p.spec.plan.clone()) };
            let plan_ref = plan.as_ref().unwrap_or(&p.spec.plan);
            match gen::arrows_of_plan(plan_ref, None, program) {
                Ok((c, arrows)) => {
                    let mut s = format!("ok {}", c.cmr());
                    for (i, a) in arrows.iter().enumerate() {
                        if let Some((x, y)) = a {
                            s.push_str(&format!(" {}:{}>{}", i, gen::final_text(x), gen::final_text(y)));
                        }
                    }
                    OpOut { text: s, tags: vec!["inf-ok"] }
                }
                Err(e) => OpOut { text: format!("err {}", canon_names(&e.to_string())), tags: vec!["type-error-display"] },
            }
        }
        "roots" => match red {
            Some(r) => {
                let mut s = describe_redeem(&r);
                for d in r.as_ref().post_order_iter::<InternalSharing>() {
                    s.push_str(&format!(" {}/{}/{}", d.node.cmr(), d.node.ihr(), d.node.amr()));
                }
                s.push_str(&format!(" cost {}", r.bounds().cost));
                out(s)
            }
            None => out("n/a".into()),
        },
        "enc" => match red {
            Some(r) => {
                let (pb, wb) = r.to_vec_with_witness();
                let cb = if op.shared { p.commit.clone() } else { own_commit(w, l, op.prog) }.map(|c| gen::hex(&c.to_vec_without_witness())).unwrap_or_default();
                out(format!("prog={} wit={} commit={}", gen::hex(&pb), gen::hex(&wb), cb))
            }
            None => out("n/a".into()),
        },
        "dec" => {
            let bytes: Option<(Vec<u8>, Vec<u8>)> = if op.shared { p.bytes.clone() } else { red.as_ref().filter(|_| program).map(|r| r.to_vec_with_witness()) };
            match bytes {
                Some((pb, wb)) => {
                    let mut s = match RedeemNode::decode::<_, _, Elements>(BitIter::from(&pb[..]), BitIter::from(&wb[..])) {
                        Ok(r) => {
                            let (p2, w2) = r.to_vec_with_witness();
                            format!("{} same={}", describe_redeem(&r), p2 == pb && w2 == wb)
                        }
                        Err(e) => format!("err {e}"),
                    };
                    match CommitNode::decode::<_, Elements>(BitIter::from(&pb[..])) {
                        Ok(c) => s.push_str(&format!(" commit {} {}>{}", c.cmr(), gen::final_text(&c.arrow().source), gen::final_text(&c.arrow().target))),
                        Err(e) => s.push_str(&format!(" commit-err {e}")),
                    }
                    out(s)
                }
                None => out("n/a".into()),
            }
        }
        "exec" => match red {
            Some(r) => exec_out(&r, p.input.as_ref(), &l.env),
            None => out("n/a".into()),
        },
        "loop" => match red {
            // the same execution many times back to back (contention inside the jets' C code)
            Some(r) => {
                let reps = 20 + op.arg % 40;
                let first = exec_out(&r, p.input.as_ref(), &l.env);
                let mut same = true;
                for _ in 1..reps {
                    if exec_out(&r, p.input.as_ref(), &l.env).text != first.text {
                        same = false;
                    }
                }
                OpOut { text: format!("{} reps={reps} same={same}", first.text), tags: first.tags }
            }
            None => out("n/a".into()),
        },
        "prune" => match red {
            Some(r) => match r.prune(&l.env) {
                Ok(q) => {
                    let (pb, wb) = q.to_vec_with_witness();
                    out(format!("ok {} {} {} {}", q.cmr(), q.ihr(), gen::hex(&pb), gen::hex(&wb)))
                }
                Err(e) => out(format!("err {e}")),
            },
            None => out("n/a".into()),
        },
        "reinf" => match red {
            Some(r) => types::Context::with_context(|ctx| {
                let c = r.to_construct_node(&ctx);
                let mut seen = vec![];
                let a = format!("{}>{}", shown(&c.arrow().source.to_incomplete(), &mut seen), shown(&c.arrow().target.to_incomplete(), &mut seen));
                let f = match c.finalize_types_non_program() {
                    Ok(cm) => format!("{} {}>{}", cm.cmr(), gen::final_text(&cm.arrow().source), gen::final_text(&cm.arrow().target)),
                    Err(e) => format!("err {}", canon_names(&e.to_string())),
                };
                let u = match r.unfinalize() {
                    Ok(cm) => format!("{}", cm.cmr()),
                    Err(e) => format!("err {}", canon_names(&e.to_string())),
                };
                out(format!("{a} | {f} | {u}"))
            }),
            None => out("n/a".into()),
        },
        "val" => {
            let k = op.arg % n_shared(w).max(1);
            let mut s = shared_text(w, k);
            // clones of shared values/types are made and dropped under contention; equality and
            // hashing of a re-decoded copy
            for v in &w.values {
                let c = v.shallow_clone();
                let bits: Vec<bool> = c.iter_compact().collect();
                let d = value_of_bits(c.ty(), &bits).expect("value re-decodes");
                s.push_str(if d == *v { " eq" } else { " NE" });
            }
            for f in &w.finals {
                let g = Arc::clone(f);
                s.push_str(&format!(" {}", g.tmr()));
            }
            s.push_str(&format!(" ctx8={} buf={}", Final::ctx8().tmr(), Final::buffer8_two_n_plus_one(op.arg % 4).map(|f| f.tmr().to_string()).unwrap_or_default()));
            out(s)
        }
        "pol" => {
            let pol = &w.pol.policies[op.prog_pol()];
            let mask = op.arg;
            let c1 = pol.cmr();
            let c2 = pol.commit().cmr();
            let got = types::Context::with_context(|ictx| {
                let sat = Sat { ctx: ictx, w: &w.pol, mask };
                pol.satisfy(&sat, &l.env)
            });
            let s = match got {
                Ok(prog) => {
                    let run = match progs::run(&prog, None, &l.env) {
                        Ok(r) => match r.outcome {
                            Outcome::Ok(_) => "runs".to_string(),
                            Outcome::Fail(k) => format!("fail {k}"),
                            Outcome::Other(e) => format!("other {e}"),
                        },
                        Err(e) => format!("limit {e}"),
                    };
                    format!("{c1} {c2} sat {} {} {run}", prog.cmr(), prog.ihr())
                }
                Err(simplicity::policy::SatisfierError::Unsatisfiable) => format!("{c1} {c2} unsat"),
                Err(simplicity::policy::SatisfierError::AssemblyFailed(e)) => format!("{c1} {c2} asmfail {}", canon_names(&e.to_string())),
            };
            out(s)
        }
        "hum" => {
            let c = if op.shared { p.commit.clone() } else { own_commit(w, l, op.prog) };
            match c {
                Some(c) => {
                    let forest = simplicity::human_encoding::Forest::from_program(c);
                    let text = forest.string_serialize();
                    let back = match simplicity::human_encoding::Forest::parse::<Elements>(&text) {
                        Ok(f) => {
                            let mut roots: Vec<String> = f.roots().iter().map(|(n, c)| format!("{}={}", n, c.cmr())).collect();
                            roots.sort();
                            roots.join(",")
                        }
                        Err(e) => format!("parse-err {}", e.to_string().replace('\n', " ")),
                    };
                    out(format!("{:016x} {} {}", fnv(text.as_bytes()), text.len(), back))
                }
                None => out("n/a".into()),
            }
        }
        "drop" => {
            // drop a share of this thread's handles into the victim DAG, in a thread-specific order
            let n = l.victims.len();
            let take = if op.arg % 3 == 0 { n } else { n / 2 };
            for i in 0..take {
                let idx = if l.victims.is_empty() { break } else { (i * 7 + l.tid * 13) % l.victims.len() };
                let v = l.victims.swap_remove(idx);
                drop(v);
            }
            out(format!("dropped {take}"))
        }
        "build" => {
            let plan = &p.spec.plan;
            if bc.finished {
                return out("done".into());
            }
            if bc.order.is_empty() {
                bc.order = plan.reachable();
                bc.built = vec![None; plan.nodes.len()];
            }
            if bc.pos < bc.order.len() {
                let i = bc.order[bc.pos];
                bc.pos += 1;
                match build_one(&bc.ctx, plan, i, &bc.built) {
                    Ok(node) => {
                        let mut seen = vec![];
                        let s = format!("{} {} {}>{}", i, node.cmr(), shown(&node.arrow().source.to_incomplete(), &mut seen), shown(&node.arrow().target.to_incomplete(), &mut seen));
                        bc.built[i] = Some(node);
                        out(s)
                    }
                    Err(e) => {
                        bc.finished = true;
                        OpOut { text: format!("err {}", canon_names(&e.to_string())), tags: vec!["type-error-display"] }
                    }
                }
            } else {
                bc.finished = true;
                let root = bc.built[plan.root()].as_ref().unwrap();
                let r = if program { root.finalize_types() } else { root.finalize_types_non_program() };
                match r {
                    Ok(c) => out(format!("fin {} {}>{}", c.cmr(), gen::final_text(&c.arrow().source), gen::final_text(&c.arrow().target))),
                    Err(e) => OpOut { text: format!("fin-err {}", canon_names(&e.to_string())), tags: vec!["type-error-display"] },
                }
            }
        }
        _ => out("bad-kind".into()),
    }
}

impl Whole {
    fn prog_pol(&self) -> usize {
        self.prog % N_POL
    }
}

/// one node of a plan in a given context (`gen::build` for a single index)
fn build_one<'b>(ctx: &types::Context<'b>, plan: &Plan, i: usize, built: &[Option<gen::CN<'b>>]) -> Result<gen::CN<'b>, types::Error> {
    use simplicity::node::{DisconnectConstructible, WitnessConstructible};
    type CN<'b> = gen::CN<'b>;
    let g = |c: usize| built[c].as_ref().expect("children are built before parents");
    Ok(match &plan.nodes[i] {
        PNode::Iden => CN::iden(ctx),
        PNode::Unit => CN::unit(ctx),
        PNode::InjL(c) => CN::injl(g(*c)),
        PNode::InjR(c) => CN::injr(g(*c)),
        PNode::Take(c) => CN::take(g(*c)),
        PNode::Drop(c) => CN::drop_(g(*c)),
        PNode::Comp(a, b) => CN::comp(g(*a), g(*b))?,
        PNode::Case(a, b) => CN::case(g(*a), g(*b))?,
        PNode::Pair(a, b) => CN::pair(g(*a), g(*b))?,
        PNode::AssertL(a, h) => CN::assertl(g(*a), Cmr::from_byte_array(*h))?,
        PNode::AssertR(h, b) => CN::assertr(Cmr::from_byte_array(*h), g(*b))?,
        PNode::Disconnect(a, b) => CN::disconnect(g(*a), &b.map(|b| g(b).clone()))?,
        PNode::Witness => CN::witness(ctx, None),
        PNode::Fail(e) => CN::fail(ctx, simplicity::FailEntropy::from_byte_array(*e)),
        PNode::Word(n, bits) => CN::const_word(ctx, gen::word_of_bits(*n, bits)),
        PNode::Jet(j) => CN::jet(ctx, j),
    })
}

/// the id of a fresh name drawn right now (`iden_src_<id>`)
fn probe() -> u64 {
    types::Context::with_context(|c| {
        let a = Arrow::iden(&c);
        match &*a.source.to_incomplete() {
            Incomplete::Free(s) => s.rsplit('_').next().and_then(|d| d.parse().ok()).expect("name ends with its id"),
            _ => panic!("a fresh variable is free"),
        }
    })
}

struct Gate {
    sched: Option<Vec<usize>>,
    pos: Mutex<usize>,
    cv: Condvar,
    start: Barrier,
    abort: AtomicBool,
}

impl Gate {
    fn enter(&self, tid: usize) -> bool {
        if let Some(s) = &self.sched {
            let mut p = self.pos.lock().unwrap();
            loop {
                if self.abort.load(Ordering::SeqCst) || *p >= s.len() {
                    return false;
                }
                if s[*p] == tid {
                    return true;
                }
                p = self.cv.wait_timeout(p, Duration::from_millis(500)).unwrap().0;
            }
        }
        true
    }
    fn leave(&self) {
        if self.sched.is_some() {
            *self.pos.lock().unwrap() += 1;
            self.cv.notify_all();
        }
    }
}

struct Slot {
    probe: Option<u64>,
    text: String,
    tags: Vec<&'static str>,
}

/// the operations of one thread, in its own nest of contexts: 0/1 micro, 3 build
fn thread_body(w: &World, tid: usize, ops: &[OpSpec], victims: Vec<Arc<RedeemNode>>, gate: Option<&Gate>, probe_each: bool) -> Vec<Slot> {
    types::Context::with_context(|c0| {
        types::Context::with_context(|c1| {
            types::Context::with_context(|c3| {
                let mut m0 = MicroCtx { ctx: c0, tys: vec![] };
                let mut m1 = MicroCtx { ctx: c1, tys: vec![] };
                let mut bc = BuildCtx { ctx: c3, built: vec![], order: vec![], pos: 0, finished: false };
                let mut l = Local { tid, seen: vec![], own: HashMap::new(), own_commit: HashMap::new(), victims, env: progs::dummy_env() };
                let mut res = Vec::with_capacity(ops.len());
                if let Some(g) = gate {
                    g.start.wait();
                }
                for op in ops {
                    if let Some(g) = gate {
                        if !g.enter(tid) {
                            break;
                        }
                    }
                    let pr = if probe_each { Some(probe()) } else { None };
                    let r = catch(|| match &op.kind {
                        OpKind::Micro(m) => {
                            let mut seen = std::mem::take(&mut l.seen);
                            let o = if op.ctx == 0 { run_micro(w, &mut m0, &mut seen, m) } else { run_micro(w, &mut m1, &mut seen, m) };
                            l.seen = seen;
                            o
                        }
                        OpKind::Whole(wh) => run_whole(w, &mut l, &mut bc, wh),
                    });
                    let (text, tags) = match r {
                        Ok(o) => (o.text, o.tags),
                        Err(p) => (format!("panic:{p}"), vec![]),
                    };
                    res.push(Slot { probe: pr, text, tags });
                    if let Some(g) = gate {
                        g.leave();
                    }
                }
                // whatever is left of the victim handles is dropped here, on this thread
                drop(l);
                res
            })
        })
    })
}

fn op_result_token(op: &OpSpec, text: &str) -> String {
    match &op.kind {
        OpKind::Micro(_) => text.to_string(),
        OpKind::Whole(_) => format!("w:{:016x}", fnv(text.as_bytes())),
    }
}

/// all nodes of a fresh copy of a program, as owned handles (the "victim" of the drop operations)
fn victim_handles(w: &World, k: usize, n: usize) -> (Vec<Vec<Arc<RedeemNode>>>, Option<Weak<RedeemNode>>) {
    let mut per: Vec<Vec<Arc<RedeemNode>>> = (0..n).map(|_| vec![]).collect();
    let p = &w.progs[k % w.progs.len()];
    if p.redeem.is_none() {
        return (per, None);
    }
    let Ok(root) = gen::redeem_with(&p.spec.plan, &p.wits, p.spec.flavour == 'p') else { return (per, None) };
    let weak = Arc::downgrade(&root);
    let nodes: Vec<Arc<RedeemNode>> = {
        let mut v = vec![];
        let mut stack = vec![Arc::clone(&root)];
        let mut seen = std::collections::HashSet::new();
        while let Some(x) = stack.pop() {
            if !seen.insert(Arc::as_ptr(&x) as usize) {
                continue;
            }
            use simplicity::node::Inner as I;
            match x.inner() {
                I::InjL(c) | I::InjR(c) | I::Take(c) | I::Drop(c) | I::AssertL(c, _) | I::AssertR(_, c) => stack.push(Arc::clone(c)),
                I::Comp(a, b) | I::Case(a, b) | I::Pair(a, b) | I::Disconnect(a, b) => {
                    stack.push(Arc::clone(a));
                    stack.push(Arc::clone(b));
                }
                _ => {}
            }
            v.push(x);
        }
        v
    };
    for (t, slot) in per.iter_mut().enumerate() {
        for (i, x) in nodes.iter().enumerate() {
            if (i + t) % 2 == 0 || i == 0 {
                slot.push(Arc::clone(x));
            }
        }
    }
    drop(nodes);
    drop(root);
    (per, Some(weak))
}

struct SeqRun {
    /// per thread, per op: (names drawn, text, tags)
    per: Vec<Vec<(u64, String, Vec<&'static str>)>>,
}

fn ops_of(spec: &CaseSpec, t: usize) -> Vec<OpSpec> {
    spec.ops.iter().filter(|o| o.tid == t).cloned().collect()
}

fn has_drop(spec: &CaseSpec) -> Option<usize> {
    spec.ops.iter().find_map(|o| match &o.kind {
        OpKind::Whole(w) if w.kind == "drop" => Some(w.prog),
        _ => None,
    })
}

fn sequential(w: &World, spec: &CaseSpec) -> SeqRun {
    let (mut victims, _) = match has_drop(spec) {
        Some(k) => victim_handles(w, k, spec.n),
        None => ((0..spec.n).map(|_| vec![]).collect(), None),
    };
    let mut per = vec![];
    for t in 0..spec.n {
        let ops = ops_of(spec, t);
        let slots = thread_body(w, t, &ops, std::mem::take(&mut victims[t]), None, true);
        let end = probe();
        let mut v = vec![];
        for (i, s) in slots.iter().enumerate() {
            let next = if i + 1 < slots.len() { slots[i + 1].probe.unwrap() } else { end };
            v.push((next - s.probe.unwrap() - 1, s.text.clone(), s.tags.clone()));
        }
        per.push(v);
    }
    SeqRun { per }
}

fn line_of(w: &World, spec: &CaseSpec, seq: &SeqRun) -> String {
    let mut s = format!("par {} ", spec.n);
    match &spec.sched {
        Some(v) => s.push_str(&v.iter().map(|t| t.to_string()).collect::<Vec<_>>().join(".")),
        None => s.push_str("free"),
    }
    let xs: Vec<String> = (0..n_shared(w)).map(|k| format!("{:016x}", fnv(shared_text(w, k).as_bytes()))).collect();
    s.push_str(&format!(" X:{}", if xs.is_empty() { "-".to_string() } else { xs.join(",") }));
    for (k, p) in spec.progs.iter().enumerate() {
        s.push(' ');
        s.push_str(&p.text(k));
    }
    for (t, k) in &spec.build {
        s.push_str(&format!(" B:{t}:{k}"));
    }
    let mut idx = vec![0usize; spec.n];
    for o in &spec.ops {
        let i = idx[o.tid];
        idx[o.tid] += 1;
        let body = match &o.kind {
            OpKind::Micro(m) => micro_text(m),
            OpKind::Whole(wh) => {
                let (names, text, _) = &seq.per[o.tid][i];
                format!("W,{},{:016x},{}", names, fnv(text.as_bytes()), wh.text())
            }
        };
        s.push_str(&format!(" o:{}:{}:{}", o.tid, o.ctx, body));
    }
    s
}

enum Threaded {
    Done(Vec<Vec<Slot>>, u64, u64, bool),
    Hang(Vec<usize>),
}

/// watchdog: generous and independent of the size of the case (a case is < 1 s of CPU time)
const WATCHDOG: Duration = Duration::from_secs(180);

fn threaded(w: Arc<World>, spec: &CaseSpec) -> Threaded {
    let n = spec.n;
    let gate = Arc::new(Gate { sched: spec.sched.clone(), pos: Mutex::new(0), cv: Condvar::new(), start: Barrier::new(n + 1), abort: AtomicBool::new(false) });
    let (victims, weak) = match has_drop(spec) {
        Some(k) => victim_handles(&w, k, n),
        None => ((0..n).map(|_| vec![]).collect(), None),
    };
    let (tx, rx) = mpsc::channel::<(usize, Vec<Slot>)>();
    let turnstile = spec.sched.is_some();
    let mut handles = vec![];
    for (t, vic) in victims.into_iter().enumerate() {
        let w = Arc::clone(&w);
        let gate = Arc::clone(&gate);
        let ops = ops_of(spec, t);
        let tx = tx.clone();
        let h = std::thread::Builder::new()
            .name(format!("c20-{t}"))
            .stack_size(64 << 20)
            .spawn(move || {
                let r = thread_body(&w, t, &ops, vic, Some(&gate), turnstile);
                drop(w);
                let _ = tx.send((t, r));
            })
            .expect("spawn");
        handles.push(h);
    }
    drop(tx);
    drop(w);
    let base = probe();
    gate.start.wait();
    let mut got: Vec<Option<Vec<Slot>>> = (0..n).map(|_| None).collect();
    let deadline = std::time::Instant::now() + WATCHDOG;
    let mut missing = n;
    while missing > 0 {
        let left = deadline.saturating_duration_since(std::time::Instant::now());
        match rx.recv_timeout(left) {
            Ok((t, r)) => {
                got[t] = Some(r);
                missing -= 1;
            }
            Err(mpsc::RecvTimeoutError::Timeout) => {
                gate.abort.store(true, Ordering::SeqCst);
                gate.cv.notify_all();
                return Threaded::Hang((0..n).filter(|t| got[*t].is_none()).collect());
            }
            Err(mpsc::RecvTimeoutError::Disconnected) => break,
        }
    }
    for h in handles {
        // a thread that died outside an operation sent nothing: its missing results are reported by
        // the caller as `panic-thread`
        let _ = h.join();
    }
    let end = probe();
    let leaked = weak.map(|w| w.upgrade().is_some()).unwrap_or(false);
    let all: Vec<Vec<Slot>> = got.into_iter().map(|g| g.unwrap_or_default()).collect();
    Threaded::Done(all, base, end, leaked)
}

fn kind_name(k: &OpKind) -> String {
    match k {
        OpKind::Micro(m) => format!("micro-{}", &micro_text(m)[..1]),
        OpKind::Whole(w) => w.kind.to_string(),
    }
}

/// evaluate one case; `expect` = (names, digest) of the whole operations as recorded in a replayed line
fn run_case(ctx: &mut Ctx, spec: &CaseSpec, flavour: &str, expect: Option<&[(u64, String)]>) -> bool {
    let world = Arc::new(build_world(spec));
    let seq = match catch(|| sequential(&world, spec)) {
        Ok(s) => s,
        Err(p) => {
            ctx.fail("panic-sequential", &format!("par {} (sequential run)", spec.n), &p);
            return true;
        }
    };
    let line = line_of(&world, spec, &seq);
    if let Some(exp) = expect {
        let mut k = 0;
        let mut idx = vec![0usize; spec.n];
        for o in &spec.ops {
            let i = idx[o.tid];
            idx[o.tid] += 1;
            if let OpKind::Whole(_) = &o.kind {
                let (names, text, _) = &seq.per[o.tid][i];
                let d = format!("{:016x}", fnv(text.as_bytes()));
                if let Some((en, ed)) = exp.get(k) {
                    if *en != *names || *ed != d {
                        ctx.fail("sequential-result-changed", &line, &format!("operation {k} of the recorded line had names={en} digest={ed}, the sequential run now gives names={names} digest={d}: {}", &text[..text.len().min(300)]));
                    }
                }
                k += 1;
            }
        }
    }
    let nontrivial = (0..spec.n).filter(|t| spec.ops.iter().any(|o| o.tid == *t)).count() >= 2;
    ctx.case(if nontrivial { Some(&line) } else { None });
    let thr = threaded(Arc::clone(&world), spec);
    let (slots, base, end, leaked) = match thr {
        Threaded::Hang(ts) => {
            ctx.fail("deadlock-or-hang", &line, &format!("threads {:?} did not finish within {} s", ts, WATCHDOG.as_secs()));
            ctx.op(&line, "hang");
            return false;
        }
        Threaded::Done(s, b, e, l) => (s, b, e, l),
    };
    if leaked {
        ctx.fail("leak-after-drop", &line, "after all threads dropped their handles the root of the victim DAG is still alive");
    }
    // compare with the sequential run
    let mut outp: Vec<String> = vec![];
    let mut all_same = true;
    let mode = if spec.sched.is_some() { "turnstile" } else { "free" };
    // probes in schedule order, for the name counts
    let mut probe_seq: Vec<(usize, usize, u64)> = vec![];
    for t in 0..spec.n {
        outp.push(format!("T{t}"));
        let ops = ops_of(spec, t);
        for (i, op) in ops.iter().enumerate() {
            let (_, stext, stags) = &seq.per[t][i];
            let kind = kind_name(&op.kind);
            match slots[t].get(i) {
                None => {
                    all_same = false;
                    ctx.fail("panic-thread", &line, &format!("thread {t} stopped before operation {i} ({kind})"));
                }
                Some(sl) => {
                    let tok = op_result_token(op, &sl.text);
                    match sl.probe {
                        Some(p) => {
                            outp.push(format!("@{}:{}", p.wrapping_sub(base).wrapping_sub(1), tok));
                            probe_seq.push((t, i, p));
                        }
                        None => outp.push(tok),
                    }
                    if sl.text != *stext {
                        all_same = false;
                        let class = if sl.text.starts_with("panic:") && !stext.starts_with("panic:") {
                            "panic-thread"
                        } else if sl.text.starts_with("m:WRONG") {
                            "memo-table-wrong"
                        } else {
                            "result-differs-under-threads"
                        };
                        ctx.fail(class, &line, &format!("thread {t} operation {i} ({kind}, {mode}, {} threads): sequential `{}` threaded `{}`", spec.n, &stext[..stext.len().min(400)], &sl.text[..sl.text.len().min(400)]));
                    } else if stext.starts_with("panic:") {
                        ctx.fail("panic-sequential", &line, &format!("thread {t} operation {i} ({kind}) panics also sequentially: {}", &stext[..stext.len().min(300)]));
                    } else if stext.starts_with("m:WRONG") {
                        ctx.fail("memo-table-wrong", &line, &format!("thread {t} operation {i}: {stext}"));
                    }
                    ctx.count(&format!("reach:{kind}:{flavour}:{}", spec.n));
                    for tag in stags {
                        ctx.count(&format!("reach:{tag}"));
                    }
                }
            }
        }
    }
    if spec.sched.is_some() {
        // names drawn by every slot = distance to the next probe − 1
        probe_seq.sort_by_key(|x| x.2);
        for (j, (t, i, p)) in probe_seq.iter().enumerate() {
            let next = if j + 1 < probe_seq.len() { probe_seq[j + 1].2 } else { end };
            let names = next - p - 1;
            if names != seq.per[*t][*i].0 {
                all_same = false;
                ctx.fail("name-count-differs", &line, &format!("thread {t} operation {i} drew {names} names under the turnstile, {} sequentially", seq.per[*t][*i].0));
            }
        }
        ctx.count("oracle:name-counts-compared");
    }
    if spec.sched.is_none() {
        // free-running: all threads together drew exactly the names of the sequential runs (a lost
        // update of the counter, or an operation that draws more or fewer names under contention)
        let total = end.wrapping_sub(base).wrapping_sub(1);
        let expect: u64 = seq.per.iter().flatten().map(|x| x.0).sum();
        if total != expect {
            all_same = false;
            ctx.fail("name-count-differs", &line, &format!("free-running on {} threads the name counter advanced by {total}, the sequential runs drew {expect} names", spec.n));
        }
        ctx.count("oracle:name-total-compared");
    }
    outp.push(if all_same { "solo=ok".into() } else { "solo=DIFF".into() });
    ctx.op(&line, &outp.join(" "));
    ctx.count(&format!("cases:{mode}:{}", spec.n));
    ctx.count(&format!("cases:{flavour}:{}", spec.n));
    if ctx.want_sample() && nontrivial && line.len() < 1500 {
        ctx.sample(&format!("{} -> {}", line, outp.join(" ")));
    }
    true
}

// ------------------------------------------------------------------------------------------------
// generation

fn jet_pools() -> Vec<Vec<Elements>> {
    let all = Elements::ALL;
    let by = |f: &str| -> Vec<Elements> { all.iter().copied().filter(|j| jet_family(j) == f && j.source_ty().to_final().bit_width() <= 1100).collect() };
    vec![by("jet-sha256"), by("jet-secp"), by("jet-introspection"), vec![]]
}

fn gen_prog_spec(r: &mut Rng, pools: &[Vec<Elements>], max_nodes: usize) -> ProgSpec {
    for attempt in 0..200u64 {
        let program = r.below(3) != 0;
        let jets = r.below(3) != 0;
        let pool = pools[r.below(pools.len() as u64) as usize].clone();
        let cfg = GenCfg { fail: r.below(4) == 0, jets, jet_pool: pool, pin_witness: r.bool(), ..GenCfg::default() };
        let depth = 2 + (attempt % 4) as usize;
        let plan = if program {
            gen::gen_program(r, cfg, depth)
        } else {
            let a = gen::gen_t(r, 2);
            let b = gen::gen_t(r, 2);
            gen::gen_plan_pinned(r, cfg, &a, &b, depth.min(3))
        };
        if plan.nodes.len() > max_nodes || plan.nodes.len() < 3 {
            continue;
        }
        let Ok(Ok((red, wits))) = catch(|| gen::redeem_of_plan(&plan, r, program)) else { continue };
        let mut ws: Vec<(usize, Vec<bool>)> = wits.iter().map(|(i, v)| (*i, v.iter_compact().collect())).collect();
        ws.sort();
        let input = if program { None } else { Some(gen::random_value(r, &red.arrow().source).iter_compact().collect()) };
        return ProgSpec { plan, flavour: if program { 'p' } else { 'n' }, wits: ws, input };
    }
    ProgSpec { plan: Plan { nodes: vec![PNode::Unit] }, flavour: 'p', wits: vec![], input: None }
}

/// an ill-typed variant: `comp (pair r r) (case r r)` on top of the root
fn ill_typed(p: &ProgSpec) -> ProgSpec {
    let mut plan = p.plan.clone();
    let r = plan.root();
    plan.nodes.push(PNode::Pair(r, r));
    plan.nodes.push(PNode::InjL(r));
    plan.nodes.push(PNode::Case(r + 2, r));
    plan.nodes.push(PNode::Comp(r + 1, r + 3));
    ProgSpec { plan, flavour: 'x', wits: vec![], input: None }
}

fn gen_schedule(r: &mut Rng, counts: &[usize]) -> Vec<usize> {
    let n = counts.len();
    let total: usize = counts.iter().sum();
    let mut left = counts.to_vec();
    let mut s = Vec::with_capacity(total);
    match r.below(4) {
        0 => {
            // blocks: one thread after the other, in a random thread order
            let mut order: Vec<usize> = (0..n).collect();
            for i in (1..n).rev() {
                order.swap(i, r.below(i as u64 + 1) as usize);
            }
            for t in order {
                s.extend(std::iter::repeat(t).take(counts[t]));
            }
        }
        1 => {
            // round robin
            while s.len() < total {
                for t in 0..n {
                    if left[t] > 0 {
                        left[t] -= 1;
                        s.push(t);
                    }
                }
            }
        }
        2 => {
            // bursts
            while s.len() < total {
                let t = r.below(n as u64) as usize;
                let k = (1 + r.below(4) as usize).min(left[t]);
                left[t] -= k;
                s.extend(std::iter::repeat(t).take(k));
            }
        }
        _ => {
            // uniformly random interleaving
            while s.len() < total {
                let mut k = r.below((total - s.len()) as u64) as usize;
                for t in 0..n {
                    if k < left[t] {
                        left[t] -= 1;
                        s.push(t);
                        break;
                    }
                    k -= left[t];
                }
            }
        }
    }
    s
}

fn gen_case(r: &mut Rng, pools: &[Vec<Elements>], n: usize, shared: bool, turnstile: bool, len_lo: usize, len_hi: usize) -> CaseSpec {
    let max_nodes = if n >= 16 && !shared { 30 } else { 60 };
    let mut progs: Vec<ProgSpec> = if shared { (0..1 + r.below(2) as usize).map(|_| gen_prog_spec(r, pools, max_nodes)).collect() } else { (0..n).map(|_| gen_prog_spec(r, pools, max_nodes)).collect() };
    let n_good = progs.len();
    // an ill-typed variant for the type-error operations
    let bad = progs.len();
    let victim = r.below(n_good as u64) as usize;
    progs.push(ill_typed(&progs[victim].clone()));
    let mut ops = vec![];
    let mut build = vec![];
    for t in 0..n {
        let len = len_lo + r.below((len_hi - len_lo + 1) as u64) as usize;
        let mut handles = [0usize; 2];
        let my_prog = if shared { r.below(n_good as u64) as usize } else { t % n_good };
        let build_prog = if r.below(3) == 0 { bad } else { my_prog };
        let mut has_build = false;
        for _ in 0..len {
            let micro = r.below(100) < 40;
            if micro {
                let c = r.below(2) as usize;
                let h = handles[c];
                let m = if h == 0 {
                    Micro::F
                } else {
                    match r.below(16) {
                        0 | 1 => Micro::F,
                        2 | 3 => Micro::P(r.below(h as u64) as usize, r.below(h as u64) as usize),
                        4 | 5 => Micro::S(r.below(h as u64) as usize, r.below(h as u64) as usize),
                        6 | 7 | 8 => Micro::C(r.below(h as u64) as usize, gen::gen_t(r, 2)),
                        9 | 10 => Micro::D(r.below(h as u64) as usize),
                        11 => Micro::Z(r.below(h as u64) as usize),
                        12 | 13 => Micro::M(r.below(32) as usize),
                        _ => Micro::R(r.below(64) as usize),
                    }
                };
                if matches!(m, Micro::F | Micro::P(..) | Micro::S(..)) {
                    handles[c] += 1;
                }
                ops.push(OpSpec { tid: t, ctx: c, kind: OpKind::Micro(m) });
            } else {
                let kind = WKINDS[r.below(WKINDS.len() as u64) as usize];
                let (prog, ctxid) = match kind {
                    "inf" => (if r.below(3) == 0 { bad } else { my_prog }, 2),
                    "build" => {
                        has_build = true;
                        (build_prog, 3)
                    }
                    "pol" => (r.below(N_POL as u64) as usize, 2),
                    _ => (my_prog, 2),
                };
                let arg = match kind {
                    "pol" => r.below(32) as usize,
                    _ => r.below(64) as usize,
                };
                ops.push(OpSpec { tid: t, ctx: ctxid, kind: OpKind::Whole(Whole { kind, prog, shared: shared && kind != "pol", arg }) });
            }
        }
        if has_build {
            build.push((t, build_prog));
        }
    }
    let counts: Vec<usize> = (0..n).map(|t| ops.iter().filter(|o| o.tid == t).count()).collect();
    let sched = if turnstile { Some(gen_schedule(r, &counts)) } else { None };
    // interleave the op tokens of the line in schedule order (only the per-thread order matters)
    CaseSpec { n, sched, progs, build, ops }
}

/// contention on one spot: every thread repeats the same few operations on ONE shared program whose
/// jets all come from one family (the C code of that family is entered by all threads at once)
fn gen_hammer(r: &mut Rng, pool: &[Elements], n: usize, reps: usize, same_witnesses: bool) -> CaseSpec {
    let pools = vec![pool.to_vec()];
    let mut prog = gen_prog_spec(r, &pools, 40);
    for _ in 0..50 {
        if prog.plan.nodes.iter().any(|x| matches!(x, PNode::Jet(_))) && prog.flavour == 'p' {
            break;
        }
        prog = gen_prog_spec(r, &pools, 40);
    }
    // one program for all threads, or the same plan with other witness values (= other jet inputs)
    // for every thread: only then does a buffer shared inside a jet receive different data
    let mut progs = vec![prog.clone()];
    if !same_witnesses {
        for _ in 1..n {
            let mut q = prog.clone();
            if let Ok(Ok((_, wits))) = catch(|| gen::redeem_of_plan(&q.plan, r, q.flavour == 'p')) {
                let mut ws: Vec<(usize, Vec<bool>)> = wits.iter().map(|(i, v)| (*i, v.iter_compact().collect())).collect();
                ws.sort();
                q.wits = ws;
            }
            progs.push(q);
        }
    }
    let kinds = ["exec", "exec", "exec", "prune", "dec", "roots", "reinf"];
    let mut ops = vec![];
    for t in 0..n {
        for i in 0..reps {
            let kind = kinds[(i + t) % kinds.len()];
            ops.push(OpSpec { tid: t, ctx: 2, kind: OpKind::Whole(Whole { kind, prog: if same_witnesses { 0 } else { t }, shared: true, arg: i }) });
        }
    }
    CaseSpec { n, sched: None, progs, build: vec![], ops }
}

/// one jet under contention: `comp wit (comp jet unit)`, every thread with its own witness value
/// (= its own jet input), executed in loops by all threads at once
fn gen_jet_hammer(r: &mut Rng, j: Elements, n: usize) -> Option<CaseSpec> {
    let plan = Plan { nodes: vec![PNode::Witness, PNode::Jet(j), PNode::Unit, PNode::Comp(1, 2), PNode::Comp(0, 3)] };
    let mut progs = vec![];
    for _ in 0..n {
        let (_, wits) = catch(|| gen::redeem_of_plan(&plan, r, true)).ok()?.ok()?;
        let mut ws: Vec<(usize, Vec<bool>)> = wits.iter().map(|(i, v)| (*i, v.iter_compact().collect())).collect();
        ws.sort();
        progs.push(ProgSpec { plan: plan.clone(), flavour: 'p', wits: ws, input: None });
    }
    let mut ops = vec![];
    for t in 0..n {
        for i in 0..4 {
            ops.push(OpSpec { tid: t, ctx: 2, kind: OpKind::Whole(Whole { kind: if i == 3 { "prune" } else { "loop" }, prog: t, shared: true, arg: 10 + i }) });
        }
    }
    Some(CaseSpec { n, sched: None, progs, build: vec![], ops })
}

/// Cold start, in a child process (`vh C20 --case "cold <threads> <seed>"`): the very first use of
/// the precomputed type tables, of large word types and of the jets' type tables happens on all
/// threads at once, before anything ran sequentially in the process.  Every thread checks what it
/// gets against data that does not depend on those tables (the static TMR table, bit widths, the
/// CMR/encoding of a word program computed from its bits); a mismatch ends the child with exit code 3
/// and a `cold-bad …` line.
fn cold_child(threads: usize, seed: u64) {
    use std::sync::atomic::{AtomicUsize, Ordering};
    let gate = Arc::new(AtomicUsize::new(0));
    let rounds: Vec<usize> = {
        let mut r = Rng(seed);
        let mut v: Vec<usize> = (9..=31).collect();
        // a different order of first requests per seed: ascending, descending or shuffled
        match seed % 3 {
            0 => {}
            1 => v.reverse(),
            _ => {
                for k in (1..v.len()).rev() {
                    v.swap(k, r.below(k as u64 + 1) as usize);
                }
            }
        }
        v
    };
    let hs: Vec<_> = (0..threads)
        .map(|t| {
            let gate = gate.clone();
            let rounds = rounds.clone();
            std::thread::spawn(move || -> Result<(), String> {
              let gate2 = gate.clone();
              let body = move || -> Result<(), String> {
                // first jets of the process, on all threads at once (odd seeds: before any type
                // table is touched; even seeds: after the rounds below)
                let first_jets = |t: usize| -> Result<(), String> {
                    let env = progs::dummy_env();
                    for (j, want_ok) in [(Elements::One32, true), (Elements::Add32, true), (Elements::Verify, false)] {
                        // comp (comp witness jet) unit, the witness all zero
                        let plan = Plan { nodes: vec![PNode::Witness, PNode::Jet(j), PNode::Comp(0, 1), PNode::Unit, PNode::Comp(2, 3)] };
                        let (_, arrows) = gen::arrows_of_plan(&plan, None, true).map_err(|e| format!("thread {t}: {j}: {e}"))?;
                        let ty = arrows[0].as_ref().ok_or("no arrow")?.1.clone();
                        let mut wits = HashMap::new();
                        wits.insert(0usize, Value::zero(&ty));
                        let red = gen::redeem_with(&plan, &wits, true).map_err(|e| format!("thread {t}: {j}: {e}"))?;
                        let run = progs::run(&red, None, &env).map_err(|e| format!("thread {t}: {j}: {e}"))?;
                        let ok = matches!(run.outcome, Outcome::Ok(_));
                        if ok != want_ok {
                            return Err(format!("thread {t}: the first execution of jet {j} on zero input {} (sequentially it {})", if ok { "succeeds" } else { "fails" }, if want_ok { "succeeds" } else { "fails" }));
                        }
                    }
                    Ok(())
                };
                if seed % 2 == 1 {
                    gate.fetch_add(1, Ordering::SeqCst);
                    while gate.load(Ordering::SeqCst) < threads {
                        std::hint::spin_loop();
                    }
                    first_jets(t)?;
                }
                let base = if seed % 2 == 1 { 1 } else { 0 };
                for (ri, &n) in rounds.iter().enumerate() {
                    let ri = ri + base;
                    // spin barrier: all threads enter round `ri` together
                    gate.fetch_add(1, Ordering::SeqCst);
                    while gate.load(Ordering::SeqCst) < (ri + 1) * threads {
                        std::hint::spin_loop();
                    }
                    let f = Final::two_two_n(n).map_err(|_| format!("two_two_n({n}) fails"))?;
                    if f.tmr() != Tmr::TWO_TWO_N[n] {
                        return Err(format!("thread {t}: Final::two_two_n({n}).tmr() = {} ≠ Tmr::TWO_TWO_N[{n}]", f.tmr()));
                    }
                    if f.bit_width() != 1usize << n {
                        return Err(format!("thread {t}: Final::two_two_n({n}).bit_width() = {} ≠ 2^{n}", f.bit_width()));
                    }
                    if n <= 13 {
                        // a word program of 2^n bits: built, finalised, encoded, decoded
                        let bits: Vec<bool> = (0..(1usize << n)).map(|i| (i * 7 + t) % 3 == 0).collect();
                        let plan = Plan { nodes: vec![PNode::Word(n as u32, bits), PNode::Unit, PNode::Comp(0, 1)] };
                        let c = gen::commit_of_plan(&plan, None, true).map_err(|e| format!("thread {t}: word program of 2^{n} bits: {e}"))?;
                        let w = match c.inner() {
                            simplicity::node::Inner::Comp(l, _) => l.arrow().target.bit_width(),
                            _ => 0,
                        };
                        if w != 1usize << n {
                            return Err(format!("thread {t}: target of a 2^{n}-bit word has {w} bits"));
                        }
                        let enc = c.to_vec_without_witness();
                        match CommitNode::decode::<_, Elements>(simplicity::BitIter::from(enc.into_iter())) {
                            Ok(d) if d.cmr() == c.cmr() => {}
                            Ok(_) => return Err(format!("thread {t}: word program of 2^{n} bits decodes to another CMR")),
                            Err(e) => return Err(format!("thread {t}: word program of 2^{n} bits does not decode: {e}")),
                        }
                    }
                }
                if seed % 2 == 0 {
                    gate.fetch_add(1, Ordering::SeqCst);
                    while gate.load(Ordering::SeqCst) < (rounds.len() + 1) * threads {
                        std::hint::spin_loop();
                    }
                    first_jets(t)?;
                }
                Ok(())
              };
              let r = body();
              if r.is_err() {
                  // a thread that stops early must not leave the others spinning at the barrier
                  gate2.fetch_add(usize::MAX / 4, Ordering::SeqCst);
              }
              r
            })
        })
        .collect();
    let mut bad = None;
    for h in hs {
        match h.join() {
            Ok(Ok(())) => {}
            Ok(Err(e)) => bad = Some(e),
            Err(_) => bad = Some("a thread panicked".to_string()),
        }
    }
    // and afterwards, sequentially: whatever the concurrent start left behind
    for n in 0..32 {
        let f = Final::two_two_n(n).unwrap();
        if f.tmr() != Tmr::TWO_TWO_N[n] || f.bit_width() != 1usize << n {
            bad = Some(format!("after the concurrent start: Final::two_two_n({n}) has {} bits, tmr {}", f.bit_width(), f.tmr()));
            break;
        }
    }
    if let Some(e) = bad {
        eprintln!("cold-bad {e}");
        std::process::exit(3);
    }
    eprintln!("cold-ok");
}

/// Deep unification on all threads at once: every thread, in its own context, infers
/// `pair (take^k iden) (take^k iden)` (types nested k deep) at the same moment, several rounds; the
/// result must be the sequential one.  Steady-state cross-talk between contexts (anything counted
/// or cached per process rather than per context) shows here.
fn deep_inference_hammer(ctx: &mut Ctx) {
    fn infer_deep(k: usize) -> String {
        let mut nodes = vec![PNode::Iden];
        for i in 0..k {
            nodes.push(PNode::Take(i));
        }
        let a = nodes.len() - 1;
        nodes.push(PNode::Iden);
        let base = nodes.len() - 1;
        for i in 0..k {
            nodes.push(PNode::Take(base + i));
        }
        let b = nodes.len() - 1;
        nodes.push(PNode::Pair(a, b));
        match gen::commit_of_plan(&Plan { nodes }, None, false) {
            Ok(c) => format!("ok {} {} {}", c.cmr(), c.arrow().source.tmr(), c.arrow().target.tmr()),
            Err(e) => format!("err {}", e.to_string().chars().take(80).collect::<String>()),
        }
    }
    let ks = [120usize, 350, 600];
    let seq: Vec<String> = ks.iter().map(|k| infer_deep(*k)).collect();
    let threads = 16usize;
    let rounds = ctx.scale(6, 40) as usize;
    let barrier = Arc::new(Barrier::new(threads));
    let hs: Vec<_> = (0..threads)
        .map(|t| {
            let barrier = barrier.clone();
            let seq = seq.clone();
            std::thread::Builder::new()
                .stack_size(32 << 20)
                .spawn(move || -> Option<String> {
                    let mut bad = None;
                    for r in 0..rounds {
                        for (i, k) in ks.iter().enumerate() {
                            barrier.wait();
                            let got = infer_deep(*k);
                            if got != seq[i] && bad.is_none() {
                                bad = Some(format!("thread {t} round {r}: inference of pair (take^{k} iden) (take^{k} iden) gives `{}` under 16 threads, sequentially `{}`", &got[..got.len().min(160)], &seq[i][..seq[i].len().min(160)]));
                            }
                        }
                    }
                    bad
                })
                .expect("spawn")
        })
        .collect();
    let case = format!("deepinfer {threads} {rounds}");
    ctx.case(Some(&case));
    let mut first = None;
    for h in hs {
        match h.join() {
            Ok(Some(m)) => first = first.or(Some(m)),
            Ok(None) => {}
            Err(_) => first = first.or(Some("a thread panicked".into())),
        }
    }
    match first {
        Some(m) => ctx.fail("result-differs-under-threads", &case, &m),
        None => ctx.count("reach:deep-inference-hammer"),
    }
}

fn cold_starts(ctx: &mut Ctx) {
    let Ok(exe) = std::env::current_exe() else { return ctx.note("cold start: no current_exe") };
    for k in 0..ctx.scale(12, 120) {
        let threads = [16usize, 8, 32][(k % 3) as usize];
        let case = format!("cold {threads} {}", ctx.rng.below(1 << 30));
        let dir = ctx.out_dir.join("child");
        let spawned = std::process::Command::new(&exe).args(["C20", "--case", &case, "--out"]).arg(&dir).stdout(std::process::Stdio::null()).stderr(std::process::Stdio::piped()).spawn();
        let finished = spawned.and_then(|mut ch| {
            let t0 = std::time::Instant::now();
            loop {
                if ch.try_wait()?.is_some() {
                    return ch.wait_with_output();
                }
                if t0.elapsed() > Duration::from_secs(60) {
                    let _ = ch.kill();
                    let mut o = ch.wait_with_output()?;
                    o.stderr.extend_from_slice(b"\ncold-bad the child did not finish within 60 s (deadlock or hang)");
                    return Ok(o);
                }
                std::thread::sleep(Duration::from_millis(5));
            }
        });
        match finished {
            Ok(o) => {
                let stderr = String::from_utf8_lossy(&o.stderr).to_string();
                let last = stderr.lines().last().unwrap_or("").to_string();
                ctx.case(Some(&case));
                if o.status.success() && last == "cold-ok" {
                    ctx.count("reach:cold-start-child-ok");
                } else {
                    ctx.fail("result-differs-under-threads", &case, &format!("first use of the type tables and of the jets on {threads} threads at once, in a fresh process: {last}"));
                }
            }
            Err(e) => ctx.note(&format!("cold start: could not spawn a child process: {e}")),
        }
    }
}

pub fn run(ctx: &mut Ctx) {
    // before anything touches the tables in this process: fresh processes whose first use is concurrent
    cold_starts(ctx);
    deep_inference_hammer(ctx);
    let pools = jet_pools();
    // the memo table, once on the main thread, against the static table
    for n in 0..32 {
        let f = Final::two_two_n(n).unwrap();
        if f.tmr() != Tmr::TWO_TWO_N[n] {
            ctx.fail("memo-table-wrong", &format!("par 1 0 X:- o:0:0:M,{n}"), &format!("Final::two_two_n({n}).tmr() = {} ≠ Tmr::TWO_TWO_N[{n}]", f.tmr()));
        }
    }
    let rounds = ctx.scale(60, 900);
    let mut alive = true;
    'outer: for round in 0..rounds {
        for &n in &[2usize, 4, 16] {
            for &shared in &[false, true] {
                for &turnstile in &[true, false] {
                    if !alive {
                        break 'outer;
                    }
                    let (lo, hi) = if turnstile { if n == 2 { (6, 14) } else { (3, 8) } } else if ctx.quick() { (8, 16) } else { (12, 40) };
                    let mut r = ctx.rng.fork();
                    let spec = gen_case(&mut r, &pools, n, shared, turnstile, lo, hi);
                    alive = run_case(ctx, &spec, if shared { "shared" } else { "indep" }, None);
                    let _ = round;
                }
            }
        }
    }
    let hammer = ctx.scale(80, 600);
    for h in 0..hammer {
        if !alive {
            break;
        }
        let n = if h % 2 == 0 { 16 } else { 4 };
        let mut r = ctx.rng.fork();
        let same = h % 4 < 2;
        let spec = gen_hammer(&mut r, &pools[(h % 3) as usize], n, if ctx.quick() { 30 } else { 60 }, same);
        alive = run_case(ctx, &spec, if same { "hammer-shared" } else { "hammer-indep" }, None);
    }
    // every jet (quick: a third of them, rotating with the seed) under contention
    let all = Elements::ALL;
    let passes = ctx.scale(1, 3);
    for pass in 0..passes {
        for (k, j) in all.iter().enumerate() {
            if !alive {
                break;
            }
            if ctx.quick() && (k as u64 + ctx.seed) % 3 != 0 {
                continue;
            }
            if j.source_ty().to_final().bit_width() > 4096 {
                continue;
            }
            let mut r = ctx.rng.fork();
            let n = if (k + pass as usize) % 2 == 0 { 16 } else { 4 };
            if let Some(spec) = gen_jet_hammer(&mut r, *j, n) {
                alive = run_case(ctx, &spec, "jet-hammer", None);
                ctx.count(&format!("jets-hammered:{}", jet_family(j)));
            }
        }
    }
    if !alive {
        ctx.note("a case hung: generation stopped (threads of the hung case may still hold locks)");
    }
}

fn parse_case(case: &str) -> Option<(CaseSpec, Vec<(u64, String)>)> {
    let toks: Vec<&str> = case.split_whitespace().collect();
    if toks.len() < 3 || toks[0] != "par" {
        return None;
    }
    let n: usize = toks[1].parse().ok()?;
    let sched = if toks[2] == "free" { None } else { Some(toks[2].split('.').map(|t| t.parse().ok()).collect::<Option<Vec<usize>>>()?) };
    let mut progs: Vec<(usize, ProgSpec)> = vec![];
    let mut build = vec![];
    let mut ops = vec![];
    let mut expect = vec![];
    for t in &toks[3..] {
        if t.starts_with("X:") {
            continue;
        } else if t.starts_with("G:") {
            progs.push(ProgSpec::parse(t)?);
        } else if t.starts_with("B:") {
            let f: Vec<&str> = t.split(':').collect();
            build.push((f.get(1)?.parse().ok()?, f.get(2)?.parse().ok()?));
        } else if t.starts_with("o:") {
            let f: Vec<&str> = t.splitn(4, ':').collect();
            let tid: usize = f.get(1)?.parse().ok()?;
            let c: usize = f.get(2)?.parse().ok()?;
            let body = *f.get(3)?;
            let kind = if let Some(rest) = body.strip_prefix("W,") {
                let g: Vec<&str> = rest.splitn(3, ',').collect();
                expect.push((g.first()?.parse().ok()?, g.get(1)?.to_string()));
                OpKind::Whole(Whole::parse(g.get(2)?)?)
            } else {
                OpKind::Micro(parse_micro(body)?)
            };
            if tid >= n {
                return None;
            }
            ops.push(OpSpec { tid, ctx: c, kind });
        } else {
            return None;
        }
    }
    progs.sort_by_key(|p| p.0);
    Some((CaseSpec { n, sched, progs: progs.into_iter().map(|p| p.1).collect(), build, ops }, expect))
}

pub fn replay(ctx: &mut Ctx, case: &str) {
    let toks: Vec<&str> = case.split_whitespace().collect();
    if let ["deepinfer", ..] = toks.as_slice() {
        deep_inference_hammer(ctx);
        return;
    }
    if let ["cold", th, seed] = toks.as_slice() {
        if let (Ok(th), Ok(seed)) = (th.parse::<usize>(), seed.parse::<u64>()) {
            cold_child(th.clamp(1, 64), seed);
        }
        return;
    }
    match parse_case(case) {
        Some((spec, expect)) => {
            let flavour = if spec.ops.iter().any(|o| matches!(&o.kind, OpKind::Whole(w) if w.shared)) { "shared" } else { "indep" };
            // a failure that depends on timing may need several attempts when free-running
            let tries = if spec.sched.is_some() { 1 } else { 300 };
            for _ in 0..tries {
                if !run_case(ctx, &spec, flavour, Some(&expect)) || ctx.n_fail > 0 {
                    break;
                }
            }
        }
        None => ctx.note("replay: the case line does not parse"),
    }
}
