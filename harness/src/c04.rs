//! C04 — type inference is sound, principal and order-independent.
//!
//! op:  `infer P|N <plan> T:name:src:tgt…` → `ok <src_0>><tgt_0> … <src_{n-1}>><tgt_{n-1}>` | `err`
//!      (P: root forced to 1 → 1 as `finalize_types` does; N: `finalize_types_non_program`)
//!      The model answers with the least solution of the constraint set computed by the proven
//!      reference unifier (= principal solution, remaining variables unit) or `err` when the
//!      constraints have no finite solution.
//! op:  `inferub P|N <i_1,…,i_k> <plan> T:…` → same answer format; the model runs the transcribed
//!      union-bound algorithm (`Prog.inferUB`: slab of bounds, union–find with rank and path halving,
//!      `bind`/`unify`, deferred occurs check, `finalize`) constructing the nodes in the order
//!      `i_1 … i_k`; one line per construction order the implementation was run in.
//! oracle (implementation alone): the same plan built in k random topological orders, each in a
//! fresh context, is accepted/rejected identically and gets identical arrows at every node; every
//! node's arrow satisfies the typing rule of its combinator (independent checker below); every
//! error can be displayed in bounded time and space; no panic.

use crate::ctx::{catch, Ctx};
use crate::gen::{self, GenCfg, PNode, Plan};
use crate::progs;
use simplicity::jet::Jet;
use simplicity::types::{CompleteBound, Final};
use std::sync::Arc;
use std::time::Instant;

pub const RULE: &str = "type-directed plans (all node kinds, Elements jets as typed leaves, sharing), their damaged variants (one child reference or one combinator changed), occurs-check shapes (comp (pair iden iden) (pair iden iden), case iden (drop …) of issue 286) and deeply shared doubling chains; each built in 3 (quick) / 5 (thorough) random construction orders; non-trivial = at least 6 nodes; distinct by plan";

type Arrow = (Arc<Final>, Arc<Final>);

fn prod(f: &Final) -> Option<(&Arc<Final>, &Arc<Final>)> {
    match f.bound() {
        CompleteBound::Product(a, b) => Some((a, b)),
        _ => None,
    }
}
fn sum(f: &Final) -> Option<(&Arc<Final>, &Arc<Final>)> {
    match f.bound() {
        CompleteBound::Sum(a, b) => Some((a, b)),
        _ => None,
    }
}

/// the typing rule of one node, checked on finalized arrows
fn rule_ok(plan: &Plan, i: usize, ar: &[Option<Arrow>]) -> Result<(), String> {
    let me = ar[i].as_ref().ok_or("no arrow")?;
    let (s, t) = (&me.0, &me.1);
    let ch = |c: usize| ar[c].as_ref().ok_or_else(|| "child without arrow".to_string());
    let no = |m: &str| Err(m.to_string());
    match &plan.nodes[i] {
        PNode::Iden => {
            if s != t {
                return no("iden: source ≠ target");
            }
        }
        PNode::Unit => {
            if t.bit_width() != 0 || !matches!(t.bound(), CompleteBound::Unit) {
                return no("unit: target ≠ 1");
            }
        }
        PNode::InjL(c) => {
            let c = ch(*c)?;
            let (l, _) = sum(t).ok_or("injl: target not a sum")?;
            if &c.0 != s || &c.1 != l {
                return no("injl");
            }
        }
        PNode::InjR(c) => {
            let c = ch(*c)?;
            let (_, r) = sum(t).ok_or("injr: target not a sum")?;
            if &c.0 != s || &c.1 != r {
                return no("injr");
            }
        }
        PNode::Take(c) => {
            let c = ch(*c)?;
            let (l, _) = prod(s).ok_or("take: source not a product")?;
            if &c.0 != l || &c.1 != t {
                return no("take");
            }
        }
        PNode::Drop(c) => {
            let c = ch(*c)?;
            let (_, r) = prod(s).ok_or("drop: source not a product")?;
            if &c.0 != r || &c.1 != t {
                return no("drop");
            }
        }
        PNode::Comp(a, b) => {
            let (a, b) = (ch(*a)?, ch(*b)?);
            if &a.0 != s || a.1 != b.0 || &b.1 != t {
                return no("comp");
            }
        }
        PNode::Pair(a, b) => {
            let (a, b) = (ch(*a)?, ch(*b)?);
            let (l, r) = prod(t).ok_or("pair: target not a product")?;
            if &a.0 != s || &b.0 != s || &a.1 != l || &b.1 != r {
                return no("pair");
            }
        }
        PNode::Case(a, b) => {
            let (a, b) = (ch(*a)?, ch(*b)?);
            let (ab, c) = prod(s).ok_or("case: source not a product")?;
            let (x, y) = sum(ab).ok_or("case: source not (A+B)×C")?;
            let (ax, ac) = prod(&a.0).ok_or("case: left source not a product")?;
            let (by, bc) = prod(&b.0).ok_or("case: right source not a product")?;
            if ax != x || ac != c || by != y || bc != c || &a.1 != t || &b.1 != t {
                return no("case");
            }
        }
        PNode::AssertL(a, _) => {
            let a = ch(*a)?;
            let (ab, c) = prod(s).ok_or("assertl: source not a product")?;
            let (x, _) = sum(ab).ok_or("assertl: source not (A+B)×C")?;
            let (ax, ac) = prod(&a.0).ok_or("assertl: child source not a product")?;
            if ax != x || ac != c || &a.1 != t {
                return no("assertl");
            }
        }
        PNode::AssertR(_, b) => {
            let b = ch(*b)?;
            let (ab, c) = prod(s).ok_or("assertr: source not a product")?;
            let (_, y) = sum(ab).ok_or("assertr: source not (A+B)×C")?;
            let (by, bc) = prod(&b.0).ok_or("assertr: child source not a product")?;
            if by != y || bc != c || &b.1 != t {
                return no("assertr");
            }
        }
        PNode::Disconnect(a, b) => {
            let a = ch(*a)?;
            let (w, a2) = prod(&a.0).ok_or("disconnect: left source not a product")?;
            let (b1, c) = prod(&a.1).ok_or("disconnect: left target not a product")?;
            let (tb, td) = prod(t).ok_or("disconnect: target not a product")?;
            if **w != *Final::two_two_n(8).unwrap() || a2 != s || tb != b1 {
                return no("disconnect left");
            }
            if let Some(b) = b {
                let b = ch(*b)?;
                if &b.0 != c || &b.1 != td {
                    return no("disconnect right");
                }
            }
        }
        PNode::Witness | PNode::Fail(_) => {}
        PNode::Word(n, _) => {
            if s.bit_width() != 0 || **t != *Final::two_two_n(*n as usize).unwrap() {
                return no("word");
            }
        }
        PNode::Jet(j) => {
            if **s != *j.source_ty().to_final() || **t != *j.target_ty().to_final() {
                return no("jet");
            }
        }
    }
    Ok(())
}

fn arrows_text(ar: &[Option<Arrow>]) -> String {
    ar.iter()
        .map(|a| match a {
            Some((s, t)) => format!("{}>{}", gen::final_text(s), gen::final_text(t)),
            None => "?".into(),
        })
        .collect::<Vec<_>>()
        .join(" ")
}

fn damage(ctx: &mut Ctx, plan: &Plan) -> Plan {
    let mut p = plan.clone();
    let n = p.nodes.len();
    for _ in 0..10 {
        let i = ctx.rng.below(n as u64) as usize;
        let r = ctx.rng.below(i.max(1) as u64) as usize;
        let new = match (&p.nodes[i], ctx.rng.below(3)) {
            (PNode::Take(c), 0) => PNode::Drop(*c),
            (PNode::Drop(c), 0) => PNode::Take(*c),
            (PNode::InjL(c), 0) => PNode::InjR(*c),
            (PNode::InjR(c), 0) => PNode::InjL(*c),
            (PNode::Pair(a, b), 0) => PNode::Comp(*a, *b),
            (PNode::Comp(a, b), 0) => PNode::Pair(*a, *b),
            (PNode::Case(a, b), 0) => PNode::Pair(*a, *b),
            (PNode::Comp(a, b), 1) => PNode::Comp(*b, *a),
            (PNode::Case(a, b), 1) => PNode::Case(*b, *a),
            (PNode::Pair(a, b), 1) => PNode::Case(*a, *b),
            (PNode::Take(_), _) if i > 0 => PNode::Take(r),
            (PNode::Drop(_), _) if i > 0 => PNode::Drop(r),
            (PNode::InjL(_), _) if i > 0 => PNode::InjL(r),
            (PNode::Comp(a, _), _) if i > 0 => PNode::Comp(*a, r),
            (PNode::Pair(_, b), _) if i > 0 => PNode::Pair(r, *b),
            (PNode::Case(a, _), _) if i > 0 => PNode::Case(*a, r),
            (PNode::Iden, _) => PNode::Unit,
            _ => continue,
        };
        p.nodes[i] = new;
        return p.compacted();
    }
    p
}

fn occurs_shapes() -> Vec<Plan> {
    use PNode::*;
    vec![
        // comp (pair iden iden) (pair iden iden) twice: A = A × A
        Plan { nodes: vec![Iden, Pair(0, 0), Comp(1, 1), Unit, Comp(2, 3)] },
        // issue 286: case iden (drop iden)-like shapes
        Plan { nodes: vec![Iden, Drop(0), Case(0, 1)] },
        Plan { nodes: vec![Iden, Take(0), Case(1, 0)] },
        Plan { nodes: vec![Iden, Take(0), Pair(1, 0), Comp(2, 2)] },
        Plan { nodes: vec![Iden, InjL(0), Comp(1, 1), Comp(2, 2)] },
        // well-typed controls of the same size
        Plan { nodes: vec![Iden, Pair(0, 0), Take(0), Comp(1, 2)] },
        Plan { nodes: vec![Unit, InjL(0), Iden, Comp(1, 2)] },
    ]
}

/// `case (drop wit) (drop e)` with `e : A → T(A)` built from pair/injl/injr/iden: the witness
/// node's target is unified with a type in which one not-yet-finalized variable occurs several
/// times (along several paths) before anything is finalized
fn multi_occurrence(ctx: &mut Ctx, depth: usize) -> Plan {
    use PNode::*;
    fn tree(ctx: &mut Ctx, nodes: &mut Vec<PNode>, iden: usize, d: usize) -> usize {
        if d == 0 || ctx.rng.below(5) == 0 {
            return iden;
        }
        match ctx.rng.below(6) {
            0 => {
                let c = tree(ctx, nodes, iden, d - 1);
                nodes.push(InjL(c));
            }
            1 => {
                let c = tree(ctx, nodes, iden, d - 1);
                nodes.push(InjR(c));
            }
            _ => {
                let a = tree(ctx, nodes, iden, d - 1);
                let b = tree(ctx, nodes, iden, d - 1);
                nodes.push(Pair(a, b));
            }
        }
        nodes.len() - 1
    }
    let mut nodes = vec![Iden];
    let e = tree(ctx, &mut nodes, 0, depth);
    nodes.push(Drop(e));
    let de = nodes.len() - 1;
    nodes.push(Witness);
    let w = nodes.len() - 1;
    nodes.push(Drop(w));
    let dw = nodes.len() - 1;
    if ctx.rng.bool() {
        nodes.push(Case(dw, de));
    } else {
        nodes.push(Case(de, dw));
    }
    Plan { nodes }.compacted()
}

/// deeply shared: pair e e repeated `k` times under a unit (types double, DAG stays linear)
fn doubling(k: usize, ill: bool) -> Plan {
    use PNode::*;
    let mut nodes = vec![Unit, InjL(0)]; // 1 → 1 + ?
    let mut cur = 1;
    for _ in 0..k {
        nodes.push(Pair(cur, cur));
        cur = nodes.len() - 1;
    }
    if ill {
        // compose with something expecting a sum where a product arrives
        nodes.push(Unit);
        let u = nodes.len() - 1;
        nodes.push(Take(u));
        let t = nodes.len() - 1;
        nodes.push(Case(t, t));
        let c = nodes.len() - 1;
        nodes.push(Comp(cur, c));
    } else {
        nodes.push(Unit);
        let u = nodes.len() - 1;
        nodes.push(Comp(cur, u));
    }
    Plan { nodes }
}

pub fn one(ctx: &mut Ctx, plan: &Plan, program: bool, kind: &str, to_model: bool) {
    let orders = ctx.scale(3, 5) as usize;
    let mode = if program { "P" } else { "N" };
    let line = format!("infer {mode} {}{}", plan.text(), progs::jet_types(plan));
    let mut results: Vec<Result<String, String>> = vec![];
    let mut used_orders: Vec<Vec<usize>> = vec![];
    for k in 0..orders {
        let order = if k == 0 { None } else { Some(gen::random_topo_order(&mut ctx.rng, plan)) };
        used_orders.push(order.clone().unwrap_or_else(|| plan.reachable()));
        let res = catch(|| gen::arrows_of_plan(plan, order.as_deref(), program));
        // a constructor that failed must fail again when called again (gen::build retries once)
        if let Ok(mut v) = gen::RETRY_ACCEPTED.lock() {
            for m in v.drain(..) {
                ctx.fail("ill-typed-accepted-on-retry", &line, &m);
            }
        }
        match res {
            Err(p) => {
                ctx.fail("panic-inference", &line, &p);
                return;
            }
            Ok(Ok((_, ar))) => {
                // soundness: every node satisfies its rule
                for i in plan.reachable() {
                    if let Err(m) = rule_ok(plan, i, &ar) {
                        ctx.fail("typing-rule-violated", &line, &format!("node {i}: {m}"));
                        break;
                    }
                }
                if program {
                    let r = ar[plan.root()].as_ref().unwrap();
                    if r.0.bit_width() != 0 || r.1.bit_width() != 0 || !matches!(r.0.bound(), CompleteBound::Unit) || !matches!(r.1.bound(), CompleteBound::Unit) {
                        ctx.fail("program-root-not-unit", &line, "finalize_types returns a root that is not 1 → 1");
                    }
                }
                results.push(Ok(arrows_text(&ar)));
            }
            Ok(Err(e)) => {
                // the error must be displayable in bounded time and space
                let t0 = Instant::now();
                let shown = catch(|| e.to_string());
                let dt = t0.elapsed();
                match shown {
                    Err(p) => ctx.fail("panic-error-display", &line, &p),
                    Ok(s) => {
                        if dt.as_millis() > 2000 || s.len() > 200_000 {
                            ctx.fail("error-display-unbounded", &line, &format!("{} bytes in {} ms", s.len(), dt.as_millis()));
                        }
                        ctx.count_n("error-text-bytes", s.len() as u64);
                    }
                }
                results.push(Err(match e {
                    simplicity::types::Error::OccursCheck { .. } => "occurs".into(),
                    _ => "type".into(),
                }));
            }
        }
    }
    // order independence
    let first_ok = results[0].is_ok();
    for (k, r) in results.iter().enumerate() {
        if r.is_ok() != first_ok {
            ctx.fail("order-dependent-verdict", &line, &format!("order 0: {:?}, order {k}: {:?}", results[0].as_ref().map(|_| "ok"), r.as_ref().map(|_| "ok")));
            break;
        }
        if let (Ok(a), Ok(b)) = (&results[0], r) {
            if a != b {
                ctx.fail("order-dependent-types", &line, &format!("order {k} infers different arrows"));
                break;
            }
        }
    }
    let out = match &results[0] {
        Ok(a) => format!("ok {a}"),
        Err(_) => "err".to_string(),
    };
    if to_model {
        ctx.op(&line, &out);
        // the transcribed union-bound algorithm (`Prog.inferUB`), run in each construction order,
        // must give what the implementation gave in that order
        for (order, r) in used_orders.iter().zip(results.iter()) {
            let ord = order.iter().map(|i| i.to_string()).collect::<Vec<_>>().join(",");
            let ub_line = format!("inferub {mode} {ord} {}{}", plan.text(), progs::jet_types(plan));
            let ub_out = match r {
                Ok(a) => format!("ok {a}"),
                Err(_) => "err".to_string(),
            };
            ctx.op(&ub_line, &ub_out);
            ctx.count("ub-lines");
        }
    }
    let nontrivial = plan.nodes.len() >= 6;
    ctx.case(if nontrivial { Some(&line) } else { None });
    ctx.count(&format!("kind:{kind}"));
    match &results[0] {
        Ok(_) => {
            ctx.count("reach:accepted");
            for k in plan.kinds() {
                ctx.count(&format!("reach:accepted-{k}"));
            }
        }
        Err(k) => {
            ctx.count(&format!("reach:rejected-{k}"));
            // plans of the type-directed generator and the multi-occurrence shapes are typable by
            // construction: "finalises exactly when its constraints have a finite solution"
            if kind == "well-typed" || kind == "multi-occurrence" {
                ctx.fail("well-typed-rejected", &line, &format!("a program that is well-typed by construction is rejected ({k})"));
            }
        }
    }
    if ctx.want_sample() && nontrivial {
        ctx.sample(&format!("{} -> {}", &line[..line.len().min(400)], &out[..out.len().min(300)]));
    }
}

pub fn run(ctx: &mut Ctx) {
    for p in occurs_shapes() {
        one(ctx, &p, false, "occurs-shape", true);
        one(ctx, &p, true, "occurs-shape", true);
    }
    for k in [1usize, 3, 6] {
        one(ctx, &doubling(k, false), true, "doubling", true);
        one(ctx, &doubling(k, true), true, "doubling-ill", true);
    }
    // wide doubling: only the implementation (types of 2^30 leaves are not for the tree-based model)
    for k in [20usize, 30] {
        one(ctx, &doubling(k, false), true, "doubling-wide", false);
        one(ctx, &doubling(k, true), true, "doubling-wide-ill", false);
    }
    for k in 0..ctx.scale(120, 3000) {
        let p = multi_occurrence(ctx, 1 + (k % 4) as usize);
        one(ctx, &p, false, "multi-occurrence", true);
    }
    let n = ctx.scale(500, 12_000);
    let mut it = 0u64;
    let mut done = 0;
    while done < n && it < 10 * n {
        it += 1;
        let a = gen::gen_t(&mut ctx.rng, 2);
        let b = gen::gen_t(&mut ctx.rng, 2);
        let cfg = GenCfg { fail: true, jets: it % 3 == 0, jet_pool: if it % 3 == 0 { progs::simple_jets() } else { vec![] }, pin_witness: it % 2 == 0, ..GenCfg::default() };
        let program = it % 4 == 0;
        let plan = if program { gen::gen_program(&mut ctx.rng, cfg, 2 + (it % 4) as usize) } else { gen::gen_plan_pinned(&mut ctx.rng, cfg, &a, &b, 1 + (it % 4) as usize) };
        if plan.nodes.len() > 70 {
            continue;
        }
        done += 1;
        one(ctx, &plan, program, "well-typed", true);
        let bad = damage(ctx, &plan);
        if bad != plan {
            one(ctx, &bad, program, "damaged", true);
        }
    }
}

pub fn replay(ctx: &mut Ctx, case: &str) {
    let toks: Vec<&str> = case.split_whitespace().collect();
    if toks.len() > 2 && toks[0] == "infer" {
        if let Some((plan, _)) = Plan::parse(&toks[2..]) {
            one(ctx, &plan, toks[1] == "P", "replay", true);
        }
    }
}
