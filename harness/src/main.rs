//! `vh <property> --seed N --tier quick|thorough --out DIR`
//!
//! Runs the real rust-simplicity code (path dependency on /repo's working tree) on generated
//! cases of one property and writes into DIR:
//!   ops.txt         line-protocol operations for the Lean driver
//!   impl.out        the implementation's answer to each operation (same line numbers)
//!   failures.jsonl  cases on which the implementation violates the property's own oracle
//!   stats.json      what was generated and reached (counters, samples, distinct cases)

pub mod ctx;
pub mod gen;
pub mod progs;
pub mod codec;
pub mod wire;

mod props {
    include!(concat!(env!("OUT_DIR"), "/props.rs"));
}

use ctx::{Ctx, Tier};
use std::path::PathBuf;

fn main() {
    let args: Vec<String> = std::env::args().collect();
    if args.len() < 2 {
        eprintln!("usage: vh <property> --seed N --tier quick|thorough --out DIR");
        std::process::exit(2);
    }
    let prop = args[1].clone();
    let mut seed: u64 = 1;
    let mut tier = Tier::Quick;
    let mut out = PathBuf::from("work");
    let mut extra: Vec<String> = Vec::new();
    let mut case: Option<String> = None;
    let mut i = 2;
    while i < args.len() {
        match args[i].as_str() {
            "--seed" => {
                seed = args[i + 1].parse().expect("seed");
                i += 2;
            }
            "--tier" => {
                tier = if args[i + 1] == "thorough" { Tier::Thorough } else { Tier::Quick };
                i += 2;
            }
            "--out" => {
                out = PathBuf::from(&args[i + 1]);
                i += 2;
            }
            "--case" => {
                case = Some(args[i + 1].clone());
                i += 2;
            }
            _ => {
                extra.push(args[i].clone());
                i += 1;
            }
        }
    }
    // panics inside `catch` are expected in some probes; keep stderr quiet
    let default_hook = std::panic::take_hook();
    std::panic::set_hook(Box::new(move |info| {
        if ctx::QUIET.load(std::sync::atomic::Ordering::SeqCst) == 0 {
            default_hook(info);
        }
    }));
    let mut ctx = Ctx::new(&prop, seed, tier, out);
    let rule = match props::dispatch(&prop, &mut ctx, case.as_deref()) {
        Some(r) => r,
        None => {
            eprintln!("unknown property {prop}");
            std::process::exit(2);
        }
    };
    let _ = extra;
    ctx.finish(rule);
}
