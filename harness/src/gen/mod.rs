//! Shared generators: types, values, program *plans* (pure DAG descriptions) and their
//! construction through the public API in a fresh inference context (DESIGN.md sec. 2.5).
//!
//! Text forms (the line protocol shared with the Lean driver, `SimplicityModel/Prog.lean`):
//!   type   `1` | `+AB` | `*AB` | `wN.`   (wN. = 2^(2^N), printed whenever the type is one)
//!   bits   `0101…` or `-` for the empty string
//!   plan   `<n> <node_0> … <node_{n-1}>`, root = last node, children by index, node forms
//!          iden unit injl,c injr,c take,c drop,c comp,a,b case,a,b pair,a,b assertl,a,<cmr hex>
//!          assertr,<cmr hex>,b disc,a,b disc,a,- wit fail,<128 hex> word,n,<bits> jet,<name>

use crate::ctx::Rng;
use simplicity::jet::{Elements, Jet};
use simplicity::node::{CoreConstructible, DisconnectConstructible, JetConstructible, WitnessConstructible};
use simplicity::types::{self, CompleteBound, Final};
use simplicity::{Cmr, CommitNode, ConstructNode, FailEntropy, Value, Word};
use std::collections::HashMap;
use std::sync::Arc;

// ---------------------------------------------------------------- types and values (reference side)

#[derive(Clone, Debug, PartialEq, Eq, Hash)]
pub enum T {
    One,
    Sum(Box<T>, Box<T>),
    Prod(Box<T>, Box<T>),
}

#[derive(Clone, Debug, PartialEq, Eq, Hash)]
pub enum V {
    U,
    L(Box<V>),
    R(Box<V>),
    P(Box<V>, Box<V>),
}

impl T {
    pub fn sum(a: T, b: T) -> T {
        T::Sum(Box::new(a), Box::new(b))
    }
    pub fn prod(a: T, b: T) -> T {
        T::Prod(Box::new(a), Box::new(b))
    }
    pub fn word(n: u32) -> T {
        if n == 0 {
            T::sum(T::One, T::One)
        } else {
            let w = T::word(n - 1);
            T::prod(w.clone(), w)
        }
    }
    pub fn bw(&self) -> usize {
        match self {
            T::One => 0,
            T::Sum(a, b) => 1 + a.bw().max(b.bw()),
            T::Prod(a, b) => a.bw() + b.bw(),
        }
    }
    pub fn size(&self) -> usize {
        match self {
            T::One => 1,
            T::Sum(a, b) | T::Prod(a, b) => 1 + a.size() + b.size(),
        }
    }
    pub fn fin(&self) -> Arc<Final> {
        match self {
            T::One => Final::unit(),
            T::Sum(a, b) => Final::sum(a.fin(), b.fin()),
            T::Prod(a, b) => Final::product(a.fin(), b.fin()),
        }
    }
    /// only for types of moderate *tree* size (word types double)
    pub fn from_fin(f: &Final) -> T {
        match f.bound() {
            CompleteBound::Unit => T::One,
            CompleteBound::Sum(a, b) => T::sum(T::from_fin(a), T::from_fin(b)),
            CompleteBound::Product(a, b) => T::prod(T::from_fin(a), T::from_fin(b)),
        }
    }
    /// the prune order: 1 ≤ anything, sums and products component-wise
    pub fn le(&self, o: &T) -> bool {
        match (self, o) {
            (T::One, _) => true,
            (T::Sum(a, b), T::Sum(c, d)) | (T::Prod(a, b), T::Prod(c, d)) => a.le(c) && b.le(d),
            _ => false,
        }
    }
    /// canonical text (word types abbreviated bottom-up)
    pub fn text(&self) -> String {
        match self {
            T::One => "1".into(),
            T::Sum(a, b) => {
                if **a == T::One && **b == T::One {
                    "w0.".into()
                } else {
                    format!("+{}{}", a.text(), b.text())
                }
            }
            T::Prod(a, b) => {
                let (sa, sb) = (a.text(), b.text());
                if sa == sb && sa.starts_with('w') && sa.ends_with('.') && sa[1..sa.len() - 1].chars().all(|c| c.is_ascii_digit()) {
                    let n: u32 = sa[1..sa.len() - 1].parse().unwrap();
                    format!("w{}.", n + 1)
                } else {
                    format!("*{}{}", sa, sb)
                }
            }
        }
    }
}

/// canonical text of a library type without unfolding shared sub-terms more than once per node
pub fn final_text(f: &Final) -> String {
    fn go(f: &Final, memo: &mut HashMap<simplicity::Tmr, String>) -> String {
        if let Some(s) = memo.get(&f.tmr()) {
            return s.clone();
        }
        let s = match f.bound() {
            CompleteBound::Unit => "1".to_string(),
            CompleteBound::Sum(a, b) => {
                let (sa, sb) = (go(a, memo), go(b, memo));
                if sa == "1" && sb == "1" {
                    "w0.".into()
                } else {
                    format!("+{}{}", sa, sb)
                }
            }
            CompleteBound::Product(a, b) => {
                let (sa, sb) = (go(a, memo), go(b, memo));
                if sa == sb && sa.starts_with('w') && sa.ends_with('.') && sa[1..sa.len() - 1].chars().all(|c| c.is_ascii_digit()) {
                    let n: u32 = sa[1..sa.len() - 1].parse().unwrap();
                    format!("w{}.", n + 1)
                } else {
                    format!("*{}{}", sa, sb)
                }
            }
        };
        memo.insert(f.tmr(), s.clone());
        s
    }
    go(f, &mut HashMap::new())
}

pub fn parse_type(s: &str) -> Option<T> {
    fn go(c: &[u8], i: &mut usize) -> Option<T> {
        let ch = *c.get(*i)?;
        *i += 1;
        match ch {
            b'1' => Some(T::One),
            b'+' => {
                let a = go(c, i)?;
                let b = go(c, i)?;
                Some(T::sum(a, b))
            }
            b'*' => {
                let a = go(c, i)?;
                let b = go(c, i)?;
                Some(T::prod(a, b))
            }
            b'w' => {
                let st = *i;
                while *c.get(*i)? != b'.' {
                    *i += 1;
                }
                let n: u32 = std::str::from_utf8(&c[st..*i]).ok()?.parse().ok()?;
                *i += 1;
                Some(T::word(n))
            }
            _ => None,
        }
    }
    let mut i = 0;
    let t = go(s.as_bytes(), &mut i)?;
    if i == s.len() {
        Some(t)
    } else {
        None
    }
}

pub fn gen_t(r: &mut Rng, d: usize) -> T {
    if d == 0 || r.below(4) == 0 {
        T::One
    } else if r.below(12) == 0 {
        T::word(r.below(4) as u32)
    } else if r.bool() {
        T::sum(gen_t(r, d - 1), gen_t(r, d - 1))
    } else {
        T::prod(gen_t(r, d - 1), gen_t(r, d - 1))
    }
}

/// a type of exactly the bit width `w`
pub fn gen_t_width(r: &mut Rng, w: usize, d: usize) -> T {
    if w == 0 {
        return if d > 0 && r.below(4) == 0 { T::prod(T::One, T::One) } else { T::One };
    }
    if d > 0 && w >= 2 && r.below(3) == 0 {
        let k = r.below(w as u64 + 1) as usize;
        return T::prod(gen_t_width(r, k, d - 1), gen_t_width(r, w - k, d - 1));
    }
    let full = gen_t_width(r, w - 1, d.saturating_sub(1));
    let ow = r.below(w as u64) as usize;
    let other = gen_t_width(r, ow, d.saturating_sub(1));
    match r.below(4) {
        0 => T::sum(full, other),
        1 => T::sum(other, full),
        _ => {
            let twin = gen_t_width(r, w - 1, d.saturating_sub(1));
            T::sum(full, twin)
        }
    }
}

/// types for witness round-trips: sums whose branches have equal or nearly equal widths with
/// padding on one side only, nested under products and sums
pub fn gen_t_zoo(r: &mut Rng, d: usize) -> T {
    match r.below(6) {
        0 => gen_t(r, d),
        1 if d > 0 => T::prod(gen_t_zoo(r, d - 1), gen_t_zoo(r, d - 1)),
        2 if d > 0 => T::sum(gen_t_zoo(r, d - 1), gen_t_zoo(r, d - 1)),
        _ => {
            let w = r.below(5) as usize;
            gen_t_width(r, w, 3)
        }
    }
}

/// (sums, sums whose left branch only is padded, sums whose right branch only is padded)
pub fn padding_profile(t: &T) -> (usize, usize, usize) {
    fn padded(t: &T) -> bool {
        match t {
            T::One => false,
            T::Sum(a, b) => a.bw() != b.bw() || padded(a) || padded(b),
            T::Prod(a, b) => padded(a) || padded(b),
        }
    }
    match t {
        T::One => (0, 0, 0),
        T::Sum(a, b) | T::Prod(a, b) => {
            let (s1, l1, r1) = padding_profile(a);
            let (s2, l2, r2) = padding_profile(b);
            let here = matches!(t, T::Sum(..)) as usize;
            let eq = a.bw() == b.bw();
            (
                s1 + s2 + here,
                l1 + l2 + (here == 1 && eq && padded(a) && !padded(b)) as usize,
                r1 + r2 + (here == 1 && eq && !padded(a) && padded(b)) as usize,
            )
        }
    }
}

pub fn gen_v(r: &mut Rng, t: &T) -> V {
    match t {
        T::One => V::U,
        T::Sum(a, b) => {
            if r.bool() {
                V::L(Box::new(gen_v(r, a)))
            } else {
                V::R(Box::new(gen_v(r, b)))
            }
        }
        T::Prod(a, b) => V::P(Box::new(gen_v(r, a)), Box::new(gen_v(r, b))),
    }
}

/// padded encoding; padding bits random when `r` is given, else zero
pub fn padded(t: &T, v: &V, r: &mut Option<&mut Rng>, out: &mut Vec<bool>) {
    match (t, v) {
        (T::One, V::U) => {}
        (T::Sum(a, b), V::L(x)) => {
            out.push(false);
            for _ in 0..(a.bw().max(b.bw()) - a.bw()) {
                out.push(r.as_mut().map(|r| r.bool()).unwrap_or(false));
            }
            padded(a, x, r, out)
        }
        (T::Sum(a, b), V::R(x)) => {
            out.push(true);
            for _ in 0..(a.bw().max(b.bw()) - b.bw()) {
                out.push(r.as_mut().map(|r| r.bool()).unwrap_or(false));
            }
            padded(b, x, r, out)
        }
        (T::Prod(a, b), V::P(x, y)) => {
            padded(a, x, r, out);
            padded(b, y, r, out)
        }
        _ => panic!("ill-typed reference value"),
    }
}

pub fn compact(v: &V, out: &mut Vec<bool>) {
    match v {
        V::U => {}
        V::L(x) => {
            out.push(false);
            compact(x, out)
        }
        V::R(x) => {
            out.push(true);
            compact(x, out)
        }
        V::P(x, y) => {
            compact(x, out);
            compact(y, out)
        }
    }
}

pub fn dec_compact(t: &T, bits: &mut dyn Iterator<Item = bool>) -> Option<V> {
    Some(match t {
        T::One => V::U,
        T::Sum(a, b) => {
            if !bits.next()? {
                V::L(Box::new(dec_compact(a, bits)?))
            } else {
                V::R(Box::new(dec_compact(b, bits)?))
            }
        }
        T::Prod(a, b) => {
            let x = dec_compact(a, bits)?;
            let y = dec_compact(b, bits)?;
            V::P(Box::new(x), Box::new(y))
        }
    })
}

pub fn lib_value(t: &T, v: &V) -> Value {
    match (t, v) {
        (T::One, V::U) => Value::unit(),
        (T::Sum(a, b), V::L(x)) => Value::left(lib_value(a, x), b.fin()),
        (T::Sum(a, b), V::R(x)) => Value::right(a.fin(), lib_value(b, x)),
        (T::Prod(a, b), V::P(x, y)) => Value::product(lib_value(a, x), lib_value(b, y)),
        _ => panic!("ill-typed reference value"),
    }
}

/// random value of a library type, built from random compact bits (works for wide word types)
pub fn random_value(r: &mut Rng, ty: &Final) -> Value {
    let bytes = r.bytes(ty.bit_width() / 8 + 2);
    let mut it = simplicity::BitIter::from(bytes);
    Value::from_compact_bits(&mut it, ty).expect("enough random bits decode to a value")
}

pub fn bits_text(bits: &[bool]) -> String {
    if bits.is_empty() {
        "-".into()
    } else {
        bits.iter().map(|b| if *b { '1' } else { '0' }).collect()
    }
}

pub fn parse_bits(s: &str) -> Option<Vec<bool>> {
    if s == "-" {
        return Some(vec![]);
    }
    s.chars().map(|c| match c { '0' => Some(false), '1' => Some(true), _ => None }).collect()
}

pub fn hex(b: &[u8]) -> String {
    if b.is_empty() {
        return "-".into();
    }
    b.iter().map(|x| format!("{:02x}", x)).collect()
}

pub fn parse_hex(s: &str) -> Option<Vec<u8>> {
    if s == "-" {
        return Some(vec![]);
    }
    if s.len() % 2 != 0 {
        return None;
    }
    (0..s.len() / 2).map(|i| u8::from_str_radix(&s[2 * i..2 * i + 2], 16).ok()).collect()
}

pub fn value_compact_text(v: &Value) -> String {
    let bits: Vec<bool> = v.iter_compact().collect();
    bits_text(&bits)
}

pub fn value_padded_text(v: &Value) -> String {
    let bits: Vec<bool> = v.iter_padded().collect();
    bits_text(&bits)
}

// ---------------------------------------------------------------- plans

#[derive(Clone, Debug, PartialEq, Eq)]
pub enum PNode {
    Iden,
    Unit,
    InjL(usize),
    InjR(usize),
    Take(usize),
    Drop(usize),
    Comp(usize, usize),
    Case(usize, usize),
    Pair(usize, usize),
    AssertL(usize, [u8; 32]),
    AssertR([u8; 32], usize),
    Disconnect(usize, Option<usize>),
    Witness,
    Fail([u8; 64]),
    Word(u32, Vec<bool>),
    Jet(Elements),
}

impl PNode {
    pub fn kind(&self) -> &'static str {
        match self {
            PNode::Iden => "iden",
            PNode::Unit => "unit",
            PNode::InjL(_) => "injl",
            PNode::InjR(_) => "injr",
            PNode::Take(_) => "take",
            PNode::Drop(_) => "drop",
            PNode::Comp(..) => "comp",
            PNode::Case(..) => "case",
            PNode::Pair(..) => "pair",
            PNode::AssertL(..) => "assertl",
            PNode::AssertR(..) => "assertr",
            PNode::Disconnect(..) => "disconnect",
            PNode::Witness => "witness",
            PNode::Fail(_) => "fail",
            PNode::Word(..) => "word",
            PNode::Jet(_) => "jet",
        }
    }
    pub fn children(&self) -> Vec<usize> {
        match self {
            PNode::InjL(c) | PNode::InjR(c) | PNode::Take(c) | PNode::Drop(c) | PNode::AssertL(c, _) | PNode::AssertR(_, c) => vec![*c],
            PNode::Comp(a, b) | PNode::Case(a, b) | PNode::Pair(a, b) => vec![*a, *b],
            PNode::Disconnect(a, b) => {
                let mut v = vec![*a];
                if let Some(b) = b {
                    v.push(*b);
                }
                v
            }
            _ => vec![],
        }
    }
    pub fn text(&self) -> String {
        match self {
            PNode::Iden => "iden".into(),
            PNode::Unit => "unit".into(),
            PNode::InjL(c) => format!("injl,{c}"),
            PNode::InjR(c) => format!("injr,{c}"),
            PNode::Take(c) => format!("take,{c}"),
            PNode::Drop(c) => format!("drop,{c}"),
            PNode::Comp(a, b) => format!("comp,{a},{b}"),
            PNode::Case(a, b) => format!("case,{a},{b}"),
            PNode::Pair(a, b) => format!("pair,{a},{b}"),
            PNode::AssertL(a, h) => format!("assertl,{a},{}", hex(h)),
            PNode::AssertR(h, b) => format!("assertr,{},{b}", hex(h)),
            PNode::Disconnect(a, Some(b)) => format!("disc,{a},{b}"),
            PNode::Disconnect(a, None) => format!("disc,{a},-"),
            PNode::Witness => "wit".into(),
            PNode::Fail(e) => format!("fail,{}", hex(e)),
            PNode::Word(n, bits) => format!("word,{n},{}", bits_text(bits)),
            PNode::Jet(j) => format!("jet,{j}"),
        }
    }
}

#[derive(Clone, Debug, PartialEq, Eq)]
pub struct Plan {
    pub nodes: Vec<PNode>,
}

impl Plan {
    pub fn root(&self) -> usize {
        self.nodes.len() - 1
    }
    pub fn text(&self) -> String {
        let mut s = format!("{}", self.nodes.len());
        for n in &self.nodes {
            s.push(' ');
            s.push_str(&n.text());
        }
        s
    }
    pub fn parse(tokens: &[&str]) -> Option<(Plan, usize)> {
        let n: usize = tokens.first()?.parse().ok()?;
        let mut nodes = Vec::with_capacity(n);
        for i in 0..n {
            let f: Vec<&str> = tokens.get(1 + i)?.split(',').collect();
            let ix = |s: &str| -> Option<usize> { s.parse().ok().filter(|c| *c < i) };
            let h32 = |s: &str| -> Option<[u8; 32]> { parse_hex(s)?.try_into().ok() };
            let node = match (f[0], f.len()) {
                ("iden", 1) => PNode::Iden,
                ("unit", 1) => PNode::Unit,
                ("injl", 2) => PNode::InjL(ix(f[1])?),
                ("injr", 2) => PNode::InjR(ix(f[1])?),
                ("take", 2) => PNode::Take(ix(f[1])?),
                ("drop", 2) => PNode::Drop(ix(f[1])?),
                ("comp", 3) => PNode::Comp(ix(f[1])?, ix(f[2])?),
                ("case", 3) => PNode::Case(ix(f[1])?, ix(f[2])?),
                ("pair", 3) => PNode::Pair(ix(f[1])?, ix(f[2])?),
                ("assertl", 3) => PNode::AssertL(ix(f[1])?, h32(f[2])?),
                ("assertr", 3) => PNode::AssertR(h32(f[1])?, ix(f[2])?),
                ("disc", 3) => PNode::Disconnect(ix(f[1])?, if f[2] == "-" { None } else { Some(ix(f[2])?) }),
                ("wit", 1) => PNode::Witness,
                ("fail", 2) => PNode::Fail(parse_hex(f[1])?.try_into().ok()?),
                ("word", 3) => PNode::Word(f[1].parse().ok()?, parse_bits(f[2])?),
                ("jet", 2) => PNode::Jet(f[1].parse().ok()?),
                _ => return None,
            };
            nodes.push(node);
        }
        Some((Plan { nodes }, 1 + n))
    }
    /// indices reachable from the root, ascending (a topological order)
    pub fn reachable(&self) -> Vec<usize> {
        let mut seen = vec![false; self.nodes.len()];
        let mut stack = vec![self.root()];
        while let Some(i) = stack.pop() {
            if seen[i] {
                continue;
            }
            seen[i] = true;
            stack.extend(self.nodes[i].children());
        }
        (0..self.nodes.len()).filter(|i| seen[*i]).collect()
    }
    pub fn kinds(&self) -> Vec<&'static str> {
        let mut k: Vec<&'static str> = self.reachable().iter().map(|i| self.nodes[*i].kind()).collect();
        k.sort();
        k.dedup();
        k
    }
    /// drop unreachable nodes and renumber (keeps relative order)
    pub fn compacted(&self) -> Plan {
        let reach = self.reachable();
        let mut map = vec![usize::MAX; self.nodes.len()];
        for (new, old) in reach.iter().enumerate() {
            map[*old] = new;
        }
        let nodes = reach
            .iter()
            .map(|i| match &self.nodes[*i] {
                PNode::InjL(c) => PNode::InjL(map[*c]),
                PNode::InjR(c) => PNode::InjR(map[*c]),
                PNode::Take(c) => PNode::Take(map[*c]),
                PNode::Drop(c) => PNode::Drop(map[*c]),
                PNode::Comp(a, b) => PNode::Comp(map[*a], map[*b]),
                PNode::Case(a, b) => PNode::Case(map[*a], map[*b]),
                PNode::Pair(a, b) => PNode::Pair(map[*a], map[*b]),
                PNode::AssertL(a, h) => PNode::AssertL(map[*a], *h),
                PNode::AssertR(h, b) => PNode::AssertR(*h, map[*b]),
                PNode::Disconnect(a, b) => PNode::Disconnect(map[*a], b.map(|b| map[b])),
                n => n.clone(),
            })
            .collect();
        Plan { nodes }
    }
}

pub type CN<'b> = Arc<ConstructNode<'b>>;

/// Build the nodes of `plan` reachable from its root in the given (fresh) context, in the given
/// order (a topological order of the reachable nodes; `None` = ascending index).  `wits[i]`, when
/// given, is the value attached to witness node `i`.  Any constructor error aborts: the caller must
/// then discard the context.
/// constructors that failed with a type error and then succeeded when called again with the same
/// arguments (silent acceptance on retry); drained by the C04 check
pub static RETRY_ACCEPTED: std::sync::Mutex<Vec<String>> = std::sync::Mutex::new(Vec::new());

/// a failing constructor is called a second time: it must fail again
fn twice<'b>(i: usize, f: &dyn Fn() -> Result<CN<'b>, types::Error>) -> Result<CN<'b>, types::Error> {
    match f() {
        Ok(n) => Ok(n),
        Err(e) => {
            let shown = e.to_string();
            if let Ok(n2) = f() {
                if let Ok(mut v) = RETRY_ACCEPTED.lock() {
                    v.push(format!("node {i}: the constructor failed with `{}` and succeeded on the second call, with arrow {}", shown.chars().take(120).collect::<String>(), n2.arrow()));
                }
            }
            Err(e)
        }
    }
}

pub fn build<'b>(
    ctx: &types::Context<'b>,
    plan: &Plan,
    order: Option<&[usize]>,
    wits: Option<&HashMap<usize, Value>>,
) -> Result<Vec<Option<CN<'b>>>, types::Error> {
    let reach = plan.reachable();
    let order: Vec<usize> = order.map(|o| o.to_vec()).unwrap_or(reach);
    let mut built: Vec<Option<CN<'b>>> = vec![None; plan.nodes.len()];
    for i in order {
        let g = |c: usize| built[c].as_ref().expect("children are built before parents");
        let node: CN<'b> = match &plan.nodes[i] {
            PNode::Iden => CN::iden(ctx),
            PNode::Unit => CN::unit(ctx),
            PNode::InjL(c) => CN::injl(g(*c)),
            PNode::InjR(c) => CN::injr(g(*c)),
            PNode::Take(c) => CN::take(g(*c)),
            PNode::Drop(c) => CN::drop_(g(*c)),
            PNode::Comp(a, b) => twice(i, &|| CN::comp(g(*a), g(*b)))?,
            PNode::Case(a, b) => twice(i, &|| CN::case(g(*a), g(*b)))?,
            PNode::Pair(a, b) => twice(i, &|| CN::pair(g(*a), g(*b)))?,
            PNode::AssertL(a, h) => twice(i, &|| CN::assertl(g(*a), Cmr::from_byte_array(*h)))?,
            PNode::AssertR(h, b) => twice(i, &|| CN::assertr(Cmr::from_byte_array(*h), g(*b)))?,
            PNode::Disconnect(a, b) => twice(i, &|| CN::disconnect(g(*a), &b.map(|b| g(b).clone())))?,
            PNode::Witness => CN::witness(ctx, wits.and_then(|w| w.get(&i)).map(|v| v.shallow_clone())),
            PNode::Fail(e) => CN::fail(ctx, FailEntropy::from_byte_array(*e)),
            PNode::Word(n, bits) => CN::const_word(ctx, word_of_bits(*n, bits)),
            PNode::Jet(j) => CN::jet(ctx, j),
        };
        built[i] = Some(node);
    }
    Ok(built)
}

pub fn word_of_bits(n: u32, bits: &[bool]) -> Word {
    assert_eq!(bits.len(), 1usize << n);
    let mut bytes = vec![0u8; (bits.len() + 7) / 8];
    for (i, b) in bits.iter().enumerate() {
        if *b {
            bytes[i / 8] |= 1 << (7 - i % 8);
        }
    }
    let mut it = simplicity::BitIter::from(bytes);
    Word::from_bits(&mut it, n).expect("word bits")
}

/// commit nodes aligned with plan indices (walk both DAGs from the root)
pub fn align_commit(plan: &Plan, root: &Arc<CommitNode>) -> Vec<Option<Arc<CommitNode>>> {
    use simplicity::node::Inner;
    let mut out: Vec<Option<Arc<CommitNode>>> = vec![None; plan.nodes.len()];
    let mut stack = vec![(plan.root(), root.clone())];
    while let Some((i, n)) = stack.pop() {
        if out[i].is_some() {
            continue;
        }
        match n.inner() {
            Inner::InjL(c) | Inner::InjR(c) | Inner::Take(c) | Inner::Drop(c) | Inner::AssertL(c, _) | Inner::AssertR(_, c) => {
                stack.push((plan.nodes[i].children()[0], c.clone()))
            }
            Inner::Comp(a, b) | Inner::Case(a, b) | Inner::Pair(a, b) => {
                let ch = plan.nodes[i].children();
                stack.push((ch[0], a.clone()));
                stack.push((ch[1], b.clone()));
            }
            Inner::Disconnect(a, _) => stack.push((plan.nodes[i].children()[0], a.clone())),
            _ => {}
        }
        out[i] = Some(n);
    }
    out
}

/// redeem nodes aligned with plan indices
pub fn align_redeem(plan: &Plan, root: &Arc<simplicity::RedeemNode>) -> Vec<Option<Arc<simplicity::RedeemNode>>> {
    use simplicity::node::Inner;
    let mut out: Vec<Option<Arc<simplicity::RedeemNode>>> = vec![None; plan.nodes.len()];
    let mut stack = vec![(plan.root(), root.clone())];
    while let Some((i, n)) = stack.pop() {
        if out[i].is_some() {
            continue;
        }
        match n.inner() {
            Inner::InjL(c) | Inner::InjR(c) | Inner::Take(c) | Inner::Drop(c) | Inner::AssertL(c, _) | Inner::AssertR(_, c) => {
                stack.push((plan.nodes[i].children()[0], c.clone()))
            }
            Inner::Comp(a, b) | Inner::Case(a, b) | Inner::Pair(a, b) => {
                let ch = plan.nodes[i].children();
                stack.push((ch[0], a.clone()));
                stack.push((ch[1], b.clone()));
            }
            Inner::Disconnect(a, b) => {
                let ch = plan.nodes[i].children();
                stack.push((ch[0], a.clone()));
                if ch.len() > 1 {
                    stack.push((ch[1], b.clone()));
                }
            }
            _ => {}
        }
        out[i] = Some(n);
    }
    out
}

// ---------------------------------------------------------------- type-directed plan generator

#[derive(Clone)]
pub struct GenCfg {
    /// allow witness nodes
    pub witness: bool,
    /// allow `fail` nodes
    pub fail: bool,
    /// allow jets fed by witnesses (`comp wit (comp jet wit)`)
    pub jets: bool,
    /// jets to draw from (empty = all Elements jets)
    pub jet_pool: Vec<Elements>,
    /// allow disconnect (with an attached branch)
    pub disconnect: bool,
    /// allow assertions (with a random hidden root)
    pub asserts: bool,
    /// allow constant words
    pub words: bool,
    /// pin the type of witness nodes with a type-forcing gadget
    pub pin_witness: bool,
    /// probability (in 1/16) of reusing an earlier node of the same intended type (sharing)
    pub share_16: u64,
    /// witness-selected case (`comp (pair wit iden) (case s t)`)
    pub wit_case: bool,
}

impl Default for GenCfg {
    fn default() -> Self {
        GenCfg {
            witness: true,
            fail: false,
            jets: false,
            jet_pool: vec![],
            disconnect: true,
            asserts: true,
            words: true,
            pin_witness: true,
            share_16: 4,
            wit_case: true,
        }
    }
}

pub struct PlanGen<'a> {
    pub r: &'a mut Rng,
    pub cfg: GenCfg,
    pub nodes: Vec<PNode>,
    pool: Vec<(T, T, usize)>,
    /// hidden roots of the assertions whose kept branch is being generated
    pending_hidden: Vec<[u8; 32]>,
}

impl<'a> PlanGen<'a> {
    pub fn new(r: &'a mut Rng, cfg: GenCfg) -> Self {
        PlanGen { r, cfg, nodes: vec![], pool: vec![], pending_hidden: vec![] }
    }

    fn push(&mut self, n: PNode) -> usize {
        self.nodes.push(n);
        self.nodes.len() - 1
    }

    /// the root of a hidden branch: usually fresh, sometimes one used before in this plan (the same
    /// hidden root under several assertions, nested or side by side, is encoded once)
    fn hidden_root(&mut self) -> [u8; 32] {
        let used: Vec<[u8; 32]> = self
            .nodes
            .iter()
            .filter_map(|n| match n {
                PNode::AssertL(_, h) | PNode::AssertR(h, _) => Some(*h),
                _ => None,
            })
            .collect();
        // chosen before the kept branch is generated: an earlier assertion is a sibling; nesting comes
        // from `pending_hidden`, the roots of the assertions currently being generated
        let mut pool = used;
        pool.extend(self.pending_hidden.iter().copied());
        if !pool.is_empty() && self.r.below(3) == 0 {
            return pool[self.r.below(pool.len() as u64) as usize];
        }
        let mut h = [0u8; 32];
        for b in h.iter_mut() {
            *b = self.r.next() as u8;
        }
        h
    }

    /// `pin_T : T → T`, typeable only at exactly `T`
    pub fn pin(&mut self, t: &T) -> usize {
        match t {
            T::One => self.push(PNode::Unit),
            T::Sum(a, b) => {
                // comp (pair iden unit) (case (injl (take pin_a)) (injr (take pin_b)))
                let pa = self.pin(a);
                let ta = self.push(PNode::Take(pa));
                let la = self.push(PNode::InjL(ta));
                let pb = self.pin(b);
                let tb = self.push(PNode::Take(pb));
                let rb = self.push(PNode::InjR(tb));
                let cs = self.push(PNode::Case(la, rb));
                let id = self.push(PNode::Iden);
                let un = self.push(PNode::Unit);
                let pr = self.push(PNode::Pair(id, un));
                self.push(PNode::Comp(pr, cs))
            }
            T::Prod(a, b) => {
                let pa = self.pin(a);
                let ta = self.push(PNode::Take(pa));
                let pb = self.pin(b);
                let db = self.push(PNode::Drop(pb));
                self.push(PNode::Pair(ta, db))
            }
        }
    }

    /// a witness node whose target is forced to `t` (when small enough to pin)
    pub fn witness_of(&mut self, t: &T) -> usize {
        let w = self.push(PNode::Witness);
        if self.cfg.pin_witness && t.size() <= 24 {
            let p = self.pin(t);
            self.push(PNode::Comp(w, p))
        } else {
            w
        }
    }

    /// a witness node whose target is forced to `t`, whatever its size
    pub fn witness_pinned(&mut self, t: &T) -> usize {
        let w = self.push(PNode::Witness);
        let p = self.pin(t);
        self.push(PNode::Comp(w, p))
    }

    pub fn gen(&mut self, a: &T, b: &T, d: usize) -> usize {
        if self.r.below(16) < self.cfg.share_16 {
            let c: Vec<usize> = self.pool.iter().filter(|(x, y, _)| x == a && y == b).map(|(_, _, i)| *i).collect();
            if !c.is_empty() {
                return c[self.r.below(c.len() as u64) as usize];
            }
        }
        let n = self.gen_inner(a, b, d);
        self.pool.push((a.clone(), b.clone(), n));
        n
    }

    fn gen_inner(&mut self, a: &T, b: &T, d: usize) -> usize {
        let mut opts: Vec<u8> = vec![];
        if a == b {
            opts.extend([0, 0]);
        }
        if *b == T::One {
            opts.push(1);
        }
        if d > 0 {
            if let T::Sum(..) = b {
                opts.extend([2, 3]);
            }
            if let T::Prod(..) = b {
                opts.extend([4, 4]);
            }
            if let T::Prod(x, _) = a {
                opts.extend([5, 6]);
                if let T::Sum(..) = **x {
                    opts.extend([7, 7, 7]);
                    if self.cfg.asserts {
                        opts.push(10);
                    }
                }
            }
            opts.extend([8, 8]);
            if self.cfg.disconnect {
                if let T::Prod(..) = b {
                    opts.extend([11, 11, 11]);
                }
            }
            if self.cfg.jets && self.cfg.witness {
                opts.push(12);
            }
            if self.cfg.wit_case && self.cfg.witness {
                opts.extend([13, 13]);
                if self.cfg.asserts {
                    opts.push(16);
                }
            }
            if self.cfg.words {
                opts.push(14);
            }
        }
        if self.cfg.witness {
            opts.push(9);
        }
        if self.cfg.fail && self.r.below(8) == 0 {
            opts.push(15);
        }
        if opts.is_empty() {
            // no witness allowed and nothing structural fits at depth 0: go through unit where possible
            return self.fallback(a, b);
        }
        let o = opts[self.r.below(opts.len() as u64) as usize];
        match o {
            0 => self.push(PNode::Iden),
            1 => self.push(PNode::Unit),
            2 => {
                if let T::Sum(x, _) = b {
                    let c = self.gen(a, x, d - 1);
                    self.push(PNode::InjL(c))
                } else {
                    unreachable!()
                }
            }
            3 => {
                if let T::Sum(_, y) = b {
                    let c = self.gen(a, y, d - 1);
                    self.push(PNode::InjR(c))
                } else {
                    unreachable!()
                }
            }
            4 => {
                if let T::Prod(x, y) = b {
                    let s = self.gen(a, x, d - 1);
                    let t = self.gen(a, y, d - 1);
                    self.push(PNode::Pair(s, t))
                } else {
                    unreachable!()
                }
            }
            5 => {
                if let T::Prod(x, _) = a {
                    let c = self.gen(x, b, d - 1);
                    self.push(PNode::Take(c))
                } else {
                    unreachable!()
                }
            }
            6 => {
                if let T::Prod(_, y) = a {
                    let c = self.gen(y, b, d - 1);
                    self.push(PNode::Drop(c))
                } else {
                    unreachable!()
                }
            }
            7 | 10 => {
                let (x, y, z) = match a {
                    T::Prod(xy, z) => match &**xy {
                        T::Sum(x, y) => ((**x).clone(), (**y).clone(), (**z).clone()),
                        _ => unreachable!(),
                    },
                    _ => unreachable!(),
                };
                if o == 7 {
                    let s = self.gen(&T::prod(x, z.clone()), b, d - 1);
                    let t = self.gen(&T::prod(y, z), b, d - 1);
                    self.push(PNode::Case(s, t))
                } else {
                    let h = self.hidden_root();
                    self.pending_hidden.push(h);
                    let n = if self.r.bool() {
                        let s = self.gen(&T::prod(x, z), b, d - 1);
                        PNode::AssertL(s, h)
                    } else {
                        let t = self.gen(&T::prod(y, z), b, d - 1);
                        PNode::AssertR(h, t)
                    };
                    self.pending_hidden.pop();
                    self.push(n)
                }
            }
            8 => {
                let m = gen_t(self.r, 3);
                let s = self.gen(a, &m, d - 1);
                let t = self.gen(&m, b, d - 1);
                self.push(PNode::Comp(s, t))
            }
            11 => {
                if let T::Prod(b1, dd) = b {
                    let c = gen_t(self.r, 2);
                    let s = self.gen(&T::prod(T::word(8), a.clone()), &T::prod((**b1).clone(), c.clone()), d - 1);
                    let t = self.gen(&c, dd, d - 1);
                    self.push(PNode::Disconnect(s, Some(t)))
                } else {
                    unreachable!()
                }
            }
            12 => {
                let j = if self.cfg.jet_pool.is_empty() {
                    Elements::ALL[self.r.below(Elements::ALL.len() as u64) as usize]
                } else {
                    *self.r.pick(&self.cfg.jet_pool)
                };
                let w1 = self.push(PNode::Witness);
                let jn = self.push(PNode::Jet(j));
                let w2 = self.witness_of(b);
                let c = self.push(PNode::Comp(jn, w2));
                self.push(PNode::Comp(w1, c))
            }
            13 => {
                let x = gen_t(self.r, 2);
                let y = gen_t(self.r, 2);
                let sel = self.witness_of(&T::sum(x.clone(), y.clone()));
                let id = self.push(PNode::Iden);
                let p = self.push(PNode::Pair(sel, id));
                let s1 = self.gen(&T::prod(x, a.clone()), b, d - 1);
                let t1 = self.gen(&T::prod(y, a.clone()), b, d - 1);
                let cs = self.push(PNode::Case(s1, t1));
                self.push(PNode::Comp(p, cs))
            }
            14 => {
                // comp unit (comp word (… : w_n → b))
                let n = self.r.below(6) as u32;
                let bits: Vec<bool> = (0..(1usize << n)).map(|_| self.r.bool()).collect();
                let u = self.push(PNode::Unit);
                let w = self.push(PNode::Word(n, bits));
                let t = self.gen(&T::word(n), b, d - 1);
                let c = self.push(PNode::Comp(w, t));
                self.push(PNode::Comp(u, c))
            }
            16 => {
                // witness-selected assertion: comp (pair wit iden) (assertl s h | assertr h t)
                let x = gen_t(self.r, 2);
                let y = gen_t(self.r, 2);
                let sel = self.witness_of(&T::sum(x.clone(), y.clone()));
                let id = self.push(PNode::Iden);
                let p = self.push(PNode::Pair(sel, id));
                let h = self.hidden_root();
                self.pending_hidden.push(h);
                let n = if self.r.bool() {
                    let s1 = self.gen(&T::prod(x, a.clone()), b, d - 1);
                    PNode::AssertL(s1, h)
                } else {
                    let t1 = self.gen(&T::prod(y, a.clone()), b, d - 1);
                    PNode::AssertR(h, t1)
                };
                self.pending_hidden.pop();
                let cs = self.push(n);
                self.push(PNode::Comp(p, cs))
            }
            15 => {
                let mut e = [0u8; 64];
                for b in e.iter_mut() {
                    *b = self.r.next() as u8;
                }
                self.push(PNode::Fail(e))
            }
            _ => self.witness_of(b),
        }
    }

    /// a term of type a → b without witnesses, as small as possible (zero value of b)
    fn fallback(&mut self, a: &T, b: &T) -> usize {
        if a == b && self.r.bool() {
            return self.push(PNode::Iden);
        }
        match b {
            T::One => self.push(PNode::Unit),
            T::Sum(x, _) => {
                let c = self.fallback(a, x);
                self.push(PNode::InjL(c))
            }
            T::Prod(x, y) => {
                let s = self.fallback(a, x);
                let t = self.fallback(a, y);
                self.push(PNode::Pair(s, t))
            }
        }
    }

    pub fn finish(self) -> Plan {
        Plan { nodes: self.nodes }.compacted()
    }
}

impl<'a> PlanGen<'a> {
    /// a random projection `t → sub-term of t`: a chain of take/drop ending in `iden`
    fn projection(&mut self, t: &T) -> usize {
        match t {
            T::Prod(a, b) if self.r.below(4) != 0 => {
                if self.r.bool() {
                    let c = self.projection(a);
                    self.push(PNode::Take(c))
                } else {
                    let c = self.projection(b);
                    self.push(PNode::Drop(c))
                }
            }
            _ => self.push(PNode::Iden),
        }
    }
    /// a random rearrangement of the parts of `t`: a pair tree of projections
    fn rearrangement(&mut self, t: &T, d: usize) -> usize {
        if d == 0 || self.r.below(3) == 0 {
            self.projection(t)
        } else {
            let a = self.rearrangement(t, d - 1);
            let b = self.rearrangement(t, d - 1);
            self.push(PNode::Pair(a, b))
        }
    }
}

/// Programs that only move data: `comp X P`, `X` a witness (or, for an input-driven program, the
/// identity) of a product type whose parts have widths 0…9 in every combination, `P` a pair tree of
/// projections, optionally inside further `comp`s — every copy length at every frame offset, with
/// live frames next to the one written
pub fn layout_plan(r: &mut Rng, via_witness: bool, wrap: usize) -> Plan {
    let leaf = |r: &mut Rng| match r.below(9) {
        0 => T::word(0),
        1 => T::word(1),
        2 => T::sum(T::One, T::word(1)),
        3 => T::word(2),
        4 => T::sum(T::One, T::word(2)),
        5 => T::word(3),
        6 => T::sum(T::One, T::word(3)),
        7 => T::sum(T::word(1), T::word(0)),
        _ => T::One,
    };
    fn tree(r: &mut Rng, n: u64, leaf: &dyn Fn(&mut Rng) -> T) -> T {
        if n <= 1 {
            leaf(r)
        } else {
            let k = 1 + r.below(n - 1);
            T::prod(tree(r, k, leaf), tree(r, n - k, leaf))
        }
    }
    let n = 2 + r.below(4);
    let t = tree(r, n, &leaf);
    let mut g = PlanGen::new(r, GenCfg { pin_witness: true, ..GenCfg::default() });
    let x = if via_witness { g.witness_pinned(&t) } else { g.pin(&t) };
    let d = 1 + g.r.below(3) as usize;
    let p = g.rearrangement(&t, d);
    let mut body = g.push(PNode::Comp(x, p));
    for k in 0..wrap {
        let i = g.push(PNode::Iden);
        body = if k % 2 == 0 || via_witness { g.push(PNode::Comp(body, i)) } else { g.push(PNode::Comp(i, body)) };
    }
    let _ = body;
    g.finish()
}

/// `comp X (pair (case A B) R)` (or `pair R (case A B)`) over `(L + R') × Z` with arms of different
/// widths: the case moves the read cursor past tag and padding and must put it back exactly, because
/// a sibling reads the same frame afterwards.  `A`, `B` project out of `Z`; the input takes both sides.
pub fn case_read_plan(r: &mut Rng, via_witness: bool) -> Plan {
    let leaf = |r: &mut Rng| match r.below(8) {
        0 => T::One,
        1 => T::word(0),
        2 => T::word(1),
        3 => T::word(2),
        4 => T::word(3),
        5 => T::sum(T::One, T::word(1)),
        6 => T::prod(T::word(0), T::word(1)),
        _ => T::sum(T::word(2), T::One),
    };
    let l = leaf(r);
    let mut rr = leaf(r);
    if rr.bw() == l.bw() && r.below(4) != 0 {
        rr = T::prod(rr, T::word(1));
    }
    let z = T::prod(leaf(r), T::prod(leaf(r), leaf(r)));
    let t = T::prod(T::sum(l, rr), z.clone());
    let mut g = PlanGen::new(r, GenCfg { pin_witness: true, ..GenCfg::default() });
    let x = if via_witness { g.witness_pinned(&t) } else { g.pin(&t) };
    // both arms: the same projection out of Z, reached through `drop`
    let pa = g.projection(&z);
    let a = g.push(PNode::Drop(pa));
    // the other arm needs the same target type: copy the expression node by node
    fn dup(g: &mut PlanGen, i: usize) -> usize {
        let m = match g.nodes[i].clone() {
            PNode::Take(c) => PNode::Take(dup(g, c)),
            PNode::Drop(c) => PNode::Drop(dup(g, c)),
            other => other,
        };
        g.push(m)
    }
    let b = dup(&mut g, a);
    let cs = g.push(PNode::Case(a, b));
    let pr = g.projection(&z);
    let rd = g.push(PNode::Drop(pr));
    let p = if g.r.bool() { g.push(PNode::Pair(cs, rd)) } else { g.push(PNode::Pair(rd, cs)) };
    g.push(PNode::Comp(x, p));
    g.finish()
}

/// word leaves of `t` as paths from the root (false = left), with their exponent
fn word_leaves(t: &T, path: &mut Vec<bool>, out: &mut Vec<(Vec<bool>, u32)>) {
    for n in 0..4u32 {
        if *t == T::word(n) {
            out.push((path.clone(), n));
            return;
        }
    }
    if let T::Prod(a, b) = t {
        path.push(false);
        word_leaves(a, path, out);
        path.pop();
        path.push(true);
        word_leaves(b, path, out);
        path.pop();
    }
}

impl<'a> PlanGen<'a> {
    /// the projection along `path`: `P1 (P2 (… iden))`
    fn path_expr(&mut self, path: &[bool]) -> usize {
        let mut cur = self.push(PNode::Iden);
        for right in path.iter().rev() {
            cur = self.push(if *right { PNode::Drop(cur) } else { PNode::Take(cur) });
        }
        cur
    }
    /// an expression `t → 2^(2^k)` assembled from chunks copied out of the word leaves of `t`
    fn word_from_chunks(&mut self, leaves: &[(Vec<bool>, u32)], k: u32) -> usize {
        let fit: Vec<&(Vec<bool>, u32)> = leaves.iter().filter(|(_, n)| *n >= k).collect();
        if !fit.is_empty() && (k == 0 || self.r.below(3) != 0) {
            let (p, n) = fit[self.r.below(fit.len() as u64) as usize].clone();
            let mut path = p;
            for _ in k..n {
                path.push(self.r.bool());
            }
            self.path_expr(&path)
        } else if k == 0 {
            // no word leaf at all: a constant bit
            let bit = self.r.bool();
            self.push(PNode::Word(0, vec![bit]))
        } else {
            let a = self.word_from_chunks(leaves, k - 1);
            let b = self.word_from_chunks(leaves, k - 1);
            self.push(PNode::Pair(a, b))
        }
    }
}

/// A 1 → 1 program whose verdict depends on data movement: a witness of a product of words and
/// odd-width fillers, two bytes assembled from chunks of it next to a filler part (so that frames end
/// inside a byte), compared by `eq_8` and `verify`
pub fn layout_verdict_plan(r: &mut Rng) -> Plan {
    let leaf = |r: &mut Rng| match r.below(10) {
        0 | 1 => T::word(0),
        2 | 3 => T::word(1),
        4 | 5 => T::word(2),
        6 => T::word(3),
        7 => T::sum(T::One, T::word(1)),
        8 => T::sum(T::One, T::word(0)),
        _ => T::sum(T::One, T::word(2)),
    };
    fn tree(r: &mut Rng, n: u64, leaf: &dyn Fn(&mut Rng) -> T) -> T {
        if n <= 1 {
            leaf(r)
        } else {
            let k = 1 + r.below(n - 1);
            T::prod(tree(r, k, leaf), tree(r, n - k, leaf))
        }
    }
    let n = 2 + r.below(5);
    let t = tree(r, n, &leaf);
    let mut leaves = vec![];
    word_leaves(&t, &mut vec![], &mut leaves);
    let mut g = PlanGen::new(r, GenCfg { pin_witness: true, ..GenCfg::default() });
    let x = g.witness_pinned(&t);
    let a = g.word_from_chunks(&leaves, 3);
    let b = if g.r.bool() {
        // the same chunks again: equal unless the machine moves them wrongly
        let mut copy = vec![];
        fn dup(g: &mut PlanGen, i: usize, copy: &mut Vec<usize>) -> usize {
            let n = g.nodes[i].clone();
            let m = match n {
                PNode::Take(c) => PNode::Take(dup(g, c, copy)),
                PNode::Drop(c) => PNode::Drop(dup(g, c, copy)),
                PNode::Pair(x, y) => {
                    let x2 = dup(g, x, copy);
                    PNode::Pair(x2, dup(g, y, copy))
                }
                other => other,
            };
            g.push(m)
        }
        dup(&mut g, a, &mut copy)
    } else {
        g.word_from_chunks(&leaves, 3)
    };
    let ab = g.push(PNode::Pair(a, b));
    let d = g.r.below(2) as usize;
    let filler = g.rearrangement(&t, d);
    let filler_first = g.r.bool();
    let p = if filler_first { g.push(PNode::Pair(filler, ab)) } else { g.push(PNode::Pair(ab, filler)) };
    let xp = g.push(PNode::Comp(x, p));
    let eq = g.push(PNode::Jet(Elements::Eq8));
    let sel = if filler_first { g.push(PNode::Drop(eq)) } else { g.push(PNode::Take(eq)) };
    let vf = g.push(PNode::Jet(Elements::Verify));
    let j = g.push(PNode::Comp(sel, vf));
    g.push(PNode::Comp(xp, j));
    g.finish()
}

/// `comp (pair w_1 (pair w_2 (… w_k))) unit`, witness `w_i` pinned to `tys[i]`
pub fn witness_zoo_plan(r: &mut Rng, tys: &[T]) -> Plan {
    let mut g = PlanGen::new(r, GenCfg { pin_witness: true, ..GenCfg::default() });
    let ws: Vec<usize> = tys.iter().map(|t| g.witness_of(t)).collect();
    let mut acc = *ws.last().unwrap();
    for w in ws[..ws.len() - 1].iter().rev() {
        acc = g.push(PNode::Pair(*w, acc));
    }
    let u = g.push(PNode::Unit);
    g.push(PNode::Comp(acc, u));
    g.finish()
}

/// `comp witness (comp (pair (take j_1) (drop (pair (take j_2) (drop …)))) unit)`: a 1 → 1 program
/// whose single witness has a product-of-words type of exactly `l` bits (pinned by the source types
/// of jets), `l ≥ 1`
pub fn witness_bits_plan(l: usize) -> Plan {
    use Elements::*;
    let parts: [(usize, Elements); 9] = [(512, Eq256), (256, FeIsZero), (128, Eq64), (64, Some64), (32, Some32), (16, Some16), (8, Some8), (2, Xor1), (1, Some1)];
    let mut rest = l;
    let mut js = vec![];
    for (w, j) in parts {
        while rest >= w {
            js.push(j);
            rest -= w;
        }
    }
    let mut nodes = vec![PNode::Witness];
    let mut push = |n: PNode| {
        nodes.push(n);
        nodes.len() - 1
    };
    // innermost first
    let last = push(PNode::Jet(*js.last().unwrap()));
    let mut acc = last;
    for j in js[..js.len() - 1].iter().rev() {
        let jn = push(PNode::Jet(*j));
        let t = push(PNode::Take(jn));
        let d = push(PNode::Drop(acc));
        acc = push(PNode::Pair(t, d));
    }
    let u = push(PNode::Unit);
    let c = push(PNode::Comp(acc, u));
    push(PNode::Comp(0, c));
    Plan { nodes }
}

/// program of exactly type `a → b` (source and target pinned)
pub fn gen_plan_pinned(r: &mut Rng, cfg: GenCfg, a: &T, b: &T, depth: usize) -> Plan {
    let mut g = PlanGen::new(r, cfg);
    let body = g.gen(a, b, depth);
    let pa = g.pin(a);
    let pb = g.pin(b);
    let c1 = g.push(PNode::Comp(body, pb));
    g.push(PNode::Comp(pa, c1));
    g.finish()
}

/// program 1 → 1
pub fn gen_program(r: &mut Rng, cfg: GenCfg, depth: usize) -> Plan {
    let mut g = PlanGen::new(r, cfg);
    g.gen(&T::One, &T::One, depth);
    g.finish()
}

/// a random permutation of the reachable nodes that is still topological
pub fn random_topo_order(r: &mut Rng, plan: &Plan) -> Vec<usize> {
    let reach = plan.reachable();
    let mut placed = vec![false; plan.nodes.len()];
    let mut remaining: Vec<usize> = reach.clone();
    let mut order = Vec::with_capacity(reach.len());
    while !remaining.is_empty() {
        let ready: Vec<usize> = remaining.iter().copied().filter(|i| plan.nodes[*i].children().iter().all(|c| placed[*c])).collect();
        let pick = ready[r.below(ready.len() as u64) as usize];
        placed[pick] = true;
        order.push(pick);
        remaining.retain(|i| *i != pick);
    }
    order
}

/// `finalize_types_non_program` of a plan in a fresh context; `Err` = rejected (type / occurs)
pub fn commit_of_plan(plan: &Plan, order: Option<&[usize]>, program: bool) -> Result<Arc<CommitNode>, types::Error> {
    types::Context::with_context(|ctx| {
        let built = build(&ctx, plan, order, None)?;
        let root = built[plan.root()].as_ref().unwrap();
        if program {
            root.finalize_types()
        } else {
            root.finalize_types_non_program()
        }
    })
}

/// final arrows of every reachable node of a plan (including nodes only reachable through the
/// right branch of a disconnect, which the commit-time DAG does not contain)
pub fn arrows_of_plan(
    plan: &Plan,
    order: Option<&[usize]>,
    program: bool,
) -> Result<(Arc<CommitNode>, Vec<Option<(Arc<Final>, Arc<Final>)>>), types::Error> {
    types::Context::with_context(|ctx| {
        let built = build(&ctx, plan, order, None)?;
        let root = built[plan.root()].as_ref().unwrap();
        let commit = if program { root.finalize_types()? } else { root.finalize_types_non_program()? };
        let mut out = vec![None; plan.nodes.len()];
        for (i, n) in built.iter().enumerate() {
            if let Some(n) = n {
                let a = n.arrow().finalize()?;
                out[i] = Some((a.source, a.target));
            }
        }
        Ok((commit, out))
    })
}

/// redeem program of a plan: types inferred first, then witness values (random) of the inferred
/// target types attached at construction and `finalize_unpruned`.
pub fn redeem_of_plan(
    plan: &Plan,
    r: &mut Rng,
    program: bool,
) -> Result<(Arc<simplicity::RedeemNode>, HashMap<usize, Value>), String> {
    let (_, arrows) = arrows_of_plan(plan, None, program).map_err(|e| format!("type:{e}"))?;
    let mut wits = HashMap::new();
    for i in plan.reachable() {
        if plan.nodes[i] == PNode::Witness {
            let ty = arrows[i].as_ref().unwrap().1.clone();
            wits.insert(i, random_value(r, &ty));
        }
    }
    let red = redeem_with(plan, &wits, program)?;
    Ok((red, wits))
}

pub fn redeem_with(plan: &Plan, wits: &HashMap<usize, Value>, program: bool) -> Result<Arc<simplicity::RedeemNode>, String> {
    types::Context::with_context(|ctx| {
        let built = build(&ctx, plan, None, Some(wits)).map_err(|e| format!("type:{e}"))?;
        let root = built[plan.root()].as_ref().unwrap();
        if program {
            // 1 → 1 as `finalize_types` would set it
            let unit = types::Type::unit(&ctx);
            ctx.unify(&root.arrow().source, &unit, "root source").map_err(|e| format!("type:{e}"))?;
            ctx.unify(&root.arrow().target, &unit, "root target").map_err(|e| format!("type:{e}"))?;
        }
        root.finalize_unpruned().map_err(|e| format!("finalize:{e}"))
    })
}
