//! Shared by C10 and C11: reference model of Simplicity types and values (trees, no buffers), the
//! value *history expressions* of the line protocol (see lean/SimplicityModel/Driver/ValExpr.lean),
//! their evaluation with the real library and with the reference, and the generators.

#![allow(dead_code)]

use crate::ctx::Rng;
use simplicity::jet::CoreEnv;
use simplicity::node::CoreConstructible;
use simplicity::types::{self, CompleteBound, Final};
use simplicity::{BitIter, BitMachine, ConstructNode, Value};
use std::rc::Rc;
use std::sync::Arc;

// ---------------------------------------------------------------------------------------------
// reference types

pub enum K {
    One,
    Sum(Ty, Ty),
    Prod(Ty, Ty),
}
pub struct TyN {
    pub k: K,
    pub bw: usize,
    /// `Some(n)` when the type is 2^(2^n)
    pub word: Option<u8>,
    pub has_padding: bool,
    /// number of nodes of the type tree (saturating)
    pub size: u64,
}
#[derive(Clone)]
pub struct Ty(pub Rc<TyN>);

impl PartialEq for Ty {
    fn eq(&self, o: &Ty) -> bool {
        if Rc::ptr_eq(&self.0, &o.0) {
            return true;
        }
        if self.0.bw != o.0.bw || self.0.size != o.0.size || self.0.word != o.0.word {
            return false;
        }
        if self.0.word.is_some() {
            return true;
        }
        match (&self.0.k, &o.0.k) {
            (K::One, K::One) => true,
            (K::Sum(a, b), K::Sum(c, d)) | (K::Prod(a, b), K::Prod(c, d)) => a == c && b == d,
            _ => false,
        }
    }
}
impl Eq for Ty {}

impl Ty {
    pub fn one() -> Ty {
        Ty(Rc::new(TyN { k: K::One, bw: 0, word: None, has_padding: false, size: 1 }))
    }
    pub fn sum(a: Ty, b: Ty) -> Ty {
        let word = if matches!(a.0.k, K::One) && matches!(b.0.k, K::One) { Some(0) } else { None };
        Ty(Rc::new(TyN {
            bw: 1 + a.0.bw.max(b.0.bw),
            word,
            has_padding: a.0.has_padding || b.0.has_padding || a.0.bw != b.0.bw,
            size: 1u64.saturating_add(a.0.size).saturating_add(b.0.size),
            k: K::Sum(a, b),
        }))
    }
    pub fn prod(a: Ty, b: Ty) -> Ty {
        let word = match (a.0.word, b.0.word) {
            (Some(n), Some(m)) if n == m => Some(n + 1),
            _ => None,
        };
        Ty(Rc::new(TyN {
            bw: a.0.bw + b.0.bw,
            word,
            has_padding: a.0.has_padding || b.0.has_padding,
            size: 1u64.saturating_add(a.0.size).saturating_add(b.0.size),
            k: K::Prod(a, b),
        }))
    }
    pub fn word(n: usize) -> Ty {
        let mut t = Ty::sum(Ty::one(), Ty::one());
        for _ in 0..n {
            t = Ty::prod(t.clone(), t);
        }
        t
    }
    pub fn option(t: Ty) -> Ty {
        Ty::sum(Ty::one(), t)
    }
    /// `(2^8)^<2^(n+1)`
    pub fn buf(n: usize) -> Ty {
        let mut t = Ty::option(Ty::word(3));
        for i in 1..=n {
            t = Ty::prod(Ty::option(Ty::word(i + 3)), t);
        }
        t
    }
    pub fn ctx8() -> Ty {
        Ty::prod(Ty::buf(5), Ty::prod(Ty::word(6), Ty::word(8)))
    }
    pub fn bw(&self) -> usize {
        self.0.bw
    }
    pub fn is_one(&self) -> bool {
        matches!(self.0.k, K::One)
    }
    /// the library's type, built with the library's own constructors
    pub fn fin(&self) -> Arc<Final> {
        if let Some(n) = self.0.word {
            if n >= 4 {
                return Final::two_two_n(n as usize).expect("word type");
            }
        }
        match &self.0.k {
            K::One => Final::unit(),
            K::Sum(a, b) => Final::sum(a.fin(), b.fin()),
            K::Prod(a, b) => Final::product(a.fin(), b.fin()),
        }
    }
    /// structural reading of the library's type (does not look at TMRs)
    pub fn from_fin(f: &Final) -> Ty {
        match f.bound() {
            CompleteBound::Unit => Ty::one(),
            CompleteBound::Sum(a, b) => Ty::sum(Ty::from_fin(a), Ty::from_fin(b)),
            CompleteBound::Product(a, b) => Ty::prod(Ty::from_fin(a), Ty::from_fin(b)),
        }
    }
    pub fn show_into(&self, out: &mut String) {
        if let Some(n) = self.0.word {
            if n <= 15 {
                out.push('w');
                out.push(std::char::from_digit(n as u32, 16).unwrap());
                return;
            }
        }
        match &self.0.k {
            K::One => out.push('1'),
            K::Sum(a, b) => {
                out.push('+');
                a.show_into(out);
                b.show_into(out);
            }
            K::Prod(a, b) => {
                out.push('*');
                a.show_into(out);
                b.show_into(out);
            }
        }
    }
    pub fn show(&self) -> String {
        let mut s = String::new();
        self.show_into(&mut s);
        s
    }
    pub fn parse(s: &str) -> Option<Ty> {
        fn go(c: &[u8], pos: &mut usize) -> Option<Ty> {
            let ch = *c.get(*pos)?;
            *pos += 1;
            match ch {
                b'1' => Some(Ty::one()),
                b'+' => {
                    let a = go(c, pos)?;
                    let b = go(c, pos)?;
                    Some(Ty::sum(a, b))
                }
                b'*' => {
                    let a = go(c, pos)?;
                    let b = go(c, pos)?;
                    Some(Ty::prod(a, b))
                }
                b'w' | b'b' => {
                    let d = (*c.get(*pos)? as char).to_digit(16)? as usize;
                    *pos += 1;
                    Some(if ch == b'w' { Ty::word(d) } else { Ty::buf(d) })
                }
                _ => None,
            }
        }
        let mut pos = 0;
        let t = go(s.as_bytes(), &mut pos)?;
        if pos == s.len() {
            Some(t)
        } else {
            None
        }
    }
    /// `self ≤ o`: unit below everything, sums and products component-wise
    pub fn le(&self, o: &Ty) -> bool {
        match (&self.0.k, &o.0.k) {
            (K::One, _) => true,
            (K::Sum(a, b), K::Sum(c, d)) | (K::Prod(a, b), K::Prod(c, d)) => a.le(c) && b.le(d),
            _ => false,
        }
    }
}

// ---------------------------------------------------------------------------------------------
// reference values

#[derive(Clone, PartialEq, Eq, Debug)]
pub enum V {
    U,
    L(Rc<V>),
    R(Rc<V>),
    P(Rc<V>, Rc<V>),
}

pub fn padded(t: &Ty, v: &V, pad: &mut dyn FnMut() -> bool, out: &mut Vec<bool>) {
    match (&t.0.k, v) {
        (K::One, V::U) => {}
        (K::Sum(a, b), V::L(x)) => {
            out.push(false);
            for _ in 0..(a.bw().max(b.bw()) - a.bw()) {
                out.push(pad());
            }
            padded(a, x, pad, out);
        }
        (K::Sum(a, b), V::R(y)) => {
            out.push(true);
            for _ in 0..(a.bw().max(b.bw()) - b.bw()) {
                out.push(pad());
            }
            padded(b, y, pad, out);
        }
        (K::Prod(a, b), V::P(x, y)) => {
            padded(a, x, pad, out);
            padded(b, y, pad, out);
        }
        _ => panic!("harness: ill-typed reference value"),
    }
}

pub fn compact(v: &V, out: &mut Vec<bool>) {
    match v {
        V::U => {}
        V::L(x) => {
            out.push(false);
            compact(x, out);
        }
        V::R(y) => {
            out.push(true);
            compact(y, out);
        }
        V::P(x, y) => {
            compact(x, out);
            compact(y, out);
        }
    }
}
pub fn compact_of(v: &V) -> Vec<bool> {
    let mut o = vec![];
    compact(v, &mut o);
    o
}

/// type-directed reading of a padded encoding; `None` when the bits run out
pub fn dec_padded(t: &Ty, bits: &[bool], pos: &mut usize) -> Option<V> {
    match &t.0.k {
        K::One => Some(V::U),
        K::Sum(a, b) => {
            let tag = *bits.get(*pos)?;
            *pos += 1;
            let w = a.bw().max(b.bw());
            if !tag {
                *pos += w - a.bw();
                Some(V::L(Rc::new(dec_padded(a, bits, pos)?)))
            } else {
                *pos += w - b.bw();
                Some(V::R(Rc::new(dec_padded(b, bits, pos)?)))
            }
        }
        K::Prod(a, b) => {
            let x = dec_padded(a, bits, pos)?;
            let y = dec_padded(b, bits, pos)?;
            Some(V::P(Rc::new(x), Rc::new(y)))
        }
    }
}

pub fn dec_compact(t: &Ty, bits: &[bool], pos: &mut usize) -> Option<V> {
    match &t.0.k {
        K::One => Some(V::U),
        K::Sum(a, b) => {
            let tag = *bits.get(*pos)?;
            *pos += 1;
            if !tag {
                Some(V::L(Rc::new(dec_compact(a, bits, pos)?)))
            } else {
                Some(V::R(Rc::new(dec_compact(b, bits, pos)?)))
            }
        }
        K::Prod(a, b) => {
            let x = dec_compact(a, bits, pos)?;
            let y = dec_compact(b, bits, pos)?;
            Some(V::P(Rc::new(x), Rc::new(y)))
        }
    }
}

/// the padded form with the sum padding removed
pub fn strip(t: &Ty, bits: &[bool], pos: &mut usize, out: &mut Vec<bool>) -> Option<()> {
    match &t.0.k {
        K::One => Some(()),
        K::Sum(a, b) => {
            let tag = *bits.get(*pos)?;
            *pos += 1;
            out.push(tag);
            let w = a.bw().max(b.bw());
            if !tag {
                *pos += w - a.bw();
                strip(a, bits, pos, out)
            } else {
                *pos += w - b.bw();
                strip(b, bits, pos, out)
            }
        }
        K::Prod(a, b) => {
            strip(a, bits, pos, out)?;
            strip(b, bits, pos, out)
        }
    }
}

/// value-directed projection to `t` (what `Value::prune` does); `None` = no truncation of `v`
/// has type `t`
pub fn ref_prune(v: &V, t: &Ty) -> Option<V> {
    match (v, &t.0.k) {
        (_, K::One) => Some(V::U),
        (V::L(x), K::Sum(a, _)) => Some(V::L(Rc::new(ref_prune(x, a)?))),
        (V::R(y), K::Sum(_, b)) => Some(V::R(Rc::new(ref_prune(y, b)?))),
        (V::P(x, y), K::Prod(a, b)) => Some(V::P(Rc::new(ref_prune(x, a)?), Rc::new(ref_prune(y, b)?))),
        _ => None,
    }
}

pub fn has_ty(v: &V, t: &Ty) -> bool {
    match (v, &t.0.k) {
        (V::U, K::One) => true,
        (V::L(x), K::Sum(a, _)) => has_ty(x, a),
        (V::R(y), K::Sum(_, b)) => has_ty(y, b),
        (V::P(x, y), K::Prod(a, b)) => has_ty(x, a) && has_ty(y, b),
        _ => false,
    }
}

/// the element `Value::buffer8_two_n_plus_one(n, data)` stands for: from the top level down, an
/// optional block of `2^k` bytes for every bit `k` of the length
pub fn buf_val(n: usize, data: &[u8]) -> V {
    let nb = 1usize << n;
    let (head, rest) = if data.len() & nb != 0 { (Some(&data[..nb]), &data[nb..]) } else { (None, data) };
    let hv = match head {
        Some(b) => {
            let bits = bytes_to_bits(b);
            let mut pos = 0;
            V::R(Rc::new(dec_padded(&Ty::word(n + 3), &bits, &mut pos).expect("harness: word bits")))
        }
        None => V::L(Rc::new(V::U)),
    };
    if n == 0 {
        hv
    } else {
        V::P(Rc::new(hv), Rc::new(buf_val(n - 1, rest)))
    }
}

pub fn zero_val(t: &Ty) -> V {
    match &t.0.k {
        K::One => V::U,
        K::Sum(a, _) => V::L(Rc::new(zero_val(a))),
        K::Prod(a, b) => V::P(Rc::new(zero_val(a)), Rc::new(zero_val(b))),
    }
}

// ---------------------------------------------------------------------------------------------
// bits and bytes

pub fn bits_to_bytes(bits: &[bool]) -> Vec<u8> {
    let mut out = vec![0u8; (bits.len() + 7) / 8];
    for (i, b) in bits.iter().enumerate() {
        if *b {
            out[i / 8] |= 1 << (7 - i % 8);
        }
    }
    out
}
pub fn bytes_to_bits(bytes: &[u8]) -> Vec<bool> {
    let mut out = Vec::with_capacity(bytes.len() * 8);
    for b in bytes {
        for i in 0..8 {
            out.push(b & (1 << (7 - i)) != 0);
        }
    }
    out
}
pub fn show_bits(bits: &[bool]) -> String {
    if bits.is_empty() {
        "-".into()
    } else {
        bits.iter().map(|b| if *b { '1' } else { '0' }).collect()
    }
}
pub fn show_hex(bytes: &[u8]) -> String {
    if bytes.is_empty() {
        return "-".into();
    }
    let mut s = String::with_capacity(bytes.len() * 2);
    for b in bytes {
        s.push_str(&format!("{:02x}", b));
    }
    s
}
pub fn parse_hex(s: &str) -> Option<Vec<u8>> {
    if s == "-" {
        return Some(vec![]);
    }
    if s.len() % 2 != 0 {
        return None;
    }
    (0..s.len() / 2).map(|i| u8::from_str_radix(&s[2 * i..2 * i + 2], 16).ok()).collect()
}

// ---------------------------------------------------------------------------------------------
// history expressions

#[derive(Clone)]
pub enum E {
    U,
    L(Box<E>, Ty),
    R(Ty, Box<E>),
    P(Box<E>, Box<E>),
    Z(Ty),
    W(u8, Vec<u8>),
    /// `Value::buffer8_two_n_plus_one(n, data)`
    B(usize, Vec<u8>),
    DP(Ty, usize, Vec<u8>),
    DC(Ty, usize, Vec<u8>),
    AL(Box<E>),
    AR(Box<E>),
    A1(Box<E>),
    A2(Box<E>),
    PR(Ty, Box<E>),
    /// Bit Machine running `iden` (false) or `comp iden iden` (true)
    M(bool, Box<E>),
}

impl E {
    pub fn show_into(&self, o: &mut String) {
        match self {
            E::U => o.push('U'),
            E::L(e, t) => {
                o.push_str("L ");
                e.show_into(o);
                o.push(' ');
                t.show_into(o);
            }
            E::R(t, e) => {
                o.push_str("R ");
                t.show_into(o);
                o.push(' ');
                e.show_into(o);
            }
            E::P(a, b) => {
                o.push_str("P ");
                a.show_into(o);
                o.push(' ');
                b.show_into(o);
            }
            E::Z(t) => {
                o.push_str("Z ");
                t.show_into(o);
            }
            E::W(n, b) => o.push_str(&format!("W {} {}", n, show_hex(b))),
            E::B(n, b) => o.push_str(&format!("B {} {}", n, show_hex(b))),
            E::DP(t, k, b) => {
                o.push_str("DP ");
                t.show_into(o);
                o.push_str(&format!(" {} {}", k, show_hex(b)));
            }
            E::DC(t, k, b) => {
                o.push_str("DC ");
                t.show_into(o);
                o.push_str(&format!(" {} {}", k, show_hex(b)));
            }
            E::AL(e) => {
                o.push_str("AL ");
                e.show_into(o);
            }
            E::AR(e) => {
                o.push_str("AR ");
                e.show_into(o);
            }
            E::A1(e) => {
                o.push_str("A1 ");
                e.show_into(o);
            }
            E::A2(e) => {
                o.push_str("A2 ");
                e.show_into(o);
            }
            E::PR(t, e) => {
                o.push_str("PR ");
                t.show_into(o);
                o.push(' ');
                e.show_into(o);
            }
            E::M(two, e) => {
                o.push_str(if *two { "M2 " } else { "M " });
                e.show_into(o);
            }
        }
    }
    pub fn show(&self) -> String {
        let mut s = String::new();
        self.show_into(&mut s);
        s
    }
    /// parse one expression from the token stream
    pub fn parse(t: &[&str], pos: &mut usize) -> Option<E> {
        let tok = *t.get(*pos)?;
        *pos += 1;
        let ty = |pos: &mut usize| -> Option<Ty> {
            let r = Ty::parse(t.get(*pos)?);
            *pos += 1;
            r
        };
        Some(match tok {
            "U" => E::U,
            "L" => {
                let e = E::parse(t, pos)?;
                let b = ty(pos)?;
                E::L(Box::new(e), b)
            }
            "R" => {
                let a = ty(pos)?;
                E::R(a, Box::new(E::parse(t, pos)?))
            }
            "P" => {
                let a = E::parse(t, pos)?;
                let b = E::parse(t, pos)?;
                E::P(Box::new(a), Box::new(b))
            }
            "Z" => E::Z(ty(pos)?),
            "W" => {
                let n: u8 = t.get(*pos)?.parse().ok()?;
                let b = parse_hex(t.get(*pos + 1)?)?;
                *pos += 2;
                E::W(n, b)
            }
            "B" => {
                let n: usize = t.get(*pos)?.parse().ok()?;
                let b = parse_hex(t.get(*pos + 1)?)?;
                *pos += 2;
                E::B(n, b)
            }
            "DP" | "DC" => {
                let a = ty(pos)?;
                let k: usize = t.get(*pos)?.parse().ok()?;
                let b = parse_hex(t.get(*pos + 1)?)?;
                *pos += 2;
                if tok == "DP" {
                    E::DP(a, k, b)
                } else {
                    E::DC(a, k, b)
                }
            }
            "AL" => E::AL(Box::new(E::parse(t, pos)?)),
            "AR" => E::AR(Box::new(E::parse(t, pos)?)),
            "A1" => E::A1(Box::new(E::parse(t, pos)?)),
            "A2" => E::A2(Box::new(E::parse(t, pos)?)),
            "PR" => {
                let a = ty(pos)?;
                E::PR(a, Box::new(E::parse(t, pos)?))
            }
            "M" => E::M(false, Box::new(E::parse(t, pos)?)),
            "M2" => E::M(true, Box::new(E::parse(t, pos)?)),
            _ => return None,
        })
    }
    pub fn parse_all(t: &[&str]) -> Option<E> {
        let mut pos = 0;
        let e = E::parse(t, &mut pos)?;
        if pos == t.len() {
            Some(e)
        } else {
            None
        }
    }
}

/// a `BitIter` over `bytes` with `skip` bits already read
pub fn bit_iter(bytes: &[u8], skip: usize) -> BitIter<std::iter::Copied<std::slice::Iter<'_, u8>>> {
    let mut it = BitIter::from(bytes);
    for _ in 0..skip {
        let _ = it.next();
    }
    it
}

pub fn lib_word(n: u8, b: &[u8]) -> Result<Value, &'static str> {
    let need = if n < 3 { 1 } else { 1usize << (n - 3) };
    if b.len() != need {
        return Err("bad-expr");
    }
    Ok(match n {
        0 => Value::u1(b[0]),
        1 => Value::u2(b[0]),
        2 => Value::u4(b[0]),
        3 => Value::u8(b[0]),
        4 => Value::u16(u16::from_be_bytes(b.try_into().unwrap())),
        5 => Value::u32(u32::from_be_bytes(b.try_into().unwrap())),
        6 => Value::u64(u64::from_be_bytes(b.try_into().unwrap())),
        7 => Value::u128(u128::from_be_bytes(b.try_into().unwrap())),
        8 => Value::u256(b.try_into().unwrap()),
        9 => Value::u512(b.try_into().unwrap()),
        _ => return Err("bad-expr"),
    })
}

/// run `iden` (or `comp iden iden`) of the value's type on the Bit Machine
pub fn machine_iden(v: &Value, two: bool) -> Result<Value, String> {
    let fin = Arc::new(v.ty().clone());
    let red = types::Context::with_context(|ctx| {
        let n = Arc::<ConstructNode>::iden(&ctx);
        let n = if two {
            Arc::<ConstructNode>::comp(&n, &Arc::<ConstructNode>::iden(&ctx)).map_err(|e| e.to_string())?
        } else {
            n
        };
        let ty = types::Type::complete(&ctx, fin.clone());
        ctx.unify(&n.arrow().source, &ty, "harness: pin the source type").map_err(|e| e.to_string())?;
        n.finalize_unpruned().map_err(|e| e.to_string())
    })?;
    let mut mac = BitMachine::for_program(&red).map_err(|e| e.to_string())?;
    mac.input(v).map_err(|e| e.to_string())?;
    mac.exec(&red, &CoreEnv::new()).map_err(|e| e.to_string())
}

/// evaluate with the real library
pub fn eval_lib(e: &E) -> Result<Value, String> {
    Ok(match e {
        E::U => Value::unit(),
        E::L(x, b) => Value::left(eval_lib(x)?, b.fin()),
        E::R(a, x) => Value::right(a.fin(), eval_lib(x)?),
        E::P(x, y) => {
            let l = eval_lib(x)?;
            let r = eval_lib(y)?;
            Value::product(l, r)
        }
        E::Z(t) => Value::zero(&t.fin()),
        E::W(n, b) => lib_word(*n, b)?,
        E::B(n, b) => Value::buffer8_two_n_plus_one(*n, b).map_err(|_| "too-long".to_string())?,
        E::DP(t, k, b) => {
            let mut it = bit_iter(b, *k);
            Value::from_padded_bits(&mut it, &t.fin()).map_err(|_| "eof".to_string())?
        }
        E::DC(t, k, b) => {
            let mut it = bit_iter(b, *k);
            Value::from_compact_bits(&mut it, &t.fin()).map_err(|_| "eof".to_string())?
        }
        E::AL(x) => eval_lib(x)?.as_left().ok_or("stuck")?.to_value(),
        E::AR(x) => eval_lib(x)?.as_right().ok_or("stuck")?.to_value(),
        E::A1(x) => eval_lib(x)?.as_product().ok_or("stuck")?.0.to_value(),
        E::A2(x) => eval_lib(x)?.as_product().ok_or("stuck")?.1.to_value(),
        E::PR(t, x) => eval_lib(x)?.prune(&t.fin()).ok_or("stuck")?,
        E::M(two, x) => machine_iden(&eval_lib(x)?, *two)?,
    })
}

/// evaluate in the reference model: the type and the abstract element, no buffers
pub fn eval_ref(e: &E) -> Result<(Ty, V), String> {
    Ok(match e {
        E::U => (Ty::one(), V::U),
        E::L(x, b) => {
            let (t, v) = eval_ref(x)?;
            (Ty::sum(t, b.clone()), V::L(Rc::new(v)))
        }
        E::R(a, x) => {
            let (t, v) = eval_ref(x)?;
            (Ty::sum(a.clone(), t), V::R(Rc::new(v)))
        }
        E::P(x, y) => {
            let (t1, v1) = eval_ref(x)?;
            let (t2, v2) = eval_ref(y)?;
            (Ty::prod(t1, t2), V::P(Rc::new(v1), Rc::new(v2)))
        }
        E::Z(t) => (t.clone(), zero_val(t)),
        E::W(n, b) => {
            let t = Ty::word(*n as usize);
            let bits = bytes_to_bits(b);
            let mut pos = if *n < 3 { 8 - (1usize << n) } else { 0 };
            let v = dec_padded(&t, &bits, &mut pos).ok_or("bad-expr")?;
            (t, v)
        }
        E::B(n, b) => {
            if *n > 7 || b.len() >= 2usize << n {
                return Err("too-long".into());
            }
            (Ty::buf(*n), buf_val(*n, b))
        }
        E::DP(t, k, b) => {
            let bits = bytes_to_bits(b);
            let mut pos = *k;
            let v = dec_padded(t, &bits, &mut pos).ok_or("eof")?;
            if pos > bits.len() {
                return Err("eof".into());
            }
            (t.clone(), v)
        }
        E::DC(t, k, b) => {
            let bits = bytes_to_bits(b);
            let mut pos = *k;
            let v = dec_compact(t, &bits, &mut pos).ok_or("eof")?;
            (t.clone(), v)
        }
        E::AL(x) => match eval_ref(x)? {
            (t, V::L(v)) => match &t.0.k {
                K::Sum(a, _) => (a.clone(), (*v).clone()),
                _ => return Err("stuck".into()),
            },
            _ => return Err("stuck".into()),
        },
        E::AR(x) => match eval_ref(x)? {
            (t, V::R(v)) => match &t.0.k {
                K::Sum(_, b) => (b.clone(), (*v).clone()),
                _ => return Err("stuck".into()),
            },
            _ => return Err("stuck".into()),
        },
        E::A1(x) => match eval_ref(x)? {
            (t, V::P(v, _)) => match &t.0.k {
                K::Prod(a, _) => (a.clone(), (*v).clone()),
                _ => return Err("stuck".into()),
            },
            _ => return Err("stuck".into()),
        },
        E::A2(x) => match eval_ref(x)? {
            (t, V::P(_, v)) => match &t.0.k {
                K::Prod(_, b) => (b.clone(), (*v).clone()),
                _ => return Err("stuck".into()),
            },
            _ => return Err("stuck".into()),
        },
        E::PR(t, x) => {
            let (_, v) = eval_ref(x)?;
            (t.clone(), ref_prune(&v, t).ok_or("stuck")?)
        }
        E::M(_, x) => eval_ref(x)?,
    })
}

// ---------------------------------------------------------------------------------------------
// observation helpers

/// (type, compact bits) of a library value as text
pub fn show_sub(v: &Value) -> String {
    let c: Vec<bool> = v.iter_compact().collect();
    format!("{}:{}", Ty::from_fin(v.ty()).show(), show_bits(&c))
}

/// buffer bytes and bit offset, read off the `Debug` rendering of `Value` (the only way to see
/// them from outside); `None` when the rendering is not the expected one
pub fn raw_of(v: &Value) -> Option<(Vec<u8>, usize)> {
    let s = format!("{:?}", v);
    let i = s.rfind("raw_value: [")?;
    let rest = &s[i + "raw_value: [".len()..];
    let j = rest.find(']')?;
    let inner = rest[..j].trim();
    let mut bytes = vec![];
    if !inner.is_empty() {
        for p in inner.split(',') {
            bytes.push(p.trim().parse::<u8>().ok()?);
        }
    }
    let k = rest.find("raw_bit_offset: ")?;
    let tail = &rest[k + "raw_bit_offset: ".len()..];
    let digits: String = tail.chars().take_while(|c| c.is_ascii_digit()).collect();
    Some((bytes, digits.parse().ok()?))
}

// ---------------------------------------------------------------------------------------------
// generators

/// a type with exactly `w` bits of width and no sums of unequal width (for choosing offsets)
pub fn bits_ty(w: usize) -> Ty {
    let mut t = Ty::one();
    for _ in 0..w {
        t = Ty::prod(Ty::word(0), t);
    }
    t
}

pub fn gen_small_ty(r: &mut Rng, d: usize) -> Ty {
    if d == 0 {
        return match r.below(4) {
            0 => Ty::word(0),
            _ => Ty::one(),
        };
    }
    match r.below(10) {
        0 => Ty::one(),
        1 => Ty::word(r.below(4) as usize),
        2..=5 => Ty::sum(gen_small_ty(r, d - 1), gen_small_ty(r, d - 1)),
        _ => Ty::prod(gen_small_ty(r, d - 1), gen_small_ty(r, d - 1)),
    }
}

pub const TY_KINDS: [&str; 6] = ["small", "nested-sum-unequal", "unit-heavy-product", "word", "buffer-ctx8", "mixed"];

/// types of the kinds the property names; returns the kind
pub fn gen_ty(r: &mut Rng, big: bool) -> (Ty, &'static str) {
    match r.below(12) {
        0..=2 => {
            let d = 1 + r.below(4) as usize;
            (gen_small_ty(r, d), "small")
        }
        3 | 4 => {
            // nested sums of unequal width
            let mut t = Ty::word(r.below(4) as usize);
            for _ in 0..(1 + r.below(4)) {
                let other = match r.below(5) {
                    0 => Ty::one(),
                    1 => Ty::word(r.below(5) as usize),
                    2 => bits_ty(r.below(12) as usize),
                    3 => Ty::option(Ty::word(r.below(4) as usize)),
                    _ => gen_small_ty(r, 2),
                };
                t = if r.bool() { Ty::sum(t, other) } else { Ty::sum(other, t) };
                if r.chance(1, 3) {
                    t = Ty::prod(t, bits_ty(r.below(4) as usize));
                }
            }
            (t, "nested-sum-unequal")
        }
        5 | 6 => {
            // unit-heavy products
            let mut t = if r.bool() { Ty::one() } else { Ty::word(r.below(3) as usize) };
            for _ in 0..(1 + r.below(6)) {
                let other = match r.below(6) {
                    0..=2 => Ty::one(),
                    3 => Ty::prod(Ty::one(), Ty::one()),
                    4 => Ty::sum(Ty::one(), Ty::prod(Ty::one(), Ty::one())),
                    _ => Ty::word(r.below(3) as usize),
                };
                t = if r.bool() { Ty::prod(t, other) } else { Ty::prod(other, t) };
                if r.chance(1, 4) {
                    t = Ty::sum(t, Ty::one());
                }
            }
            (t, "unit-heavy-product")
        }
        7 | 8 => {
            let n = if big && r.chance(1, 3) { 8 } else if r.chance(1, 4) { 5 + r.below(3) } else { r.below(6) };
            (Ty::word(n as usize), "word")
        }
        9 => {
            let t = match r.below(6) {
                0 if big => Ty::ctx8(),
                1 if big => Ty::buf(5),
                2 => Ty::buf(1),
                3 => Ty::buf(2),
                4 => Ty::option(Ty::buf(0)),
                _ => Ty::buf(r.below(if big { 5 } else { 3 }) as usize),
            };
            (t, "buffer-ctx8")
        }
        _ => {
            // words and options inside sums and products
            let a = Ty::word(r.below(if big { 8 } else { 5 }) as usize);
            let b = gen_small_ty(r, 2);
            let t = match r.below(4) {
                0 => Ty::sum(a, b),
                1 => Ty::sum(b, a),
                2 => Ty::prod(Ty::option(a), b),
                _ => Ty::prod(b, Ty::sum(a, Ty::word(r.below(4) as usize))),
            };
            (t, "mixed")
        }
    }
}

pub fn gen_val(r: &mut Rng, t: &Ty) -> V {
    match &t.0.k {
        K::One => V::U,
        K::Sum(a, b) => {
            if r.bool() {
                V::L(Rc::new(gen_val(r, a)))
            } else {
                V::R(Rc::new(gen_val(r, b)))
            }
        }
        K::Prod(a, b) => V::P(Rc::new(gen_val(r, a)), Rc::new(gen_val(r, b))),
    }
}

/// a value near `v`: one tag or leaf changed (same type); `None` if the type has one element
pub fn near_miss(r: &mut Rng, t: &Ty, v: &V) -> Option<V> {
    match (&t.0.k, v) {
        (K::One, _) => None,
        (K::Sum(a, b), V::L(x)) => {
            if r.chance(1, 2) {
                if let Some(x2) = near_miss(r, a, x) {
                    return Some(V::L(Rc::new(x2)));
                }
            }
            Some(V::R(Rc::new(gen_val(r, b))))
        }
        (K::Sum(a, b), V::R(y)) => {
            if r.chance(1, 2) {
                if let Some(y2) = near_miss(r, b, y) {
                    return Some(V::R(Rc::new(y2)));
                }
            }
            Some(V::L(Rc::new(gen_val(r, a))))
        }
        (K::Prod(a, b), V::P(x, y)) => {
            let first = r.bool();
            if first {
                if let Some(x2) = near_miss(r, a, x) {
                    return Some(V::P(Rc::new(x2), y.clone()));
                }
            }
            if let Some(y2) = near_miss(r, b, y) {
                return Some(V::P(x.clone(), Rc::new(y2)));
            }
            if !first {
                if let Some(x2) = near_miss(r, a, x) {
                    return Some(V::P(Rc::new(x2), y.clone()));
                }
            }
            None
        }
        _ => None,
    }
}

/// a type below `t` (units in place of some sub-types)
pub fn shrink_ty(r: &mut Rng, t: &Ty) -> Ty {
    if r.chance(1, 4) {
        return Ty::one();
    }
    match &t.0.k {
        K::One => Ty::one(),
        K::Sum(a, b) => Ty::sum(shrink_ty(r, a), shrink_ty(r, b)),
        K::Prod(a, b) => Ty::prod(shrink_ty(r, a), shrink_ty(r, b)),
    }
}

/// a (type, value) above `(t, v)`: unit leaves replaced by something bigger; the untaken side of
/// a sum may change freely
pub fn enlarge(r: &mut Rng, t: &Ty, v: &V, d: usize) -> (Ty, V) {
    match (&t.0.k, v) {
        (K::One, _) => {
            if d == 0 || r.chance(1, 2) {
                (Ty::one(), V::U)
            } else {
                let t2 = if r.chance(1, 3) { Ty::word(r.below(5) as usize) } else { gen_small_ty(r, 2) };
                let v2 = gen_val(r, &t2);
                (t2, v2)
            }
        }
        (K::Sum(a, b), V::L(x)) => {
            let (a2, x2) = enlarge(r, a, x, d.saturating_sub(1));
            let b2 = if r.chance(1, 3) { gen_small_ty(r, 2) } else { b.clone() };
            (Ty::sum(a2, b2), V::L(Rc::new(x2)))
        }
        (K::Sum(a, b), V::R(y)) => {
            let (b2, y2) = enlarge(r, b, y, d.saturating_sub(1));
            let a2 = if r.chance(1, 3) { gen_small_ty(r, 2) } else { a.clone() };
            (Ty::sum(a2, b2), V::R(Rc::new(y2)))
        }
        (K::Prod(a, b), V::P(x, y)) => {
            let (a2, x2) = enlarge(r, a, x, d.saturating_sub(1));
            let (b2, y2) = enlarge(r, b, y, d.saturating_sub(1));
            (Ty::prod(a2, b2), V::P(Rc::new(x2), Rc::new(y2)))
        }
        _ => panic!("harness: ill-typed value in enlarge"),
    }
}

pub const NR: usize = 10;
pub const ROUTES: [&str; NR] =
    ["constructors", "word-constructor", "decode-padded", "decode-compact", "sub-value", "prune", "machine", "zero", "unit", "buffer-constructor"];

pub struct GenStats {
    pub routes: [u64; NR],
}

/// an expression whose value is `(t, v)`, by a random history; `budget` bounds the number of
/// constructor nodes, `depth` the nesting of the indirect routes
pub fn gen_expr(r: &mut Rng, t: &Ty, v: &V, depth: usize, budget: &mut i64, used: &mut [u64; NR]) -> E {
    *budget -= 1;
    let big = t.0.size > 40;
    // candidate routes
    let mut opts: Vec<u8> = vec![];
    if *budget > t.0.size as i64 || !big {
        opts.extend([0, 0, 0]);
    }
    if let Some(n) = t.0.word {
        if n <= 9 {
            opts.extend([1, 1]);
        }
    }
    opts.extend([2, 2, 3]);
    if depth > 0 {
        opts.extend([4, 4, 4, 5]);
        if t.bw() <= 600 {
            opts.push(6);
        }
    }
    if *v == zero_val(t) && r.chance(1, 2) {
        opts.push(7);
        opts.push(7);
    }
    let o = *r.pick(&opts);
    match o {
        0 => match (&t.0.k, v) {
            (K::One, _) => {
                used[8] += 1;
                E::U
            }
            (K::Sum(a, b), V::L(x)) => {
                used[0] += 1;
                E::L(Box::new(gen_expr(r, a, x, depth, budget, used)), b.clone())
            }
            (K::Sum(a, b), V::R(y)) => {
                used[0] += 1;
                E::R(a.clone(), Box::new(gen_expr(r, b, y, depth, budget, used)))
            }
            (K::Prod(a, b), V::P(x, y)) => {
                used[0] += 1;
                let l = gen_expr(r, a, x, depth, budget, used);
                let rr = gen_expr(r, b, y, depth, budget, used);
                E::P(Box::new(l), Box::new(rr))
            }
            _ => panic!("harness: ill-typed value in gen_expr"),
        },
        1 => {
            used[1] += 1;
            let n = t.0.word.unwrap();
            let bits = compact_of(v);
            let bytes = if n < 3 {
                let mut x = 0u8;
                for b in &bits {
                    x = (x << 1) | (*b as u8);
                }
                vec![x]
            } else {
                bits_to_bytes(&bits)
            };
            E::W(n, bytes)
        }
        2 => {
            used[2] += 1;
            let skip = if r.chance(1, 3) { 0 } else { r.below(17) as usize };
            let mut bits: Vec<bool> = (0..skip).map(|_| r.bool()).collect();
            let mut rr = r.fork();
            let dirty = r.chance(3, 4);
            padded(t, v, &mut || dirty && rr.bool(), &mut bits);
            for _ in 0..r.below(12) {
                bits.push(r.bool());
            }
            // the unused bits of the last byte are random too
            let mut bytes = bits_to_bytes(&bits);
            if bits.len() % 8 != 0 {
                let keep = bits.len() % 8;
                let last = bytes.len() - 1;
                bytes[last] |= (r.next() as u8) >> keep;
            }
            E::DP(t.clone(), skip, bytes)
        }
        3 => {
            used[3] += 1;
            let skip = if r.chance(1, 3) { 0 } else { r.below(17) as usize };
            let mut bits: Vec<bool> = (0..skip).map(|_| r.bool()).collect();
            compact(v, &mut bits);
            for _ in 0..r.below(12) {
                bits.push(r.bool());
            }
            let mut bytes = bits_to_bytes(&bits);
            if bits.len() % 8 != 0 {
                let keep = bits.len() % 8;
                let last = bytes.len() - 1;
                bytes[last] |= (r.next() as u8) >> keep;
            }
            E::DC(t.clone(), skip, bytes)
        }
        4 => {
            used[4] += 1;
            // sub-value of a larger value; the neighbour's width moves the bit offset
            let other = match r.below(5) {
                0 => bits_ty(r.below(16) as usize),
                1 => Ty::word(r.below(4) as usize),
                2 => gen_small_ty(r, 2),
                _ => bits_ty(1 + r.below(7) as usize),
            };
            let ov = gen_val(r, &other);
            match r.below(4) {
                0 => {
                    let bt = Ty::sum(t.clone(), other);
                    let bv = V::L(Rc::new(v.clone()));
                    E::AL(Box::new(gen_expr(r, &bt, &bv, depth - 1, budget, used)))
                }
                1 => {
                    let bt = Ty::sum(other, t.clone());
                    let bv = V::R(Rc::new(v.clone()));
                    E::AR(Box::new(gen_expr(r, &bt, &bv, depth - 1, budget, used)))
                }
                2 => {
                    let bt = Ty::prod(t.clone(), other);
                    let bv = V::P(Rc::new(v.clone()), Rc::new(ov));
                    E::A1(Box::new(gen_expr(r, &bt, &bv, depth - 1, budget, used)))
                }
                _ => {
                    let bt = Ty::prod(other, t.clone());
                    let bv = V::P(Rc::new(ov), Rc::new(v.clone()));
                    E::A2(Box::new(gen_expr(r, &bt, &bv, depth - 1, budget, used)))
                }
            }
        }
        5 => {
            used[5] += 1;
            let (bt, bv) = enlarge(r, t, v, 3);
            E::PR(t.clone(), Box::new(gen_expr(r, &bt, &bv, depth - 1, budget, used)))
        }
        6 => {
            used[6] += 1;
            E::M(r.chance(1, 3), Box::new(gen_expr(r, t, v, depth - 1, budget, used)))
        }
        _ => {
            used[7] += 1;
            E::Z(t.clone())
        }
    }
}

/// which routes an expression contains (indices into `ROUTES`)
pub fn routes_of(e: &E, acc: &mut [bool; NR]) {
    match e {
        E::U => acc[8] = true,
        E::L(x, _) | E::R(_, x) => {
            acc[0] = true;
            routes_of(x, acc)
        }
        E::P(x, y) => {
            acc[0] = true;
            routes_of(x, acc);
            routes_of(y, acc)
        }
        E::Z(_) => acc[7] = true,
        E::W(..) => acc[1] = true,
        E::B(..) => acc[9] = true,
        E::DP(..) => acc[2] = true,
        E::DC(..) => acc[3] = true,
        E::AL(x) | E::AR(x) | E::A1(x) | E::A2(x) => {
            acc[4] = true;
            routes_of(x, acc)
        }
        E::PR(_, x) => {
            acc[5] = true;
            routes_of(x, acc)
        }
        E::M(_, x) => {
            acc[6] = true;
            routes_of(x, acc)
        }
    }
}
