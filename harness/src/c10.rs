//! C10 — value encodings, accessors and pruning follow the type's bit layout (`src/value.rs`).
//!
//! A value is given by the *history* that produced it, a prefix expression over the library's own
//! operations (grammar in `c10/vx.rs` and lean/SimplicityModel/Driver/ValExpr.lean).  The harness
//! evaluates the expression with the real library, and independently in a reference model on
//! abstract trees (no buffers); the Lean driver evaluates it in the byte-buffer model `RVal`.
//!
//! ops:   `v <expr>`             → type, padded_len, compact_len, iter_padded, iter_compact, as_left, as_right, as_product
//!        `raw <expr>`           → buffer bytes and bit offset (from the Debug rendering)
//!        `dp <T> <skip> <hex>`  → from_padded_bits: `ok <bits consumed> <T> c=… p=…` | `eof`
//!        `dc <T> <skip> <hex>`  → from_compact_bits, same
//!        `pr <T> <expr>`        → prune: `<T> c=… p=…` | `none`
//!        `pp <T2> <T1> <expr>`  → prune to T2 | prune to T1 then T2
//! oracle (on the implementation alone, against the reference): type and both lengths; iter_compact =
//! compact encoding of the element; iter_padded decodes to the element, consumes exactly the width,
//! and stripped of padding is iter_compact; both decoders return the same (type, element) from
//! either encoding followed by junk and consume exactly what the encoding produced; truncated
//! input is an error; accessors return exactly the parts (type, element, and for re-wrapped values
//! the identical padded bits); prune = the truncation of exactly the target type, succeeds for every
//! smaller type, `None` exactly when no truncation has the target type, two steps = one step.

use crate::ctx::{catch, Ctx};
use simplicity::Value;
use std::rc::Rc;

#[path = "c10/vx.rs"]
pub mod vx;
use vx::*;

pub const RULE: &str = "values given by histories (constructor trees, word constructors, zero, from_padded_bits with random padding / junk / bit-unaligned start, from_compact_bits, sub-value extraction next to neighbours of every width mod 8, prune of an enlarged value, Bit Machine iden output) over nested sums of unequal width, unit-heavy products, words 2^(2^n) n<=12, buffer and ctx8 types; non-trivial = the type is at least one bit wide; distinct by history expression";

fn fail(ctx: &mut Ctx, class: &str, case: &str, detail: String) {
    ctx.fail(class, case, &detail);
}

/// what the `v` op prints for a library value
fn obs_value(lib: &Value) -> String {
    let p: Vec<bool> = lib.iter_padded().collect();
    let c: Vec<bool> = lib.iter_compact().collect();
    let l = lib.as_left().map(|x| show_sub(&x.to_value())).unwrap_or_else(|| "none".into());
    let r = lib.as_right().map(|x| show_sub(&x.to_value())).unwrap_or_else(|| "none".into());
    let pr = lib
        .as_product()
        .map(|(a, b)| format!("{} {}", show_sub(&a.to_value()), show_sub(&b.to_value())))
        .unwrap_or_else(|| "none".into());
    format!(
        "{} pl={} cl={} p={} c={} l={} r={} pr={}",
        Ty::from_fin(lib.ty()).show(),
        lib.padded_len(),
        lib.compact_len(),
        show_bits(&p),
        show_bits(&c),
        l,
        r,
        pr
    )
}

fn obs_full(v: &Value) -> String {
    let p: Vec<bool> = v.iter_padded().collect();
    let c: Vec<bool> = v.iter_compact().collect();
    format!("{} c={} p={}", Ty::from_fin(v.ty()).show(), show_bits(&c), show_bits(&p))
}

/// is `lib` the value `(t, v)`?  compared as type + compact bits (never with `==`)
fn same(lib: &Value, t: &Ty, v: &V) -> bool {
    Ty::from_fin(lib.ty()) == *t && lib.iter_compact().collect::<Vec<bool>>() == compact_of(v)
}

/// the oracles on one value; `case` is the op line that reproduces it
fn check_value(ctx: &mut Ctx, case: &str, lib: &Value, t: &Ty, v: &V) {
    let lt = Ty::from_fin(lib.ty());
    if lt != *t || !lib.is_of_type(&t.fin()) {
        fail(ctx, "type", case, format!("type {} expected {}", lt.show(), t.show()));
        return;
    }
    let p: Vec<bool> = lib.iter_padded().collect();
    let c: Vec<bool> = lib.iter_compact().collect();
    let want_c = compact_of(v);
    if lib.padded_len() != t.bw() || p.len() != t.bw() {
        fail(ctx, "padded-len", case, format!("padded_len {} iter_padded yields {} width {}", lib.padded_len(), p.len(), t.bw()));
    }
    if lib.compact_len() != want_c.len() {
        fail(ctx, "compact-len", case, format!("compact_len {} expected {}", lib.compact_len(), want_c.len()));
    }
    if c != want_c {
        fail(ctx, "iter-compact", case, format!("iter_compact {} expected {}", show_bits(&c), show_bits(&want_c)));
    }
    // the padded form decodes to the element and consumes exactly the width
    let mut pos = 0;
    match dec_padded(t, &p, &mut pos) {
        Some(got) if got == *v && pos == p.len() => {}
        _ => fail(ctx, "iter-padded", case, format!("iter_padded {} does not decode to the element (consumed {pos})", show_bits(&p))),
    }
    // compact = padded minus padding
    let (mut pos, mut st) = (0, vec![]);
    if strip(t, &p, &mut pos, &mut st).is_none() || st != c {
        fail(ctx, "compact-vs-padded", case, format!("padded {} stripped of padding is {} but iter_compact is {}", show_bits(&p), show_bits(&st), show_bits(&c)));
    }
    // decoding either encoding returns the same value and consumes exactly what was produced
    let junk = ctx.rng.below(10) as usize;
    let skip = ctx.rng.below(9) as usize;
    for compact_form in [false, true] {
        let mut bits: Vec<bool> = (0..skip).map(|_| ctx.rng.bool()).collect();
        bits.extend(if compact_form { c.iter() } else { p.iter() });
        let produced = if compact_form { c.len() } else { p.len() };
        for _ in 0..junk {
            bits.push(ctx.rng.bool());
        }
        let bytes = bits_to_bytes(&bits);
        let mut it = bit_iter(&bytes, skip);
        let before = it.n_total_read();
        let res = if compact_form { Value::from_compact_bits(&mut it, lib.ty()) } else { Value::from_padded_bits(&mut it, lib.ty()) };
        let what = if compact_form { "from_compact_bits(iter_compact)" } else { "from_padded_bits(iter_padded)" };
        let cls = if compact_form { "decode-compact-roundtrip" } else { "decode-padded-roundtrip" };
        match res {
            Err(_) => fail(ctx, cls, case, format!("{what} fails (skip {skip}, junk {junk})")),
            Ok(back) => {
                let used = it.n_total_read() - before;
                if !same(&back, t, v) {
                    fail(ctx, cls, case, format!("{what} gives {} (skip {skip}, junk {junk})", show_sub(&back)));
                } else if used != produced {
                    fail(ctx, cls, case, format!("{what} consumed {used} bits, the encoding has {produced}"));
                } else if !compact_form && back.iter_padded().collect::<Vec<bool>>() != p {
                    fail(ctx, cls, case, format!("{what} does not hold the bits it read"));
                }
            }
        }
        // one bit short is an error, not a shorter value
        if produced > 0 && !(compact_form && false) {
            let short = &bits[..skip + produced - 1];
            let sb = bits_to_bytes(short);
            // the byte padding of the last byte would supply the missing bit: only test when aligned
            if short.len() % 8 == 0 {
                let mut it = bit_iter(&sb, skip);
                let res = if compact_form { Value::from_compact_bits(&mut it, lib.ty()) } else { Value::from_padded_bits(&mut it, lib.ty()) };
                ctx.count("truncated-decode-checked");
                if res.is_ok() {
                    fail(ctx, "decode-truncated-accepted", case, format!("{what} minus one bit is accepted"));
                }
            }
        }
    }
    // accessors
    let exp_sub = |x: &V, a: &Ty| format!("{}:{}", a.show(), show_bits(&compact_of(x)));
    let got_l = lib.as_left().map(|x| show_sub(&x.to_value()));
    let got_r = lib.as_right().map(|x| show_sub(&x.to_value()));
    let got_p = lib.as_product().map(|(a, b)| (show_sub(&a.to_value()), show_sub(&b.to_value())));
    let (want_l, want_r, want_p) = match (&t.0.k, v) {
        (K::Sum(a, _), V::L(x)) => (Some(exp_sub(x, a)), None, None),
        (K::Sum(_, b), V::R(y)) => (None, Some(exp_sub(y, b)), None),
        (K::Prod(a, b), V::P(x, y)) => (None, None, Some((exp_sub(x, a), exp_sub(y, b)))),
        _ => (None, None, None),
    };
    if got_l != want_l {
        fail(ctx, "as-left", case, format!("as_left {:?} expected {:?}", got_l, want_l));
    }
    if got_r != want_r {
        fail(ctx, "as-right", case, format!("as_right {:?} expected {:?}", got_r, want_r));
    }
    if got_p != want_p {
        fail(ctx, "as-product", case, format!("as_product {:?} expected {:?}", got_p, want_p));
    }
    // sub-values keep their padded bits: the sub-value's padded form is the slice of the parent's
    if let Some(x) = lib.as_left().or_else(|| lib.as_right()) {
        let sp: Vec<bool> = x.iter_padded().collect();
        if sp.len() > p.len() || p[p.len() - sp.len()..] != sp[..] {
            fail(ctx, "sub-value-bits", case, "the sum payload's padded bits are not the tail of the parent's".to_string());
        }
    }
    if let Some((a, b)) = lib.as_product() {
        let ap: Vec<bool> = a.iter_padded().collect();
        let bp: Vec<bool> = b.iter_padded().collect();
        if [&ap[..], &bp[..]].concat() != p {
            fail(ctx, "sub-value-bits", case, "the components' padded bits do not concatenate to the parent's".to_string());
        }
    }
}

/// constructors and accessors are inverse, whatever the history of the part
fn check_rewrap(ctx: &mut Ctx, e: &E, lib: &Value, t: &Ty, v: &V) {
    let p: Vec<bool> = lib.iter_padded().collect();
    let other = match ctx.rng.below(4) {
        0 => bits_ty(ctx.rng.below(12) as usize),
        1 => Ty::word(ctx.rng.below(5) as usize),
        2 => Ty::one(),
        _ => gen_small_ty(&mut ctx.rng, 2),
    };
    let which = ctx.rng.below(4);
    let (we, wt, wv) = match which {
        0 => (E::L(Box::new(e.clone()), other.clone()), Ty::sum(t.clone(), other.clone()), V::L(Rc::new(v.clone()))),
        1 => (E::R(other.clone(), Box::new(e.clone())), Ty::sum(other.clone(), t.clone()), V::R(Rc::new(v.clone()))),
        2 => {
            let ov = gen_val(&mut ctx.rng, &other);
            let mut budget = 60;
            let oe = gen_expr(&mut ctx.rng, &other, &ov, 1, &mut budget, &mut [0; NR]);
            (E::P(Box::new(e.clone()), Box::new(oe)), Ty::prod(t.clone(), other.clone()), V::P(Rc::new(v.clone()), Rc::new(ov)))
        }
        _ => {
            let ov = gen_val(&mut ctx.rng, &other);
            let mut budget = 60;
            let oe = gen_expr(&mut ctx.rng, &other, &ov, 1, &mut budget, &mut [0; NR]);
            (E::P(Box::new(oe), Box::new(e.clone())), Ty::prod(other.clone(), t.clone()), V::P(Rc::new(ov), Rc::new(v.clone())))
        }
    };
    let line = format!("v {}", we.show());
    let wrapped = match catch(|| eval_lib(&we)) {
        Ok(Ok(w)) => w,
        Ok(Err(s)) => return fail(ctx, "constructor-stuck", &line, s),
        Err(m) => return fail(ctx, "panic-constructor", &line, m),
    };
    ctx.op(&line, &obs_value(&wrapped));
    ctx.count(["reach:rewrap-left", "reach:rewrap-right", "reach:rewrap-product-first", "reach:rewrap-product-second"][which as usize]);
    check_value(ctx, &line, &wrapped, &wt, &wv);
    // the part comes back bit for bit
    let back = match which {
        0 => wrapped.as_left().map(|x| x.to_value()),
        1 => wrapped.as_right().map(|x| x.to_value()),
        2 => wrapped.as_product().map(|x| x.0.to_value()),
        _ => wrapped.as_product().map(|x| x.1.to_value()),
    };
    match back {
        None => fail(ctx, "inverse", &line, "the accessor matching the constructor returns None".to_string()),
        Some(b) => {
            if !same(&b, t, v) || b.iter_padded().collect::<Vec<bool>>() != p {
                fail(ctx, "inverse", &line, format!("the part comes back as {} p={}", show_sub(&b), show_bits(&b.iter_padded().collect::<Vec<bool>>())));
            }
            // and the extracted part is itself a value like any other
            let acc = match which {
                0 => E::AL(Box::new(we.clone())),
                1 => E::AR(Box::new(we.clone())),
                2 => E::A1(Box::new(we.clone())),
                _ => E::A2(Box::new(we.clone())),
            };
            let l2 = format!("v {}", acc.show());
            ctx.op(&l2, &obs_value(&b));
            check_value(ctx, &l2, &b, t, v);
        }
    }
}

fn check_prune(ctx: &mut Ctx, e: &E, lib: &Value, t: &Ty, v: &V, target: &Ty, kind: &str) {
    let line = format!("pr {} {}", target.show(), e.show());
    let got = match catch(|| lib.prune(&target.fin())) {
        Ok(g) => g,
        Err(m) => return fail(ctx, "panic-prune", &line, m),
    };
    ctx.op(&line, &got.as_ref().map(obs_full).unwrap_or_else(|| "none".into()));
    ctx.count(&format!("reach:prune-{kind}"));
    let want = ref_prune(v, target);
    match (&got, &want) {
        (None, None) => ctx.count("reach:prune-result-none"),
        (Some(g), Some(w)) => {
            ctx.count("reach:prune-result-some");
            let gt = Ty::from_fin(g.ty());
            if gt != *target {
                fail(ctx, "prune-type", &line, format!("result has type {} not the target", gt.show()));
            } else if !same(g, target, w) {
                fail(ctx, "prune-value", &line, format!("result {} expected {}", show_sub(g), show_bits(&compact_of(w))));
            } else {
                // a well-formed value of the target type in every respect
                check_value(ctx, &line, g, target, w);
            }
        }
        (Some(g), None) => fail(ctx, "prune-malformed", &line, format!("no truncation of the value has the target type, but prune returns {}", show_sub(g))),
        (None, Some(_)) => {
            let cls = if target.le(t) { "prune-smaller-none" } else { "prune-none" };
            fail(ctx, cls, &line, format!("prune returns None (target ≤ type: {})", target.le(t)))
        }
    }
    if target.le(t) && want.is_none() {
        panic!("harness: reference prune fails on a smaller type");
    }
}

fn check_prune2(ctx: &mut Ctx, e: &E, lib: &Value, v: &V, t1: &Ty, t2: &Ty) {
    let line = format!("pp {} {} {}", t2.show(), t1.show(), e.show());
    let r = catch(|| {
        let one = lib.prune(&t2.fin());
        let two = lib.prune(&t1.fin()).map(|w| w.prune(&t2.fin()));
        (one, two)
    });
    let (one, two) = match r {
        Ok(x) => x,
        Err(m) => return fail(ctx, "panic-prune", &line, m),
    };
    let so = one.as_ref().map(show_sub).unwrap_or_else(|| "none".into());
    let st = match &two {
        None => "none1".to_string(),
        Some(x) => x.as_ref().map(show_sub).unwrap_or_else(|| "none".into()),
    };
    ctx.op(&line, &format!("{so} | {st}"));
    ctx.count("reach:prune-two-steps");
    if t2.le(t1) {
        if let Some(Some(_)) | Some(None) = &two {
            if so != st {
                fail(ctx, "prune-two-steps", &line, format!("one step {so}, two steps {st}"));
            }
        }
        // if the first step succeeds the second must
        if let Some(None) = &two {
            fail(ctx, "prune-two-steps", &line, "second step to a smaller type fails".to_string());
        }
        let _ = v;
    }
}

fn check_decode(ctx: &mut Ctx, compact_form: bool, t: &Ty, skip: usize, bytes: &[u8]) {
    if let Err(m) = catch(|| check_decode_inner(ctx, compact_form, t, skip, bytes)) {
        let verb = if compact_form { "dc" } else { "dp" };
        fail(ctx, "panic-decode", &format!("{verb} {} {} {}", t.show(), skip, show_hex(bytes)), m);
    }
}

fn check_decode_inner(ctx: &mut Ctx, compact_form: bool, t: &Ty, skip: usize, bytes: &[u8]) {
    let verb = if compact_form { "dc" } else { "dp" };
    let line = format!("{verb} {} {} {}", t.show(), skip, show_hex(bytes));
    let fin = t.fin();
    let r = catch(|| {
        let mut it = bit_iter(bytes, skip);
        let before = it.n_total_read();
        let res = if compact_form { Value::from_compact_bits(&mut it, &fin) } else { Value::from_padded_bits(&mut it, &fin) };
        (res, it.n_total_read() - before)
    });
    let (res, used) = match r {
        Ok(x) => x,
        Err(m) => return fail(ctx, "panic-decode", &line, m),
    };
    let bits = bytes_to_bits(bytes);
    let mut pos = skip.min(bits.len());
    let start = pos;
    let want = if compact_form { dec_compact(t, &bits, &mut pos) } else { dec_padded(t, &bits, &mut pos) };
    let want = if pos > bits.len() { None } else { want };
    match (&res, &want) {
        (Ok(g), Some(w)) => {
            ctx.op(&line, &format!("ok {} {}", used, obs_full(g)));
            ctx.count(if compact_form { "reach:decode-compact-ok" } else { "reach:decode-padded-ok" });
            if !same(g, t, w) {
                fail(ctx, "decode-value", &line, format!("decoded {} expected {}", show_sub(g), show_bits(&compact_of(w))));
            } else if used != pos - start {
                fail(ctx, "decode-consumed", &line, format!("consumed {used} bits, the value's encoding has {}", pos - start));
            } else {
                if !compact_form && g.iter_padded().collect::<Vec<bool>>() != bits[start..pos] {
                    fail(ctx, "decode-bits", &line, "the decoded value does not hold the bits that were read".to_string());
                }
                check_value(ctx, &line, g, t, w);
            }
        }
        (Err(_), None) => {
            ctx.op(&line, "eof");
            ctx.count(if compact_form { "reach:decode-compact-eof" } else { "reach:decode-padded-eof" });
        }
        (Ok(g), None) => {
            ctx.op(&line, &format!("ok {} {}", used, obs_full(g)));
            fail(ctx, "decode-truncated-accepted", &line, format!("the input is too short but {} is returned", show_sub(g)));
        }
        (Err(_), Some(_)) => {
            ctx.op(&line, "eof");
            fail(ctx, "decode-rejected", &line, "a complete encoding is rejected".to_string());
        }
    }
}

/// everything about one history expression; a panic of the library anywhere is an oracle failure
fn one_case(ctx: &mut Ctx, e: &E, ty_kind: &str, prune_targets: Option<Vec<(Ty, &'static str)>>) {
    if let Err(m) = catch(|| one_case_inner(ctx, e, ty_kind, prune_targets)) {
        fail(ctx, "panic-value-op", &format!("v {}", e.show()), m);
    }
}

fn one_case_inner(ctx: &mut Ctx, e: &E, ty_kind: &str, prune_targets: Option<Vec<(Ty, &'static str)>>) {
    let (t, v) = match eval_ref(e) {
        Ok(x) => x,
        Err(_) => return, // not a history of a value (cannot happen for generated ones)
    };
    let line = format!("v {}", e.show());
    let lib = match catch(|| eval_lib(e)) {
        Ok(Ok(l)) => l,
        Ok(Err(s)) => return fail(ctx, "history-stuck", &line, format!("the library stops with `{s}` where the reference has a value")),
        Err(m) => return fail(ctx, "panic-history", &line, m),
    };
    let out = match catch(|| obs_value(&lib)) {
        Ok(o) => o,
        Err(m) => return fail(ctx, "panic-observe", &line, m),
    };
    ctx.op(&line, &out);
    ctx.case(if t.bw() > 0 { Some(&line) } else { None });
    if ty_kind == "fixed" || ty_kind == "replay" {
        ctx.count(&format!("ty-{ty_kind}"));
    } else {
        ctx.count(&format!("reach:ty-{ty_kind}"));
    }
    let mut rs = [false; NR];
    routes_of(e, &mut rs);
    for (i, b) in rs.iter().enumerate() {
        if *b {
            ctx.count(&format!("reach:route-{}", ROUTES[i]));
        }
    }
    match &t.0.k {
        K::One => ctx.count("reach:shape-unit"),
        K::Sum(..) => ctx.count(if matches!(v, V::L(_)) { "reach:shape-left" } else { "reach:shape-right" }),
        K::Prod(..) => ctx.count("reach:shape-product"),
    }
    if t.0.has_padding {
        ctx.count("reach:type-with-padding");
    } else {
        ctx.count("reach:type-without-padding");
    }
    if let Some((bytes, off)) = raw_of(&lib) {
        ctx.op(&format!("raw {}", e.show()), &format!("{}@{}", show_hex(&bytes), off));
        ctx.count(&format!("reach:offset-mod8-{}", off % 8));
        ctx.count("raw-observed");
    } else {
        ctx.count("raw-not-observable");
    }
    if ctx.want_sample() && t.bw() > 3 && t.bw() < 40 && e.show().len() < 120 {
        ctx.sample(&format!("{line} -> {out}"));
    }
    let r = catch(|| {
        check_value(ctx, &line, &lib, &t, &v);
        check_rewrap(ctx, e, &lib, &t, &v);
    });
    if let Err(m) = r {
        fail(ctx, "panic-accessor", &line, m);
    }
    // prune
    let targets = prune_targets.unwrap_or_else(|| {
        let mut ts: Vec<(Ty, &'static str)> = vec![(shrink_ty(&mut ctx.rng, &t), "smaller"), (t.clone(), "equal")];
        // incompatible / arbitrary targets: a random type, and the value's type with one spot changed
        ts.push((gen_small_ty(&mut ctx.rng, 3), "arbitrary"));
        let (bt, _) = enlarge(&mut ctx.rng, &t, &v, 2);
        ts.push((bt, "larger-or-sideways"));
        ts
    });
    for (tg, kind) in &targets {
        if tg.0.size > 20_000 {
            continue;
        }
        check_prune(ctx, e, &lib, &t, &v, tg, kind);
    }
    // two steps: t2 ≤ t1 ≤ t
    let t1 = shrink_ty(&mut ctx.rng, &t);
    let t2 = shrink_ty(&mut ctx.rng, &t1);
    check_prune2(ctx, e, &lib, &v, &t1, &t2);
}

pub fn replay(ctx: &mut Ctx, case: &str) {
    let toks: Vec<&str> = case.split_whitespace().collect();
    if toks.is_empty() {
        return;
    }
    match toks[0] {
        "v" | "raw" => {
            if let Some(e) = E::parse_all(&toks[1..]) {
                one_case(ctx, &e, "replay", None);
            }
        }
        "pr" => {
            if let (Some(t), Some(e)) = (toks.get(1).and_then(|s| Ty::parse(s)), E::parse_all(&toks[2..])) {
                one_case(ctx, &e, "replay", Some(vec![(t, "replay")]));
            }
        }
        "pp" => {
            if let (Some(t2), Some(t1), Some(e)) =
                (toks.get(1).and_then(|s| Ty::parse(s)), toks.get(2).and_then(|s| Ty::parse(s)), E::parse_all(&toks[3..]))
            {
                if let (Ok((_, v)), Ok(Ok(lib))) = (eval_ref(&e), catch(|| eval_lib(&e))) {
                    check_prune2(ctx, &e, &lib, &v, &t1, &t2);
                }
            }
        }
        "dp" | "dc" => {
            if let (Some(t), Some(skip), Some(bytes)) =
                (toks.get(1).and_then(|s| Ty::parse(s)), toks.get(2).and_then(|s| s.parse().ok()), toks.get(3).and_then(|s| parse_hex(s)))
            {
                check_decode(ctx, toks[0] == "dc", &t, skip, &bytes);
            }
        }
        _ => {}
    }
}

pub fn run(ctx: &mut Ctx) {
    if catch(|| raw_of(&Value::u8(1)).map(|x| x.0)) != Ok(Some(vec![1])) {
        ctx.note("the Debug rendering of Value no longer shows raw_value/raw_bit_offset: buffers are not compared");
    }
    // 1. a fixed list: the regression shapes of the suite and of DESIGN.md sec. 6
    let fixed = [
        "U",
        "L U 1",
        "R 1 U",
        "P U U",
        "A1 P W 0 00 W 0 01",
        "DP +1w8 0 7f80ffffffffffffffffffffffffffffffffffffffffffffffffffffffffffffff80",
        "L U w8",
        "P R w4 W 4 0000 W 3 00",
        "R 1 W 3 a5",
        "L W 6 000000000000002a w6",
        "Z +w3*11",
        "M DP +1w3 3 f7ff",
        "PR +11 R 1 W 3 a5",
        "PR +*111 R 1 U",
        "A2 P U U",
        "L A2 P W 3 ff U 1",
        "R 1 A2 P W 3 ff U",
    ];
    for s in fixed {
        let toks: Vec<&str> = s.split_whitespace().collect();
        let e = E::parse_all(&toks).expect("fixed expression parses");
        one_case(ctx, &e, "fixed", None);
    }

    // 2. generated histories
    let n = ctx.scale(18_000, 220_000);
    // every `period`-th case is a word of 512 … 4096 bits (expensive in the Lean model: few)
    let period = ctx.scale(600, 400);
    let mut used = [0u64; NR];
    for it in 0..n {
        let forced_big = it % period == 1;
        let (t, kind) = if forced_big {
            (Ty::word(9 + (it / period % 4) as usize), "word")
        } else {
            gen_ty(&mut ctx.rng, it % 16 == 0)
        };
        let v = match ctx.rng.below(10) {
            0 => zero_val(&t),
            _ => gen_val(&mut ctx.rng, &t),
        };
        let depth = 1 + (it % 3) as usize;
        let mut budget: i64 = if t.0.size > 2000 { if it % (8 * period) == 1 { 30_000 } else { 40 } } else { 400 };
        let e = gen_expr(&mut ctx.rng, &t, &v, depth, &mut budget, &mut used);
        if e.show().len() > 300_000 {
            continue;
        }
        if t.bw() >= 512 {
            ctx.count("reach:ty-word-512-to-4096-bits");
        }
        one_case(ctx, &e, kind, None);
    }
    for (i, u) in used.iter().enumerate() {
        ctx.count_n(&format!("generated-route-{}", ROUTES[i]), *u);
    }

    // 2b. the buffer constructor and ctx8-shaped values built from it, bare and inside other histories
    let n = ctx.scale(600, 12_000);
    for it in 0..n {
        let bn = ctx.rng.below(6) as usize;
        let len = match ctx.rng.below(4) {
            0 => 0,
            1 => (2usize << bn) - 1,
            _ => ctx.rng.below(2u64 << bn) as usize,
        };
        let data = ctx.rng.bytes(len);
        let b = E::B(bn, data.clone());
        let e = match it % 5 {
            0 => b,
            1 => {
                // Value::ctx8(midstate, count, buffer) = product(buffer(5), product(u64, u256))
                let l5 = ctx.rng.below(64) as usize;
                let b5 = E::B(5, ctx.rng.bytes(l5));
                E::P(Box::new(b5), Box::new(E::P(Box::new(E::W(6, ctx.rng.bytes(8))), Box::new(E::W(8, ctx.rng.bytes(32))))))
            }
            2 => {
                let wn = ctx.rng.below(3) as u8;
                E::A2(Box::new(E::P(Box::new(E::W(wn, vec![0])), Box::new(b))))
            }
            3 => E::M(false, Box::new(b)),
            _ => {
                let wn = ctx.rng.below(5) as usize;
                E::R(Ty::word(wn), Box::new(b))
            }
        };
        one_case(ctx, &e, "buffer-ctx8", None);
        // the convenience constructor of ctx8 agrees with the composition
        if it % 5 == 1 {
            if let E::P(b5, rest) = &e {
                if let (E::B(_, d), E::P(c, m)) = (&**b5, &**rest) {
                    if let (E::W(_, cb), E::W(_, mb)) = (&**c, &**m) {
                        let line = format!("v {}", e.show());
                        let r = catch(|| {
                            let direct = Value::ctx8(mb.clone().try_into().unwrap(), u64::from_be_bytes(cb.clone().try_into().unwrap()), d);
                            let composed = eval_lib(&e);
                            (direct.ok().map(|v| show_sub(&v)), composed.ok().map(|v| show_sub(&v)))
                        });
                        ctx.count("reach:ctx8-constructor");
                        match r {
                            Ok((Some(a), Some(b2))) if a == b2 => {}
                            other => fail(ctx, "ctx8-constructor", &line, format!("Value::ctx8 vs product of its parts: {:?}", other)),
                        }
                    }
                }
            }
        }
    }
    // too long a slice is an error
    for bn in 0..6usize {
        let r = catch(|| Value::buffer8_two_n_plus_one(bn, &vec![0u8; 2 << bn]).is_err());
        if r != Ok(true) {
            fail(ctx, "buffer-too-long-accepted", &format!("v B {} {}", bn, show_hex(&vec![0u8; 2 << bn])), format!("{:?}", r));
        }
    }

    // 3. decoders on arbitrary input: every bit string of the right length is a value; short ones are errors
    let n = ctx.scale(16_000, 200_000);
    for it in 0..n {
        let (t, _) = gen_ty(&mut ctx.rng, it % 32 == 0);
        let compact_form = it % 2 == 1;
        let skip = ctx.rng.below(10) as usize;
        let len_bits = match ctx.rng.below(4) {
            0 => (skip + t.bw()).saturating_sub(1 + ctx.rng.below(4) as usize), // too short for the padded form
            1 => skip + t.bw(),
            2 => ctx.rng.below((skip + t.bw() + 2) as u64) as usize,
            _ => skip + t.bw() + ctx.rng.below(20) as usize,
        };
        let bytes = ctx.rng.bytes((len_bits + 7) / 8);
        check_decode(ctx, compact_form, &t, skip, &bytes);
        ctx.case(None);
    }
}
