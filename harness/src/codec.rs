//! Shared by C01, C02, C03: the real decoders/encoders on byte strings, the answer format of the
//! `dec`/`enc` operations, the C reference pipeline.

use crate::ctx::catch;
use crate::gen;
use simplicity::dag::{DagLike, InternalSharing};
use simplicity::jet::Elements;
use simplicity::node::Inner;
use simplicity::{BitIter, CommitNode, RedeemNode};
use std::sync::Arc;

pub enum Dec {
    Ok(Arc<RedeemNode>),
    Err(String),
    Panic(String),
}

pub fn decode_redeem(prog: &[u8], wit: &[u8]) -> Dec {
    match catch(|| RedeemNode::decode::<_, _, Elements>(BitIter::from(prog), BitIter::from(wit))) {
        Ok(Ok(r)) => Dec::Ok(r),
        Ok(Err(e)) => Dec::Err(format!("{e}")),
        Err(p) => Dec::Panic(p),
    }
}

pub fn decode_commit(prog: &[u8]) -> Result<Result<Arc<CommitNode>, String>, String> {
    catch(|| CommitNode::decode::<_, Elements>(BitIter::from(prog)).map_err(|e| format!("{e}")))
}

/// coarse kind of a decode error (coverage only; never compared with the model)
pub fn err_kind(e: &str) -> &'static str {
    if e.contains("ended early") || e.contains("end of stream") || e.contains("EndOfStream") {
        "eof"
    } else if e.contains("canonical order") {
        "canonical"
    } else if e.contains("maximal sharing") {
        "sharing"
    } else if e.contains("both children") {
        "both-hidden"
    } else if e.contains("hidden node") {
        "hidden"
    } else if e.contains("unrecognized jet") {
        "jet"
    } else if e.contains("trailing") || e.contains("padding") || e.contains("closed") {
        "close"
    } else if e.contains("disconnect") {
        "disconnect"
    } else if e.contains("index") || e.contains("too large") || e.contains("natural") || e.contains("overflow") {
        "natural"
    } else {
        "type"
    }
}

/// `ok <n> <cmr> <ihr> <amr> <cost> A <arrow>… W <bits>…` — nodes in post order (as decoded)
pub fn describe(red: &RedeemNode) -> String {
    let mut arrows = vec![];
    let mut wits = vec![];
    let mut n = 0;
    for d in red.post_order_iter::<InternalSharing>() {
        n += 1;
        arrows.push(format!("{}>{}", gen::final_text(&d.node.arrow().source), gen::final_text(&d.node.arrow().target)));
        if let Inner::Witness(v) = d.node.inner() {
            wits.push(gen::value_compact_text(v));
        }
    }
    format!(
        "ok {} {} {} {} {} A {} W {}",
        n,
        red.cmr(),
        red.ihr(),
        red.amr(),
        red.bounds().cost,
        arrows.join(" "),
        wits.join(" ")
    )
}

pub struct CResult {
    pub verdict: Result<(), String>,
    pub cmr: [u8; 32],
    pub ihr: [u8; 32],
    pub amr: [u8; 32],
    pub cost: Option<u32>,
}

/// libsimplicity up to the 1 → 1 check, plus its cost bound
pub fn c_decode(prog: &[u8], wit: &[u8]) -> CResult {
    use simplicity::ffi::tests::{run_program, TestUpTo};
    use simplicity::hashes::sha256::Midstate;
    match run_program(prog, wit, TestUpTo::CheckOneOne, None, None) {
        Ok(out) => {
            let cost = run_program(prog, wit, TestUpTo::ComputeCostUnbounded, None, None).ok().map(|o| o.cost_bound);
            CResult {
                verdict: Ok(()),
                cmr: Midstate::from(out.cmr).to_parts().0,
                ihr: Midstate::from(out.ihr).to_parts().0,
                amr: Midstate::from(out.amr).to_parts().0,
                cost,
            }
        }
        Err(e) => CResult { verdict: Err(format!("{e:?}")), cmr: [0; 32], ihr: [0; 32], amr: [0; 32], cost: None },
    }
}

pub fn has_fail(red: &RedeemNode) -> bool {
    red.post_order_iter::<InternalSharing>().any(|d| matches!(d.node.inner(), Inner::Fail(_)))
}

/// mutations of a byte string: bit flip, truncate, extend, splice
pub fn mutate(r: &mut crate::ctx::Rng, b: &[u8]) -> Vec<u8> {
    let mut v = b.to_vec();
    match r.below(6) {
        0 | 1 if !v.is_empty() => {
            let i = r.below(v.len() as u64 * 8) as usize;
            v[i / 8] ^= 1 << (i % 8);
        }
        2 if !v.is_empty() => {
            v.pop();
        }
        3 => v.push(r.next() as u8),
        4 if v.len() > 2 => {
            let i = r.below(v.len() as u64 - 1) as usize;
            let j = r.below(v.len() as u64 - 1) as usize;
            v.swap(i, j);
        }
        _ => {
            if let Some(l) = v.last_mut() {
                *l |= 1 << r.below(3);
            } else {
                v.push(0);
            }
        }
    }
    v
}
