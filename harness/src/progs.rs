//! Helpers shared by the program-based properties (C04–C09, C12): environments, execution with a
//! tracker that records jet calls, the textual extras of an op line.

use crate::gen::{self, PNode, Plan};
use simplicity::bit_machine::{ExecTracker, ExecutionError, FrameIter, NodeOutput};
use simplicity::jet::elements::{ElementsEnv, ElementsUtxo};
use simplicity::jet::{Elements, Jet};
use simplicity::node::Inner;
use simplicity::{BitMachine, RedeemNode, Value};
use std::collections::HashMap;
use std::sync::Arc;

pub type Env = ElementsEnv<Arc<simplicity::elements::Transaction>>;

pub fn dummy_env() -> Env {
    use simplicity::elements::{self, confidential, taproot::ControlBlock, AssetIssuance};
    let ctrl_blk: [u8; 33] = [
        0xc0, 0xeb, 0x04, 0xb6, 0x8e, 0x9a, 0x26, 0xd1, 0x16, 0x04, 0x6c, 0x76, 0xe8, 0xff, 0x47, 0x33, 0x2f, 0xb7, 0x1d, 0xda, 0x90, 0xff, 0x4b, 0xef, 0x53, 0x70, 0xf2,
        0x52, 0x26, 0xd3, 0xbc, 0x09, 0xfc,
    ];
    ElementsEnv::new(
        Arc::new(elements::Transaction {
            version: 2,
            lock_time: elements::LockTime::ZERO,
            input: vec![elements::TxIn {
                previous_output: elements::OutPoint::default(),
                is_pegin: false,
                script_sig: elements::Script::new(),
                sequence: elements::Sequence::MAX,
                asset_issuance: AssetIssuance::default(),
                witness: elements::TxInWitness::default(),
            }],
            output: vec![elements::TxOut {
                asset: confidential::Asset::Explicit(elements::AssetId::from_byte_array([7; 32])),
                value: confidential::Value::Explicit(1000),
                nonce: confidential::Nonce::Null,
                script_pubkey: elements::Script::from(vec![0x51]),
                witness: elements::TxOutWitness::default(),
            }],
        }),
        vec![ElementsUtxo { script_pubkey: elements::Script::new(), asset: confidential::Asset::Null, value: confidential::Value::Null }],
        0,
        simplicity::Cmr::from_byte_array([0; 32]),
        ControlBlock::from_slice(&ctrl_blk).unwrap(),
        None,
        elements::BlockHash::from_byte_array([0u8; 32]),
    )
}

/// records every jet call of a run: (jet, compact input bits, compact output bits or failure)
#[derive(Default)]
pub struct JetRecorder {
    pub calls: Vec<(Elements, Vec<bool>, Option<Vec<bool>>)>,
    pub nodes_visited: usize,
    /// kinds of the nodes that were executed
    pub kinds: std::collections::BTreeSet<&'static str>,
    /// number of cells written by the run (estimate): the Lean model's cell memory is a function,
    /// so its run time grows with the square of this
    pub work: usize,
}

pub fn inner_kind<A, B, C>(i: &Inner<A, B, C>) -> &'static str {
    match i {
        Inner::Iden => "iden",
        Inner::Unit => "unit",
        Inner::InjL(_) => "injl",
        Inner::InjR(_) => "injr",
        Inner::Take(_) => "take",
        Inner::Drop(_) => "drop",
        Inner::Comp(..) => "comp",
        Inner::Case(..) => "case",
        Inner::AssertL(..) => "assertl",
        Inner::AssertR(..) => "assertr",
        Inner::Pair(..) => "pair",
        Inner::Disconnect(..) => "disconnect",
        Inner::Witness(_) => "witness",
        Inner::Fail(_) => "fail",
        Inner::Jet(_) => "jet",
        Inner::Word(_) => "word",
    }
}

impl ExecTracker for JetRecorder {
    fn visit_node(&mut self, node: &RedeemNode, mut input: FrameIter, output: NodeOutput) {
        self.nodes_visited += 1;
        self.kinds.insert(inner_kind(node.inner()));
        self.work += match node.inner() {
            Inner::Iden | Inner::Witness(_) | Inner::Word(_) | Inner::Jet(_) => node.arrow().target.bit_width(),
            Inner::InjL(_) | Inner::InjR(_) => 1,
            Inner::Disconnect(..) => 256 + node.arrow().source.bit_width() + node.arrow().target.bit_width(),
            _ => 0,
        };
        if let Inner::Jet(j) = node.inner() {
            let j: Elements = *j.as_any().downcast_ref::<Elements>().expect("Elements jet");
            let inp = Value::from_padded_bits(&mut input, &node.arrow().source).expect("jet input decodes");
            let inp: Vec<bool> = inp.iter_compact().collect();
            let out = match output {
                NodeOutput::Success(mut o) => {
                    let v = Value::from_padded_bits(&mut o, &node.arrow().target).expect("jet output decodes");
                    Some(v.iter_compact().collect())
                }
                _ => None,
            };
            self.calls.push((j, inp, out));
        }
    }
}

pub enum Outcome {
    Ok(Value),
    Fail(&'static str),
    Other(String),
}

pub struct Run {
    pub outcome: Outcome,
    pub rec: JetRecorder,
    pub max_cells: usize,
    pub max_frames: usize,
    pub cap_cells: usize,
}

/// `for_program` + `input` + `exec_with_tracker`
pub fn run(red: &RedeemNode, input: Option<&Value>, env: &Env) -> Result<Run, String> {
    let mut mac = BitMachine::for_program(red).map_err(|e| format!("limit:{e}"))?;
    if let Some(v) = input {
        mac.input(v).map_err(|e| format!("input:{e}"))?;
    }
    let mut rec = JetRecorder::default();
    let res = mac.exec_with_tracker(red, env, &mut rec);
    let outcome = match res {
        Ok(v) => Outcome::Ok(v),
        Err(ExecutionError::ReachedPrunedBranch(_)) => Outcome::Fail("assertion"),
        Err(ExecutionError::ReachedFailNode(_)) => Outcome::Fail("failNode"),
        Err(ExecutionError::JetFailed(_)) => Outcome::Fail("jet"),
        Err(e) => Outcome::Other(format!("{e}")),
    };
    Ok(Run { outcome, rec, max_cells: mac.verif_max_cells(), max_frames: mac.verif_max_frames(), cap_cells: mac.verif_capacity_cells() })
}

/// `W:i:bits` for every witness node, `T:`/`C:` for every jet of the plan, `J:` for recorded calls
pub fn extras(plan: &Plan, wits: &HashMap<usize, Value>, calls: &[(Elements, Vec<bool>, Option<Vec<bool>>)]) -> String {
    let mut s = String::new();
    let mut ws: Vec<_> = wits.iter().collect();
    ws.sort_by_key(|(i, _)| **i);
    for (i, v) in ws {
        s.push_str(&format!(" W:{}:{}", i, gen::value_compact_text(v)));
    }
    s.push_str(&jet_types(plan));
    let mut seen = std::collections::HashSet::new();
    for (j, i, o) in calls {
        let key = format!("J:{}:{}:{}", j, gen::bits_text(i), o.as_ref().map(|o| gen::bits_text(o)).unwrap_or_else(|| "fail".into()));
        if seen.insert(key.clone()) {
            s.push(' ');
            s.push_str(&key);
        }
    }
    s
}

/// `T:name:src:tgt C:name:cmr` for every jet occurring in the plan
pub fn jet_types(plan: &Plan) -> String {
    let mut s = String::new();
    let mut seen = std::collections::HashSet::new();
    for n in &plan.nodes {
        if let PNode::Jet(j) = n {
            if seen.insert(*j) {
                s.push_str(&format!(
                    " T:{}:{}:{} C:{}:{} K:{}:{}",
                    j,
                    gen::final_text(&j.source_ty().to_final()),
                    gen::final_text(&j.target_ty().to_final()),
                    j,
                    gen::hex(j.cmr().as_ref()),
                    j,
                    j.cost()
                ));
            }
        }
    }
    s
}

/// jets whose source and target are at most 128 bits wide (arithmetic, logic, comparison, small
/// introspection): small enough for type trees in the Lean model
pub fn simple_jets() -> Vec<Elements> {
    Elements::ALL
        .iter()
        .copied()
        .filter(|j| j.source_ty().to_final().bit_width() <= 128 && j.target_ty().to_final().bit_width() <= 128)
        .collect()
}
