//! C19 — budget padding: `Cost::{is_budget_valid,get_padding,from_milliweight}`, `Weight` conversions.
//!
//! ops:   `cost <c> <n> <len_1> … <len_n>`  →  `valid=<0|1> pad=<none|len>`
//!        `weight <c>`                      →  `<weight units> back=<cost of that weight>`
//! oracle (on the implementation alone): valid ⇔ ⌈c/1000⌉ ≤ serialized size + 50; the annex is
//! 0x50 00…; stack + annex is within budget; one byte less is not (unless the item count sits on a
//! compact-size boundary); weight rounds up and is monotone.

use crate::ctx::Ctx;
use simplicity::elements::bitcoin::Weight;
use simplicity::Cost;

pub const RULE: &str = "costs and witness stacks around every boundary (budget edge, padding-table regions 253/255/65538/65540, compact-size 252/253 and 65535/65536 of item count and size, consensus maximum); non-trivial = a padding is returned or the weight is within 3 of the budget; distinct by (cost, item lengths)";

const MAX: u64 = 4_000_050_000;

fn cs(n: u64) -> u64 {
    if n <= 252 {
        1
    } else if n <= 65535 {
        3
    } else if n <= 4294967295 {
        5
    } else {
        9
    }
}

fn stack_len(items: &[usize]) -> u64 {
    cs(items.len() as u64) + items.iter().map(|l| cs(*l as u64) + *l as u64).sum::<u64>()
}

fn one(ctx: &mut Ctx, c: u64, items: &[usize], kind: &str) {
    let stack: Vec<Vec<u8>> = items.iter().map(|l| vec![0u8; *l]).collect();
    let cost = Cost::from_milliweight(c as u32);
    let valid = cost.is_budget_valid(&stack);
    let pad = cost.get_padding(&stack);
    let mut line = format!("cost {} {}", c, items.len());
    for l in items {
        line.push_str(&format!(" {}", l));
    }
    let out = format!(
        "valid={} pad={}",
        valid as u8,
        pad.as_ref().map(|p| p.len().to_string()).unwrap_or_else(|| "none".into())
    );
    ctx.op(&line, &out);
    ctx.count(&format!("kind:{kind}"));
    let sl = stack_len(items);
    let w = (c + 999) / 1000;
    let case = line.clone();
    ctx.case(if pad.is_some() || w + 3 >= sl + 50 { Some(&case) } else { None });
    if ctx.want_sample() && pad.is_some() {
        ctx.sample(&format!("{line} -> {out}"));
    }
    if valid != (w <= sl + 50) {
        ctx.fail("valid-iff", &case, &format!("is_budget_valid={valid} weight={w} size+50={}", sl + 50));
    }
    if valid != pad.is_none() {
        ctx.fail("valid-vs-padding", &case, &format!("is_budget_valid={valid} padding={:?}", pad.as_ref().map(|p| p.len())));
    }
    if let Some(p) = pad {
        ctx.count("padded");
        if p.is_empty() || p[0] != 0x50 || p[1..].iter().any(|b| *b != 0) {
            ctx.fail("annex-bytes", &case, "annex is not 0x50 followed by zeros");
            return;
        }
        let mut s2 = stack.clone();
        s2.push(p.clone());
        if !cost.is_budget_valid(&s2) {
            ctx.fail("padding-insufficient", &case, &format!("annex of {} bytes leaves the cost over budget", p.len()));
        }
        if cs(items.len() as u64 + 1) == cs(items.len() as u64) && p.len() > 1 {
            ctx.count("minimality-checked");
            let mut s3 = stack.clone();
            s3.push(p[..p.len() - 1].to_vec());
            if cost.is_budget_valid(&s3) {
                ctx.fail("padding-not-minimal", &case, &format!("annex of {} bytes would do, {} returned", p.len() - 1, p.len()));
            }
        }
    }
}

/// re-evaluate one recorded case (`cost c n l…` or `weight c`)
pub fn replay(ctx: &mut Ctx, case: &str) {
    let t: Vec<&str> = case.split_whitespace().collect();
    if t.len() >= 3 && t[0] == "cost" {
        let c: u64 = t[1].parse().unwrap();
        let items: Vec<usize> = t[3..].iter().map(|x| x.parse().unwrap()).collect();
        one(ctx, c, &items, "replay");
    }
}

pub fn run(ctx: &mut Ctx) {
    // 1. weight conversions on boundaries: rounds up, monotone, round trip through Weight
    let mut prev: Option<(u64, u64)> = None;
    let cs_list: Vec<u64> = (0..3000u64)
        .chain((0..400).flat_map(|k| (0..3).map(move |d| 999_000 + k * 1000 + d)))
        .chain((0..3000).map(|i| MAX - 2999 + i))
        .chain((0..3000).map(|i| u32::MAX as u64 - 2999 + i))
        .collect();
    for c in cs_list {
        let cost = Cost::from_milliweight(c as u32);
        let w: Weight = cost.into();
        let back: Cost = w.into();
        let wb: Weight = back.into();
        let backs = format!("{}", back);
        ctx.op(&format!("weight {c}"), &format!("{} back={}", w.to_wu(), backs));
        ctx.case(Some(&format!("w{c}")));
        ctx.count("kind:weight");
        let want = ((c + 999).min(u32::MAX as u64)) / 1000;
        if c <= MAX && (w.to_wu() * 1000 < c || (w.to_wu() > 0 && (w.to_wu() - 1) * 1000 >= c)) {
            ctx.fail("weight-not-ceil", &format!("weight {c}"), &format!("got {} want {}", w.to_wu(), want));
        }
        if let Some((pc, pw)) = prev {
            if pc <= c && pw > w.to_wu() {
                ctx.fail("weight-not-monotone", &format!("weight {pc} vs {c}"), &format!("{pw} > {}", w.to_wu()));
            }
        }
        if wb != w {
            ctx.fail("weight-roundtrip", &format!("weight {c}"), "Weight -> Cost -> Weight changes the weight");
        }
        prev = Some((c, w.to_wu()));
    }

    // 2. exhaustive deficits over the region boundaries of the padding table, empty stack and a
    //    stack with one item (budget 51 resp. 52+len)
    let upto = ctx.scale(3_000, 70_000);
    for d in 0..=upto {
        let c = (51 + d) * 1000;
        one(ctx, c, &[], "deficit-exhaustive");
        if d % 7 == 0 {
            one(ctx, c - 999, &[], "deficit-exhaustive");
        }
    }
    for d in (65_000..66_000u64).chain(252..=260) {
        one(ctx, (51 + d) * 1000, &[], "deficit-boundary");
        one(ctx, (51 + d) * 1000 + 1, &[], "deficit-boundary");
        one(ctx, (52 + 33 + d) * 1000, &[33], "deficit-boundary");
    }
    // top of the range
    for i in 0..ctx.scale(20, 200) {
        one(ctx, MAX - i * 997, &[], "near-max");
    }

    // 3. random stacks straddling the compact-size boundaries of item count and item size
    let iters = ctx.scale(4_000, 60_000);
    for it in 0..iters {
        let r = &mut ctx.rng;
        let nitems = match it % 9 {
            0 => 0,
            1 => 251 + r.below(4) as usize,
            2 if it % 90 == 2 => 65534 + r.below(3) as usize,
            _ => 1 + r.below(4) as usize,
        };
        let big = nitems > 1000;
        let items: Vec<usize> = (0..nitems)
            .map(|_| {
                if big {
                    return r.below(2) as usize;
                }
                match r.below(6) {
                    0 => 0,
                    1 => 250 + r.below(6) as usize,
                    2 => 65530 + r.below(10) as usize,
                    3 => r.below(70000) as usize,
                    _ => r.below(300) as usize,
                }
            })
            .collect();
        let sl = stack_len(&items);
        let base = (sl + 50) * 1000;
        let c = match r.below(8) {
            0 => r.below(MAX + 1),
            1 => base.saturating_sub(r.below(3)),
            2 => base + r.below(3),
            3 => base + (250 + r.below(10)) * 1000 + r.below(3),
            4 => base + (65530 + r.below(15)) * 1000 + r.below(1001),
            5 => base + r.below(70000) * 1000,
            6 => MAX - r.below(1000),
            _ => base + r.below(300_000) * 1000,
        }
        .min(MAX);
        one(ctx, c, &items, "random-stack");
    }
}
