//! C18, second route: the library's own node type.  A DAG shape is built as `Arc<ConstructNode>`s
//! with exactly its pointer structure (one object per index: leaves `unit`/`iden`/`witness`, unary
//! `injl`/`injr`, binary `pair` — all typeable with one shared source type), finalised to
//! `CommitNode`s (pointer structure kept), and iterated through `DagLike for &Node` and
//! `DagLike for Arc<Node>` with `MaxSharing<Commit>` (sharing id = IHR; none below a witness),
//! `InternalSharing` and `NoSharing`.  The answers must be those of the index-array route on the
//! same shape with the same tags (class `real-differs`), and they go to the Lean model as the
//! same ops.

use super::*;
use simplicity::node::{Commit, CoreConstructible, Inner, WitnessConstructible};
use simplicity::{types, CommitNode, ConstructNode};
use std::sync::Arc;

/// tags so that structural equality of commit nodes = equality of (tag, children classes)
fn real_tags(r: &mut ctx::Rng, ch: &[Ch], witnesses: bool) -> Vec<Option<u32>> {
    ch.iter()
        .map(|c| match c {
            Ch::Nul => {
                if witnesses && r.chance(1, 6) {
                    None
                } else {
                    Some(r.below(2) as u32)
                }
            }
            Ch::Un(_) => Some(r.below(2) as u32),
            Ch::Bin(..) => Some(0),
        })
        .collect()
}

fn build_commit(c: &Case) -> Result<(Arc<CommitNode>, HashMap<*const CommitNode, usize>), String> {
    let commit = types::Context::with_context(|ctx| {
        let mut v: Vec<Arc<ConstructNode>> = Vec::with_capacity(c.ch.len());
        for (i, ch) in c.ch.iter().enumerate() {
            let nd = match (ch, c.tags[i]) {
                (Ch::Nul, Some(0)) => Arc::<ConstructNode>::unit(&ctx),
                (Ch::Nul, Some(_)) => Arc::<ConstructNode>::iden(&ctx),
                (Ch::Nul, None) => Arc::<ConstructNode>::witness(&ctx, None),
                (Ch::Un(l), Some(0)) => Arc::<ConstructNode>::injl(&v[*l]),
                (Ch::Un(l), _) => Arc::<ConstructNode>::injr(&v[*l]),
                (Ch::Bin(l, r), _) => Arc::<ConstructNode>::pair(&v[*l], &v[*r]).map_err(|e| format!("pair: {e}"))?,
            };
            v.push(nd);
        }
        v.last().unwrap().finalize_types_non_program().map_err(|e| format!("finalize_types: {e}"))
    })?;
    // object → index, by a walk of our own (memoised on the pointer)
    let mut m: HashMap<*const CommitNode, usize> = HashMap::new();
    let mut st: Vec<(Arc<CommitNode>, usize)> = vec![(Arc::clone(&commit), c.ch.len() - 1)];
    while let Some((nd, i)) = st.pop() {
        if let Some(j) = m.insert(Arc::as_ptr(&nd), i) {
            if j != i {
                return Err(format!("conversion merged objects {i} and {j}"));
            }
            continue;
        }
        match (nd.inner(), c.ch[i]) {
            (Inner::Unit | Inner::Iden | Inner::Witness(_), Ch::Nul) => {}
            (Inner::InjL(s) | Inner::InjR(s), Ch::Un(l)) => st.push((Arc::clone(s), l)),
            (Inner::Pair(a, b), Ch::Bin(l, r)) => {
                st.push((Arc::clone(a), l));
                st.push((Arc::clone(b), r));
            }
            _ => return Err(format!("node {i} has another shape after conversion")),
        }
    }
    if m.len() != c.ch.len() {
        return Err(format!("conversion produced {} objects for {} nodes", m.len(), c.ch.len()));
    }
    Ok((commit, m))
}

fn observe_real<'a, S>(root: &'a CommitNode, m: &HashMap<*const CommitNode, usize>, md: usize) -> Obs
where
    S: SharingTracker<&'a CommitNode> + SharingTracker<SwapChildren<&'a CommitNode>> + Default,
{
    let ix = |n: &CommitNode| m[&(n as *const CommitNode)];
    let it = |d: simplicity::dag::PostOrderIterItem<&'a CommitNode>| It { node: ix(d.node), index: d.index, l: d.left_index, r: d.right_index };
    let vi = |d: simplicity::dag::PreOrderIterItem<&'a CommitNode>| Vi {
        node: ix(d.node),
        parent: d.parent.map(ix),
        index: d.index,
        depth: d.depth,
        ncy: d.n_children_yielded,
        complete: d.is_complete,
    };
    Obs {
        post: root.post_order_iter::<S>().take(RUNAWAY).map(it).collect(),
        rtl: root.rtl_post_order_iter::<S>().take(RUNAWAY).map(it).collect(),
        pre: root.pre_order_iter::<S>().take(RUNAWAY).map(ix).collect(),
        vpre: root.verbose_pre_order_iter::<S>(None).take(RUNAWAY).map(vi).collect(),
        vcut: root.verbose_pre_order_iter::<S>(Some(md)).take(RUNAWAY).map(vi).collect(),
        shared: root.is_shared_as::<S>(),
        post_ptr: root.post_order_iter::<InternalSharing>().take(RUNAWAY).map(|d| ix(d.node)).collect(),
    }
}

/// the `Arc<Node>` handle: post-order only (the other iterators are the same generic code)
fn post_arc<S>(root: &Arc<CommitNode>, m: &HashMap<*const CommitNode, usize>) -> Vec<It>
where
    S: SharingTracker<Arc<CommitNode>> + Default,
{
    Arc::clone(root).post_order_iter::<S>().take(RUNAWAY).map(|d| It { node: m[&Arc::as_ptr(&d.node)], index: d.index, l: d.left_index, r: d.right_index }).collect()
}

fn one_real(ctx: &mut Ctx, c: &Case, md: usize) {
    let n = c.ch.len();
    let case_line = format!("real {}", op_line("all", Pol::Hash, Some(md), c));
    let (commit, m) = match ctx::catch(|| build_commit(c)) {
        Ok(Ok(x)) => x,
        Ok(Err(e)) => {
            ctx.count("real:not-built");
            ctx.note(&format!("real route: {e} on {case_line}"));
            return;
        }
        Err(msg) => {
            ctx.fail("panic-real-build", &case_line, &msg);
            return;
        }
    };
    let nodes = build_nodes(c);
    let h = H(n - 1, &nodes);
    for pol in [Pol::Hash, Pol::Ptr, Pol::None] {
        // a policy with unkeyed nodes (NoSharing; MaxSharing above a witness) walks the unfolding
        let cls = classes(c, &nodes, pol);
        let mut probe = RefWalk::new(c, &cls, false, 5000);
        probe.visit(n - 1);
        if probe.over {
            ctx.count(&format!("skipped:real-{}-walk-longer-than-5000", pol.name()));
            continue;
        }
        let res = ctx::catch(|| match pol {
            Pol::Hash => (observe_real::<MaxSharing<Commit>>(&commit, &m, md), post_arc::<MaxSharing<Commit>>(&commit, &m), observe::<HashSharing>(h, md)),
            Pol::Ptr => (observe_real::<InternalSharing>(&commit, &m, md), post_arc::<InternalSharing>(&commit, &m), observe::<InternalSharing>(h, md)),
            _ => (observe_real::<NoSharing>(&commit, &m, md), post_arc::<NoSharing>(&commit, &m), observe::<NoSharing>(h, md)),
        });
        let (real, arc, idx) = match res {
            Ok(x) => x,
            Err(msg) => {
                ctx.fail("panic-iterator", &case_line, &format!("policy {}: {msg}", pol.name()));
                continue;
            }
        };
        let fl = Flags { congruent: congruent(c, &cls), root_fresh: root_fresh(&cls) };
        let shared = format!("{} rf={} cg={}", real.shared as u8, fl.root_fresh as u8, fl.congruent as u8);
        if n <= 8 {
            ctx.op(
                &op_line("all", pol, Some(md), c),
                &format!("post {} | rtl {} | pre {} | vpre {} | vcut {} | shared {}", fmt_items(&real.post), fmt_items(&real.rtl), fmt_pre(&real.pre), fmt_v(&real.vpre), fmt_v(&real.vcut), shared),
            );
        } else {
            ctx.op(&op_line("post", pol, None, c), &fmt_items(&real.post));
            ctx.op(&op_line("rtl", pol, None, c), &fmt_items(&real.rtl));
            ctx.op(&op_line("pre", pol, None, c), &fmt_pre(&real.pre));
            ctx.op(&op_line("vpre", pol, Some(md), c), &fmt_v(&real.vcut));
            ctx.op(&op_line("shared", pol, None, c), &shared);
        }
        let mut diff = vec![];
        if real.post != idx.post {
            diff.push("post_order_iter");
        }
        if arc != idx.post {
            diff.push("post_order_iter on Arc<Node>");
        }
        if real.rtl != idx.rtl {
            diff.push("rtl_post_order_iter");
        }
        if real.pre != idx.pre {
            diff.push("pre_order_iter");
        }
        if real.vpre != idx.vpre || real.vcut != idx.vcut {
            diff.push("verbose_pre_order_iter");
        }
        if real.shared != idx.shared {
            diff.push("is_shared_as");
        }
        if !diff.is_empty() {
            ctx.fail("real-differs", &case_line, &format!("policy {}: {} on CommitNodes differ(s) from the same DAG as an index array", pol.name(), diff.join(", ")));
        }
        let (fails, _) = oracle(c, pol, md, &cls, &fl, &unfolded(c), &real, 5000);
        for (class, detail) in &fails {
            ctx.fail(class, &case_line, &format!("CommitNode route, policy {}: {detail}", pol.name()));
        }
        ctx.count(&format!("reach:real-node-{}", match pol {
            Pol::Hash => "max-sharing",
            Pol::Ptr => "internal-sharing",
            _ => "no-sharing",
        }));
        ctx.case(Some(&format!("{case_line} {}", pol.name())));
    }
    if c.tags.iter().any(|t| t.is_none()) {
        ctx.count("reach:real-node-with-witness");
    }
}

pub fn replay(ctx: &mut Ctx, case: &str) {
    if let Some((_, _, md, c)) = parse_line(case.trim_start_matches("real ")) {
        one_real(ctx, &c, md.unwrap_or(1));
    }
}

pub fn run(ctx: &mut Ctx) {
    let quick = ctx.quick();
    // every shape up to 5 (quick) / 6 (thorough) nodes with random combinators
    let mut shapes: Vec<Vec<Ch>> = vec![];
    for_all_shapes(if quick { 5 } else { 6 }, |s| shapes.push(s.to_vec()));
    for s in &shapes {
        let mut r = ctx.rng.fork();
        let w = r.chance(1, 3);
        let tags = real_tags(&mut r, s, w);
        let c = Case { ch: s.clone(), tags, keys: vec![None; s.len()] };
        one_real(ctx, &c, r.below(4) as usize);
    }
    for it in 0..ctx.scale(300, 6000) {
        let mut r = ctx.rng.fork();
        let n = r.range(6, 40) as usize;
        let s = random_shape(&mut r, n, it % 5);
        let w = r.chance(1, 3);
        let c = Case { tags: real_tags(&mut r, &s, w), keys: vec![None; s.len()], ch: s };
        // the bit width of the target type doubles along a ladder of pairs
        if unfolded(&c)[c.ch.len() - 1] > 1 << 36 {
            ctx.count("skipped:real-type-too-wide");
            continue;
        }
        one_real(ctx, &c, r.below(6) as usize);
    }
}
