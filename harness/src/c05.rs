//! C05 — Bit Machine execution equals the denotational semantics.
//!
//! op:  `exec <plan> W:i:bits… T:name:src:tgt… C:name:cmr… J:name:in:out|fail… I:<input compact bits>`
//!      → `ok <output compact bits>` | `fail assertion|failNode|jet`
//! oracle (implementation alone): a 60-line reference evaluator of the big-step semantics on
//! abstract values (jets through the calls recorded on that very run: a jet that is handed an input
//! the semantics does not predict is a failure) must give the same value / the same failure kind;
//! the result has exactly the program's target type; the result does not depend on the padding
//! bits of the input.

use crate::ctx::{catch, Ctx};
use crate::gen::{self, GenCfg, PNode, Plan, T, V};
use crate::progs::{self, Outcome};
use simplicity::jet::Elements;
use simplicity::node::Inner;
use simplicity::{RedeemNode, Value};
use std::collections::HashMap;

pub const RULE: &str = "type-directed plans of pinned source/target type (depth 2..6, all node kinds incl. disconnect, assertions, words, witness-selected cases, jets fed by witnesses), built in a fresh context, random witness values of the inferred types, input values with clean and with random padding; non-trivial = at least 4 nodes executed; distinct by (plan, witnesses, input)";

#[derive(Debug, PartialEq, Clone, Copy)]
pub enum RFail {
    Assertion,
    FailNode,
    Jet,
    Stuck,
}

fn v_of(val: &Value) -> V {
    let t = T::from_fin(val.ty());
    gen::dec_compact(&t, &mut val.iter_compact()).expect("value decodes at its own type")
}

pub type Calls = [(Elements, Vec<bool>, Option<Vec<bool>>)];

/// big-step semantics on abstract values
pub fn ref_eval(n: &RedeemNode, v: &V, calls: &Calls) -> Result<V, RFail> {
    use Inner as I;
    let bx = Box::new;
    match n.inner() {
        I::Iden => Ok(v.clone()),
        I::Unit => Ok(V::U),
        I::InjL(t) => Ok(V::L(bx(ref_eval(t, v, calls)?))),
        I::InjR(t) => Ok(V::R(bx(ref_eval(t, v, calls)?))),
        I::Take(t) => match v {
            V::P(x, _) => ref_eval(t, x, calls),
            _ => Err(RFail::Stuck),
        },
        I::Drop(t) => match v {
            V::P(_, y) => ref_eval(t, y, calls),
            _ => Err(RFail::Stuck),
        },
        I::Comp(s, t) => {
            let m = ref_eval(s, v, calls)?;
            ref_eval(t, &m, calls)
        }
        I::Pair(s, t) => {
            let x = ref_eval(s, v, calls)?;
            let y = ref_eval(t, v, calls)?;
            Ok(V::P(bx(x), bx(y)))
        }
        I::Case(s, t) => match v {
            V::P(xy, z) => match &**xy {
                V::L(x) => ref_eval(s, &V::P(x.clone(), z.clone()), calls),
                V::R(y) => ref_eval(t, &V::P(y.clone(), z.clone()), calls),
                _ => Err(RFail::Stuck),
            },
            _ => Err(RFail::Stuck),
        },
        I::AssertL(s, _) => match v {
            V::P(xy, z) => match &**xy {
                V::L(x) => ref_eval(s, &V::P(x.clone(), z.clone()), calls),
                V::R(_) => Err(RFail::Assertion),
                _ => Err(RFail::Stuck),
            },
            _ => Err(RFail::Stuck),
        },
        I::AssertR(_, t) => match v {
            V::P(xy, z) => match &**xy {
                V::R(y) => ref_eval(t, &V::P(y.clone(), z.clone()), calls),
                V::L(_) => Err(RFail::Assertion),
                _ => Err(RFail::Stuck),
            },
            _ => Err(RFail::Stuck),
        },
        I::Witness(w) => Ok(v_of(w)),
        I::Word(w) => Ok(v_of(w.as_value())),
        I::Fail(_) => Err(RFail::FailNode),
        I::Disconnect(s, t) => {
            let bits: Vec<bool> = t.cmr().as_ref().iter().flat_map(|b| (0..8).map(move |i| b & (1 << (7 - i)) != 0)).collect();
            let cw = gen::dec_compact(&T::word(8), &mut bits.into_iter()).unwrap();
            let out = ref_eval(s, &V::P(bx(cw), bx(v.clone())), calls)?;
            match out {
                V::P(b1, c) => {
                    let dd = ref_eval(t, &c, calls)?;
                    Ok(V::P(b1, bx(dd)))
                }
                _ => Err(RFail::Stuck),
            }
        }
        I::Jet(j) => {
            let j: Elements = *j.as_any().downcast_ref::<Elements>().unwrap();
            let mut inp = vec![];
            gen::compact(v, &mut inp);
            match calls.iter().find(|(k, i, _)| *k == j && *i == inp) {
                Some((_, _, Some(out))) => {
                    let t = T::from_fin(&n.arrow().target);
                    gen::dec_compact(&t, &mut out.iter().copied()).ok_or(RFail::Stuck)
                }
                Some((_, _, None)) => Err(RFail::Jet),
                None => Err(RFail::Stuck),
            }
        }
    }
}

pub struct Case {
    pub plan: Plan,
    pub wits: HashMap<usize, Value>,
    pub input_bits: Vec<bool>,
    pub dirty: bool,
}

pub fn case_text(c: &Case, calls: &Calls) -> String {
    format!("exec {}{} I:{}", c.plan.text(), progs::extras(&c.plan, &c.wits, calls), gen::bits_text(&c.input_bits))
}

/// input value of type `ty` denoting the element with compact bits `bits`; with `dirty`, decoded
/// from a padded encoding whose padding bits are random
pub fn input_value(ctx: &mut Ctx, ty: &simplicity::types::Final, bits: &[bool], dirty: bool) -> Value {
    let mut bytes = vec![0u8; bits.len() / 8 + 1];
    for (i, b) in bits.iter().enumerate() {
        if *b {
            bytes[i / 8] |= 1 << (7 - i % 8);
        }
    }
    let v = Value::from_compact_bits(&mut simplicity::BitIter::from(bytes), ty).expect("input bits decode");
    if !dirty {
        return v;
    }
    let t = T::from_fin(ty);
    let rv = v_of(&v);
    let mut pb = vec![];
    gen::padded(&t, &rv, &mut Some(&mut ctx.rng), &mut pb);
    let mut bytes = vec![0u8; pb.len() / 8 + 1];
    for (i, b) in pb.iter().enumerate() {
        if *b {
            bytes[i / 8] |= 1 << (7 - i % 8);
        }
    }
    Value::from_padded_bits(&mut simplicity::BitIter::from(bytes), ty).expect("padded bits decode")
}

/// run one case; returns false when the plan could not be turned into a redeem program
pub fn one(ctx: &mut Ctx, c: &Case, marks: bool) -> bool {
    let red = match gen::redeem_with(&c.plan, &c.wits, false) {
        Ok(r) => r,
        Err(_) => return false,
    };
    let env = progs::dummy_env();
    let src = red.arrow().source.clone();
    let tgt = red.arrow().target.clone();
    let input = input_value(ctx, &src, &c.input_bits, c.dirty);
    let run = match catch(|| progs::run(&red, Some(&input), &env)) {
        Ok(Ok(r)) => r,
        Ok(Err(e)) => {
            ctx.count(&format!("skipped:{}", e.split(':').next().unwrap_or("?")));
            return false;
        }
        Err(p) => {
            let line = case_text(c, &[]);
            ctx.fail("panic-exec", &line, &p);
            return true;
        }
    };
    let line = case_text(c, &run.rec.calls);
    let out_text = match &run.outcome {
        Outcome::Ok(v) => format!("ok {}", gen::value_compact_text(v)),
        Outcome::Fail(k) => format!("fail {k}"),
        Outcome::Other(e) => format!("other {e}"),
    };
    let ans = if marks {
        match &run.outcome {
            Outcome::Ok(_) => format!(
                "{} cells={} frames={} xcells={} xframes={}",
                out_text,
                run.max_cells,
                run.max_frames,
                red.bounds().extra_cells,
                red.bounds().extra_frames
            ),
            _ => out_text.clone(),
        }
    } else {
        out_text.clone()
    };
    if run.rec.work <= 20000 {
        ctx.op(&line, &ans);
    } else {
        // still checked against the reference evaluator below
        ctx.count("model-skipped:too-many-cell-writes");
    }
    let nontrivial = run.rec.nodes_visited >= 4;
    ctx.case(if nontrivial { Some(&line) } else { None });
    for k in &run.rec.kinds {
        ctx.count(&format!("reach:{k}"));
    }
    ctx.count(if c.dirty { "reach:dirty-padding-input" } else { "reach:clean-input" });
    match &run.outcome {
        Outcome::Ok(_) => ctx.count("reach:success"),
        Outcome::Fail(k) => ctx.count(&format!("reach:fail-{k}")),
        Outcome::Other(_) => ctx.count("other-outcome"),
    }
    if ctx.want_sample() && nontrivial {
        ctx.sample(&format!("{line} -> {ans}"));
    }
    // the oracle: reference semantics
    let vin = v_of(&input);
    let want = ref_eval(&red, &vin, &run.rec.calls);
    match (&run.outcome, &want) {
        (Outcome::Ok(v), Ok(w)) => {
            if v.ty() != tgt.as_ref() {
                ctx.fail("output-type", &line, &format!("result has type {}, target type is {}", v.ty(), tgt));
            } else if v_of(v) != *w {
                let mut wb = vec![];
                gen::compact(w, &mut wb);
                ctx.fail("output-value", &line, &format!("machine {} semantics {}", gen::value_compact_text(v), gen::bits_text(&wb)));
            }
        }
        (Outcome::Fail("assertion"), Err(RFail::Assertion)) | (Outcome::Fail("failNode"), Err(RFail::FailNode)) | (Outcome::Fail("jet"), Err(RFail::Jet)) => {}
        (o, w) => {
            let os = match o {
                Outcome::Ok(v) => format!("ok {}", gen::value_compact_text(v)),
                Outcome::Fail(k) => format!("fail {k}"),
                Outcome::Other(e) => e.clone(),
            };
            ctx.fail("verdict", &line, &format!("machine: {os}; semantics: {:?}", w.as_ref().map(|_| "ok")));
        }
    }
    if marks {
        // C07: never more cells / frames than the static bounds plus the IO allowance
        let io = src.bit_width() + tgt.bit_width();
        let b = red.bounds();
        if run.max_cells > io + b.extra_cells {
            ctx.fail("cells-over-bound", &line, &format!("high-water {} > io {} + extra_cells {}", run.max_cells, io, b.extra_cells));
        }
        if run.max_frames > b.extra_frames + 2 {
            ctx.fail("frames-over-bound", &line, &format!("high-water {} > extra_frames {} + 2", run.max_frames, b.extra_frames));
        }
        if run.max_cells > run.cap_cells {
            ctx.fail("cells-over-capacity", &line, &format!("high-water {} > capacity {}", run.max_cells, run.cap_cells));
        }
        if run.max_cells == io + b.extra_cells {
            ctx.count("cell-bound-attained");
        }
        if run.max_frames == b.extra_frames + 2 {
            ctx.count("frame-bound-attained");
        }
    }
    true
}

pub fn gen_case(ctx: &mut Ctx, it: u64, jets: bool) -> Option<Case> {
    let a = gen::gen_t(&mut ctx.rng, 3);
    let b = gen::gen_t(&mut ctx.rng, 3);
    let depth = 2 + (it % 5) as usize;
    let mut cfg = GenCfg { fail: it % 4 == 0, jets, ..GenCfg::default() };
    if jets {
        cfg.jet_pool = crate::progs::simple_jets();
        // `verify` fails on a zero bit: makes jet failures a regular outcome
        for _ in 0..(cfg.jet_pool.len() / 8) {
            cfg.jet_pool.push(Elements::Verify);
        }
    }
    let plan = gen::gen_plan_pinned(&mut ctx.rng, cfg, &a, &b, depth);
    if plan.nodes.len() > 120 {
        ctx.count("generator:too-large");
        return None;
    }
    let (red, wits) = match gen::redeem_of_plan(&plan, &mut ctx.rng, false) {
        Ok(x) => x,
        Err(e) => {
            ctx.count(&format!("generator:{}", e.split(':').next().unwrap_or("?")));
            if ctx.get_count("generator:type") < 3 {
                ctx.note(&format!("rejected plan: {e}"));
            }
            return None;
        }
    };
    let v = gen::random_value(&mut ctx.rng, &red.arrow().source);
    let input_bits: Vec<bool> = v.iter_compact().collect();
    Some(Case { plan, wits, input_bits, dirty: ctx.rng.bool() })
}

/// data-movement programs (see `gen::layout_plan`): all copy lengths at all frame offsets
pub fn run_layout(ctx: &mut Ctx, marks: bool) {
    let n = ctx.scale(12_000, 120_000);
    let mut done = 0;
    for it in 0..20 * n {
        if done >= n {
            break;
        }
        let plan = if it % 8 == 5 {
            gen::case_read_plan(&mut ctx.rng.fork(), it % 16 == 5)
        } else if it % 4 == 3 {
            gen::layout_verdict_plan(&mut ctx.rng.fork())
        } else { gen::layout_plan(&mut ctx.rng.fork(), it % 2 == 0, (it % 3) as usize) };
        if plan.nodes.len() > 150 {
            continue;
        }
        let Ok((red, wits)) = gen::redeem_of_plan(&plan, &mut ctx.rng, false) else {
            ctx.count("generator:layout-rejected");
            continue;
        };
        let v = gen::random_value(&mut ctx.rng, &red.arrow().source);
        let input_bits: Vec<bool> = v.iter_compact().collect();
        let c = Case { plan, wits, input_bits, dirty: ctx.rng.bool() };
        if one(ctx, &c, marks) {
            done += 1;
            ctx.count("reach:layout-family");
        }
    }
}

pub fn run_gen(ctx: &mut Ctx, marks: bool) {
    run_layout(ctx, marks);
    let n = ctx.scale(1500, 40_000);
    let mut done = 0;
    let mut it = 0u64;
    while done < n && it < 20 * n {
        it += 1;
        let Some(c) = gen_case(ctx, it, it % 3 == 0) else {
            ctx.count("generator:rejected");
            continue;
        };
        if one(ctx, &c, marks) {
            done += 1;
            // the same element with other padding bits must give the same answer (same op twice
            // for the model, which never sees padding)
            if c.dirty && it % 5 == 0 {
                let c2 = Case { plan: c.plan.clone(), wits: c.wits.iter().map(|(k, v)| (*k, v.shallow_clone())).collect(), input_bits: c.input_bits.clone(), dirty: true };
                one(ctx, &c2, marks);
            }
        }
    }
}

pub fn parse_case(case: &str) -> Option<Case> {
    let toks: Vec<&str> = case.split_whitespace().collect();
    if toks.first() != Some(&"exec") {
        return None;
    }
    let (plan, used) = Plan::parse(&toks[1..])?;
    let mut wits = HashMap::new();
    let mut wbits: Vec<(usize, Vec<bool>)> = vec![];
    let mut input_bits = vec![];
    for t in &toks[1 + used..] {
        let f: Vec<&str> = t.split(':').collect();
        match f[0] {
            "W" => wbits.push((f[1].parse().ok()?, gen::parse_bits(f[2])?)),
            "I" => input_bits = gen::parse_bits(f[1])?,
            _ => {}
        }
    }
    // witness values need the inferred types
    let (_, arrows) = gen::arrows_of_plan(&plan, None, false).ok()?;
    for (i, bits) in wbits {
        let ty = arrows[i].as_ref()?.1.clone();
        let mut bytes = vec![0u8; bits.len() / 8 + 1];
        for (k, b) in bits.iter().enumerate() {
            if *b {
                bytes[k / 8] |= 1 << (7 - k % 8);
            }
        }
        wits.insert(i, Value::from_compact_bits(&mut simplicity::BitIter::from(bytes), &ty).ok()?);
    }
    let _ = PNode::Iden;
    Some(Case { plan, wits, input_bits, dirty: false })
}

pub fn replay(ctx: &mut Ctx, case: &str) {
    if let Some(c) = parse_case(case) {
        one(ctx, &c, false);
        let c2 = Case { dirty: true, plan: c.plan.clone(), wits: c.wits.iter().map(|(k, v)| (*k, v.shallow_clone())).collect(), input_bits: c.input_bits.clone() };
        one(ctx, &c2, false);
    } else {
        ctx.note("replay: case text not understood");
    }
}

/// the word jets whose specified function the Lean model states (`JetSpec.lean`)
const SPEC_BASES: &[&str] = &[
    "add", "full_add", "subtract", "full_subtract", "multiply", "full_multiply", "and", "or", "xor", "complement", "maj", "ch", "xor_xor", "eq", "lt", "le", "min", "max",
    "median", "increment", "full_increment", "decrement", "full_decrement", "negate", "is_zero", "is_one", "some", "all", "low", "high", "one", "divide", "modulo", "div_mod",
    "divides",
];

/// arithmetic, logic and comparison jets against their specified functions: `jetspec <name> <input
/// bits>` → output bits (the model computes them on naturals; the implementation runs the C jet
/// through a one-jet program on the Bit Machine)
pub fn run_jet_specs(ctx: &mut Ctx) {
    let env = progs::dummy_env();
    let per_jet = ctx.scale(24, 400);
    for j in Elements::ALL.iter().copied() {
        let name = j.to_string();
        let Some((base, w)) = name.rsplit_once('_') else { continue };
        if !SPEC_BASES.contains(&base) || !["8", "16", "32", "64"].contains(&w) {
            continue;
        }
        let plan = Plan { nodes: vec![PNode::Jet(j)] };
        let Ok(red) = gen::redeem_with(&plan, &HashMap::new(), false) else { continue };
        let src = red.arrow().source.clone();
        let width = src.bit_width();
        for k in 0..per_jet {
            // boundary-dense inputs: each byte all zeros / all ones / 0x01 / 0x80 / random
            let mut bits = vec![false; width];
            for (bi, chunk) in bits.chunks_mut(8).enumerate() {
                let style = if k < 6 { k } else { ctx.rng.below(8) };
                let byte: u8 = match (style + bi as u64) % 8 {
                    0 => 0x00,
                    1 => 0xff,
                    2 => 0x01,
                    3 => 0x80,
                    4 => 0xfe,
                    _ => ctx.rng.next() as u8,
                };
                for (i, b) in chunk.iter_mut().enumerate() {
                    *b = byte >> (7 - i) & 1 == 1;
                }
            }
            if width % 8 != 0 {
                // leading carry/borrow bit of the full_* jets
                bits[0] = ctx.rng.bool();
            }
            let input = input_value(ctx, &src, &bits, false);
            let line = format!("jetspec {} {}", name, gen::bits_text(&bits));
            match catch(|| progs::run(&red, Some(&input), &env)) {
                Ok(Ok(run)) => match run.outcome {
                    Outcome::Ok(v) => {
                        ctx.op(&line, &gen::value_compact_text(&v));
                        ctx.case(Some(&line));
                        ctx.count(&format!("reach:jetspec-{base}"));
                    }
                    Outcome::Fail(k) => ctx.fail("specified-jet-fails", &line, &format!("the jet fails ({k}) on an input of its source type")),
                    Outcome::Other(e) => ctx.fail("specified-jet-error", &line, &e),
                },
                Ok(Err(e)) => ctx.note(&format!("jetspec {name}: {e}")),
                Err(p) => ctx.fail("panic-exec", &line, &p),
            }
        }
    }
}

pub fn run(ctx: &mut Ctx) {
    run_gen(ctx, false);
    run_jet_specs(ctx);
}
