//! An independent reader/assembler of the wire format (node list with back references), used to
//! hand-assemble encodings that violate one canonicity rule at a time.

use simplicity::jet::{Elements, Jet};
use simplicity::{BitIter, BitWriter};

#[derive(Clone, Debug, PartialEq)]
pub enum W {
    Iden,
    Unit,
    Witness,
    InjL(usize),
    InjR(usize),
    Take(usize),
    Drop(usize),
    Disc1(usize),
    Comp(usize, usize),
    Case(usize, usize),
    Pair(usize, usize),
    Disc(usize, usize),
    Fail(Vec<bool>),
    Hidden(Vec<bool>),
    /// the bits after the `11` prefix
    Jet(Vec<bool>),
    /// header value (1 + n) and the word's bits
    Word(u64, Vec<bool>),
}

impl W {
    pub fn children(&self) -> Vec<usize> {
        match self {
            W::InjL(c) | W::InjR(c) | W::Take(c) | W::Drop(c) | W::Disc1(c) => vec![*c],
            W::Comp(a, b) | W::Case(a, b) | W::Pair(a, b) | W::Disc(a, b) => vec![*a, *b],
            _ => vec![],
        }
    }
    pub fn map_children(&self, f: &dyn Fn(usize) -> usize) -> W {
        match self {
            W::InjL(c) => W::InjL(f(*c)),
            W::InjR(c) => W::InjR(f(*c)),
            W::Take(c) => W::Take(f(*c)),
            W::Drop(c) => W::Drop(f(*c)),
            W::Disc1(c) => W::Disc1(f(*c)),
            W::Comp(a, b) => W::Comp(f(*a), f(*b)),
            W::Case(a, b) => W::Case(f(*a), f(*b)),
            W::Pair(a, b) => W::Pair(f(*a), f(*b)),
            W::Disc(a, b) => W::Disc(f(*a), f(*b)),
            w => w.clone(),
        }
    }
    /// the same node with its children replaced, slot by slot
    pub fn with_children(&self, ch: &[usize]) -> W {
        match self {
            W::InjL(_) => W::InjL(ch[0]),
            W::InjR(_) => W::InjR(ch[0]),
            W::Take(_) => W::Take(ch[0]),
            W::Drop(_) => W::Drop(ch[0]),
            W::Disc1(_) => W::Disc1(ch[0]),
            W::Comp(..) => W::Comp(ch[0], ch[1]),
            W::Case(..) => W::Case(ch[0], ch[1]),
            W::Pair(..) => W::Pair(ch[0], ch[1]),
            W::Disc(..) => W::Disc(ch[0], ch[1]),
            w => w.clone(),
        }
    }
}

/// reference encoder of naturals (n ≥ 1)
pub fn nat_bits(n: u64, out: &mut Vec<bool>) {
    assert!(n >= 1);
    // chain n, len(n), len(len(n)), … down to 0
    let mut chain = vec![];
    let mut cur = n;
    loop {
        let len = 63 - cur.leading_zeros() as u64; // floor(log2)
        if len == 0 {
            out.push(false);
            break;
        }
        out.push(true);
        chain.push((cur, len));
        cur = len;
    }
    while let Some((bits, len)) = chain.pop() {
        for i in (0..len).rev() {
            out.push(bits >> i & 1 == 1);
        }
    }
}

fn read_nat(bits: &[bool], pos: &mut usize) -> Option<u64> {
    let mut ones = 0;
    loop {
        let b = *bits.get(*pos)?;
        *pos += 1;
        if b {
            ones += 1
        } else {
            break;
        }
    }
    let mut len: u64 = 1;
    for _ in 0..ones {
        if len > 62 {
            return None;
        }
        let mut v: u64 = 1;
        for _ in 0..len {
            let b = *bits.get(*pos)?;
            *pos += 1;
            v = v << 1 | b as u64;
        }
        len = v;
    }
    Some(len)
}

/// relative reference `rel` of node `idx`; `None` if it does not point strictly backwards
fn abs(idx: usize, rel: u64) -> Option<usize> {
    if rel >= 1 && rel as usize <= idx {
        Some(idx - rel as usize)
    } else {
        None
    }
}

pub fn bits_of(bytes: &[u8]) -> Vec<bool> {
    bytes.iter().flat_map(|b| (0..8).map(move |i| b >> (7 - i) & 1 == 1)).collect()
}

pub fn bytes_of(bits: &[bool]) -> Vec<u8> {
    let mut v = vec![0u8; (bits.len() + 7) / 8];
    for (i, b) in bits.iter().enumerate() {
        if *b {
            v[i / 8] |= 1 << (7 - i % 8);
        }
    }
    v
}

/// parse a *valid* program encoding into its node list (None on anything unexpected)
pub fn parse(bytes: &[u8]) -> Option<Vec<W>> {
    let bits = bits_of(bytes);
    let mut pos = 0;
    let len = read_nat(&bits, &mut pos)? as usize;
    let mut out = Vec::new();
    for idx in 0..len {
        let b0 = *bits.get(pos)?;
        pos += 1;
        if b0 {
            let b1 = *bits.get(pos)?;
            pos += 1;
            if b1 {
                // jet: let the library consume it to find the length of the code
                let rest = bytes_of(&bits[pos..]);
                let mut it = BitIter::from(&rest[..]);
                Elements::decode(&mut it).ok()?;
                let used = it.n_total_read();
                out.push(W::Jet(bits[pos..pos + used].to_vec()));
                pos += used;
            } else {
                let h = read_nat(&bits, &mut pos)?;
                if !(1..=32).contains(&h) {
                    return None;
                }
                let n = 1usize << (h - 1);
                out.push(W::Word(h, bits.get(pos..pos + n)?.to_vec()));
                pos += n;
            }
            continue;
        }
        let c: Vec<bool> = bits.get(pos..pos + 3)?.to_vec();
        pos += 3;
        match (c[0], c[1], c[2]) {
            (false, false, _) | (false, true, _) => {
                let c3 = *bits.get(pos)?;
                pos += 1;
                let code = (c[0] as u8) << 3 | (c[1] as u8) << 2 | (c[2] as u8) << 1 | c3 as u8;
                let w = match code {
                    0..=3 => {
                        let i = abs(idx, read_nat(&bits, &mut pos)?)?;
                        let j = abs(idx, read_nat(&bits, &mut pos)?)?;
                        match code {
                            0 => W::Comp(i, j),
                            1 => W::Case(i, j),
                            2 => W::Pair(i, j),
                            _ => W::Disc(i, j),
                        }
                    }
                    _ => {
                        let i = abs(idx, read_nat(&bits, &mut pos)?)?;
                        match code {
                            4 => W::InjL(i),
                            5 => W::InjR(i),
                            6 => W::Take(i),
                            _ => W::Drop(i),
                        }
                    }
                };
                out.push(w);
            }
            (true, false, _) => {
                let c3 = *bits.get(pos)?;
                pos += 1;
                match (c[2], c3) {
                    (false, false) => out.push(W::Iden),
                    (false, true) => out.push(W::Unit),
                    (true, false) => {
                        out.push(W::Fail(bits.get(pos..pos + 512)?.to_vec()));
                        pos += 512;
                    }
                    (true, true) => out.push(W::Disc1(abs(idx, read_nat(&bits, &mut pos)?)?)),
                }
            }
            (true, true, false) => {
                out.push(W::Hidden(bits.get(pos..pos + 256)?.to_vec()));
                pos += 256;
            }
            (true, true, true) => out.push(W::Witness),
        }
    }
    let _ = BitWriter::<Vec<u8>>::new;
    Some(out)
}

/// assemble a node list (children by absolute index; a child index ≥ the node's own index is
/// written as the out-of-range reference `idx + 1`); returns the bits, not padded
pub fn assemble_bits(nodes: &[W]) -> Vec<bool> {
    let mut out = vec![];
    nat_bits(nodes.len().max(1) as u64, &mut out);
    for (idx, n) in nodes.iter().enumerate() {
        let rel = |c: usize| -> u64 {
            if c < idx {
                (idx - c) as u64
            } else {
                idx as u64 + 1
            }
        };
        let code = |bits: &[u8], out: &mut Vec<bool>| out.extend(bits.iter().map(|b| *b == 1));
        match n {
            W::Comp(i, j) | W::Case(i, j) | W::Pair(i, j) | W::Disc(i, j) => {
                let c = match n {
                    W::Comp(..) => [0, 0, 0, 0, 0],
                    W::Case(..) => [0, 0, 0, 0, 1],
                    W::Pair(..) => [0, 0, 0, 1, 0],
                    _ => [0, 0, 0, 1, 1],
                };
                code(&c, &mut out);
                nat_bits(rel(*i), &mut out);
                nat_bits(rel(*j), &mut out);
            }
            W::InjL(i) | W::InjR(i) | W::Take(i) | W::Drop(i) => {
                let c = match n {
                    W::InjL(..) => [0, 0, 1, 0, 0],
                    W::InjR(..) => [0, 0, 1, 0, 1],
                    W::Take(..) => [0, 0, 1, 1, 0],
                    _ => [0, 0, 1, 1, 1],
                };
                code(&c, &mut out);
                nat_bits(rel(*i), &mut out);
            }
            W::Iden => code(&[0, 1, 0, 0, 0], &mut out),
            W::Unit => code(&[0, 1, 0, 0, 1], &mut out),
            W::Fail(e) => {
                code(&[0, 1, 0, 1, 0], &mut out);
                out.extend(e);
            }
            W::Disc1(i) => {
                code(&[0, 1, 0, 1, 1], &mut out);
                nat_bits(rel(*i), &mut out);
            }
            W::Hidden(h) => {
                code(&[0, 1, 1, 0], &mut out);
                out.extend(h);
            }
            W::Witness => code(&[0, 1, 1, 1], &mut out),
            W::Jet(b) => {
                code(&[1, 1], &mut out);
                out.extend(b);
            }
            W::Word(h, w) => {
                code(&[1, 0], &mut out);
                nat_bits(*h, &mut out);
                out.extend(w);
            }
        }
    }
    out
}

pub fn assemble(nodes: &[W]) -> Vec<u8> {
    bytes_of(&assemble_bits(nodes))
}
