//! Shared by C06 and C08: the libsimplicity pipeline with selectable anti-DoS flags, the family of
//! generated Elements environments (identified by a seed: `E:<seed>` in an op line), an
//! independent oracle for the jets that read lock times / sequences / counts from the environment,
//! jet families for the coverage counters, witness-value generation biased towards meaningful
//! arguments.

#![allow(dead_code)]

use crate::ctx::Rng;
use crate::gen::{self, PNode, Plan};
use crate::progs::Env;
use simplicity::elements::bitcoin::hashes::Hash as _;
use simplicity::elements::{self, confidential, taproot::ControlBlock, AssetIssuance};
use simplicity::jet::elements::{ElementsEnv, ElementsUtxo};
use simplicity::jet::{Elements, Jet};
use simplicity::types::Final;
use simplicity::{Cmr, Value};
use std::collections::HashMap;
use std::sync::{Arc, OnceLock};

// ------------------------------------------------------------------------------------------------
// libsimplicity: decode → type inference → witness → (sharing check) → evalTCOExpression(flags)

pub mod ceval {
    use simplicity::ffi::ffi::ubounded;
    use simplicity::ffi::tests::ffi::{
        bitstream::{simplicity_closeBitstream, CBitstream},
        dag::{simplicity_fillWitnessData, simplicity_verifyNoDuplicateIdentityHashes, CCombinatorCounters},
        deserialize::simplicity_decodeMallocDag,
        elements::{simplicity_elements_decodeJet, simplicity_elements_mallocBoundVars},
        eval::simplicity_evalTCOExpression,
        type_inference::simplicity_mallocTypeInference,
        SimplicityErr,
    };
    use simplicity::ffi::CElementsTxEnv;
    use simplicity::hashes::sha256::Midstate;

    pub use simplicity::ffi::tests::ffi::eval::{CHECK_ALL, CHECK_CASE, CHECK_EXEC, CHECK_NONE};

    struct FreeOnDrop(*mut u8);
    impl Drop for FreeOnDrop {
        fn drop(&mut self) {
            unsafe { simplicity::ffi::alloc::rust_0_7_free(self.0) }
        }
    }

    #[derive(Debug, Clone, PartialEq)]
    pub enum COut {
        /// refused before evaluation: (stage, error, the root CMR when the program part decoded)
        Refused(&'static str, SimplicityErr, Option<[u8; 32]>),
        /// `evalTCOExpression` returned this (NoError = success); CMR and IHR of the root
        Eval(SimplicityErr, [u8; 32], [u8; 32]),
    }

    /// Run the serialised program through libsimplicity.  `flags` are the anti-DoS checks of the
    /// evaluator; the budget is unbounded (NULL), `minCost` 0.  `sharing`: also run
    /// `verifyNoDuplicateIdentityHashes` (consensus requires it; evaluation does not).
    pub fn run(program: &[u8], witness: &[u8], flags: u8, sharing: bool, env: &CElementsTxEnv) -> COut {
        let mut prog_stream = CBitstream::from(program);
        let mut wit_stream = CBitstream::from(witness);
        let mut census = CCombinatorCounters::default();
        unsafe {
            let mut dag = std::ptr::null_mut();
            let len = match SimplicityErr::from_i32(simplicity_decodeMallocDag(&mut dag, simplicity_elements_decodeJet, &mut census, &mut prog_stream)) {
                Ok(n) => n as usize,
                Err(e) => return COut::Refused("decode", e, None),
            };
            let _d1 = FreeOnDrop(dag as *mut u8);
            if let Err(e) = SimplicityErr::from_i32(simplicity_closeBitstream(&mut prog_stream)) {
                return COut::Refused("close-program", e, None);
            }
            let cmr = Midstate::from((*dag.add(len - 1)).cmr).to_parts().0;
            let mut type_dag = std::ptr::null_mut();
            if let Err(e) = simplicity_mallocTypeInference(&mut type_dag, simplicity_elements_mallocBoundVars, dag, len as _, &census).into_result() {
                return COut::Refused("type-inference", e, Some(cmr));
            }
            let _d2 = FreeOnDrop(type_dag as *mut u8);
            if let Err(e) = simplicity_fillWitnessData(dag, type_dag, len as _, &mut wit_stream).into_result() {
                return COut::Refused("witness", e, Some(cmr));
            }
            if let Err(e) = SimplicityErr::from_i32(simplicity_closeBitstream(&mut wit_stream)) {
                return COut::Refused("close-witness", e, Some(cmr));
            }
            let mut ihr = Default::default();
            let sh = simplicity_verifyNoDuplicateIdentityHashes(&mut ihr, dag, type_dag, len as _);
            if sharing {
                if let Err(e) = sh.into_result() {
                    return COut::Refused("sharing", e, Some(cmr));
                }
            }
            let ihr = Midstate::from(ihr).to_parts().0;
            if (*dag.add(len - 1)).aux_types.types[0] != 0 || (*dag.add(len - 1)).aux_types.types[1] != 0 {
                return COut::Refused("one-one", SimplicityErr::TypeInferenceNotProgram, Some(cmr));
            }
            let budget: *const ubounded = std::ptr::null();
            let r = simplicity_evalTCOExpression(flags, std::ptr::null_mut(), std::ptr::null(), dag, type_dag, len, 0, budget, env);
            COut::Eval(r, cmr, ihr)
        }
    }
}

// ------------------------------------------------------------------------------------------------
// jet families (coverage counters)

pub fn jet_family(j: Elements) -> &'static str {
    let n = format!("{j}");
    let n = n.as_str();
    let starts = |p: &[&str]| p.iter().any(|x| n.starts_with(x));
    if starts(&["check_lock_", "tx_lock_", "tx_is_final", "broken_do_not_use_", "parse_lock", "parse_sequence"]) {
        "timelock"
    } else if starts(&["sha_256_"]) {
        "hash"
    } else if starts(&[
        "fe_", "scalar_", "gej_", "ge_", "linear_", "point_verify", "decompress", "bip_0340", "check_sig_verify", "swu", "hash_to_curve", "generate", "scale",
    ]) {
        "secp"
    } else if starts(&[
        "input_", "output_", "current_", "issuance", "new_issuance", "reissuance", "tap", "version", "lock_time", "num_inputs", "num_outputs", "genesis_block_hash", "script_cmr",
        "internal_key", "transaction_id", "tx_hash", "sig_all_hash", "inputs_hash", "outputs_hash", "issuances_hash", "total_fee", "lbtc_asset",
    ]) {
        "introspection"
    } else if starts(&[
        "build_tap", "calculate_", "annex_hash", "asset_amount_hash", "nonce_hash", "outpoint_hash",
    ]) {
        "elements-hash"
    } else if starts(&[
        "add_", "subtract_", "multiply_", "divide_", "modulo_", "div_mod_", "divides_", "negate_", "increment_", "decrement_", "full_add", "full_subtract", "full_multiply",
        "full_increment", "full_decrement", "min_", "max_", "median_", "lt_", "le_", "eq_", "is_zero", "is_one", "one_",
    ]) {
        "arith"
    } else if n == "verify" {
        "verify"
    } else {
        "bits"
    }
}

// ------------------------------------------------------------------------------------------------
// environments

/// x coordinates accepted by the commitment parsers, found by trial once per process
struct Points {
    gens: Vec<[u8; 32]>,
    peds: Vec<[u8; 32]>,
    keys: Vec<[u8; 32]>,
    xonly: Vec<[u8; 32]>,
}

fn b32(r: &mut Rng) -> [u8; 32] {
    r.bytes(32).try_into().unwrap()
}

fn points() -> &'static Points {
    static P: OnceLock<Points> = OnceLock::new();
    P.get_or_init(|| {
        let mut r = Rng(0x5eed_c06c_08);
        let mut p = Points { gens: vec![], peds: vec![], keys: vec![], xonly: vec![] };
        while p.gens.len() < 8 || p.peds.len() < 8 || p.keys.len() < 8 || p.xonly.len() < 8 {
            let x = b32(&mut r);
            let mut v = vec![0u8];
            v.extend_from_slice(&x);
            v[0] = 0x0a;
            if p.gens.len() < 8 && confidential::Asset::from_commitment(&v).is_ok() {
                p.gens.push(x);
            }
            v[0] = 0x08;
            if p.peds.len() < 8 && confidential::Value::from_commitment(&v).is_ok() {
                p.peds.push(x);
            }
            v[0] = 0x02;
            if p.keys.len() < 8 && confidential::Nonce::from_commitment(&v).is_ok() {
                p.keys.push(x);
            }
            v[0] = 0xbe;
            if p.xonly.len() < 8 && ControlBlock::from_slice(&v).is_ok() {
                p.xonly.push(x);
            }
        }
        p
    })
}

fn gen_asset(r: &mut Rng, w: (u64, u64, u64)) -> confidential::Asset {
    let t = r.below(w.0 + w.1 + w.2);
    if t < w.0 {
        confidential::Asset::Null
    } else if t < w.0 + w.1 {
        confidential::Asset::Explicit(elements::AssetId::from_byte_array(b32(r)))
    } else {
        let mut v = vec![0x0a | r.bool() as u8];
        v.extend_from_slice(&r.pick(&points().gens[..])[..]);
        confidential::Asset::from_commitment(&v).unwrap()
    }
}

fn gen_value(r: &mut Rng, w: (u64, u64, u64)) -> confidential::Value {
    let t = r.below(w.0 + w.1 + w.2);
    if t < w.0 {
        confidential::Value::Null
    } else if t < w.0 + w.1 {
        confidential::Value::Explicit(match r.below(5) {
            0 => 0,
            1 => u64::MAX,
            2 => r.next() >> 20,
            _ => r.next(),
        })
    } else {
        let mut v = vec![0x08 | r.bool() as u8];
        v.extend_from_slice(&r.pick(&points().peds[..])[..]);
        confidential::Value::from_commitment(&v).unwrap()
    }
}

fn gen_nonce(r: &mut Rng) -> confidential::Nonce {
    match r.below(5) {
        0 | 1 => confidential::Nonce::Null,
        2 => confidential::Nonce::Explicit(b32(r)),
        _ => {
            let mut v = vec![0x02 | r.bool() as u8];
            v.extend_from_slice(&r.pick(&points().keys[..])[..]);
            confidential::Nonce::from_commitment(&v).unwrap()
        }
    }
}

fn gen_range(r: &mut Rng) -> confidential::RangeProof {
    if r.chance(1, 3) {
        return confidential::RangeProof::from_slice(&[]).unwrap();
    }
    for _ in 0..20 {
        let n = 65 + r.below(80) as usize;
        let mut b = r.bytes(n);
        b[0] &= 0x7f;
        if r.bool() {
            b[0] = 0;
        }
        if let Ok(p) = confidential::RangeProof::from_slice(&b) {
            return p;
        }
    }
    confidential::RangeProof::from_slice(&[]).unwrap()
}

fn gen_surj(r: &mut Rng) -> confidential::SurjectionProof {
    let empty = || confidential::SurjectionProof::from_slice(&[]).unwrap();
    if r.chance(1, 3) {
        return empty();
    }
    let n_inputs = r.range(1, 16) as usize;
    let mut bitmap = vec![0u8; (n_inputs + 7) / 8];
    let mut used = 0;
    for i in 0..n_inputs {
        if used < 3 && r.chance(1, 3) {
            bitmap[i / 8] |= 1 << (i % 8);
            used += 1;
        }
    }
    let mut b = vec![n_inputs as u8, 0];
    b.extend_from_slice(&bitmap);
    b.extend(r.bytes(32 * (1 + used)));
    confidential::SurjectionProof::from_slice(&b).unwrap_or_else(|_| empty())
}

fn script(r: &mut Rng) -> Vec<u8> {
    let n = match r.below(8) {
        0 => 0,
        1 => 1,
        2 => 55,
        3 => 64,
        4 => 65,
        _ => r.range(1, 40) as usize,
    };
    r.bytes(n)
}

/// witness stacks of an input: without annex, with annex (>= 2 items, last starts 0x50), empty
fn gen_wit(r: &mut Rng) -> Vec<Vec<u8>> {
    let item = |r: &mut Rng| {
        let mut b = script(r);
        if b.first() == Some(&0x50) {
            b[0] = 0x51;
        }
        b
    };
    let ann = |r: &mut Rng| {
        let mut a = script(r);
        if a.is_empty() {
            a.push(0);
        }
        a[0] = 0x50;
        a
    };
    match r.below(5) {
        0 => vec![],
        1 => vec![item(r)],
        2 => vec![item(r), item(r)],
        3 => vec![item(r), ann(r)],
        _ => vec![item(r), item(r), ann(r)],
    }
}

/// what the independent jet oracle needs to know about an environment
#[derive(Clone, Debug)]
pub struct EnvInfo {
    pub seed: u64,
    pub version: u32,
    pub lock_time: u32,
    pub sequences: Vec<u32>,
    pub ix: u32,
    pub n_out: u32,
    pub kinds: Vec<&'static str>,
}

/// the environment with seed `seed`: a deterministic function of the seed (replay = same seed).
/// Seed 0 is the fixed `progs::dummy_env()`.
pub fn gen_env(seed: u64) -> (Env, EnvInfo) {
    if seed == 0 {
        return (
            crate::progs::dummy_env(),
            EnvInfo { seed, version: 2, lock_time: 0, sequences: vec![u32::MAX], ix: 0, n_out: 1, kinds: vec!["dummy"] },
        );
    }
    let mut rng = Rng(seed ^ 0xc06e_c06e_c06e_c06e);
    let r = &mut rng;
    let mut kinds: Vec<&'static str> = vec![];
    let nin = r.range(1, 4) as usize;
    let nout = r.range(1, 4) as usize;
    let all_final = r.chance(1, 5);
    if all_final {
        kinds.push("all-final");
    }
    let mut input = vec![];
    let mut utxos = vec![];
    let mut sequences = vec![];
    for k in 0..nin {
        let (nonce, entropy, amount, keys) = match r.below(6) {
            0 | 1 | 2 => ([0u8; 32], [0u8; 32], confidential::Value::Null, confidential::Value::Null),
            3 | 4 => {
                kinds.push("new-issuance");
                let a = gen_value(r, (1, 2, 2));
                let mut k2 = gen_value(r, (2, 2, 2));
                if a.is_null() && k2.is_null() {
                    k2 = confidential::Value::Explicit(r.next());
                }
                ([0u8; 32], b32(r), a, k2)
            }
            _ => {
                kinds.push("reissuance");
                let mut n = b32(r);
                if n == [0u8; 32] {
                    n[0] = 1;
                }
                let mut a = gen_value(r, (1, 3, 3));
                if a.is_null() {
                    a = confidential::Value::Explicit(r.next());
                }
                (n, b32(r), a, confidential::Value::Null)
            }
        };
        let is_pegin = r.chance(1, 4);
        let txid = b32(r);
        let script_sig = script(r);
        let pegin_witness = if is_pegin {
            kinds.push("pegin");
            elements::PeginWitness::new(elements::PeginData {
                value: 0x0102_0304_0506_0708 ^ k as u64,
                asset_id: elements::AssetId::from_byte_array(entropy),
                genesis_hash: elements::bitcoin::BlockHash::from_byte_array(b32(r)),
                claim_script: elements::bitcoin::ScriptBuf::from_bytes(script_sig.clone()),
                transaction: txid.to_vec(),
                merkle_proof: nonce[..7].to_vec(),
                referenced_block: elements::bitcoin::BlockHash::from_byte_array(txid),
            })
        } else {
            elements::PeginWitness::EMPTY
        };
        let seq = if all_final {
            u32::MAX
        } else {
            match r.below(8) {
                0 => u32::MAX,
                1 => 0x8000_0000,
                2 => 0x7fff_ffff,
                3 => 0,
                4 => (1 << 22) | r.below(0x10000) as u32,
                5 => r.below(0x10000) as u32,
                _ => r.next() as u32,
            }
        };
        sequences.push(seq);
        let wit = gen_wit(r);
        if wit.len() >= 2 && wit.last().unwrap().first() == Some(&0x50) {
            kinds.push("annex");
        }
        input.push(elements::TxIn {
            previous_output: elements::OutPoint { txid: elements::Txid::from_byte_array(txid), vout: if r.bool() { r.below(4) as u32 } else { r.next() as u32 } },
            is_pegin,
            script_sig: elements::Script::from(script_sig),
            sequence: elements::Sequence(seq),
            asset_issuance: AssetIssuance {
                asset_blinding_nonce: elements::AssetBlindingNonce::from_byte_array(nonce),
                asset_entropy: elements::AssetEntropy::from_byte_array(entropy),
                amount,
                inflation_keys: keys,
            },
            witness: elements::TxInWitness { amount_rangeproof: gen_range(r), inflation_keys_rangeproof: gen_range(r), script_witness: wit.into(), pegin_witness },
        });
        let ua = gen_asset(r, (1, 3, 3));
        let uv = gen_value(r, (1, 3, 3));
        if ua.is_confidential() || uv.is_confidential() {
            kinds.push("confidential-utxo");
        } else if ua.is_explicit() && uv.is_explicit() {
            kinds.push("explicit-utxo");
        }
        utxos.push(ElementsUtxo { script_pubkey: elements::Script::from(script(r)), asset: ua, value: uv });
    }
    let fee_asset = b32(r);
    let mut output = vec![];
    for _ in 0..nout {
        let mut asset = gen_asset(r, (1, 4, 3));
        let value = gen_value(r, (1, 4, 3));
        let mut spk = script(r);
        if r.chance(1, 4) {
            // fee-shaped output
            asset = confidential::Asset::Explicit(elements::AssetId::from_byte_array(fee_asset));
            spk = vec![];
            kinds.push("fee-output");
        } else if r.chance(1, 5) {
            spk = vec![0x6a, 0x02, 0xab, 0xcd, 0x51];
            kinds.push("null-data-output");
        }
        if asset.is_confidential() || value.is_confidential() {
            kinds.push("confidential-output");
        } else if asset.is_explicit() && value.is_explicit() {
            kinds.push("explicit-output");
        }
        output.push(elements::TxOut {
            asset,
            value,
            nonce: gen_nonce(r),
            script_pubkey: elements::Script::from(spk),
            witness: elements::TxOutWitness { surjection_proof: gen_surj(r), rangeproof: gen_range(r) },
        });
    }
    let version = match r.below(4) {
        0 => 1,
        1 | 2 => 2,
        _ => r.next() as u32,
    };
    let lock_time = match r.below(7) {
        0 => 0,
        1 => 499_999_999,
        2 => 500_000_000,
        3 => r.below(1_000_000) as u32,
        4 => u32::MAX,
        _ => r.next() as u32,
    };
    kinds.push(if lock_time < 500_000_000 { "lock-height" } else { "lock-time" });
    let ix = r.below(nin as u64) as u32;
    let npath = match r.below(8) {
        0 | 1 => 0,
        2 | 3 => 1,
        4 => 2,
        5 => 128,
        _ => r.range(3, 12) as usize,
    };
    kinds.push(if npath == 0 { "tappath-empty" } else { "tappath-nonempty" });
    let mut cb = vec![*r.pick(&[0xbeu8, 0xc4, 0xc0]) | r.bool() as u8];
    cb.extend_from_slice(&r.pick(&points().xonly[..])[..]);
    for _ in 0..npath {
        cb.extend_from_slice(&b32(r));
    }
    let cb = ControlBlock::from_slice(&cb).expect("control block");
    let annex_arg = match r.below(3) {
        0 => None,
        1 => Some(vec![]),
        _ => Some(r.bytes(5)),
    };
    let cmr = Cmr::from_byte_array(b32(r));
    let genesis = elements::BlockHash::from_byte_array(b32(r));
    let tx = Arc::new(elements::Transaction { version, lock_time: elements::LockTime::from_consensus(lock_time), input, output });
    kinds.sort();
    kinds.dedup();
    kinds.push(match nin {
        1 => "inputs-1",
        2 => "inputs-2",
        _ => "inputs-3+",
    });
    kinds.push(match nout {
        1 => "outputs-1",
        2 => "outputs-2",
        _ => "outputs-3+",
    });
    let env = ElementsEnv::new(tx, utxos, ix, cmr, cb, annex_arg, genesis);
    (env, EnvInfo { seed, version, lock_time, sequences, ix, n_out: nout as u32, kinds })
}

// ------------------------------------------------------------------------------------------------
// independent oracle for jets that read version / lock time / sequences / counts

fn be(x: u64, n: usize) -> Vec<bool> {
    (0..n).map(|i| (x >> (n - 1 - i)) & 1 == 1).collect()
}
fn num(bits: &[bool]) -> u64 {
    bits.iter().fold(0, |a, b| (a << 1) | *b as u64)
}

/// `Some(expected)` for the jets this oracle knows: the compact output bits, or `None` inside for
/// "the jet fails"
pub fn env_oracle(e: &EnvInfo, j: Elements, input: &[bool]) -> Option<Option<Vec<bool>>> {
    let is_final = e.sequences.iter().all(|s| *s == u32::MAX);
    let lock_height = if !is_final && e.lock_time < 500_000_000 { e.lock_time } else { 0 };
    let lock_time = if !is_final && e.lock_time >= 500_000_000 { e.lock_time } else { 0 };
    let mut dist: u16 = 0;
    let mut dur: u16 = 0;
    for s in &e.sequences {
        if *s < 0x8000_0000 {
            let m = (*s & 0xffff) as u16;
            if *s & (1 << 22) != 0 {
                dur = dur.max(m);
            } else {
                dist = dist.max(m);
            }
        }
    }
    if e.version < 2 {
        dist = 0;
        dur = 0;
    }
    let check = |ok: bool| if ok { Some(vec![]) } else { None };
    Some(match j {
        Elements::Version => Some(be(e.version as u64, 32)),
        Elements::LockTime => Some(be(e.lock_time as u64, 32)),
        Elements::NumInputs => Some(be(e.sequences.len() as u64, 32)),
        Elements::NumOutputs => Some(be(e.n_out as u64, 32)),
        Elements::CurrentIndex => Some(be(e.ix as u64, 32)),
        Elements::CurrentSequence => Some(be(e.sequences[e.ix as usize] as u64, 32)),
        Elements::InputSequence => {
            let i = num(input) as usize;
            Some(match e.sequences.get(i) {
                None => vec![false],
                Some(s) => {
                    let mut v = vec![true];
                    v.extend(be(*s as u64, 32));
                    v
                }
            })
        }
        Elements::TxIsFinal => Some(vec![is_final]),
        Elements::TxLockHeight => Some(be(lock_height as u64, 32)),
        Elements::TxLockTime => Some(be(lock_time as u64, 32)),
        Elements::BrokenDoNotUseTxLockDistance => Some(be(dist as u64, 16)),
        Elements::BrokenDoNotUseTxLockDuration => Some(be(dur as u64, 16)),
        Elements::CheckLockHeight => check(num(input) <= lock_height as u64),
        Elements::CheckLockTime => check(num(input) <= lock_time as u64),
        Elements::BrokenDoNotUseCheckLockDistance => check(num(input) <= dist as u64),
        Elements::BrokenDoNotUseCheckLockDuration => check(num(input) <= dur as u64),
        _ => return None,
    })
}

pub const ENV_ORACLE_JETS: [Elements; 16] = [
    Elements::Version,
    Elements::LockTime,
    Elements::NumInputs,
    Elements::NumOutputs,
    Elements::CurrentIndex,
    Elements::CurrentSequence,
    Elements::InputSequence,
    Elements::TxIsFinal,
    Elements::TxLockHeight,
    Elements::TxLockTime,
    Elements::BrokenDoNotUseTxLockDistance,
    Elements::BrokenDoNotUseTxLockDuration,
    Elements::CheckLockHeight,
    Elements::CheckLockTime,
    Elements::BrokenDoNotUseCheckLockDistance,
    Elements::BrokenDoNotUseCheckLockDuration,
];

// ------------------------------------------------------------------------------------------------
// witness values

fn value_of_bits(bits: &[bool], ty: &Final) -> Value {
    let mut bytes = vec![0u8; bits.len() / 8 + 1];
    for (k, b) in bits.iter().enumerate() {
        if *b {
            bytes[k / 8] |= 1 << (7 - k % 8);
        }
    }
    Value::from_compact_bits(&mut simplicity::BitIter::from(bytes), ty).expect("bits decode at the type")
}

/// a value of `ty`: random, except that 16/32-bit words are often small numbers or numbers close
/// to the environment's lock time (indices that exist, lock-time comparisons on both sides)
pub fn witness_value(r: &mut Rng, ty: &Final, e: &EnvInfo) -> Value {
    let w = ty.bit_width();
    let is_word = |n: u32| Final::two_two_n(n as usize).map(|t| t.as_ref() == ty).unwrap_or(false);
    if w == 32 && is_word(5) && r.bool() {
        let x: u32 = match r.below(4) {
            0 => r.below(5) as u32,
            1 => e.lock_time.wrapping_sub(r.below(2) as u32),
            2 => e.lock_time.wrapping_add(1),
            _ => r.below(500_000_000) as u32,
        };
        return value_of_bits(&be(x as u64, 32), ty);
    }
    if w == 16 && is_word(4) && r.bool() {
        let x = match r.below(3) {
            0 => r.below(4),
            _ => e.sequences.get(r.below(e.sequences.len() as u64) as usize).map(|s| (*s & 0xffff) as u64).unwrap_or(0),
        };
        return value_of_bits(&be(x, 16), ty);
    }
    gen::random_value(r, ty)
}

/// witness values (one per witness node of the plan) of the inferred types
pub fn witnesses_for(plan: &Plan, r: &mut Rng, e: &EnvInfo) -> Result<HashMap<usize, Value>, String> {
    let (_, arrows) = gen::arrows_of_plan(plan, None, true).map_err(|e| format!("type:{e}"))?;
    let mut wits = HashMap::new();
    for i in plan.reachable() {
        if plan.nodes[i] == PNode::Witness {
            let ty = arrows[i].as_ref().unwrap().1.clone();
            wits.insert(i, witness_value(r, &ty, e));
        }
    }
    Ok(wits)
}

/// parse the `W:i:bits` tokens of a case line into witness values of the inferred types, and the
/// `E:<seed>` token
pub fn parse_tail(plan: &Plan, toks: &[&str]) -> Option<(HashMap<usize, Value>, u64)> {
    let (_, arrows) = gen::arrows_of_plan(plan, None, true).ok()?;
    let mut wits = HashMap::new();
    let mut seed = 0u64;
    for t in toks {
        let f: Vec<&str> = t.split(':').collect();
        match f[0] {
            "W" => {
                let i: usize = f[1].parse().ok()?;
                let bits = gen::parse_bits(f[2])?;
                let ty = arrows.get(i)?.as_ref()?.1.clone();
                wits.insert(i, value_of_bits(&bits, &ty));
            }
            "E" => seed = f[1].parse().ok()?,
            _ => {}
        }
    }
    Some((wits, seed))
}

/// widest source/target type among the jets of a plan (the Lean model keeps types as trees)
pub fn widest_jet(plan: &Plan) -> usize {
    plan.reachable()
        .iter()
        .filter_map(|i| match &plan.nodes[*i] {
            PNode::Jet(j) => Some(j.source_ty().to_final().bit_width().max(j.target_ty().to_final().bit_width())),
            _ => None,
        })
        .max()
        .unwrap_or(0)
}
