//! C14 — jet tables and foreign bindings match libsimplicity.
//!
//! ops (answered by the Lean tables regenerated from the sources, `Driver/C14.lean`):
//!   `jet <family> <i>`        → `name=… code=<bits> cmr=<hex|unimplemented> src=… tgt=… cost=<n|unimplemented>`
//!                               as `Display`, `Jet::encode`, `cmr`, `source_ty`, `target_ty`, `cost` return them
//!   `decode <family> <bits>`  → `ok <i> <bits consumed>` | `invalid` | `eos`            (`Jet::decode`)
//!   `parse <family> <string>` → `some <i>` | `none`                                    (`Jet::parse`)
//!   `ty <type name>`          → `w=<to_bit_width> t=<to_final, words folded>` | `invalid` (panic)
//!   `pair <i>`                → core jet i: `<j of the Elements namesake> types=<0|1> code=<0|1>`
//!   `cjet <i>`                → Elements jet i through the *C library*: `rustsimplicity_0_7_decodeMallocDag` on the one-jet
//!                               program, `mallocTypeInference`: `name=… cmr=… cost=… srcw=… tgtw=…`
//!   `diag <table> <check>`    → `ok` (the driver names the first failing row of a table-wide check)
//!
//! oracle (implementation alone): decode(encode j) = j consuming exactly the code; no code is a prefix of
//! another; parse(display j) = j; whatever decodes re-encodes to the consumed bits; `to_bit_width` =
//! `to_final().bit_width()` and both panic together; every Core jet has an Elements namesake with equal types
//! and the code behind a 0 bit; for every Elements jet the C library decodes Rust's code to a node with Rust's
//! cmr, cost and source/target types (bit size and type Merkle root), and `analyseBounds` returns
//! overhead + cost; the per-row comparison of the extern declarations and of the binding chain
//! (`tools/translate_externs.py --rows`, `tools/translate_jets.py --rows`) reports nothing.

use crate::ctx::{self, Ctx};
use simplicity::ffi::tests::ffi::bitstream::CBitstream;
use simplicity::ffi::tests::ffi::dag::{CCombinatorCounters, CDagNode, CTag};
use simplicity::ffi::tests::ffi::deserialize::simplicity_decodeMallocDag;
use simplicity::ffi::tests::ffi::elements::{simplicity_elements_decodeJet, simplicity_elements_mallocBoundVars};
use simplicity::ffi::tests::ffi::eval::simplicity_analyseBounds;
use simplicity::ffi::tests::ffi::ty::CType;
use simplicity::ffi::tests::ffi::type_inference::simplicity_mallocTypeInference;
use simplicity::ffi::tests::ffi::SimplicityErr;
use simplicity::jet::type_name::TypeName;
use simplicity::jet::{Bitcoin, Core, Elements, Jet};
use simplicity::node::{ConstructNode, CoreConstructible};
use simplicity::types::{CompleteBound, Final};
use simplicity::{BitIter, BitWriter};
use std::collections::BTreeSet;
use std::fmt::{Debug, Display};
use std::str::FromStr;
use std::sync::Arc;

pub const RULE: &str = "exhaustive: every jet of Core (368), Elements (471), Bitcoin (428) through the real methods, every Elements jet through the C library, every Core jet against its Elements namesake, every distinct type name; plus generated bit strings for decode (each code with random tails, one flipped bit, cut at a byte, random bytes), perturbed names for parse, random strings over the type-name letters; non-trivial = a table row, a bit string that decodes or ends early, a name that parses, a legal type name; distinct by the op line";

// ------------------------------------------------------------------------------------------------

fn hex(b: &[u8]) -> String {
    b.iter().map(|x| format!("{:02x}", x)).collect()
}

fn bits_str(bits: &[bool]) -> String {
    if bits.is_empty() {
        "-".into()
    } else {
        bits.iter().map(|b| if *b { '1' } else { '0' }).collect()
    }
}

fn to_bytes(bits: &[bool]) -> Vec<u8> {
    let mut out = vec![0u8; (bits.len() + 7) / 8];
    for (i, b) in bits.iter().enumerate() {
        if *b {
            out[i / 8] |= 1 << (7 - i % 8);
        }
    }
    out
}

/// the bits `Jet::encode` writes
fn code<J: Jet>(j: &J) -> Vec<bool> {
    let mut bytes: Vec<u8> = vec![];
    let n;
    {
        let sink: &mut dyn std::io::Write = &mut bytes;
        let mut w = BitWriter::new(sink);
        n = j.encode(&mut w).expect("write to vec");
        w.flush_all().expect("flush");
    }
    (0..n).map(|i| bytes[i / 8] & (1 << (7 - i % 8)) != 0).collect()
}

fn unimpl<T>(r: Result<T, String>, f: impl FnOnce(T) -> String) -> String {
    match r {
        Ok(v) => f(v),
        Err(m) if m.starts_with("not implemented") => "unimplemented".into(),
        Err(m) => format!("panic:{}", m.replace(' ', "_")),
    }
}

/// `Final` with 2^(2^n) folded to `w<n>` (the rendering of `CTy.render` in the model)
fn render(t: &Final) -> (String, Option<u32>) {
    match t.bound() {
        CompleteBound::Unit => ("1".into(), None),
        CompleteBound::Sum(a, b) => {
            if a.is_unit() && b.is_unit() {
                ("w0".into(), Some(0))
            } else {
                (format!("(+ {} {})", render(a).0, render(b).0), None)
            }
        }
        CompleteBound::Product(a, b) => {
            // shared subtrees (the word types are built by doubling): render once
            let (ra, wa) = render(a);
            let (rb, wb) = if Arc::ptr_eq(a, b) { (ra.clone(), wa) } else { render(b) };
            match (wa, wb) {
                (Some(n), Some(m)) if n == m => (format!("w{}", n + 1), Some(n + 1)),
                _ => (format!("(* {} {})", ra, rb), None),
            }
        }
    }
}

fn ty_answer(name: &'static [u8]) -> (String, Option<String>) {
    let w = ctx::catch(|| TypeName(name).to_bit_width());
    let f = ctx::catch(|| TypeName(name).to_final());
    match (&w, &f) {
        (Ok(w), Ok(f)) => {
            let mut bad = None;
            if f.bit_width() != *w {
                bad = Some(format!("to_bit_width={} to_final().bit_width()={}", w, f.bit_width()));
            }
            (format!("w={} t={}", w, render(f).0), bad)
        }
        (Err(_), Err(_)) => ("invalid".into(), None),
        _ => (
            "width-and-type-disagree".into(),
            Some(format!("to_bit_width panics: {}, to_final panics: {}", w.is_err(), f.is_err())),
        ),
    }
}

fn one_ty(ctx: &mut Ctx, name: &str) {
    let leaked: &'static [u8] = Box::leak(name.as_bytes().to_vec().into_boxed_slice());
    let (out, bad) = ty_answer(leaked);
    let line = format!("ty {}", name);
    ctx.op(&line, &out);
    let valid = out != "invalid";
    ctx.case(if valid { Some(&line) } else { None });
    ctx.count(if valid { "reach:ty-legal" } else { "reach:ty-illegal" });
    if let Some(d) = bad {
        ctx.fail("typename-width", &line, &d);
    }
}

// ------------------------------------------------------------------------------------------------

trait Fam: Jet + FromStr + Display + Debug + PartialEq + Copy + 'static {
    const NAME: &'static str;
    fn all() -> &'static [Self];
}
impl Fam for Core {
    const NAME: &'static str = "core";
    fn all() -> &'static [Self] {
        &Core::ALL
    }
}
impl Fam for Elements {
    const NAME: &'static str = "elements";
    fn all() -> &'static [Self] {
        &Elements::ALL
    }
}
impl Fam for Bitcoin {
    const NAME: &'static str = "bitcoin";
    fn all() -> &'static [Self] {
        &Bitcoin::ALL
    }
}

fn index_of<J: Fam>(j: &J) -> usize {
    J::all().iter().position(|x| x == j).expect("jet in ALL")
}

fn jet_row<J: Fam>(ctx: &mut Ctx, i: usize) {
    let j = J::all()[i];
    let c = code(&j);
    let name = j.to_string();
    let cmr = unimpl(ctx::catch(|| j.cmr()), |c| hex(c.as_ref()));
    let cost = unimpl(ctx::catch(|| j.cost()), |c| c.to_string());
    let src = String::from_utf8_lossy(j.source_ty().0).to_string();
    let tgt = String::from_utf8_lossy(j.target_ty().0).to_string();
    let line = format!("jet {} {}", J::NAME, i);
    ctx.op(&line, &format!("name={} code={} cmr={} src={} tgt={} cost={}", name, bits_str(&c), cmr, src, tgt, cost));
    ctx.case(Some(&line));
    ctx.count(&format!("exhaustive:{}-rows", J::NAME));
    if i % 211 == 5 {
        ctx.sample(&format!("{line} -> {name} code={} src={src} tgt={tgt}", bits_str(&c)));
    }
    // decode(encode j) = j, consuming exactly the code (followed by ones, so that a longer read shows)
    let mut padded = c.clone();
    while padded.len() % 8 != 0 || padded.len() < c.len() + 8 {
        padded.push(true);
    }
    let bytes = to_bytes(&padded);
    let mut it = BitIter::from(&bytes[..]);
    match J::decode(&mut it) {
        Ok(j2) if j2 == j && it.n_total_read() == c.len() => {}
        other => ctx.fail(
            "decode-encode",
            &line,
            &format!("{}: decode(encode) = {:?}, read {} of {} bits", name, other.map(|x| x.to_string()).map_err(|e| e.to_string()), it.n_total_read(), c.len()),
        ),
    }
    // parse(display j) = j, through both entry points
    match J::from_str(&name) {
        Ok(j2) if j2 == j => {}
        other => ctx.fail("parse-display", &line, &format!("from_str({name:?}) = {:?}", other.map(|x| x.to_string()).map_err(|_| "Err"))),
    }
    match J::parse(&name) {
        Ok(j2) if j2 == j => {}
        other => ctx.fail("parse-display", &line, &format!("Jet::parse({name:?}) = {:?}", other.map(|x| x.to_string()).map_err(|e| e.to_string()))),
    }
}

fn one_decode<J: Fam>(ctx: &mut Ctx, bits: &[bool], kind: &str) {
    debug_assert!(bits.len() % 8 == 0);
    let bytes = to_bytes(bits);
    let mut it = BitIter::from(&bytes[..]);
    let r = J::decode(&mut it);
    let used = it.n_total_read();
    let line = format!("decode {} {}", J::NAME, bits_str(bits));
    let out = match &r {
        Ok(j) => format!("ok {} {}", index_of(j), used),
        Err(simplicity::decode::Error::InvalidJet) => "invalid".to_string(),
        Err(simplicity::decode::Error::EndOfStream) => "eos".to_string(),
        Err(e) => format!("error:{}", e.to_string().replace(' ', "_")),
    };
    ctx.op(&line, &out);
    ctx.count(&format!("decode:{kind}"));
    if kind == "flipped" && bits.len() == 24 && ctx.get_count(&format!("sampled:{}", J::NAME)) < 2 {
        ctx.count(&format!("sampled:{}", J::NAME));
        ctx.sample(&format!("{line} -> {out}"));
    }
    match &r {
        Ok(j) => {
            ctx.case(Some(&line));
            ctx.count(&format!("reach:{}-decode-ok", J::NAME));
            let c = code(j);
            if c.len() != used || c[..] != bits[..used.min(bits.len())] {
                ctx.fail("noncanonical-code", &line, &format!("decodes to {} after {} bits, whose code is {}", j, used, bits_str(&c)));
            }
        }
        Err(simplicity::decode::Error::EndOfStream) => {
            ctx.case(Some(&line));
            ctx.count(&format!("reach:{}-decode-eos", J::NAME));
        }
        Err(_) => {
            ctx.case(None);
            ctx.count(&format!("reach:{}-decode-invalid", J::NAME));
        }
    }
}

fn one_parse<J: Fam>(ctx: &mut Ctx, s: &str) {
    if s.is_empty() || s.contains(|c: char| c.is_whitespace()) {
        return;
    }
    let r = J::parse(s);
    let line = format!("parse {} {}", J::NAME, s);
    let out = match &r {
        Ok(j) => format!("some {}", index_of(j)),
        Err(_) => "none".to_string(),
    };
    ctx.op(&line, &out);
    match &r {
        Ok(j) => {
            ctx.case(Some(&line));
            ctx.count(&format!("exhaustive:{}-names-parse", J::NAME));
            if j.to_string() != s {
                ctx.fail("parse-not-display", &line, &format!("parses to {}", j));
            }
        }
        Err(_) => {
            ctx.case(None);
            ctx.count(&format!("reach:{}-parse-none", J::NAME));
        }
    }
}

fn family<J: Fam>(ctx: &mut Ctx, other_names: &[String]) {
    let all = J::all();
    ctx.op(&format!("count {}", J::NAME), &all.len().to_string());
    let codes: Vec<Vec<bool>> = all.iter().map(code).collect();
    for i in 0..all.len() {
        jet_row::<J>(ctx, i);
    }
    // no code is a prefix of another
    for (a, ca) in codes.iter().enumerate() {
        for (b, cb) in codes.iter().enumerate() {
            if a != b && cb.len() >= ca.len() && cb[..ca.len()] == ca[..] {
                ctx.fail("code-prefix", &format!("jet {} {}", J::NAME, a), &format!("code of {} is a prefix of the code of {}", all[a], all[b]));
            }
        }
    }
    ctx.count_n("prefix-pairs-compared", (all.len() * (all.len() - 1)) as u64);
    // decode on generated bit strings (byte-aligned lengths: the reader is byte based)
    let tails = ctx.scale(1, 3);
    for c in &codes {
        for _ in 0..tails {
            let mut b = c.clone();
            while b.len() % 8 != 0 {
                b.push(ctx.rng.bool());
            }
            if ctx.rng.bool() {
                b.extend((0..8).map(|_| ctx.rng.bool()));
            }
            one_decode::<J>(ctx, &b, "code+tail");
        }
        // one flipped bit
        let mut b = c.clone();
        let k = ctx.rng.below(b.len() as u64) as usize;
        b[k] = !b[k];
        while b.len() % 8 != 0 || b.len() < 24 {
            b.push(ctx.rng.bool());
        }
        one_decode::<J>(ctx, &b, "flipped");
        // cut at a byte boundary inside the code
        if c.len() > 8 {
            one_decode::<J>(ctx, &c[..8], "cut");
        }
        if c.len() > 16 {
            one_decode::<J>(ctx, &c[..16], "cut");
        }
    }
    one_decode::<J>(ctx, &[], "empty");
    for _ in 0..ctx.scale(1500, 20000) {
        let n = 8 * ctx.rng.range(1, 4) as usize;
        let b: Vec<bool> = (0..n).map(|_| ctx.rng.bool()).collect();
        one_decode::<J>(ctx, &b, "random");
    }
    // every byte, every two-byte prefix region: all 8-bit strings exhaustively
    for v in 0..256u32 {
        let b: Vec<bool> = (0..8).map(|i| v & (1 << (7 - i)) != 0).collect();
        one_decode::<J>(ctx, &b, "all-bytes");
    }
    // parse: names, perturbed names, names of the other families
    for j in all {
        let n = j.to_string();
        one_parse::<J>(ctx, &n);
        let mut up = n.clone();
        up[..1].make_ascii_uppercase();
        one_parse::<J>(ctx, &up);
        one_parse::<J>(ctx, &format!("{n}_"));
        one_parse::<J>(ctx, &n[..n.len() - 1]);
        one_parse::<J>(ctx, &n.replace('_', ""));
    }
    for n in other_names {
        one_parse::<J>(ctx, n);
    }
    for w in ["jet", "unit", "", "add", "ADD_32", "add-32", "add_32\u{0}"] {
        one_parse::<J>(ctx, w);
    }
}

// ------------------------------------------------------------------------------------------------

fn pair(ctx: &mut Ctx, i: usize) {
    let c = Core::ALL[i];
    let name = c.to_string();
    let line = format!("pair {}", i);
    match Elements::from_str(&name) {
        Ok(e) => {
            let j = index_of(&e);
            let types = c.source_ty().to_final() == e.source_ty().to_final() && c.target_ty().to_final() == e.target_ty().to_final();
            let (cc, ec) = (code(&c), code(&e));
            let code_ok = ec.len() == cc.len() + 1 && !ec[0] && ec[1..] == cc[..];
            ctx.op(&line, &format!("{} types={} code={}", j, types as u8, code_ok as u8));
            ctx.case(Some(&line));
            ctx.count("exhaustive:core-elements-pairs");
            if !types {
                ctx.fail("core-elements-types", &line, &format!("{name}: core {} -> {}, elements {} -> {}", c.source_ty().to_final(), c.target_ty().to_final(), e.source_ty().to_final(), e.target_ty().to_final()));
            }
            if !code_ok {
                ctx.fail("core-elements-code", &line, &format!("{name}: core code {}, elements code {}", bits_str(&cc), bits_str(&ec)));
            }
            if c.cmr() != e.cmr() || c.cost() != e.cost() {
                ctx.count("observation:core-elements-cmr-or-cost-differ(not-claimed)");
            }
        }
        Err(_) => {
            ctx.op(&line, "no-namesake");
            ctx.case(Some(&line));
            ctx.fail("core-no-namesake", &line, &format!("core jet {name} has no Elements jet of that name"));
        }
    }
}

struct FreeOnDrop(*mut u8);
impl Drop for FreeOnDrop {
    fn drop(&mut self) {
        unsafe { simplicity::ffi::alloc::rust_0_7_free(self.0) }
    }
}

fn midstate_bytes(m: &simplicity::ffi::ffi::sha256::CSha256Midstate) -> [u8; 32] {
    let mut out = [0u8; 32];
    for (i, w) in m.s.iter().enumerate() {
        out[4 * i..4 * i + 4].copy_from_slice(&w.to_be_bytes());
    }
    out
}

struct CJet {
    cmr: [u8; 32],
    cost: u32,
    src_bits: u32,
    tgt_bits: u32,
    src_tmr: [u8; 32],
    tgt_tmr: [u8; 32],
    cost_bound: u32,
    consumed_all: bool,
}

/// the one-jet expression as the Rust encoder writes it, through the C decoder, type inference and bounds analysis
fn c_jet(program: &[u8]) -> Result<CJet, String> {
    unsafe {
        let mut stream = CBitstream::from(program);
        let mut census = CCombinatorCounters::default();
        let mut dag: *mut CDagNode = std::ptr::null_mut();
        let len = SimplicityErr::from_i32(simplicity_decodeMallocDag(&mut dag, simplicity_elements_decodeJet, &mut census, &mut stream))
            .map_err(|e| format!("decodeMallocDag: {e}"))? as usize;
        if dag.is_null() || len != 1 {
            return Err(format!("decodeMallocDag: {len} nodes"));
        }
        let _d1 = FreeOnDrop(dag as *mut u8);
        let consumed_all = simplicity::ffi::tests::ffi::bitstream::simplicity_closeBitstream(&mut stream) == 0;
        let node = &*dag;
        if node.tag != CTag::JET {
            return Err(format!("C decoded a {:?} node", node.tag));
        }
        let cmr = midstate_bytes(&node.cmr);
        let cost = node.cost;
        let mut type_dag: *mut CType = std::ptr::null_mut();
        simplicity_mallocTypeInference(&mut type_dag, simplicity_elements_mallocBoundVars, dag, len as _, &census)
            .into_result()
            .map_err(|e| format!("mallocTypeInference: {e}"))?;
        if type_dag.is_null() {
            return Err("mallocTypeInference: null type dag".into());
        }
        let _d2 = FreeOnDrop(type_dag as *mut u8);
        let node = &*dag;
        let (si, ti) = (node.aux_types.types[0], node.aux_types.types[1]);
        let (st, tt) = (&*type_dag.add(si), &*type_dag.add(ti));
        let (mut cells, mut words, mut frames, mut cost_bound) = (0u32, 0u32, 0u32, 0u32);
        simplicity_analyseBounds(&mut cells, &mut words, &mut frames, &mut cost_bound, u32::MAX, 0, u32::MAX, dag, type_dag, len)
            .into_result()
            .map_err(|e| format!("analyseBounds: {e}"))?;
        Ok(CJet {
            cmr,
            cost,
            src_bits: st.bit_size,
            tgt_bits: tt.bit_size,
            src_tmr: midstate_bytes(&st.type_merkle_root),
            tgt_tmr: midstate_bytes(&tt.type_merkle_root),
            cost_bound,
            consumed_all,
        })
    }
}

fn cjet(ctx: &mut Ctx, i: usize) {
    let j = Elements::ALL[i];
    let name = j.to_string();
    let line = format!("cjet {}", i);
    let program = match ctx::catch(|| {
        simplicity::types::Context::with_context(|tctx| {
            let node = Arc::<ConstructNode>::jet(&tctx, &j);
            node.finalize_types_non_program().map(|c| c.to_vec_without_witness())
        })
    }) {
        Ok(Ok(p)) => p,
        other => {
            ctx.op(&line, "rust-cannot-encode");
            ctx.case(Some(&line));
            ctx.fail("one-jet-program", &line, &format!("{name}: {:?}", other.map(|r| r.map_err(|e| e.to_string()))));
            return;
        }
    };
    match c_jet(&program) {
        Ok(c) => {
            ctx.op(&line, &format!("name={} cmr={} cost={} srcw={} tgtw={}", name, hex(&c.cmr), c.cost, c.src_bits, c.tgt_bits));
            ctx.case(Some(&line));
            ctx.count("exhaustive:elements-jets-through-C");
            if i % 233 == 7 {
                ctx.sample(&format!("{line} -> {name} program={} C: cost={} {}->{} bits", hex(&program), c.cost, c.src_bits, c.tgt_bits));
            }
            let (sf, tf) = (j.source_ty().to_final(), j.target_ty().to_final());
            if !c.consumed_all {
                ctx.fail("c-decode", &line, &format!("{name}: the C decoder does not consume Rust's encoding {} exactly", hex(&program)));
            }
            if c.cmr[..] != j.cmr().as_ref()[..] {
                ctx.fail("c-cmr", &line, &format!("{name}: Rust cmr {} C cmr {}", j.cmr(), hex(&c.cmr)));
            }
            if c.cost.to_string() != j.cost().to_string() {
                ctx.fail("c-cost", &line, &format!("{name}: Rust cost {} C cost {}", j.cost(), c.cost));
            }
            if c.src_bits as usize != j.source_ty().to_bit_width() || c.src_tmr[..] != sf.tmr().as_ref()[..] {
                ctx.fail("c-source-type", &line, &format!("{name}: Rust source {} ({} bits, tmr {}), C {} bits, tmr {}", sf, sf.bit_width(), sf.tmr(), c.src_bits, hex(&c.src_tmr)));
            }
            if c.tgt_bits as usize != j.target_ty().to_bit_width() || c.tgt_tmr[..] != tf.tmr().as_ref()[..] {
                ctx.fail("c-target-type", &line, &format!("{name}: Rust target {} ({} bits, tmr {}), C {} bits, tmr {}", tf, tf.bit_width(), tf.tmr(), c.tgt_bits, hex(&c.tgt_tmr)));
            }
            let rust_bound = simplicity::NodeBounds::jet(&j).cost;
            if rust_bound.to_string() != c.cost_bound.to_string() {
                ctx.fail("c-cost-bound", &line, &format!("{name}: Rust node bound {} C analyseBounds {}", rust_bound, c.cost_bound));
            }
        }
        Err(e) => {
            ctx.op(&line, &format!("c-error:{}", e.replace(' ', "_")));
            ctx.case(Some(&line));
            ctx.fail("c-decode", &line, &format!("{name}: program {}: {e}", hex(&program)));
        }
    }
}

// ------------------------------------------------------------------------------------------------

/// `tools/<script> --rows`: the per-row comparison of the source texts (what no compiled method can observe)
fn source_rows(ctx: &mut Ctx, script: &str, only: Option<&str>) {
    let exe = std::env::current_exe().expect("exe");
    let tool = exe.ancestors().map(|d| d.join("tools").join(script)).find(|p| p.exists());
    let Some(tool) = tool else {
        ctx.note(&format!("{script} not found above {}", exe.display()));
        return;
    };
    let out = match std::process::Command::new("python3").arg(&tool).arg("--rows").output() {
        Ok(o) => o,
        Err(e) => {
            ctx.note(&format!("{script} --rows could not be run: {e}"));
            return;
        }
    };
    let text = String::from_utf8_lossy(&out.stdout).to_string();
    if !out.status.success() {
        // the translator itself reports this through the check (TRANSLATE-ERROR); nothing to compare row by row
        ctx.note(&format!("{script} --rows: {}", text.trim()));
        return;
    }
    for l in text.lines() {
        let t: Vec<&str> = l.splitn(3, '\t').collect();
        if t.len() < 3 {
            continue;
        }
        if t[0] == "summary" {
            ctx.count_n("exhaustive:extern-fn-declarations", t[1].parse().unwrap_or(0));
            ctx.count_n("extern-statics(observed-only)", t[2].parse().unwrap_or(0));
            ctx.evaluations += t[1].parse::<u64>().unwrap_or(0);
            continue;
        }
        if let Some(o) = only {
            if t[1] != o {
                continue;
            }
        }
        if t[0].starts_with("note-") {
            ctx.count(&format!("observation:{}", t[0]));
            ctx.note(&format!("{}: {}", t[0], t[2]));
        } else if t[0] == "chain" {
            ctx.fail("binding-chain", &format!("chain {}", t[1]), t[2]);
        } else {
            ctx.fail(t[0], &format!("extern {}", t[1]), t[2]);
        }
    }
}

const DIAG: &[(&str, &[&str])] = &[
    ("core", &["keys", "enc", "decode", "leaves", "sorted", "ascii", "arms", "types"]),
    ("elements", &["keys", "enc", "decode", "leaves", "sorted", "ascii", "arms", "types"]),
    ("bitcoin", &["keys", "enc", "decode", "leaves", "sorted", "ascii", "arms", "types"]),
    ("cross", &["core-elements", "core-elements-order", "c-keys", "c-names", "c-types", "c-roots", "c-costs", "c-paths", "c-chain", "c-cptr"]),
    ("externs", &["arity", "abi", "names", "wrap"]),
];

fn type_names(ctx: &mut Ctx) {
    let mut names: BTreeSet<String> = BTreeSet::new();
    for j in Core::ALL {
        names.insert(String::from_utf8_lossy(j.source_ty().0).to_string());
        names.insert(String::from_utf8_lossy(j.target_ty().0).to_string());
    }
    for j in Elements::ALL {
        names.insert(String::from_utf8_lossy(j.source_ty().0).to_string());
        names.insert(String::from_utf8_lossy(j.target_ty().0).to_string());
    }
    for j in Bitcoin::ALL {
        names.insert(String::from_utf8_lossy(j.source_ty().0).to_string());
        names.insert(String::from_utf8_lossy(j.target_ty().0).to_string());
    }
    ctx.count_n("distinct-type-names-of-the-tables", names.len() as u64);
    for n in &names {
        one_ty(ctx, n);
    }
    // generated: random strings over the letters (mostly illegal), random *legal* names by construction
    const LETTERS: &[u8] = b"12csilh+*";
    for _ in 0..ctx.scale(600, 6000) {
        let n = ctx.rng.range(1, 9) as usize;
        let s: String = (0..n).map(|_| *ctx.rng.pick(LETTERS) as char).collect();
        one_ty(ctx, &s);
    }
    fn gen(rng: &mut ctx::Rng, depth: u32) -> String {
        if depth == 0 || rng.chance(1, 3) {
            (*rng.pick(b"12csilh") as char).to_string()
        } else {
            let op = if rng.bool() { '+' } else { '*' };
            format!("{op}{}{}", gen(rng, depth - 1), gen(rng, depth - 1))
        }
    }
    for _ in 0..ctx.scale(600, 6000) {
        let s = gen(&mut ctx.rng, 5);
        one_ty(ctx, &s);
    }
    for s in ["x", "*i", "ii", "+", "*", "*ii*", "2 ", "H", "**iii", "*i+"] {
        if !s.contains(' ') {
            one_ty(ctx, s);
        }
    }
}

pub fn run(ctx: &mut Ctx) {
    let core_names: Vec<String> = Core::ALL.iter().map(|j| j.to_string()).collect();
    let elements_names: Vec<String> = Elements::ALL.iter().map(|j| j.to_string()).collect();
    let bitcoin_names: Vec<String> = Bitcoin::ALL.iter().map(|j| j.to_string()).collect();
    let el_only: Vec<String> = elements_names.iter().filter(|n| !core_names.contains(n)).cloned().collect();
    let bt_only: Vec<String> = bitcoin_names.iter().filter(|n| !core_names.contains(n)).cloned().collect();
    family::<Core>(ctx, &[el_only.clone(), bt_only.clone()].concat());
    family::<Elements>(ctx, &bt_only);
    family::<Bitcoin>(ctx, &el_only);
    for i in 0..Core::ALL.len() {
        pair(ctx, i);
    }
    for i in 0..Elements::ALL.len() {
        cjet(ctx, i);
    }
    type_names(ctx);
    for (t, cs) in DIAG {
        for c in *cs {
            ctx.op(&format!("diag {t} {c}"), "ok");
            ctx.count("table-wide-checks-asked-of-the-driver");
        }
    }
    source_rows(ctx, "translate_externs.py", None);
    source_rows(ctx, "translate_jets.py", None);
    ctx.note("Bitcoin: cmr, cost and c_jet_ptr are unimplemented! in this revision; only codes, names and type names are covered");
    ctx.note("root and cost equality is checked against the C tables only, not between Core and Elements");
}

/// re-run one recorded case (the op line, or `extern <symbol>` / `chain <jet>`)
pub fn replay(ctx: &mut Ctx, case: &str) {
    let t: Vec<&str> = case.split_whitespace().collect();
    fn fam<J: Fam>(ctx: &mut Ctx, t: &[&str]) {
        match t[0] {
            "jet" => {
                if let Ok(i) = t[2].parse::<usize>() {
                    if i < J::all().len() {
                        jet_row::<J>(ctx, i);
                        let c = code(&J::all()[i]);
                        for (b, o) in J::all().iter().enumerate() {
                            let cb = code(o);
                            if b != i && ((cb.len() >= c.len() && cb[..c.len()] == c[..]) || (c.len() >= cb.len() && c[..cb.len()] == cb[..])) {
                                ctx.fail("code-prefix", &format!("jet {} {}", J::NAME, i), &format!("codes of {} and {} are prefixes", J::all()[i], o));
                            }
                        }
                    }
                }
            }
            "decode" => {
                let bits: Vec<bool> = if t[2] == "-" { vec![] } else { t[2].chars().map(|c| c == '1').collect() };
                one_decode::<J>(ctx, &bits, "replay");
            }
            "parse" => one_parse::<J>(ctx, t[2]),
            _ => {}
        }
    }
    match t.as_slice() {
        [v, f, _] if ["jet", "decode", "parse"].contains(v) => match *f {
            "core" => fam::<Core>(ctx, &t),
            "elements" => fam::<Elements>(ctx, &t),
            "bitcoin" => fam::<Bitcoin>(ctx, &t),
            _ => {}
        },
        ["ty", n] => one_ty(ctx, n),
        ["pair", i] => {
            if let Ok(i) = i.parse::<usize>() {
                if i < Core::ALL.len() {
                    pair(ctx, i)
                }
            }
        }
        ["cjet", i] => {
            if let Ok(i) = i.parse::<usize>() {
                if i < Elements::ALL.len() {
                    cjet(ctx, i)
                }
            }
        }
        ["extern", sym] => source_rows(ctx, "translate_externs.py", Some(sym)),
        ["chain", name] => source_rows(ctx, "translate_jets.py", Some(name)),
        _ => {}
    }
}
