//! C15 — the Elements environment shown to jets is the supplied transaction.
//!
//! An abstract environment `MEnv` (transaction, spent outputs, index, control block, script root,
//! genesis hash — exactly the fields of the Lean `Env.EnvArgs`) is generated, printed in a canonical
//! single-line text form, turned into `elements::Transaction` + `ElementsEnv::new(..)`, and every
//! modelled introspection jet is run as a one-jet program through `BitMachine::exec`.
//!
//! op:     `env <fields…> Q <jet> <arg>… [Q <jet> <arg>…]…`
//! answer: per `Q` group one token per argument (one token for a jet without argument): the compact
//!         bits of the jet's output value, or `fail`; groups are separated by `|`.
//! oracle (implementation alone): each answer equals the value computed here, in Rust, directly from
//!         the supplied data (`expect`), with the BIP-341 annex rule; `sig_all_hash` inside a program
//!         equals `CTxEnv::sighash_all`; `transaction_id` equals `Transaction::txid` and the double
//!         SHA-256 of the transaction serialised here; the 32 digest jets (24 digests without argument
//!         from `output_amounts_hash` to `sig_all_hash`, `transaction_id`, `input_hash`,
//!         `input_utxo_hash`, `issuance_hash`, `issuance_entropy/asset/token` per input, `output_hash`
//!         per output) equal the digests recomputed here from the supplied data (`expect_digest`; the
//!         issuance entropy, asset id and token id by the elements crate's own functions).  The digest
//!         jets are ops too: the Lean model (`Env.jetD`) answers every one of them.
//!
//! Known finding F-C15 (`annex-single-item-0x50`): `get_annex` takes a single witness item starting
//! 0x50 for an annex.  Exactly those answers (annex getter, or a digest over the annexes —
//! `input_annexes_hash`, `inputs_hash`, `tx_hash`, `sig_all_hash`, `input_hash i` — of an input whose
//! stack is one element with first byte 0x50, the answer being what the code's rule gives) are reported
//! under that class and left out of the correspondence ops; any other disagreement about an annex has
//! the class `getter-…`.
//! Second known finding (`is-fee-null-value`): `output_is_fee` on {empty script, explicit asset,
//! NULL value} says "fee" (the C code copies a NULL amount as explicit zero); exactly that shape and
//! answer is reported under that class (the model mirrors the C code, the op stays).

use crate::ctx::{self, Ctx, Rng};
use simplicity::elements::bitcoin::hashes::{sha256, Hash};
use simplicity::elements::{self, confidential, taproot::ControlBlock, AssetIssuance};
use simplicity::jet::elements::{ElementsEnv, ElementsUtxo};
use simplicity::jet::Elements;
use simplicity::node::{CoreConstructible, SimpleFinalizer};
use simplicity::{types, BitMachine, Cmr, ConstructNode, Value, Word};
use std::sync::Arc;

pub const RULE: &str = "generated Elements environments (0..6 inputs/outputs, pegins, new issuances and reissuances, explicit/confidential/null assets, values and nonces, scripts and proofs of many lengths incl. SHA-256 block boundaries, witness stacks with and without annex, all-bit sequences/outpoints, taproot paths 0..128, current index in and out of range) x every modelled getter and every digest jet x every index 0..n+1 and 2^32-1; a case is one (environment, jet, argument); non-trivial = the argument addresses an existing input/output/path element (or the jet has no argument); distinct by (environment text, jet, argument)";

type N<'b> = Arc<ConstructNode<'b>>;

// ---------------------------------------------------------------------------------------------
// abstract environment (mirrors Lean `Env.EnvArgs`)

#[derive(Clone, Debug, PartialEq)]
enum Conf {
    Null,
    Explicit([u8; 32]),
    Conf(bool, [u8; 32]),
}
#[derive(Clone, Debug, PartialEq)]
enum Amt {
    Null,
    Explicit(u64),
    Conf(bool, [u8; 32]),
}
#[derive(Clone, Debug)]
struct MIn {
    txid: [u8; 32],
    vout: u32,
    seq: u32,
    script_sig: Vec<u8>,
    is_pegin: bool,
    pegin: Option<[u8; 32]>,
    nonce: [u8; 32],
    entropy: [u8; 32],
    amount: Amt,
    keys: Amt,
    amount_rp: Vec<u8>,
    keys_rp: Vec<u8>,
    wit: Vec<Vec<u8>>,
}
#[derive(Clone, Debug)]
struct MUtxo {
    asset: Conf,
    value: Amt,
    spk: Vec<u8>,
}
#[derive(Clone, Debug)]
struct MOut {
    asset: Conf,
    value: Amt,
    nonce: Conf,
    spk: Vec<u8>,
    surj: Vec<u8>,
    range: Vec<u8>,
}
#[derive(Clone, Debug)]
struct MEnv {
    version: u32,
    lock_time: u32,
    ix: u32,
    annex_arg: Option<Vec<u8>>,
    cmr: [u8; 32],
    genesis: [u8; 32],
    cb0: u8,
    key: [u8; 32],
    path: Vec<[u8; 32]>,
    inputs: Vec<MIn>,
    utxos: Vec<MUtxo>,
    outputs: Vec<MOut>,
}

// ---------------------------------------------------------------------------------------------
// text form

fn hex(b: &[u8]) -> String {
    if b.is_empty() {
        return "-".into();
    }
    let mut s = String::with_capacity(b.len() * 2);
    for x in b {
        s.push_str(&format!("{:02x}", x));
    }
    s
}
fn unhex(s: &str) -> Option<Vec<u8>> {
    if s == "-" {
        return Some(vec![]);
    }
    if s.len() % 2 != 0 {
        return None;
    }
    (0..s.len() / 2).map(|i| u8::from_str_radix(&s[2 * i..2 * i + 2], 16).ok()).collect()
}
fn unhex32(s: &str) -> Option<[u8; 32]> {
    unhex(s)?.try_into().ok()
}
fn conf_txt(c: &Conf) -> String {
    match c {
        Conf::Null => "n".into(),
        Conf::Explicit(b) => format!("e{}", hex(b)),
        Conf::Conf(o, x) => format!("c{}{}", *o as u8, hex(x)),
    }
}
fn amt_txt(a: &Amt) -> String {
    match a {
        Amt::Null => "n".into(),
        Amt::Explicit(v) => format!("e{}", v),
        Amt::Conf(o, x) => format!("c{}{}", *o as u8, hex(x)),
    }
}
fn conf_parse(s: &str) -> Option<Conf> {
    match s.as_bytes().first()? {
        b'n' if s.len() == 1 => Some(Conf::Null),
        b'e' => Some(Conf::Explicit(unhex32(&s[1..])?)),
        b'c' => Some(Conf::Conf(&s[1..2] == "1", unhex32(&s[2..])?)),
        _ => None,
    }
}
fn amt_parse(s: &str) -> Option<Amt> {
    match s.as_bytes().first()? {
        b'n' if s.len() == 1 => Some(Amt::Null),
        b'e' => Some(Amt::Explicit(s[1..].parse().ok()?)),
        b'c' => Some(Amt::Conf(&s[1..2] == "1", unhex32(&s[2..])?)),
        _ => None,
    }
}

fn env_txt(m: &MEnv) -> String {
    let mut t: Vec<String> = vec![
        "env".into(),
        m.version.to_string(),
        m.lock_time.to_string(),
        m.ix.to_string(),
        match &m.annex_arg {
            None => "n".into(),
            Some(a) => format!("s{}", hex(a)),
        },
        hex(&m.cmr),
        hex(&m.genesis),
        format!("{:02x}", m.cb0),
        hex(&m.key),
        hex(&m.path.concat()),
        m.inputs.len().to_string(),
        m.utxos.len().to_string(),
        m.outputs.len().to_string(),
    ];
    for i in &m.inputs {
        t.push("in".into());
        t.push(hex(&i.txid));
        t.push(i.vout.to_string());
        t.push(i.seq.to_string());
        t.push(hex(&i.script_sig));
        t.push((i.is_pegin as u8).to_string());
        t.push(match &i.pegin {
            None => "-".into(),
            Some(g) => hex(g),
        });
        t.push(hex(&i.nonce));
        t.push(hex(&i.entropy));
        t.push(amt_txt(&i.amount));
        t.push(amt_txt(&i.keys));
        t.push(hex(&i.amount_rp));
        t.push(hex(&i.keys_rp));
        t.push(i.wit.len().to_string());
        for w in &i.wit {
            t.push(hex(w));
        }
    }
    for u in &m.utxos {
        t.push("utxo".into());
        t.push(conf_txt(&u.asset));
        t.push(amt_txt(&u.value));
        t.push(hex(&u.spk));
    }
    for o in &m.outputs {
        t.push("out".into());
        t.push(conf_txt(&o.asset));
        t.push(amt_txt(&o.value));
        t.push(conf_txt(&o.nonce));
        t.push(hex(&o.spk));
        t.push(hex(&o.surj));
        t.push(hex(&o.range));
    }
    t.join(" ")
}

struct Toks<'a> {
    t: Vec<&'a str>,
    p: usize,
}
impl<'a> Toks<'a> {
    fn next(&mut self) -> Option<&'a str> {
        let x = self.t.get(self.p).copied();
        self.p += 1;
        x
    }
    fn lit(&mut self, s: &str) -> Option<()> {
        (self.next()? == s).then_some(())
    }
}

fn env_parse(tk: &mut Toks) -> Option<MEnv> {
    tk.lit("env")?;
    let version = tk.next()?.parse().ok()?;
    let lock_time = tk.next()?.parse().ok()?;
    let ix = tk.next()?.parse().ok()?;
    let a = tk.next()?;
    let annex_arg = if a == "n" { None } else { Some(unhex(a.strip_prefix('s')?)?) };
    let cmr = unhex32(tk.next()?)?;
    let genesis = unhex32(tk.next()?)?;
    let cb0 = u8::from_str_radix(tk.next()?, 16).ok()?;
    let key = unhex32(tk.next()?)?;
    let pathb = unhex(tk.next()?)?;
    if pathb.len() % 32 != 0 {
        return None;
    }
    let path = pathb.chunks(32).map(|c| c.try_into().unwrap()).collect();
    let nin: usize = tk.next()?.parse().ok()?;
    let nutxo: usize = tk.next()?.parse().ok()?;
    let nout: usize = tk.next()?.parse().ok()?;
    let mut inputs = vec![];
    for _ in 0..nin {
        tk.lit("in")?;
        let txid = unhex32(tk.next()?)?;
        let vout = tk.next()?.parse().ok()?;
        let seq = tk.next()?.parse().ok()?;
        let script_sig = unhex(tk.next()?)?;
        let is_pegin = tk.next()? == "1";
        let p = tk.next()?;
        let pegin = if p == "-" { None } else { Some(unhex32(p)?) };
        let nonce = unhex32(tk.next()?)?;
        let entropy = unhex32(tk.next()?)?;
        let amount = amt_parse(tk.next()?)?;
        let keys = amt_parse(tk.next()?)?;
        let amount_rp = unhex(tk.next()?)?;
        let keys_rp = unhex(tk.next()?)?;
        let nw: usize = tk.next()?.parse().ok()?;
        let mut wit = vec![];
        for _ in 0..nw {
            wit.push(unhex(tk.next()?)?);
        }
        inputs.push(MIn { txid, vout, seq, script_sig, is_pegin, pegin, nonce, entropy, amount, keys, amount_rp, keys_rp, wit });
    }
    let mut utxos = vec![];
    for _ in 0..nutxo {
        tk.lit("utxo")?;
        utxos.push(MUtxo { asset: conf_parse(tk.next()?)?, value: amt_parse(tk.next()?)?, spk: unhex(tk.next()?)? });
    }
    let mut outputs = vec![];
    for _ in 0..nout {
        tk.lit("out")?;
        outputs.push(MOut {
            asset: conf_parse(tk.next()?)?,
            value: amt_parse(tk.next()?)?,
            nonce: conf_parse(tk.next()?)?,
            spk: unhex(tk.next()?)?,
            surj: unhex(tk.next()?)?,
            range: unhex(tk.next()?)?,
        });
    }
    Some(MEnv { version, lock_time, ix, annex_arg, cmr, genesis, cb0, key, path, inputs, utxos, outputs })
}

// ---------------------------------------------------------------------------------------------
// queries

#[derive(Clone, Copy, PartialEq, Eq, Debug)]
enum Fam {
    Nullary,
    Current,
    Input,
    Output,
    NullDatum,
    Tappath,
    TotalFee,
    /// `check_lock_height` / `check_lock_time`: a 32-bit number, the jet succeeds or fails
    Check32,
    /// `check_lock_distance` / `check_lock_duration`: a 16-bit number
    Check16,
    /// a digest jet without argument (Lean `Env.jetD (.nullary ..)`)
    Digest,
    /// a digest jet with an input index
    DigestIn,
    /// a digest jet with an output index
    DigestOut,
}

#[derive(Clone, Debug, PartialEq)]
enum Arg {
    None,
    U32(u32),
    U8(u8),
    U16(u16),
    H([u8; 32]),
    Pair(u32, u32),
}
fn arg_txt(a: &Arg) -> String {
    match a {
        Arg::None => String::new(),
        Arg::U32(i) => i.to_string(),
        Arg::U8(i) => i.to_string(),
        Arg::U16(i) => i.to_string(),
        Arg::H(h) => hex(h),
        Arg::Pair(i, j) => format!("{}:{}", i, j),
    }
}

/// (name, jet, family, per-input/-output getter key)
const JETS: &[(&str, Elements, Fam, &str)] = &[
    ("version", Elements::Version, Fam::Nullary, ""),
    ("lock_time", Elements::LockTime, Fam::Nullary, ""),
    ("num_inputs", Elements::NumInputs, Fam::Nullary, ""),
    ("num_outputs", Elements::NumOutputs, Fam::Nullary, ""),
    ("current_index", Elements::CurrentIndex, Fam::Nullary, ""),
    ("genesis_block_hash", Elements::GenesisBlockHash, Fam::Nullary, ""),
    ("script_cmr", Elements::ScriptCMR, Fam::Nullary, ""),
    ("internal_key", Elements::InternalKey, Fam::Nullary, ""),
    ("tapleaf_version", Elements::TapleafVersion, Fam::Nullary, ""),
    ("tx_is_final", Elements::TxIsFinal, Fam::Nullary, ""),
    ("tx_lock_height", Elements::TxLockHeight, Fam::Nullary, ""),
    ("tx_lock_time", Elements::TxLockTime, Fam::Nullary, ""),
    ("tx_lock_distance", Elements::BrokenDoNotUseTxLockDistance, Fam::Nullary, ""),
    ("tx_lock_duration", Elements::BrokenDoNotUseTxLockDuration, Fam::Nullary, ""),
    ("check_lock_height", Elements::CheckLockHeight, Fam::Check32, ""),
    ("check_lock_time", Elements::CheckLockTime, Fam::Check32, ""),
    ("check_lock_distance", Elements::BrokenDoNotUseCheckLockDistance, Fam::Check16, ""),
    ("check_lock_duration", Elements::BrokenDoNotUseCheckLockDuration, Fam::Check16, ""),
    ("current_pegin", Elements::CurrentPegin, Fam::Current, "pegin"),
    ("current_prev_outpoint", Elements::CurrentPrevOutpoint, Fam::Current, "prev_outpoint"),
    ("current_asset", Elements::CurrentAsset, Fam::Current, "asset"),
    ("current_amount", Elements::CurrentAmount, Fam::Current, "amount"),
    ("current_script_hash", Elements::CurrentScriptHash, Fam::Current, "script_hash"),
    ("current_sequence", Elements::CurrentSequence, Fam::Current, "sequence"),
    ("current_reissuance_blinding", Elements::CurrentReissuanceBlinding, Fam::Current, "reissuance_blinding"),
    ("current_new_issuance_contract", Elements::CurrentNewIssuanceContract, Fam::Current, "new_issuance_contract"),
    ("current_reissuance_entropy", Elements::CurrentReissuanceEntropy, Fam::Current, "reissuance_entropy"),
    ("current_issuance_asset_amount", Elements::CurrentIssuanceAssetAmount, Fam::Current, "issuance_asset_amount"),
    ("current_issuance_token_amount", Elements::CurrentIssuanceTokenAmount, Fam::Current, "issuance_token_amount"),
    ("current_issuance_asset_proof", Elements::CurrentIssuanceAssetProof, Fam::Current, "issuance_asset_proof"),
    ("current_issuance_token_proof", Elements::CurrentIssuanceTokenProof, Fam::Current, "issuance_token_proof"),
    ("current_script_sig_hash", Elements::CurrentScriptSigHash, Fam::Current, "script_sig_hash"),
    ("current_annex_hash", Elements::CurrentAnnexHash, Fam::Current, "annex_hash"),
    ("input_pegin", Elements::InputPegin, Fam::Input, "pegin"),
    ("input_prev_outpoint", Elements::InputPrevOutpoint, Fam::Input, "prev_outpoint"),
    ("input_asset", Elements::InputAsset, Fam::Input, "asset"),
    ("input_amount", Elements::InputAmount, Fam::Input, "amount"),
    ("input_script_hash", Elements::InputScriptHash, Fam::Input, "script_hash"),
    ("input_sequence", Elements::InputSequence, Fam::Input, "sequence"),
    ("reissuance_blinding", Elements::ReissuanceBlinding, Fam::Input, "reissuance_blinding"),
    ("new_issuance_contract", Elements::NewIssuanceContract, Fam::Input, "new_issuance_contract"),
    ("reissuance_entropy", Elements::ReissuanceEntropy, Fam::Input, "reissuance_entropy"),
    ("issuance_asset_amount", Elements::IssuanceAssetAmount, Fam::Input, "issuance_asset_amount"),
    ("issuance_token_amount", Elements::IssuanceTokenAmount, Fam::Input, "issuance_token_amount"),
    ("issuance_asset_proof", Elements::IssuanceAssetProof, Fam::Input, "issuance_asset_proof"),
    ("issuance_token_proof", Elements::IssuanceTokenProof, Fam::Input, "issuance_token_proof"),
    ("input_script_sig_hash", Elements::InputScriptSigHash, Fam::Input, "script_sig_hash"),
    ("input_annex_hash", Elements::InputAnnexHash, Fam::Input, "annex_hash"),
    ("issuance", Elements::Issuance, Fam::Input, "issuance"),
    ("output_asset", Elements::OutputAsset, Fam::Output, "asset"),
    ("output_amount", Elements::OutputAmount, Fam::Output, "amount"),
    ("output_nonce", Elements::OutputNonce, Fam::Output, "nonce"),
    ("output_script_hash", Elements::OutputScriptHash, Fam::Output, "script_hash"),
    ("output_is_fee", Elements::OutputIsFee, Fam::Output, "is_fee"),
    ("output_surjection_proof", Elements::OutputSurjectionProof, Fam::Output, "surjection_proof"),
    ("output_range_proof", Elements::OutputRangeProof, Fam::Output, "range_proof"),
    ("output_null_datum", Elements::OutputNullDatum, Fam::NullDatum, ""),
    ("tappath", Elements::Tappath, Fam::Tappath, ""),
    ("total_fee", Elements::TotalFee, Fam::TotalFee, ""),
    ("sig_all_hash", Elements::SigAllHash, Fam::Digest, ""),
    ("transaction_id", Elements::TransactionId, Fam::Digest, ""),
    ("input_outpoints_hash", Elements::InputOutpointsHash, Fam::Digest, ""),
    ("input_amounts_hash", Elements::InputAmountsHash, Fam::Digest, ""),
    ("input_scripts_hash", Elements::InputScriptsHash, Fam::Digest, ""),
    ("input_utxos_hash", Elements::InputUtxosHash, Fam::Digest, ""),
    ("input_sequences_hash", Elements::InputSequencesHash, Fam::Digest, ""),
    ("input_annexes_hash", Elements::InputAnnexesHash, Fam::Digest, ""),
    ("input_script_sigs_hash", Elements::InputScriptSigsHash, Fam::Digest, ""),
    ("inputs_hash", Elements::InputsHash, Fam::Digest, ""),
    ("issuance_asset_amounts_hash", Elements::IssuanceAssetAmountsHash, Fam::Digest, ""),
    ("issuance_token_amounts_hash", Elements::IssuanceTokenAmountsHash, Fam::Digest, ""),
    ("issuance_range_proofs_hash", Elements::IssuanceRangeProofsHash, Fam::Digest, ""),
    ("issuance_blinding_entropy_hash", Elements::IssuanceBlindingEntropyHash, Fam::Digest, ""),
    ("issuances_hash", Elements::IssuancesHash, Fam::Digest, ""),
    ("output_amounts_hash", Elements::OutputAmountsHash, Fam::Digest, ""),
    ("output_nonces_hash", Elements::OutputNoncesHash, Fam::Digest, ""),
    ("output_scripts_hash", Elements::OutputScriptsHash, Fam::Digest, ""),
    ("output_range_proofs_hash", Elements::OutputRangeProofsHash, Fam::Digest, ""),
    ("output_surjection_proofs_hash", Elements::OutputSurjectionProofsHash, Fam::Digest, ""),
    ("outputs_hash", Elements::OutputsHash, Fam::Digest, ""),
    ("tx_hash", Elements::TxHash, Fam::Digest, ""),
    ("tapleaf_hash", Elements::TapleafHash, Fam::Digest, ""),
    ("tappath_hash", Elements::TappathHash, Fam::Digest, ""),
    ("tap_env_hash", Elements::TapEnvHash, Fam::Digest, ""),
    ("input_hash", Elements::InputHash, Fam::DigestIn, ""),
    ("input_utxo_hash", Elements::InputUtxoHash, Fam::DigestIn, ""),
    ("issuance_hash", Elements::IssuanceHash, Fam::DigestIn, ""),
    ("issuance_entropy", Elements::IssuanceEntropy, Fam::DigestIn, ""),
    ("issuance_asset", Elements::IssuanceAsset, Fam::DigestIn, ""),
    ("issuance_token", Elements::IssuanceToken, Fam::DigestIn, ""),
    ("output_hash", Elements::OutputHash, Fam::DigestOut, ""),
];

fn jet_by_name(n: &str) -> Option<&'static (&'static str, Elements, Fam, &'static str)> {
    JETS.iter().find(|j| j.0 == n)
}

fn arg_parse(f: Fam, s: &str) -> Option<Arg> {
    match f {
        Fam::Input | Fam::Output | Fam::DigestIn | Fam::DigestOut | Fam::Check32 => Some(Arg::U32(s.parse().ok()?)),
        Fam::Check16 => Some(Arg::U16(s.parse().ok()?)),
        Fam::Tappath => Some(Arg::U8(s.parse().ok()?)),
        Fam::TotalFee => Some(Arg::H(unhex32(s)?)),
        Fam::NullDatum => {
            let (a, b) = s.split_once(':')?;
            Some(Arg::Pair(a.parse().ok()?, b.parse().ok()?))
        }
        _ => None,
    }
}

// ---------------------------------------------------------------------------------------------
// bits

fn bits(b: &[u8]) -> Vec<bool> {
    b.iter().flat_map(|x| (0..8).map(move |i| x & (1 << (7 - i)) != 0)).collect()
}
fn u32b(x: u32) -> Vec<bool> {
    bits(&x.to_be_bytes())
}
fn u64b(x: u64) -> Vec<bool> {
    bits(&x.to_be_bytes())
}
fn opt(v: Option<Vec<bool>>) -> Vec<bool> {
    match v {
        None => vec![false],
        Some(mut v) => {
            v.insert(0, true);
            v
        }
    }
}
fn sha(b: &[u8]) -> Vec<bool> {
    bits(&sha256::Hash::hash(b).to_byte_array())
}
fn show_bits(v: &[bool]) -> String {
    if v.is_empty() {
        return "-".into();
    }
    v.iter().map(|b| if *b { '1' } else { '0' }).collect()
}
/// `Conf 2^256 = (2 x 2^256) + 2^256`: explicit on the right; a null asset is shown as a
/// confidential even-y commitment to the zero string (C: `(confidential){0}`)
fn conf_bits(c: &Conf) -> Vec<bool> {
    match c {
        Conf::Null => {
            let mut v = vec![false, false];
            v.extend(vec![false; 256]);
            v
        }
        Conf::Explicit(b) => {
            let mut v = vec![true];
            v.extend(bits(b));
            v
        }
        Conf::Conf(o, x) => {
            let mut v = vec![false, *o];
            v.extend(bits(x));
            v
        }
    }
}
/// a null amount is shown as explicit zero
fn amt_bits(a: &Amt) -> Vec<bool> {
    match a {
        Amt::Null => {
            let mut v = vec![true];
            v.extend(u64b(0));
            v
        }
        Amt::Explicit(x) => {
            let mut v = vec![true];
            v.extend(u64b(*x));
            v
        }
        Amt::Conf(o, x) => {
            let mut v = vec![false, *o];
            v.extend(bits(x));
            v
        }
    }
}
fn nonce_bits(c: &Conf) -> Vec<bool> {
    match c {
        Conf::Null => vec![false],
        Conf::Explicit(b) => {
            let mut v = vec![true, true];
            v.extend(bits(b));
            v
        }
        Conf::Conf(o, x) => {
            let mut v = vec![true, false, *o];
            v.extend(bits(x));
            v
        }
    }
}

// ---------------------------------------------------------------------------------------------
// the oracle: what each getter has to return, computed from the supplied data

/// BIP-341: the annex is the last of at least two witness elements when it starts with 0x50
fn bip341_annex(wit: &[Vec<u8>]) -> Option<&[u8]> {
    if wit.len() >= 2 {
        let l = wit.last().unwrap();
        if l.first() == Some(&0x50) {
            return Some(&l[1..]);
        }
    }
    None
}
/// the shape of the known finding: exactly one element, starting 0x50
fn single_0x50(wit: &[Vec<u8>]) -> bool {
    wit.len() == 1 && wit[0].first() == Some(&0x50)
}

#[derive(PartialEq, Clone, Copy)]
enum IssKind {
    No,
    New,
    Re,
}
fn iss_kind(i: &MIn) -> IssKind {
    if i.amount == Amt::Null && i.keys == Amt::Null {
        IssKind::No
    } else if i.nonce == [0u8; 32] {
        IssKind::New
    } else {
        IssKind::Re
    }
}
fn is_conf(a: &Amt) -> bool {
    matches!(a, Amt::Conf(..))
}

fn expect_in(i: &MIn, u: &MUtxo, g: &str) -> Vec<bool> {
    let k = iss_kind(i);
    match g {
        "pegin" => opt(i.pegin.as_ref().map(|h| bits(h))),
        "prev_outpoint" => {
            let mut v = bits(&i.txid);
            v.extend(u32b(i.vout));
            v
        }
        "asset" => conf_bits(&u.asset),
        "amount" => {
            let mut v = conf_bits(&u.asset);
            v.extend(amt_bits(&u.value));
            v
        }
        "script_hash" => sha(&u.spk),
        "sequence" => u32b(i.seq),
        "issuance" => match iss_kind(i) {
            IssKind::No => opt(None),
            IssKind::New => opt(Some(vec![false])),
            IssKind::Re => opt(Some(vec![true])),
        },
        "reissuance_blinding" => opt((k == IssKind::Re).then(|| bits(&i.nonce))),
        "new_issuance_contract" => opt((k == IssKind::New).then(|| bits(&i.entropy))),
        "reissuance_entropy" => opt((k == IssKind::Re).then(|| bits(&i.entropy))),
        "issuance_asset_amount" => opt((k != IssKind::No).then(|| amt_bits(&i.amount))),
        "issuance_token_amount" => opt((k != IssKind::No).then(|| if k == IssKind::New { amt_bits(&i.keys) } else { amt_bits(&Amt::Explicit(0)) })),
        "issuance_asset_proof" => sha(if k != IssKind::No && is_conf(&i.amount) { &i.amount_rp } else { &[] }),
        "issuance_token_proof" => sha(if k == IssKind::New && is_conf(&i.keys) { &i.keys_rp } else { &[] }),
        "script_sig_hash" => sha(&i.script_sig),
        "annex_hash" => opt(bip341_annex(&i.wit).map(sha)),
        _ => unreachable!(),
    }
}
/// Elements' definition (primitives/transaction.h IsFee): empty script, explicit asset, explicit value
fn is_fee(o: &MOut) -> bool {
    o.spk.is_empty() && matches!(o.asset, Conf::Explicit(_)) && matches!(o.value, Amt::Explicit(_))
}
fn expect_out(o: &MOut, g: &str) -> Vec<bool> {
    match g {
        "asset" => conf_bits(&o.asset),
        "amount" => {
            let mut v = conf_bits(&o.asset);
            v.extend(amt_bits(&o.value));
            v
        }
        "nonce" => nonce_bits(&o.nonce),
        "script_hash" => sha(&o.spk),
        "is_fee" => vec![is_fee(o)],
        "surjection_proof" => sha(if matches!(o.asset, Conf::Conf(..)) { &o.surj } else { &[] }),
        "range_proof" => sha(if is_conf(&o.value) { &o.range } else { &[] }),
        _ => unreachable!(),
    }
}

/// one parsed push of a null-data script: (code, data)  code 0..3 = immediate/pushdata1/2/4,
/// 4 = OP_1NEGATE, 5 = OP_RESERVED, 6.. = OP_1..OP_16
fn null_data(spk: &[u8]) -> Option<Vec<(u8, Vec<u8>)>> {
    if spk.is_empty() || spk[0] != 0x6a {
        return None;
    }
    let mut out = vec![];
    let mut i = 1usize;
    while i < spk.len() {
        let code = spk[i];
        i += 1;
        if code > 0x60 {
            return None;
        }
        if code >= 0x4f {
            out.push((4 + (code - 0x4f), vec![]));
            continue;
        }
        let (kind, len) = if code < 0x4c {
            (0u8, code as usize)
        } else {
            let nb = match code {
                0x4c => 1,
                0x4d => 2,
                _ => 4,
            };
            if spk.len() - i < nb {
                return None;
            }
            let mut l = 0usize;
            for k in 0..nb {
                l |= (spk[i + k] as usize) << (8 * k);
            }
            i += nb;
            (code - 0x4b, l)
        };
        if spk.len() - i < len {
            return None;
        }
        out.push((kind, spk[i..i + len].to_vec()));
        i += len;
    }
    Some(out)
}
/// `S (S (2^2 x 2^256 + (2 + 2^4)))`
fn expect_null_datum(m: &MEnv, i: u32, j: u32) -> Vec<bool> {
    let pnd = m.outputs.get(i as usize).and_then(|o| null_data(&o.spk));
    opt(pnd.map(|ops| {
        opt(ops.get(j as usize).map(|(code, data)| {
            if *code < 4 {
                let mut v = vec![false, code & 2 != 0, code & 1 != 0];
                v.extend(sha(data));
                v
            } else if *code < 6 {
                // OP_1NEGATE -> left(0), OP_RESERVED -> left(1)
                vec![true, false, *code == 5]
            } else {
                let n = code - 6;
                vec![true, true, n & 8 != 0, n & 4 != 0, n & 2 != 0, n & 1 != 0]
            }
        }))
    }))
}

/// the number of inputs the environment shows: `new_tx` zips inputs with the spent outputs
fn shown_inputs(m: &MEnv) -> usize {
    m.inputs.len().min(m.utxos.len())
}

/// `None` = the jet fails
fn u16b(x: u16) -> Vec<bool> {
    (0..16).rev().map(|k| (x >> k) & 1 == 1).collect()
}

/// the locks the supplied data imply (BIP 65 absolute, BIP 68 relative), as (height, time, distance,
/// duration): an absolute lock counts only when some input is not final; a relative lock only in
/// transactions of version >= 2, on inputs whose sequence has bit 31 clear, bit 22 choosing the kind
fn locks(m: &MEnv) -> (u32, u32, u16, u16) {
    let nin = shown_inputs(m);
    let fin = m.inputs[..nin].iter().all(|i| i.seq == u32::MAX);
    let height = if !fin && m.lock_time < 500_000_000 { m.lock_time } else { 0 };
    let time = if !fin && m.lock_time >= 500_000_000 { m.lock_time } else { 0 };
    let rel = |dur: bool| -> u16 {
        if m.version < 2 {
            return 0;
        }
        m.inputs[..nin]
            .iter()
            .filter(|i| i.seq >> 31 == 0 && ((i.seq >> 22) & 1 == 1) == dur)
            .map(|i| (i.seq % 65536) as u16)
            .max()
            .unwrap_or(0)
    };
    (height, time, rel(false), rel(true))
}

fn expect(m: &MEnv, name: &str, fam: Fam, g: &str, arg: &Arg) -> Option<Vec<bool>> {
    let nin = shown_inputs(m);
    match (fam, arg) {
        (Fam::Check32, Arg::U32(x)) => {
            let l = locks(m);
            let bound = if name == "check_lock_height" { l.0 } else { l.1 };
            (*x <= bound).then(Vec::new)
        }
        (Fam::Check16, Arg::U16(x)) => {
            let l = locks(m);
            let bound = if name == "check_lock_distance" { l.2 } else { l.3 };
            (*x <= bound).then(Vec::new)
        }
        (Fam::Nullary, _) => Some(match name {
            "version" => u32b(m.version),
            "lock_time" => u32b(m.lock_time),
            "num_inputs" => u32b(nin as u32),
            "num_outputs" => u32b(m.outputs.len() as u32),
            "current_index" => u32b(m.ix),
            "genesis_block_hash" => bits(&m.genesis),
            "script_cmr" => bits(&m.cmr),
            "internal_key" => bits(&m.key),
            "tapleaf_version" => bits(&[m.cb0 & 0xfe]),
            "tx_is_final" => vec![m.inputs[..nin].iter().all(|i| i.seq == u32::MAX)],
            "tx_lock_height" => {
                let fin = m.inputs[..nin].iter().all(|i| i.seq == u32::MAX);
                u32b(if !fin && m.lock_time < 500_000_000 { m.lock_time } else { 0 })
            }
            "tx_lock_time" => {
                let fin = m.inputs[..nin].iter().all(|i| i.seq == u32::MAX);
                u32b(if !fin && m.lock_time >= 500_000_000 { m.lock_time } else { 0 })
            }
            "tx_lock_distance" => u16b(locks(m).2),
            "tx_lock_duration" => u16b(locks(m).3),
            _ => unreachable!(),
        }),
        (Fam::Current, _) => {
            let k = m.ix as usize;
            if k < nin {
                Some(expect_in(&m.inputs[k], &m.utxos[k], g))
            } else {
                None
            }
        }
        (Fam::Input, Arg::U32(i)) => {
            let k = *i as usize;
            Some(opt((k < nin).then(|| expect_in(&m.inputs[k], &m.utxos[k], g))))
        }
        (Fam::Output, Arg::U32(i)) => Some(opt(m.outputs.get(*i as usize).map(|o| expect_out(o, g)))),
        (Fam::NullDatum, Arg::Pair(i, j)) => Some(expect_null_datum(m, *i, *j)),
        (Fam::Tappath, Arg::U8(i)) => Some(opt(m.path.get(*i as usize).map(|h| bits(h)))),
        (Fam::TotalFee, Arg::H(id)) => {
            let mut s = 0u64;
            for o in &m.outputs {
                if is_fee(o) && o.asset == Conf::Explicit(*id) {
                    if let Amt::Explicit(v) = o.value {
                        s = s.wrapping_add(v);
                    }
                }
            }
            Some(u64b(s))
        }
        _ => unreachable!(),
    }
}

// ---------------------------------------------------------------------------------------------
// digests over the supplied data (oracle only; the serialisations are the ones env.c documents)

fn h(b: &[u8]) -> [u8; 32] {
    sha256::Hash::hash(b).to_byte_array()
}
fn ser_conf(c: &Conf, base: u8) -> Vec<u8> {
    match c {
        Conf::Null => vec![0],
        Conf::Explicit(d) => [&[1u8][..], d].concat(),
        Conf::Conf(o, x) => [&[base | *o as u8][..], x].concat(),
    }
}
/// in the digests a null amount counts as explicit zero
fn ser_amt_digest(a: &Amt) -> Vec<u8> {
    match a {
        Amt::Null => [&[1u8][..], &0u64.to_be_bytes()].concat(),
        Amt::Explicit(v) => [&[1u8][..], &v.to_be_bytes()].concat(),
        Amt::Conf(o, x) => [&[8 | *o as u8][..], x].concat(),
    }
}
/// consensus serialisation of an amount (null = one zero byte)
fn ser_amt(a: &Amt) -> Vec<u8> {
    match a {
        Amt::Null => vec![0],
        _ => ser_amt_digest(a),
    }
}
fn varint(n: usize) -> Vec<u8> {
    if n < 0xfd {
        vec![n as u8]
    } else if n <= 0xffff {
        [&[0xfd][..], &(n as u16).to_le_bytes()].concat()
    } else {
        [&[0xfe][..], &(n as u32).to_le_bytes()].concat()
    }
}
/// the transaction id: double SHA-256 of the serialisation without witnesses
fn txid_of(m: &MEnv) -> [u8; 32] {
    let mut b = m.version.to_le_bytes().to_vec();
    b.push(0);
    b.extend(varint(m.inputs.len()));
    for i in &m.inputs {
        let has_iss = !(i.amount == Amt::Null && i.keys == Amt::Null);
        b.extend_from_slice(&i.txid);
        b.extend_from_slice(&(i.vout | (i.is_pegin as u32) << 30 | (has_iss as u32) << 31).to_le_bytes());
        b.extend(varint(i.script_sig.len()));
        b.extend_from_slice(&i.script_sig);
        b.extend_from_slice(&i.seq.to_le_bytes());
        if has_iss {
            b.extend_from_slice(&i.nonce);
            b.extend_from_slice(&i.entropy);
            b.extend(ser_amt(&i.amount));
            b.extend(ser_amt(&i.keys));
        }
    }
    b.extend(varint(m.outputs.len()));
    for o in &m.outputs {
        b.extend(ser_conf(&o.asset, 0x0a));
        b.extend(ser_amt(&o.value));
        b.extend(ser_conf(&o.nonce, 0x02));
        b.extend(varint(o.spk.len()));
        b.extend_from_slice(&o.spk);
    }
    b.extend_from_slice(&m.lock_time.to_le_bytes());
    h(&h(&b))
}

/// entropy, asset id and token id of an issuance, by the elements crate's own functions
fn iss_ids(i: &MIn) -> Option<([u8; 32], [u8; 32], [u8; 32])> {
    let k = iss_kind(i);
    if k == IssKind::No {
        return None;
    }
    let entropy = if k == IssKind::New {
        elements::AssetId::generate_asset_entropy(
            elements::OutPoint { txid: elements::Txid::from_byte_array(i.txid), vout: i.vout },
            elements::ContractHash::from_byte_array(i.entropy),
        )
    } else {
        elements::AssetEntropy::from_byte_array(i.entropy)
    };
    let asset = elements::AssetId::from_entropy(entropy);
    let token = elements::AssetId::reissuance_token_from_entropy(entropy, is_conf(&i.amount));
    Some((entropy.to_byte_array(), asset.to_byte_array(), token.to_byte_array()))
}

/// the bytes one input contributes to each of the per-input digests of the Simplicity
/// specification (`code_annex`: use the code's annex rule instead of BIP-341's, to recognise the
/// known finding)
struct InPieces {
    outpoint: Vec<u8>,
    amt: Vec<u8>,
    script: Vec<u8>,
    seq: Vec<u8>,
    annex: Vec<u8>,
    script_sig: Vec<u8>,
    iss_asset: Vec<u8>,
    iss_token: Vec<u8>,
    iss_proof: Vec<u8>,
    iss_blind: Vec<u8>,
}
fn in_pieces(i: &MIn, u: &MUtxo, code_annex: bool) -> InPieces {
    let mut outpoint = match &i.pegin {
        Some(g) => [&[1u8][..], g].concat(),
        None => vec![0],
    };
    outpoint.extend_from_slice(&i.txid);
    outpoint.extend_from_slice(&i.vout.to_be_bytes());
    let ann: Option<Vec<u8>> = if code_annex {
        i.wit.last().filter(|l| l.first() == Some(&0x50)).map(|l| l[1..].to_vec())
    } else {
        bip341_annex(&i.wit).map(|a| a.to_vec())
    };
    let annex = match ann {
        Some(a) => [&[1u8][..], &h(&a)].concat(),
        None => vec![0],
    };
    let k = iss_kind(i);
    let (iss_asset, iss_token, iss_blind) = match iss_ids(i) {
        None => (vec![0, 0], vec![0, 0], vec![0]),
        Some((_, asset, token)) => {
            let a = [&[1u8][..], &asset, &ser_amt_digest(&i.amount)].concat();
            // the token amount of a reissuance is shown as explicit zero
            let t = [&[1u8][..], &token, &ser_amt_digest(if k == IssKind::New { &i.keys } else { &Amt::Explicit(0) })].concat();
            let b = if k == IssKind::New { [&[1u8][..], &[0u8; 32], &i.entropy].concat() } else { [&[1u8][..], &i.nonce, &i.entropy].concat() };
            (a, t, b)
        }
    };
    let iss_proof = [
        h(if k != IssKind::No && is_conf(&i.amount) { &i.amount_rp } else { &[] }),
        h(if k == IssKind::New && is_conf(&i.keys) { &i.keys_rp } else { &[] }),
    ]
    .concat();
    InPieces {
        outpoint,
        amt: [ser_conf(&u.asset, 0x0a), ser_amt_digest(&u.value)].concat(),
        script: h(&u.spk).to_vec(),
        seq: i.seq.to_be_bytes().to_vec(),
        annex,
        script_sig: h(&i.script_sig).to_vec(),
        iss_asset,
        iss_token,
        iss_proof,
        iss_blind,
    }
}
struct OutPieces {
    amt: Vec<u8>,
    nonce: Vec<u8>,
    script: Vec<u8>,
    range: Vec<u8>,
    surj: Vec<u8>,
}
fn out_pieces(o: &MOut) -> OutPieces {
    OutPieces {
        amt: [ser_conf(&o.asset, 0x0a), ser_amt_digest(&o.value)].concat(),
        nonce: ser_conf(&o.nonce, 0x02),
        script: h(&o.spk).to_vec(),
        range: h(if is_conf(&o.value) { &o.range } else { &[] }).to_vec(),
        surj: h(if matches!(o.asset, Conf::Conf(..)) { &o.surj } else { &[] }).to_vec(),
    }
}

/// the digests without argument, from the supplied data
fn digest(m: &MEnv, name: &str, code_annex: bool) -> [u8; 32] {
    let nin = shown_inputs(m);
    let ins = || m.inputs[..nin].iter().zip(m.utxos[..nin].iter()).map(|(i, u)| in_pieces(i, u, code_annex));
    let outs = || m.outputs.iter().map(out_pieces);
    let sub = |names: &[&str]| -> Vec<u8> { names.iter().flat_map(|n| digest(m, n, code_annex)).collect() };
    let b: Vec<u8> = match name {
        "input_outpoints_hash" => ins().flat_map(|p| p.outpoint).collect(),
        "input_amounts_hash" => ins().flat_map(|p| p.amt).collect(),
        "input_scripts_hash" => ins().flat_map(|p| p.script).collect(),
        "input_utxos_hash" => sub(&["input_amounts_hash", "input_scripts_hash"]),
        "input_sequences_hash" => ins().flat_map(|p| p.seq).collect(),
        "input_annexes_hash" => ins().flat_map(|p| p.annex).collect(),
        "input_script_sigs_hash" => ins().flat_map(|p| p.script_sig).collect(),
        "inputs_hash" => sub(&["input_outpoints_hash", "input_sequences_hash", "input_annexes_hash"]),
        "issuance_asset_amounts_hash" => ins().flat_map(|p| p.iss_asset).collect(),
        "issuance_token_amounts_hash" => ins().flat_map(|p| p.iss_token).collect(),
        "issuance_range_proofs_hash" => ins().flat_map(|p| p.iss_proof).collect(),
        "issuance_blinding_entropy_hash" => ins().flat_map(|p| p.iss_blind).collect(),
        "issuances_hash" => sub(&["issuance_asset_amounts_hash", "issuance_token_amounts_hash", "issuance_range_proofs_hash", "issuance_blinding_entropy_hash"]),
        "output_amounts_hash" => outs().flat_map(|p| p.amt).collect(),
        "output_nonces_hash" => outs().flat_map(|p| p.nonce).collect(),
        "output_scripts_hash" => outs().flat_map(|p| p.script).collect(),
        "output_range_proofs_hash" => outs().flat_map(|p| p.range).collect(),
        "output_surjection_proofs_hash" => outs().flat_map(|p| p.surj).collect(),
        "outputs_hash" => sub(&["output_amounts_hash", "output_nonces_hash", "output_scripts_hash", "output_range_proofs_hash"]),
        "tx_hash" => {
            let mut b = m.version.to_be_bytes().to_vec();
            b.extend_from_slice(&m.lock_time.to_be_bytes());
            b.extend(sub(&["inputs_hash", "outputs_hash", "issuances_hash", "output_surjection_proofs_hash", "input_utxos_hash"]));
            b
        }
        "tapleaf_hash" => {
            // BIP-341 tagged hash of (leaf version, compact size 32, the script = the CMR)
            let tag = h(b"TapLeaf/elements");
            [&tag[..], &tag, &[m.cb0 & 0xfe, 32], &m.cmr].concat()
        }
        "tappath_hash" => m.path.concat(),
        "tap_env_hash" => [&sub(&["tapleaf_hash", "tappath_hash"])[..], &m.key].concat(),
        "sig_all_hash" => [&m.genesis[..], &m.genesis, &sub(&["tx_hash", "tap_env_hash"]), &m.ix.to_be_bytes()].concat(),
        "transaction_id" => return txid_of(m),
        _ => unreachable!(),
    };
    h(&b)
}

/// what a digest jet has to return, from the supplied data
fn expect_digest(m: &MEnv, name: &str, fam: Fam, arg: &Arg, code_annex: bool) -> Option<Vec<bool>> {
    match (fam, arg) {
        (Fam::Digest, _) => Some(bits(&digest(m, name, code_annex))),
        (Fam::DigestIn, Arg::U32(i)) => {
            let k = *i as usize;
            Some(opt((k < shown_inputs(m)).then(|| {
                let p = in_pieces(&m.inputs[k], &m.utxos[k], code_annex);
                let ids = iss_ids(&m.inputs[k]);
                match name {
                    "input_hash" => sha(&[p.outpoint, p.seq, p.annex].concat()),
                    "input_utxo_hash" => sha(&[p.amt, p.script].concat()),
                    "issuance_hash" => sha(&[p.iss_asset, p.iss_token, p.iss_proof, p.iss_blind].concat()),
                    "issuance_entropy" => opt(ids.map(|t| bits(&t.0))),
                    "issuance_asset" => opt(ids.map(|t| bits(&t.1))),
                    "issuance_token" => opt(ids.map(|t| bits(&t.2))),
                    _ => unreachable!(),
                }
            })))
        }
        (Fam::DigestOut, Arg::U32(i)) => Some(opt(m.outputs.get(*i as usize).map(|o| {
            let p = out_pieces(o);
            sha(&[p.amt, p.nonce, p.script, p.range].concat())
        }))),
        _ => unreachable!(),
    }
}

/// does the digest read the annex of an input whose witness stack has the shape of the known finding
fn annex_affected(m: &MEnv, name: &str, arg: &Arg) -> bool {
    let nin = shown_inputs(m);
    match name {
        "input_annexes_hash" | "inputs_hash" | "tx_hash" | "sig_all_hash" => m.inputs[..nin].iter().any(|i| single_0x50(&i.wit)),
        "input_hash" => match arg {
            Arg::U32(i) => (*i as usize) < nin && single_0x50(&m.inputs[*i as usize].wit),
            _ => false,
        },
        _ => false,
    }
}

// ---------------------------------------------------------------------------------------------
// building the real objects

fn mk_asset(c: &Conf) -> Result<confidential::Asset, String> {
    Ok(match c {
        Conf::Null => confidential::Asset::Null,
        Conf::Explicit(b) => confidential::Asset::Explicit(elements::AssetId::from_byte_array(*b)),
        Conf::Conf(o, x) => {
            let mut v = vec![0x0a | *o as u8];
            v.extend_from_slice(x);
            confidential::Asset::from_commitment(&v).map_err(|e| format!("asset commitment: {e}"))?
        }
    })
}
fn mk_value(a: &Amt) -> Result<confidential::Value, String> {
    Ok(match a {
        Amt::Null => confidential::Value::Null,
        Amt::Explicit(v) => confidential::Value::Explicit(*v),
        Amt::Conf(o, x) => {
            let mut v = vec![0x08 | *o as u8];
            v.extend_from_slice(x);
            confidential::Value::from_commitment(&v).map_err(|e| format!("value commitment: {e}"))?
        }
    })
}
fn mk_nonce(c: &Conf) -> Result<confidential::Nonce, String> {
    Ok(match c {
        Conf::Null => confidential::Nonce::Null,
        Conf::Explicit(b) => confidential::Nonce::Explicit(*b),
        Conf::Conf(o, x) => {
            let mut v = vec![0x02 | *o as u8];
            v.extend_from_slice(x);
            confidential::Nonce::from_commitment(&v).map_err(|e| format!("nonce commitment: {e}"))?
        }
    })
}
fn mk_range(b: &[u8]) -> Result<confidential::RangeProof, String> {
    confidential::RangeProof::from_slice(b).map_err(|e| format!("range proof: {e}"))
}
fn mk_surj(b: &[u8]) -> Result<confidential::SurjectionProof, String> {
    confidential::SurjectionProof::from_slice(b).map_err(|e| format!("surjection proof: {e}"))
}

struct Built {
    env: ElementsEnv<Arc<elements::Transaction>>,
    tx: Arc<elements::Transaction>,
}

fn build(m: &MEnv) -> Result<Built, String> {
    let mut input = vec![];
    for i in &m.inputs {
        let pegin_witness = match &i.pegin {
            None => elements::PeginWitness::EMPTY,
            Some(g) => elements::PeginWitness::new(elements::PeginData {
                value: 0x0102_0304_0506_0708 ^ u64::from(i.vout),
                asset_id: elements::AssetId::from_byte_array(i.entropy),
                genesis_hash: elements::bitcoin::BlockHash::from_byte_array(*g),
                claim_script: elements::bitcoin::ScriptBuf::from_bytes(i.script_sig.clone()),
                transaction: i.txid.to_vec(),
                merkle_proof: i.nonce[..7].to_vec(),
                referenced_block: elements::bitcoin::BlockHash::from_byte_array(i.txid),
            }),
        };
        input.push(elements::TxIn {
            previous_output: elements::OutPoint { txid: elements::Txid::from_byte_array(i.txid), vout: i.vout },
            is_pegin: i.is_pegin,
            script_sig: elements::Script::from(i.script_sig.clone()),
            sequence: elements::Sequence(i.seq),
            asset_issuance: AssetIssuance {
                asset_blinding_nonce: elements::AssetBlindingNonce::from_byte_array(i.nonce),
                asset_entropy: elements::AssetEntropy::from_byte_array(i.entropy),
                amount: mk_value(&i.amount)?,
                inflation_keys: mk_value(&i.keys)?,
            },
            witness: elements::TxInWitness {
                amount_rangeproof: mk_range(&i.amount_rp)?,
                inflation_keys_rangeproof: mk_range(&i.keys_rp)?,
                script_witness: i.wit.clone().into(),
                pegin_witness,
            },
        });
    }
    let mut utxos = vec![];
    for u in &m.utxos {
        utxos.push(ElementsUtxo { script_pubkey: elements::Script::from(u.spk.clone()), asset: mk_asset(&u.asset)?, value: mk_value(&u.value)? });
    }
    let mut output = vec![];
    for o in &m.outputs {
        output.push(elements::TxOut {
            asset: mk_asset(&o.asset)?,
            value: mk_value(&o.value)?,
            nonce: mk_nonce(&o.nonce)?,
            script_pubkey: elements::Script::from(o.spk.clone()),
            witness: elements::TxOutWitness { surjection_proof: mk_surj(&o.surj)?, rangeproof: mk_range(&o.range)? },
        });
    }
    let tx = Arc::new(elements::Transaction { version: m.version, lock_time: elements::LockTime::from_consensus(m.lock_time), input, output });
    let mut cb = vec![m.cb0];
    cb.extend_from_slice(&m.key);
    for p in &m.path {
        cb.extend_from_slice(p);
    }
    let cb = ControlBlock::from_slice(&cb).map_err(|e| format!("control block: {e}"))?;
    let env = ElementsEnv::new(
        tx.clone(),
        utxos,
        m.ix,
        Cmr::from_byte_array(m.cmr),
        cb,
        m.annex_arg.clone(),
        elements::BlockHash::from_byte_array(m.genesis),
    );
    Ok(Built { env, tx })
}

/// run the one-jet program `jet` (after the constant `arg`) against the environment;
/// `Ok(None)` = the jet failed, `Err` = anything else went wrong
fn run_jet(env: &ElementsEnv<Arc<elements::Transaction>>, jet: Elements, arg: &Arg) -> Result<Option<Vec<bool>>, String> {
    let word = match arg {
        Arg::None => None,
        Arg::U32(i) => Some(Word::u32(*i)),
        Arg::U8(i) => Some(Word::u8(*i)),
        Arg::U16(i) => Some(Word::u16(*i)),
        Arg::H(h) => Some(Word::u256(*h)),
        Arg::Pair(i, j) => Some(Word::u64((u64::from(*i) << 32) | u64::from(*j))),
    };
    let red = types::Context::with_context(|ctx| -> Result<_, String> {
        let j = N::jet(&ctx, &jet);
        let p = match word {
            Some(w) => N::comp(&N::const_word(&ctx, w), &j).map_err(|e| format!("comp: {e}"))?,
            None => j,
        };
        p.finalize_types_non_program()
            .map_err(|e| format!("types: {e}"))?
            .finalize(&mut SimpleFinalizer::new(std::iter::empty::<Value>()))
            .map_err(|e| format!("finalize: {e}"))
    })?;
    let mut mac = BitMachine::for_program(&red).map_err(|e| format!("machine: {e}"))?;
    match mac.exec(&red, env) {
        Ok(v) => Ok(Some(v.iter_compact().collect())),
        Err(simplicity::bit_machine::ExecutionError::JetFailed(_)) => Ok(None),
        Err(e) => Err(format!("exec: {e}")),
    }
}

// ---------------------------------------------------------------------------------------------
// evaluation of a list of queries on one environment

type Query = (String, Vec<Arg>);

fn show_ans(a: &Option<Vec<bool>>) -> String {
    match a {
        None => "fail".into(),
        Some(v) => show_bits(v),
    }
}

/// which input an annex getter looks at
fn annex_input<'a>(m: &'a MEnv, fam: Fam, g: &str, arg: &Arg) -> Option<&'a MIn> {
    if g != "annex_hash" {
        return None;
    }
    let k = match (fam, arg) {
        (Fam::Current, _) => m.ix as usize,
        (Fam::Input, Arg::U32(i)) => *i as usize,
        _ => return None,
    };
    if k < shown_inputs(m) {
        m.inputs.get(k)
    } else {
        None
    }
}

/// the shape of the second known finding: `output_is_fee i` on {empty script, explicit asset, NULL value}
fn fee_null_value(m: &MEnv, name: &str, arg: &Arg) -> bool {
    if name != "output_is_fee" {
        return false;
    }
    match arg {
        Arg::U32(i) => m.outputs.get(*i as usize).map(|o| o.spk.is_empty() && matches!(o.asset, Conf::Explicit(_)) && o.value == Amt::Null).unwrap_or(false),
        _ => false,
    }
}

fn eval(ctx: &mut Ctx, m: &MEnv, txt: &str, queries: &[Query], emit: bool) {
    let built = match ctx::catch(|| build(m)) {
        Ok(Ok(b)) => b,
        Ok(Err(e)) => {
            // the generator produced something the elements crate does not accept: not a case
            ctx.count(&format!("gen-rejected:{}", e.split(':').next().unwrap_or("?")));
            return;
        }
        Err(p) => {
            ctx.fail("panic-env-new", &format!("{txt} Q version"), &p);
            return;
        }
    };
    let in_domain = m.inputs.len() == m.utxos.len();
    let txkey = format!("{:016x}", ctx::fnv(txt.as_bytes()));
    let mut line = String::from(txt);
    let mut answers: Vec<String> = vec![];
    for (name, args) in queries {
        let Some(&(_, jet, fam, g)) = jet_by_name(name) else { continue };
        let args: Vec<Arg> = if args.is_empty() { vec![Arg::None] } else { args.clone() };
        let mut kept_args: Vec<String> = vec![];
        let mut kept_ans: Vec<String> = vec![];
        for arg in &args {
            let case = format!("{txt} Q {name} {}", arg_txt(arg)).trim_end().to_string();
            let got = match ctx::catch(|| run_jet(&built.env, jet, arg)) {
                Ok(Ok(g)) => g,
                Ok(Err(e)) => {
                    ctx.fail("exec-error", &case, &e);
                    continue;
                }
                Err(p) => {
                    ctx.fail("panic-jet", &case, &p);
                    continue;
                }
            };
            if matches!(fam, Fam::Digest | Fam::DigestIn | Fam::DigestOut) {
                let nontrivial = match (fam, arg) {
                    (Fam::DigestIn, Arg::U32(i)) => (*i as usize) < shown_inputs(m),
                    (Fam::DigestOut, Arg::U32(i)) => (*i as usize) < m.outputs.len(),
                    _ => true,
                };
                let ckey = format!("{txkey} {name} {}", arg_txt(arg));
                ctx.case(if nontrivial { Some(&ckey) } else { None });
                ctx.count(&format!("reach:{name}"));
                if !nontrivial {
                    ctx.count(&format!("reach:absent:{}", if fam == Fam::DigestIn { "input-index-out-of-range" } else { "output-index-out-of-range" }));
                }
                if !in_domain {
                    ctx.count("outside-domain:utxo-count-differs");
                }
                // two routes of the implementation
                if name == "sig_all_hash" {
                    let other = bits(built.env.c_tx_env().sighash_all().as_byte_array());
                    if got.as_ref() != Some(&other) {
                        ctx.fail("route-sig_all_hash", &case, &format!("jet {} CTxEnv::sighash_all {}", show_ans(&got), show_bits(&other)));
                    }
                }
                if name == "transaction_id" {
                    let lib = bits(built.tx.txid().as_byte_array());
                    if got.as_ref() != Some(&lib) {
                        ctx.fail("getter-transaction_id", &case, &format!("jet {} Transaction::txid {}", show_ans(&got), show_bits(&lib)));
                    }
                }
                // the digest recomputed from the supplied data
                let want = expect_digest(m, name, fam, arg, false);
                let mut skip_op = false;
                if got != want {
                    if annex_affected(m, name, arg) && got == expect_digest(m, name, fam, arg, true) {
                        // the known finding, seen through a digest over the annexes
                        if in_domain {
                            ctx.count("known:annex-single-item-0x50");
                            ctx.fail("annex-single-item-0x50", &case, &format!("an input's witness stack is ONE item starting 0x50: {name} counts it as an annex"));
                        }
                        skip_op = true;
                    } else {
                        ctx.fail(&format!("getter-{name}"), &case, &format!("jet returned {} supplied data say {}", show_ans(&got), show_ans(&want)));
                    }
                } else if annex_affected(m, name, arg) {
                    ctx.count("annex-single-item-0x50-agrees-with-bip341");
                }
                if !skip_op {
                    kept_args.push(arg_txt(arg));
                    kept_ans.push(show_ans(&got));
                }
                continue;
            }
            let want = expect(m, name, fam, g, arg);
            let nontrivial = match (fam, arg) {
                (Fam::Input, Arg::U32(i)) => (*i as usize) < shown_inputs(m),
                (Fam::Output, Arg::U32(i)) => (*i as usize) < m.outputs.len(),
                (Fam::Tappath, Arg::U8(i)) => (*i as usize) < m.path.len(),
                (Fam::NullDatum, Arg::Pair(i, _)) => (*i as usize) < m.outputs.len(),
                (Fam::Current, _) => (m.ix as usize) < shown_inputs(m),
                _ => true,
            };
            let ckey = format!("{txkey} {name} {}", arg_txt(arg));
            ctx.case(if nontrivial { Some(&ckey) } else { None });
            ctx.count(&format!("reach:{name}"));
            if !nontrivial {
                ctx.count(&format!("reach:absent:{}", match fam {
                    Fam::Current => "current-index-out-of-range",
                    Fam::Input => "input-index-out-of-range",
                    Fam::Output | Fam::NullDatum => "output-index-out-of-range",
                    _ => "path-index-out-of-range",
                }));
            }
            let mut skip_op = false;
            if !in_domain {
                // fewer/more spent outputs than inputs: outside the property's domain (the doc of
                // ElementsEnv asks for one utxo per input); the model (zip) is still compared
                ctx.count("outside-domain:utxo-count-differs");
                let ai = annex_input(m, fam, g, arg);
                if got != want && ai.map(|i| single_0x50(&i.wit)).unwrap_or(false) {
                    skip_op = true;
                }
            } else if got != want {
                let ai = annex_input(m, fam, g, arg);
                let code_rule = ai.filter(|i| single_0x50(&i.wit)).map(|i| opt(Some(sha(&i.wit[0][1..]))));
                let code_rule = code_rule.map(|v| if fam == Fam::Input { opt(Some(v)) } else { v });
                if code_rule.is_some() && got == code_rule {
                    ctx.count("known:annex-single-item-0x50");
                    ctx.fail(
                        "annex-single-item-0x50",
                        &case,
                        &format!("witness stack of ONE item starting 0x50: {name} = {} (an annex), BIP-341 (at least two elements) = {}", show_ans(&got), show_ans(&want)),
                    );
                    skip_op = true;
                } else if fee_null_value(m, name, arg) && got == Some(vec![true, true]) {
                    // second known finding: the C jets copy a NULL amount as explicit zero, so an
                    // output {empty script, explicit asset, NULL value} is shown as a fee output;
                    // the model mirrors the C code, the op stays in the correspondence
                    ctx.count("known:is-fee-null-value");
                    ctx.fail(
                        "is-fee-null-value",
                        &case,
                        &format!("output with empty script, explicit asset and NULL value: {name} = {} (a fee), Elements' IsFee / TxOut::is_fee = {}", show_ans(&got), show_ans(&want)),
                    );
                } else {
                    ctx.fail(&format!("getter-{name}"), &case, &format!("jet returned {} supplied data say {}", show_ans(&got), show_ans(&want)));
                }
            } else if let Some(i) = annex_input(m, fam, g, arg) {
                if single_0x50(&i.wit) {
                    // the known finding repaired: nothing to skip
                    ctx.count("annex-single-item-0x50-agrees-with-bip341");
                }
            }
            if !skip_op {
                kept_args.push(arg_txt(arg));
                kept_ans.push(show_ans(&got));
            }
            if ctx.want_sample() && nontrivial && ctx.rng.chance(1, 400) {
                let short: String = txt.chars().take(160).collect();
                ctx.sample(&format!("{short}… Q {name} {} -> {}", arg_txt(arg), show_ans(&got)));
            }
        }
        if !kept_ans.is_empty() {
            line.push_str(" Q ");
            line.push_str(name);
            for a in &kept_args {
                if !a.is_empty() {
                    line.push(' ');
                    line.push_str(a);
                }
            }
            answers.push(kept_ans.join(" "));
        }
    }
    if emit && !answers.is_empty() {
        ctx.op(&line, &answers.join(" | "));
    }
}

fn parse_case(case: &str) -> Option<(MEnv, String, Vec<Query>)> {
    let (txt, rest) = match case.find(" Q ") {
        Some(p) => (&case[..p], &case[p..]),
        None => (case, ""),
    };
    let mut tk = Toks { t: txt.split_whitespace().collect(), p: 0 };
    let m = env_parse(&mut tk)?;
    if tk.p != tk.t.len() {
        return None;
    }
    let mut qs: Vec<Query> = vec![];
    for grp in rest.split(" Q ").filter(|g| !g.trim().is_empty()) {
        let mut it = grp.split_whitespace();
        let name = it.next()?;
        let fam = jet_by_name(name)?.2;
        let mut args = vec![];
        for a in it {
            args.push(arg_parse(fam, a)?);
        }
        qs.push((name.to_string(), args));
    }
    Some((m, txt.to_string(), qs))
}

/// re-evaluate one recorded case (`env … Q jet arg`)
pub fn replay(ctx: &mut Ctx, case: &str) {
    match parse_case(case) {
        Some((m, txt, qs)) => {
            debug_assert_eq!(env_txt(&m), txt);
            eval(ctx, &m, &txt, &qs, true)
        }
        None => ctx.note("replay: the case text does not parse"),
    }
}

// ---------------------------------------------------------------------------------------------
// generators

fn b32(r: &mut Rng) -> [u8; 32] {
    r.bytes(32).try_into().unwrap()
}

/// lengths around the SHA-256 padding boundaries, short, and long
fn len_pick(r: &mut Rng, long: bool) -> usize {
    match r.below(14) {
        0 => 0,
        1 => 1,
        2 => 55,
        3 => 56,
        4 => 63,
        5 => 64,
        6 => 65,
        7 => 119,
        8 => 120,
        9 if long => r.range(200, 6000) as usize,
        _ => r.range(1, 48) as usize,
    }
}
fn script(r: &mut Rng, long: bool) -> Vec<u8> {
    let n = len_pick(r, long);
    r.bytes(n)
}

/// x coordinates accepted by the three commitment parsers, found by trial
struct Points {
    gens: Vec<[u8; 32]>,
    peds: Vec<[u8; 32]>,
    keys: Vec<[u8; 32]>,
    xonly: Vec<[u8; 32]>,
}
fn points(r: &mut Rng) -> Points {
    let mut p = Points { gens: vec![], peds: vec![], keys: vec![], xonly: vec![] };
    while p.gens.len() < 12 || p.peds.len() < 12 || p.keys.len() < 12 || p.xonly.len() < 12 {
        let x = b32(r);
        let mut v = vec![0u8];
        v.extend_from_slice(&x);
        v[0] = 0x0a;
        if p.gens.len() < 12 && confidential::Asset::from_commitment(&v).is_ok() {
            p.gens.push(x);
        }
        v[0] = 0x08;
        if p.peds.len() < 12 && confidential::Value::from_commitment(&v).is_ok() {
            p.peds.push(x);
        }
        v[0] = 0x02;
        if p.keys.len() < 12 && confidential::Nonce::from_commitment(&v).is_ok() {
            p.keys.push(x);
        }
        v[0] = 0xbe;
        if p.xonly.len() < 12 && ControlBlock::from_slice(&v).is_ok() {
            p.xonly.push(x);
        }
    }
    p
}

fn gen_conf(r: &mut Rng, xs: &[[u8; 32]], weights: (u64, u64, u64)) -> Conf {
    let t = r.below(weights.0 + weights.1 + weights.2);
    if t < weights.0 {
        Conf::Null
    } else if t < weights.0 + weights.1 {
        Conf::Explicit(b32(r))
    } else {
        Conf::Conf(r.bool(), *r.pick(xs))
    }
}
fn gen_amt(r: &mut Rng, xs: &[[u8; 32]], weights: (u64, u64, u64)) -> Amt {
    let t = r.below(weights.0 + weights.1 + weights.2);
    if t < weights.0 {
        Amt::Null
    } else if t < weights.0 + weights.1 {
        Amt::Explicit(match r.below(6) {
            0 => 0,
            1 => u64::MAX,
            2 => 1 << 63,
            3 => r.next() >> 20,
            _ => r.next(),
        })
    } else {
        Amt::Conf(r.bool(), *r.pick(xs))
    }
}
/// a byte string `RangeProof::from_slice` accepts (header without range/minimum, 65 bytes or more)
fn gen_range(r: &mut Rng, long: bool) -> Vec<u8> {
    if r.chance(1, 4) {
        return vec![];
    }
    for _ in 0..20 {
        let n = 65 + if long && r.chance(1, 6) { r.range(100, 5000) as usize } else { r.below(80) as usize };
        let mut b = r.bytes(n);
        b[0] &= 0x7f;
        if r.bool() {
            b[0] = 0;
        }
        if confidential::RangeProof::from_slice(&b).is_ok() {
            return b;
        }
    }
    let mut b = r.bytes(65);
    b[0] = 0;
    b
}
/// a byte string `SurjectionProof::from_slice` accepts: n_inputs (LE16), bitmap, 32·(1+used) bytes
fn gen_surj(r: &mut Rng) -> Vec<u8> {
    if r.chance(1, 4) {
        return vec![];
    }
    let n_inputs = r.range(1, 24) as usize;
    let mut bitmap = vec![0u8; (n_inputs + 7) / 8];
    let mut used = 0;
    for i in 0..n_inputs {
        if used < 3 && r.chance(1, 3) {
            bitmap[i / 8] |= 1 << (i % 8);
            used += 1;
        }
    }
    let mut b = vec![n_inputs as u8, 0];
    b.extend_from_slice(&bitmap);
    b.extend(r.bytes(32 * (1 + used)));
    if confidential::SurjectionProof::from_slice(&b).is_ok() {
        b
    } else {
        vec![]
    }
}

/// witness stacks: every shape the annex rule distinguishes
fn gen_wit(r: &mut Rng, kind: u64) -> Vec<Vec<u8>> {
    let ann = |r: &mut Rng| {
        let n = len_pick(r, false);
        let mut a = r.bytes(n.max(1));
        a[0] = 0x50;
        a
    };
    let item = |r: &mut Rng| {
        let mut b = script(r, false);
        if b.first() == Some(&0x50) {
            b[0] = 0x51;
        }
        b
    };
    match kind {
        0 => vec![],
        1 => vec![item(r)],
        2 => vec![ann(r)],                                 // SINGLE item starting 0x50: no annex per BIP-341
        3 => vec![vec![0x50]],                             // the same with nothing after the tag
        4 => vec![item(r), ann(r)],                        // annex
        5 => vec![item(r), item(r), vec![0x50]],           // annex, empty after the tag
        6 => vec![ann(r), item(r)],                        // 0x50 item not last
        7 => vec![item(r), vec![]],                        // last item empty
        8 => vec![ann(r), ann(r)],                         // two 0x50 items: the last is the annex
        9 => {
            let mut v: Vec<Vec<u8>> = vec![];
            for _ in 0..r.range(3, 7) {
                v.push(item(r));
            }
            v.push(ann(r));
            v
        }
        _ => {
            let mut v: Vec<Vec<u8>> = vec![];
            for _ in 0..r.range(2, 5) {
                v.push(item(r));
            }
            v
        }
    }
}

/// scripts for outputs: ordinary, empty (fee-shaped), null data with pushes of every kind
fn gen_out_script(r: &mut Rng, long: bool) -> Vec<u8> {
    match r.below(8) {
        0 | 1 => vec![],
        2 | 3 | 4 => {
            let mut s = vec![0x6a];
            for _ in 0..r.below(6) {
                match r.below(8) {
                    0 => {
                        let n = r.below(0x4c) as usize;
                        s.push(n as u8);
                        s.extend(r.bytes(n));
                    }
                    1 => {
                        let n = r.below(90) as usize;
                        s.push(0x4c);
                        s.push(n as u8);
                        s.extend(r.bytes(n));
                    }
                    2 => {
                        let n = r.below(300) as usize;
                        s.push(0x4d);
                        s.extend_from_slice(&(n as u16).to_le_bytes());
                        s.extend(r.bytes(n));
                    }
                    3 => {
                        let n = r.below(70) as usize;
                        s.push(0x4e);
                        s.extend_from_slice(&(n as u32).to_le_bytes());
                        s.extend(r.bytes(n));
                    }
                    4 => s.push(0x4f),
                    5 => s.push(0x50),
                    _ => s.push(0x51 + r.below(16) as u8),
                }
            }
            // sometimes broken: truncated push, opcode above OP_16, trailing length byte
            match r.below(10) {
                0 => {
                    s.push(0x20);
                    s.extend(r.bytes(7));
                }
                1 => s.push(0x61 + r.below(100) as u8),
                2 => s.push(0x4c),
                3 => {
                    s.push(0x4e);
                    s.extend_from_slice(&[1, 0, 0]);
                }
                _ => {}
            }
            s
        }
        _ => script(r, long),
    }
}

fn gen_env(r: &mut Rng, pts: &Points, it: u64) -> MEnv {
    let long = it % 9 == 0;
    let nin = match r.below(10) {
        0 => 0,
        1 | 2 | 3 => 1,
        4 | 5 => 2,
        6 | 7 => 3,
        8 => 4,
        _ => r.range(5, 6),
    } as usize;
    let nout = match r.below(10) {
        0 => 0,
        1 | 2 => 1,
        3 | 4 | 5 => 2,
        6 | 7 => 3,
        8 => 4,
        _ => r.range(5, 6),
    } as usize;
    let fee_asset = b32(r);
    let mut inputs = vec![];
    let mut utxos = vec![];
    for k in 0..nin {
        let issk = r.below(8);
        // issuance fields: the four fields always exist in a TxIn; "no issuance" = both amounts null
        let (nonce, entropy, amount, keys) = match issk {
            0 | 1 | 2 => ([0u8; 32], [0u8; 32], Amt::Null, Amt::Null),
            // garbage in nonce/entropy with null amounts is still no issuance
            3 => (b32(r), b32(r), Amt::Null, Amt::Null),
            4 | 5 => {
                // new issuance (blinding nonce zero)
                let a = gen_amt(r, &pts.peds, (1, 2, 2));
                let mut k2 = gen_amt(r, &pts.peds, (2, 2, 2));
                if a == Amt::Null && k2 == Amt::Null {
                    k2 = Amt::Explicit(r.next());
                }
                ([0u8; 32], b32(r), a, k2)
            }
            _ => {
                // reissuance (non-zero nonce; sometimes non-zero only in its last byte)
                let mut n = if r.chance(1, 3) { [0u8; 32] } else { b32(r) };
                if n == [0u8; 32] {
                    n[r.below(32) as usize] = 1 + r.below(255) as u8;
                }
                let a = gen_amt(r, &pts.peds, (1, 3, 3));
                let mut k2 = gen_amt(r, &pts.peds, (3, 1, 1));
                if a == Amt::Null && k2 == Amt::Null {
                    k2 = Amt::Conf(r.bool(), *r.pick(&pts.peds));
                }
                (n, b32(r), a, k2)
            }
        };
        let (is_pegin, pegin) = match r.below(10) {
            0 | 1 => (true, Some(b32(r))),
            2 => (true, None),          // flag without pegin witness
            3 => (false, Some(b32(r))), // pegin witness without flag
            _ => (false, None),
        };
        inputs.push(MIn {
            txid: b32(r),
            vout: match r.below(5) {
                0 => 0,
                1 => u32::MAX,
                2 => r.next() as u32 & 0x3fff_ffff,
                _ => r.next() as u32,
            },
            seq: match r.below(8) {
                0 => u32::MAX,
                1 => 0x8000_0000,
                2 => 0x7fff_ffff,
                3 => 0,
                4 => u32::MAX - 1,
                _ => r.next() as u32,
            },
            script_sig: script(r, long && k == 0),
            is_pegin,
            pegin,
            nonce,
            entropy,
            amount,
            keys,
            amount_rp: gen_range(r, long),
            keys_rp: gen_range(r, false),
            wit: {
                let kind = r.below(11);
                gen_wit(r, kind)
            },
        });
        utxos.push(MUtxo { asset: gen_conf(r, &pts.gens, (1, 3, 3)), value: gen_amt(r, &pts.peds, (1, 3, 3)), spk: script(r, long && k == 1) });
    }
    let mut outputs = vec![];
    for k in 0..nout {
        let mut asset = gen_conf(r, &pts.gens, (1, 4, 3));
        if r.chance(1, 3) {
            asset = Conf::Explicit(fee_asset);
        }
        outputs.push(MOut {
            asset,
            value: gen_amt(r, &pts.peds, (1, 4, 3)),
            nonce: gen_conf(r, &pts.keys, (2, 1, 2)),
            spk: gen_out_script(r, long && k == 0),
            surj: gen_surj(r),
            range: gen_range(r, long && k == 1),
        });
    }
    // spent-output list of another length than the input list: outside the domain, still compared
    if it % 40 == 39 && nin > 0 {
        if r.bool() {
            utxos.pop();
        } else {
            utxos.push(MUtxo { asset: Conf::Null, value: Amt::Null, spk: vec![] });
        }
    }
    let all_final = it % 13 == 5;
    if all_final {
        for i in inputs.iter_mut() {
            i.seq = u32::MAX;
        }
    }
    let npath = match r.below(16) {
        0 | 1 | 2 | 3 => 0,
        4 | 5 => 1,
        6 | 7 => 2,
        8 => 127,
        9 => 128,
        10 => r.range(9, 126),
        _ => r.range(3, 8),
    } as usize;
    MEnv {
        version: match r.below(5) {
            0 => 0,
            1 => 1,
            2 => 2,
            3 => u32::MAX,
            _ => r.next() as u32,
        },
        lock_time: match r.below(7) {
            0 => 0,
            1 => 499_999_999,
            2 => 500_000_000,
            3 => u32::MAX,
            _ => r.next() as u32,
        },
        ix: if nin == 0 {
            *r.pick(&[0, 1, u32::MAX])
        } else {
            match r.below(12) {
                0 => nin as u32,
                1 => u32::MAX,
                _ => r.below(nin as u64) as u32,
            }
        },
        annex_arg: match r.below(3) {
            0 => None,
            1 => Some(vec![]),
            _ => Some(r.bytes(5)),
        },
        cmr: b32(r),
        genesis: b32(r),
        // leaf version (even, not 0x50) | parity of the output key
        cb0: (*r.pick(&[0xbeu8, 0xc4, 0xc0, 0x00, 0xfe, 0x52, 0x4e, 0x66])) | (r.bool() as u8),
        key: *r.pick(&pts.xonly),
        path: (0..npath).map(|_| b32(r)).collect(),
        inputs,
        utxos,
        outputs,
    }
}

/// every modelled query on `m`: all indices 0..n+1 and 2^32-1
fn all_queries(r: &mut Rng, m: &MEnv) -> Vec<Vec<Query>> {
    let nin = m.inputs.len() as u32;
    let nout = m.outputs.len() as u32;
    // four operations per environment: getters without argument, per-input, per-output, the rest
    let mut first: Vec<Query> = vec![];
    let mut g_in: Vec<Query> = vec![];
    let mut g_out: Vec<Query> = vec![];
    let mut g_misc: Vec<Query> = vec![];
    for &(name, _, fam, _) in JETS {
        match fam {
            Fam::Nullary | Fam::Current | Fam::Digest => first.push((name.to_string(), vec![])),
            Fam::Input | Fam::DigestIn => g_in.push((name.to_string(), (0..nin + 2).chain([u32::MAX, 1 << 31]).map(Arg::U32).collect())),
            Fam::Output | Fam::DigestOut => g_out.push((name.to_string(), (0..nout + 2).chain([u32::MAX, 1 << 31]).map(Arg::U32).collect())),
            Fam::NullDatum => {
                let mut a = vec![];
                for i in (0..nout + 1).chain([u32::MAX]) {
                    let n = m.outputs.get(i as usize).and_then(|o| null_data(&o.spk)).map(|v| v.len() as u32).unwrap_or(0);
                    for j in (0..n + 2).chain([u32::MAX]) {
                        a.push(Arg::Pair(i, j));
                    }
                }
                g_misc.push((name.to_string(), a));
            }
            Fam::Check32 => {
                let l = locks(m);
                let v = if name == "check_lock_height" { l.0 } else { l.1 };
                let mut a: Vec<u32> = vec![0, 1, v.saturating_sub(1), v, v.saturating_add(1), 499_999_999, 500_000_000, m.lock_time, u32::MAX, m.lock_time.rotate_left(7) ^ m.version];
                a.sort();
                a.dedup();
                first.push((name.to_string(), a.into_iter().map(Arg::U32).collect()));
            }
            Fam::Check16 => {
                let l = locks(m);
                let v = if name == "check_lock_distance" { l.2 } else { l.3 };
                let mut a: Vec<u16> = vec![0, 1, v.saturating_sub(1), v, v.saturating_add(1), u16::MAX, (m.lock_time >> 3) as u16];
                for i in &m.inputs {
                    a.push(i.seq as u16);
                }
                a.sort();
                a.dedup();
                first.push((name.to_string(), a.into_iter().map(Arg::U16).collect()));
            }
            Fam::Tappath => {
                let n = m.path.len() as u32;
                let mut a: Vec<u32> = vec![0, 1, n.saturating_sub(1), n, n + 1, 127, 128, 255];
                a.push(r.below(256) as u32);
                a.sort();
                a.dedup();
                g_misc.push((name.to_string(), a.into_iter().filter(|x| *x < 256).map(|x| Arg::U8(x as u8)).collect()));
            }
            Fam::TotalFee => {
                let mut a: Vec<[u8; 32]> = vec![[0u8; 32], b32(r)];
                for o in &m.outputs {
                    if let Conf::Explicit(id) = &o.asset {
                        if !a.contains(id) {
                            a.push(*id);
                        }
                    }
                    if let Conf::Conf(_, x) = &o.asset {
                        if !a.contains(x) {
                            a.push(*x);
                        }
                    }
                }
                g_misc.push((name.to_string(), a.into_iter().map(Arg::H).collect()));
            }
        }
    }
    vec![first, g_in, g_out, g_misc]
}

fn reach_kinds(ctx: &mut Ctx, m: &MEnv) {
    let mut k: Vec<String> = vec![];
    k.push(format!("inputs-{}", m.inputs.len().min(5)));
    k.push(format!("outputs-{}", m.outputs.len().min(5)));
    k.push(
        match m.path.len() {
            0 => "path-0",
            128 => "path-128",
            _ => "path-1..127",
        }
        .into(),
    );
    if (m.ix as usize) >= m.inputs.len() {
        k.push("current-index-out-of-range".into());
    }
    for i in &m.inputs {
        k.push(
            match iss_kind(i) {
                IssKind::No => "issuance-none",
                IssKind::New => "issuance-new",
                IssKind::Re => "issuance-reissuance",
            }
            .into(),
        );
        for (w, a) in [("issuance-amount", &i.amount), ("issuance-keys", &i.keys)] {
            if iss_kind(i) != IssKind::No {
                k.push(format!("{w}-{}", match a {
                    Amt::Null => "null",
                    Amt::Explicit(_) => "explicit",
                    Amt::Conf(..) => "confidential",
                }));
            }
        }
        k.push(
            match (i.is_pegin, i.pegin.is_some()) {
                (true, true) => "pegin",
                (false, false) => "no-pegin",
                (true, false) => "pegin-flag-without-witness",
                (false, true) => "pegin-witness-without-flag",
            }
            .into(),
        );
        k.push(if bip341_annex(&i.wit).is_some() { "annex-present".into() } else { format!("annex-absent-stack-{}", i.wit.len().min(2)) });
        if single_0x50(&i.wit) {
            k.push("annex-single-item-0x50".into());
        }
        if i.seq >> 31 == 1 {
            k.push("sequence-top-bit".into());
        } else {
            k.push(format!("relative-lock-{}-v{}", if (i.seq >> 22) & 1 == 1 { "duration" } else { "distance" }, m.version.min(2)));
        }
        if i.vout >> 30 != 0 {
            k.push("vout-top-bits".into());
        }
    }
    for u in &m.utxos {
        k.push(format!("utxo-asset-{}", match u.asset {
            Conf::Null => "null",
            Conf::Explicit(_) => "explicit",
            Conf::Conf(..) => "confidential",
        }));
        k.push(format!("utxo-value-{}", match u.value {
            Amt::Null => "null",
            Amt::Explicit(_) => "explicit",
            Amt::Conf(..) => "confidential",
        }));
    }
    for o in &m.outputs {
        k.push(format!("out-asset-{}", match o.asset {
            Conf::Null => "null",
            Conf::Explicit(_) => "explicit",
            Conf::Conf(..) => "confidential",
        }));
        k.push(format!("out-value-{}", match o.value {
            Amt::Null => "null",
            Amt::Explicit(_) => "explicit",
            Amt::Conf(..) => "confidential",
        }));
        k.push(format!("out-nonce-{}", match o.nonce {
            Conf::Null => "null",
            Conf::Explicit(_) => "explicit",
            Conf::Conf(..) => "confidential",
        }));
        if is_fee(o) {
            k.push("fee-output".into());
        }
        if null_data(&o.spk).is_some() {
            k.push("null-data-output".into());
        } else if o.spk.first() == Some(&0x6a) {
            k.push("broken-null-data-output".into());
        }
        if !o.surj.is_empty() {
            k.push("surjection-proof".into());
        }
        if !o.range.is_empty() {
            k.push("range-proof".into());
        }
        if o.spk.len() > 150 || o.range.len() > 150 {
            k.push("long-buffer".into());
        }
    }
    k.sort();
    k.dedup();
    for x in k {
        ctx.count(&format!("reach:kind:{x}"));
    }
}

fn run_env(ctx: &mut Ctx, m: &MEnv) {
    let txt = env_txt(m);
    debug_assert!(parse_case(&txt).map(|(m2, _, _)| env_txt(&m2) == txt).unwrap_or(false), "text form does not round-trip");
    let mut qr = ctx.rng.fork();
    let before = ctx.n_fail;
    for qs in all_queries(&mut qr, m) {
        eval(ctx, m, &txt, &qs, true);
    }
    let _ = before;
    reach_kinds(ctx, m);
    ctx.count("environments");
}

/// the replay case of F-C15: a key-path-like input whose only witness element is `50 01 02`
fn fc15_env(pts: &Points) -> MEnv {
    MEnv {
        version: 2,
        lock_time: 0,
        ix: 0,
        annex_arg: None,
        cmr: [0x11; 32],
        genesis: [0x22; 32],
        cb0: 0xbe,
        key: pts.xonly[0],
        path: vec![],
        inputs: vec![MIn {
            txid: [0x33; 32],
            vout: 0,
            seq: u32::MAX,
            script_sig: vec![],
            is_pegin: false,
            pegin: None,
            nonce: [0; 32],
            entropy: [0; 32],
            amount: Amt::Null,
            keys: Amt::Null,
            amount_rp: vec![],
            keys_rp: vec![],
            wit: vec![vec![0x50, 0x01, 0x02]],
        }],
        utxos: vec![MUtxo { asset: Conf::Explicit([0x44; 32]), value: Amt::Explicit(1000), spk: vec![0x51, 0x20] }],
        outputs: vec![MOut { asset: Conf::Explicit([0x44; 32]), value: Amt::Explicit(1000), nonce: Conf::Null, spk: vec![], surj: vec![], range: vec![] }],
    }
}

pub fn run(ctx: &mut Ctx) {
    let mut pr = Rng(0xC15);
    let pts = points(&mut pr);
    // 1. the fixed replay case of the known finding, and its two-element counterpart
    let f = fc15_env(&pts);
    run_env(ctx, &f);
    let mut f2 = f.clone();
    f2.inputs[0].wit = vec![vec![0x30, 0x44], vec![0x50, 0x01, 0x02]];
    run_env(ctx, &f2);
    // the fixed case of the second known finding: output {empty script, explicit asset, NULL value}
    let mut f3 = f.clone();
    f3.inputs[0].wit = vec![];
    f3.outputs[0].value = Amt::Null;
    run_env(ctx, &f3);
    // 2. generated environments
    let n = ctx.scale(1500, 25_000);
    for it in 0..n {
        let mut r = ctx.rng.fork();
        let m = gen_env(&mut r, &pts, it);
        run_env(ctx, &m);
    }
    ctx.note("pegin: the environment shows a pegin exactly when the input's pegin WITNESS carries data (c_env.rs uses TxIn::pegin_data()); the is_pegin flag of the TxIn is not consulted — both mixed combinations are generated (reach:kind:pegin-flag-without-witness / pegin-witness-without-flag) and the oracle follows the witness");
    ctx.note("spent-output lists of another length than the input list (outside the domain) are compared with the model (zip) only");
}
