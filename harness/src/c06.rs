//! C06 — the Rust Bit Machine and libsimplicity's evaluator reach the same verdict.
//!
//! op:  `verdict <plan> W:i:bits… T:name:src:tgt… C:name:cmr… K:name:cost… J:name:in:out|fail… E:<env seed>`
//!      → `ok` | `fail assertion|failNode|jet`
//!      (the Lean model: `evalK` on the elaborated term with the jet calls recorded on the Rust run;
//!      the `E:` token names the generated environment, the model does not look at it)
//! oracle (implementation alone), on every generated program × witness × environment:
//!   * `BitMachine::exec` against `evalTCOExpression(CHECK_NONE, budget = NULL)` on the program's own
//!     serialisation: success ⇔ `SIMPLICITY_NO_ERROR`, assertion ⇔ `EXEC_ASSERT`, jet failure ⇔
//!     `EXEC_JET`.  Programs with a `fail` node are refused by libsimplicity when decoding
//!     (`FailCode`): outside the property, counted; static memory limits on either side: counted.
//!   * `BitMachine::exec` against the reference big-step evaluator of C05 (`ref_eval`, jets through the
//!     recorded calls): same verdict, same failure kind.
//!   * every recorded call of a jet that reads version, lock time, sequences or counts is compared
//!     with the value computed here from the supplied transaction (the marshalled environment is
//!     shared by both evaluators, so a marshalling error would not show as a Rust/C difference).

#[path = "c06/shared.rs"]
pub mod shared;

use crate::ctx::{catch, Ctx};
use crate::gen::{self, GenCfg, Plan, V};
use crate::progs::{self, Outcome};
use shared::ceval::{self, COut};
use shared::EnvInfo;
use simplicity::ffi::tests::ffi::SimplicityErr;
use simplicity::jet::Elements;
use simplicity::Value;
use std::collections::{BTreeSet, HashMap};

pub const RULE: &str = "type-directed 1->1 Elements plans (depth 2..6, <= 120 nodes: all node kinds incl. disconnect, assertions, words, fail nodes, witness-selected cases and assertions, jets fed by witnesses drawn from all 471 Elements jets / the <=128-bit jets / the environment-reading jets), built in a fresh context with principal types, random witness values (16/32-bit words biased towards existing indices and the lock time), one generated environment per case (1..4 inputs/outputs, issuances, pegins, confidential/explicit/null values, annex, lock times and sequences, taproot paths 0..128); non-trivial = at least 4 nodes executed; distinct by (plan, witnesses, environment)";

/// widest jet type (bits) the Lean model is asked to handle (types are trees there)
const MODEL_MAX_JET_WIDTH: usize = usize::MAX;

pub struct Case {
    pub plan: Plan,
    pub wits: HashMap<usize, Value>,
    pub env_seed: u64,
}

pub fn case_text(verb: &str, c: &Case, calls: &super::c05::Calls) -> String {
    format!("{verb} {}{} E:{}", c.plan.text(), progs::extras(&c.plan, &c.wits, calls), c.env_seed)
}

fn c_text(c: &COut) -> String {
    match c {
        COut::Refused(st, e, _) => format!("refused at {st}: {e:?}"),
        COut::Eval(e, ..) => format!("{e:?}"),
    }
}

pub fn one(ctx: &mut Ctx, c: &Case) -> bool {
    let red = match gen::redeem_with(&c.plan, &c.wits, true) {
        Ok(r) => r,
        Err(e) => {
            ctx.count(&format!("generator:{}", e.split(':').next().unwrap_or("?")));
            return false;
        }
    };
    let (env, einfo): (progs::Env, EnvInfo) = shared::gen_env(c.env_seed);
    let run = match catch(|| progs::run(&red, None, &env)) {
        Ok(Ok(r)) => r,
        Ok(Err(e)) => {
            ctx.count(&format!("excluded:rust-{}", e.split(':').next().unwrap_or("?")));
            return false;
        }
        Err(p) => {
            let line = case_text("verdict", c, &[]);
            ctx.fail("panic-exec", &line, &p);
            return true;
        }
    };
    let line = case_text("verdict", c, &run.rec.calls);
    let rust = match &run.outcome {
        Outcome::Ok(_) => "ok".to_string(),
        Outcome::Fail(k) => format!("fail {k}"),
        Outcome::Other(e) => format!("other {e}"),
    };
    let nontrivial = run.rec.nodes_visited >= 4;
    ctx.case(if nontrivial { Some(&line) } else { None });

    // ---- the model (Lean), through the op line
    if shared::widest_jet(&c.plan) <= MODEL_MAX_JET_WIDTH {
        ctx.op(&line, &rust);
        ctx.count("reach:model-verdict");
    } else {
        ctx.count("model-skipped:wide-jet-types");
    }

    // ---- oracle 1: the reference semantics
    let want = super::c05::ref_eval(&red, &V::U, &run.rec.calls);
    let sem = match &want {
        Ok(_) => "ok".to_string(),
        Err(super::c05::RFail::Assertion) => "fail assertion".into(),
        Err(super::c05::RFail::FailNode) => "fail failNode".into(),
        Err(super::c05::RFail::Jet) => "fail jet".into(),
        Err(super::c05::RFail::Stuck) => "stuck".into(),
    };
    if sem != rust {
        ctx.fail("verdict-vs-semantics", &line, &format!("machine: {rust}; big-step semantics with the recorded jet calls: {sem}"));
    }

    // ---- oracle 2: libsimplicity
    let (pb, wb) = red.to_vec_with_witness();
    let cres = match catch(|| ceval::run(&pb, &wb, ceval::CHECK_NONE, false, env.c_tx_env())) {
        Ok(r) => r,
        Err(p) => {
            ctx.fail("panic-c-pipeline", &line, &p);
            return true;
        }
    };
    let has_fail = crate::codec::has_fail(&red);
    let mut compared = false;
    match (&run.outcome, &cres) {
        (_, COut::Refused("decode", SimplicityErr::FailCode, _)) if has_fail => ctx.count("excluded:c-refuses-fail-node"),
        (_, COut::Eval(SimplicityErr::ExecMemory, ..)) | (_, COut::Eval(SimplicityErr::ExecBudget, ..)) => ctx.count("excluded:c-limit"),
        (_, COut::Refused(..)) => ctx.fail("c-pipeline-refuses", &line, &format!("libsimplicity: {}; program {} witness {}", c_text(&cres), gen::hex(&pb), gen::hex(&wb))),
        (Outcome::Other(e), _) => ctx.fail("rust-other-error", &line, &format!("BitMachine: {e}; libsimplicity: {}", c_text(&cres))),
        (Outcome::Ok(_), COut::Eval(SimplicityErr::NoError, ..))
        | (Outcome::Fail("assertion"), COut::Eval(SimplicityErr::ExecAssert, ..))
        | (Outcome::Fail("jet"), COut::Eval(SimplicityErr::ExecJet, ..)) => compared = true,
        (Outcome::Ok(_), COut::Eval(..)) | (Outcome::Fail(_), COut::Eval(SimplicityErr::NoError, ..)) => {
            compared = true;
            ctx.fail("verdict-mismatch", &line, &format!("BitMachine: {rust}; libsimplicity CHECK_NONE: {}; program {} witness {}", c_text(&cres), gen::hex(&pb), gen::hex(&wb)));
        }
        (Outcome::Fail(_), COut::Eval(..)) => {
            compared = true;
            ctx.fail("failure-kind-mismatch", &line, &format!("BitMachine: {rust}; libsimplicity CHECK_NONE: {}; program {} witness {}", c_text(&cres), gen::hex(&pb), gen::hex(&wb)));
        }
    }

    // ---- oracle 3: environment-reading jets against the supplied transaction
    for (j, i, o) in &run.rec.calls {
        if let Some(exp) = shared::env_oracle(&einfo, *j, i) {
            ctx.count("reach:jet-vs-env");
            if exp != *o {
                let show = |x: &Option<Vec<bool>>| x.as_ref().map(|b| gen::bits_text(b)).unwrap_or_else(|| "fail".into());
                ctx.fail(
                    "jet-vs-env",
                    &line,
                    &format!("{j} on {} gave {}, the supplied transaction (version {}, lock time {}, sequences {:x?}, index {}) says {}", gen::bits_text(i), show(o), einfo.version, einfo.lock_time, einfo.sequences, einfo.ix, show(&exp)),
                );
            }
        }
    }

    // ---- coverage of what reached the comparison with C
    if compared {
        ctx.count("reach:compared-with-c");
        match &run.outcome {
            Outcome::Ok(_) => ctx.count("reach:verdict-ok"),
            Outcome::Fail(k) => ctx.count(&format!("reach:verdict-fail-{k}")),
            Outcome::Other(_) => {}
        }
        let fams: BTreeSet<&'static str> = run.rec.calls.iter().map(|(j, _, _)| shared::jet_family(*j)).collect();
        for f in fams {
            ctx.count(&format!("reach:jet-{f}"));
        }
        let failed: BTreeSet<&'static str> = run.rec.calls.iter().filter(|(_, _, o)| o.is_none()).map(|(j, _, _)| shared::jet_family(*j)).collect();
        for f in failed {
            ctx.count(&format!("jet-failed-{f}"));
        }
        for k in &run.rec.kinds {
            ctx.count(&format!("reach:executed-{k}"));
        }
        for k in &einfo.kinds {
            ctx.count(&format!("reach:env-{k}"));
        }
    } else if let Outcome::Fail("failNode") = &run.outcome {
        // Rust and the two models only
        ctx.count("reach:verdict-fail-failNode");
    }
    if ctx.want_sample() && nontrivial && compared {
        ctx.sample(&format!("{line} -> {rust} | C: {}", c_text(&cres)));
    }
    true
}

fn timelock_pool() -> Vec<Elements> {
    let mut v: Vec<Elements> = shared::ENV_ORACLE_JETS.to_vec();
    v.extend(Elements::ALL.iter().copied().filter(|j| matches!(shared::jet_family(*j), "introspection" | "timelock")));
    v
}

pub fn gen_case(ctx: &mut Ctx, it: u64) -> Option<Case> {
    let depth = 2 + (it % 5) as usize;
    let mut cfg = GenCfg { fail: it % 4 == 0, jets: true, pin_witness: it % 2 == 0, ..GenCfg::default() };
    match it % 4 {
        0 => {} // all 471 jets
        3 => cfg.jet_pool = Elements::ALL.iter().copied().filter(|j| matches!(shared::jet_family(*j), "hash" | "elements-hash" | "secp")).collect(),
        1 => {
            cfg.jet_pool = progs::simple_jets();
            for _ in 0..(cfg.jet_pool.len() / 3) {
                cfg.jet_pool.push(Elements::Verify);
            }
        }
        _ => cfg.jet_pool = timelock_pool(),
    }
    let plan = gen::gen_program(&mut ctx.rng, cfg, depth);
    if plan.nodes.len() > 120 {
        ctx.count("generator:too-large");
        return None;
    }
    let env_seed = if ctx.rng.chance(1, 12) { 0 } else { ctx.rng.next() >> 16 | 1 };
    let (_, einfo) = shared::gen_env(env_seed);
    let wits = match shared::witnesses_for(&plan, &mut ctx.rng, &einfo) {
        Ok(w) => w,
        Err(e) => {
            ctx.count(&format!("generator:{}", e.split(':').next().unwrap_or("?")));
            if ctx.get_count("generator:type") < 3 {
                ctx.note(&format!("rejected plan: {e}"));
            }
            return None;
        }
    };
    Some(Case { plan, wits, env_seed })
}

/// every jet of `Elements::ALL` in turn: `comp (pair (comp wit (comp jet unit)) G) unit` with a small
/// generated program `G` beside it
pub fn sweep_case(ctx: &mut Ctx, j: Elements) -> Option<Case> {
    use gen::PNode;
    let cfg = GenCfg { jets: false, ..GenCfg::default() };
    let g = gen::gen_program(&mut ctx.rng, cfg, 2);
    let mut nodes = g.nodes.clone();
    let groot = nodes.len() - 1;
    let w = nodes.len();
    nodes.push(PNode::Witness);
    nodes.push(PNode::Jet(j));
    nodes.push(PNode::Unit);
    nodes.push(PNode::Comp(w + 1, w + 2));
    nodes.push(PNode::Comp(w, w + 3));
    if ctx.rng.bool() {
        nodes.push(PNode::Pair(w + 4, groot));
    } else {
        nodes.push(PNode::Pair(groot, w + 4));
    }
    nodes.push(PNode::Unit);
    nodes.push(PNode::Comp(w + 5, w + 6));
    let plan = Plan { nodes };
    let env_seed = ctx.rng.next() >> 16 | 1;
    let (_, einfo) = shared::gen_env(env_seed);
    let wits = shared::witnesses_for(&plan, &mut ctx.rng, &einfo).ok()?;
    Some(Case { plan, wits, env_seed })
}

pub fn parse_case(case: &str) -> Option<Case> {
    let toks: Vec<&str> = case.split_whitespace().collect();
    if toks.len() < 2 {
        return None;
    }
    let (plan, used) = Plan::parse(&toks[1..])?;
    let (wits, env_seed) = shared::parse_tail(&plan, &toks[1 + used..])?;
    Some(Case { plan, wits, env_seed })
}

pub fn replay(ctx: &mut Ctx, case: &str) {
    match parse_case(case) {
        Some(c) => {
            one(ctx, &c);
        }
        None => ctx.note("replay: case text not understood"),
    }
}

pub fn run(ctx: &mut Ctx) {
    for round in 0..ctx.scale(2, 30) {
        for j in Elements::ALL {
            match sweep_case(ctx, j) {
                Some(c) => {
                    one(ctx, &c);
                }
                None => ctx.count("generator:sweep-rejected"),
            }
        }
        let _ = round;
    }
    // verdicts that depend on data movement (gen::layout_verdict_plan)
    {
        let want = ctx.scale(10_000, 200_000);
        let mut done = 0;
        for _ in 0..5 * want {
            if done >= want {
                break;
            }
            let plan = gen::layout_verdict_plan(&mut ctx.rng.fork());
            if plan.nodes.len() > 200 {
                continue;
            }
            let (_, einfo) = shared::gen_env(0);
            let Ok(wits) = shared::witnesses_for(&plan, &mut ctx.rng, &einfo) else {
                ctx.count("generator:layout-rejected");
                continue;
            };
            if one(ctx, &Case { plan, wits, env_seed: 0 }) {
                done += 1;
                ctx.count("reach:layout-verdict-family");
            }
        }
    }
    let n = ctx.scale(2400, 150_000);
    let mut done = 0;
    let mut it = 0u64;
    while done < n && it < 20 * n {
        it += 1;
        let Some(c) = gen_case(ctx, it) else {
            ctx.count("generator:rejected");
            continue;
        };
        if one(ctx, &c) {
            done += 1;
            // the same program and witness in a second environment (verdicts of jets change)
            if it % 4 == 0 {
                let c2 = Case { plan: c.plan.clone(), wits: c.wits.iter().map(|(k, v)| (*k, v.shallow_clone())).collect(), env_seed: ctx.rng.next() >> 16 | 1 };
                one(ctx, &c2);
            }
        }
    }
}
