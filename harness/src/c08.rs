//! C08 — pruning preserves commitment and behaviour and satisfies anti-DoS.
//!
//! op:  `prune <plan> W:i:bits… T:… C:… K:… J:… E:<env seed>`
//!      → `ok <tok_0> … <tok_{n-1}> cmr=<root> principal=yes|no antidos=ok|rejected|refused|n/a` | `fail <kind>` (the run fails: nothing to prune)
//!      `tok_i` describes what plan node `i` has become in the pruned program: `-` when it is no longer
//!      reachable, else `<node text with the plan's own child indices>:<source>><target>` and, for
//!      a witness node, `:<compact bits of the pruned value>`; a `case` of which one side was taken
//!      reads `assertl,a,<cmr of the hidden right child>` / `assertr,<cmr of the hidden left child>,b`.
//!      `cmr=` is the commitment root *recomputed* from the serialised pruned program (the pruned
//!      node itself only carries the root copied from the original); `antidos=` is libsimplicity's
//!      verdict with `CHECK_ALL` (the model: every reachable node of its pruned plan executed, both
//!      sides of every remaining case taken, on its own run of the pruned plan).
//! oracle (implementation alone), on every generated program × witness × environment whose run succeeds:
//!   prune succeeds (`prune-failed`, `panic-prune`); the recomputed CMR (Rust decoder and libsimplicity)
//!   is the original one (`cmr-changed`); the pruned program runs and gives the same output
//!   (`pruned-fails`, `output-differs`); its serialisation decodes back to itself (`pruned-not-canonical`);
//!   libsimplicity accepts it with all anti-DoS checks and the sharing check (`c-antidos-rejects`,
//!   `c-rejects-pruned`); pruning again gives identical bytes and IHR (`not-idempotent`);
//!   `ConstructNode::finalize_pruned` gives the same bytes (`finalize-pruned-differs`); every arrow of the
//!   pruned program is ≤ the original arrow and every witness value is the value-directed prune of
//!   the original (`types-not-shrunk`, `witness-not-pruned`); the description is well defined
//!   (`prune-misaligned`).  `principal=`: the plan of the pruned program, rebuilt alone in a fresh context,
//!   gets exactly the arrows the pruned program carries; if not, the one failure reported is
//!   `pruned-types-not-principal` (with its consequences — undecodable serialisation, refusal by
//!   libsimplicity, non-idempotence — listed in the detail instead of as separate failures).

#[path = "c06/shared.rs"]
pub mod shared;

use crate::ctx::{catch, Ctx};
use crate::gen::{self, GenCfg, PNode, Plan, T, V};
use crate::progs::{self, Outcome};
use shared::ceval::{self, COut};
use simplicity::bit_machine::{ExecTracker, FrameIter, NodeOutput};
use simplicity::ffi::tests::ffi::SimplicityErr;
use simplicity::jet::Elements;
use simplicity::node::Inner;
use simplicity::{types, BitIter, BitMachine, Ihr, RedeemNode, Value};
use std::collections::{HashMap, HashSet};
use std::sync::Arc;

pub const RULE: &str = "type-directed 1->1 plans (depth 2..7, <= 120 nodes) with witness-selected cases and assertions at any depth, cases under cases, shared sub-programs (the same case node, or two case nodes with one identity root, reached several times with different choices), disconnect, words, jets of <= 128 bits fed by witnesses; random witness values; generated environments; only cases whose run succeeds reach the oracle; non-trivial = the pruned program differs from the original (a case became an assertion or a witness value shrank); distinct by (plan, witnesses, environment)";

pub struct Case {
    pub plan: Plan,
    pub wits: HashMap<usize, Value>,
    pub env_seed: u64,
}

/// which sides every case/assertion identity took, and how often identities were visited
#[derive(Default)]
struct Visits {
    sides: HashMap<Ihr, (usize, usize)>,
    case_visits: usize,
}

impl ExecTracker for Visits {
    fn visit_node(&mut self, node: &RedeemNode, mut input: FrameIter, _output: NodeOutput) {
        if let Inner::Case(..) = node.inner() {
            self.case_visits += 1;
            let e = self.sides.entry(node.ihr()).or_insert((0, 0));
            match input.next() {
                Some(false) => e.0 += 1,
                Some(true) => e.1 += 1,
                None => {}
            }
        }
    }
}

fn v_of(val: &Value) -> V {
    let t = T::from_fin(val.ty());
    gen::dec_compact(&t, &mut val.iter_compact()).expect("value decodes at its own type")
}

/// reference value-directed prune
fn ref_prune(v: &V, t: &T) -> Option<V> {
    match (v, t) {
        (_, T::One) => Some(V::U),
        (V::L(x), T::Sum(a, _)) => Some(V::L(Box::new(ref_prune(x, a)?))),
        (V::R(x), T::Sum(_, b)) => Some(V::R(Box::new(ref_prune(x, b)?))),
        (V::P(x, y), T::Prod(a, b)) => Some(V::P(Box::new(ref_prune(x, a)?), Box::new(ref_prune(y, b)?))),
        _ => None,
    }
}

/// pruned nodes aligned with the plan's indices (walk both from the root)
fn align_pruned(plan: &Plan, root: &Arc<RedeemNode>) -> Result<Vec<Option<Arc<RedeemNode>>>, String> {
    let mut out: Vec<Option<Arc<RedeemNode>>> = vec![None; plan.nodes.len()];
    let mut stack = vec![(plan.root(), root.clone())];
    while let Some((i, n)) = stack.pop() {
        if let Some(prev) = &out[i] {
            if !Arc::ptr_eq(prev, &n) && prev.ihr() != n.ihr() {
                return Err(format!("plan node {i} became two different nodes"));
            }
            continue;
        }
        let ch = plan.nodes[i].children();
        let bad = || Err(format!("plan node {i} ({}) became {}", plan.nodes[i].kind(), progs::inner_kind(n.inner())));
        match (n.inner(), &plan.nodes[i]) {
            (Inner::InjL(c), PNode::InjL(_)) | (Inner::InjR(c), PNode::InjR(_)) | (Inner::Take(c), PNode::Take(_)) | (Inner::Drop(c), PNode::Drop(_)) => stack.push((ch[0], c.clone())),
            (Inner::AssertL(c, _), PNode::AssertL(..)) | (Inner::AssertR(_, c), PNode::AssertR(..)) => stack.push((ch[0], c.clone())),
            (Inner::AssertL(c, _), PNode::Case(a, _)) => stack.push((*a, c.clone())),
            (Inner::AssertR(_, c), PNode::Case(_, b)) => stack.push((*b, c.clone())),
            (Inner::Comp(a, b), PNode::Comp(..)) | (Inner::Case(a, b), PNode::Case(..)) | (Inner::Pair(a, b), PNode::Pair(..)) => {
                stack.push((ch[0], a.clone()));
                stack.push((ch[1], b.clone()));
            }
            (Inner::Disconnect(a, b), PNode::Disconnect(_, Some(_))) => {
                stack.push((ch[0], a.clone()));
                stack.push((ch[1], b.clone()));
            }
            (Inner::Iden, PNode::Iden) | (Inner::Unit, PNode::Unit) | (Inner::Witness(_), PNode::Witness) | (Inner::Fail(_), PNode::Fail(_)) | (Inner::Word(_), PNode::Word(..)) | (Inner::Jet(_), PNode::Jet(_)) => {}
            _ => return bad(),
        }
        out[i] = Some(n);
    }
    Ok(out)
}

fn describe(plan: &Plan, aligned: &[Option<Arc<RedeemNode>>]) -> String {
    let mut toks = vec![];
    for (i, n) in aligned.iter().enumerate() {
        match n {
            None => toks.push("-".to_string()),
            Some(n) => {
                let text = match (n.inner(), &plan.nodes[i]) {
                    (Inner::AssertL(_, h), PNode::Case(a, _)) | (Inner::AssertL(_, h), PNode::AssertL(a, _)) => format!("assertl,{a},{}", gen::hex(h.as_ref())),
                    (Inner::AssertR(h, _), PNode::Case(_, b)) | (Inner::AssertR(h, _), PNode::AssertR(_, b)) => format!("assertr,{},{b}", gen::hex(h.as_ref())),
                    (_, p) => p.text(),
                };
                let mut t = format!("{text}:{}>{}", gen::final_text(&n.arrow().source), gen::final_text(&n.arrow().target));
                if let Inner::Witness(v) = n.inner() {
                    t.push(':');
                    t.push_str(&gen::value_compact_text(v));
                }
                toks.push(t);
            }
        }
    }
    toks.join(" ")
}

pub fn case_text(c: &Case, calls: &super::c05::Calls) -> String {
    format!("prune {}{} E:{}", c.plan.text(), progs::extras(&c.plan, &c.wits, calls), c.env_seed)
}

fn exec(red: &RedeemNode, env: &progs::Env) -> Result<Value, String> {
    let mut mac = BitMachine::for_program(red).map_err(|e| format!("limit: {e}"))?;
    mac.exec(red, env).map_err(|e| format!("{e}"))
}

pub fn one(ctx: &mut Ctx, c: &Case) -> bool {
    let red = match gen::redeem_with(&c.plan, &c.wits, true) {
        Ok(r) => r,
        Err(e) => {
            ctx.count(&format!("generator:{}", e.split(':').next().unwrap_or("?")));
            return false;
        }
    };
    let (env, _einfo) = shared::gen_env(c.env_seed);
    let run = match catch(|| progs::run(&red, None, &env)) {
        Ok(Ok(r)) => r,
        Ok(Err(e)) => {
            ctx.count(&format!("excluded:rust-{}", e.split(':').next().unwrap_or("?")));
            return false;
        }
        Err(p) => {
            ctx.fail("panic-exec", &case_text(c, &[]), &p);
            return true;
        }
    };
    let line = case_text(c, &run.rec.calls);
    let out0 = match &run.outcome {
        Outcome::Ok(v) => v.shallow_clone(),
        Outcome::Fail(k) => {
            // outside the property (nothing to prune); the model must say the same
            ctx.count(&format!("run-fails:{k}"));
            if ctx.get_count(&format!("run-fails:{k}")) <= ctx.scale(60, 600) {
                ctx.op(&line, &format!("fail {k}"));
                // `prune` must refuse as well
                match catch(|| red.prune(&env)) {
                    Ok(Err(_)) => {}
                    Ok(Ok(_)) => ctx.fail("prune-of-failing-run", &line, "the run fails but prune succeeds"),
                    Err(p) => ctx.fail("panic-prune", &line, &p),
                }
            }
            return false;
        }
        Outcome::Other(e) => {
            ctx.count(&format!("excluded:other-{}", e.len()));
            return false;
        }
    };

    // how the cases were visited (coverage)
    let mut vis = Visits::default();
    if let Ok(mut mac) = BitMachine::for_program(&red) {
        let _ = mac.exec_with_tracker(&red, &env, &mut vis);
    }

    // ---- prune
    let pruned = match catch(|| red.prune(&env)) {
        Ok(Ok(p)) => p,
        Ok(Err(e)) => {
            ctx.fail("prune-failed", &line, &format!("the run succeeds, prune says: {e}"));
            return true;
        }
        Err(p) => {
            ctx.fail("panic-prune", &line, &p);
            return true;
        }
    };
    let (pb, wb) = pruned.to_vec_with_witness();
    let (ob, ow) = red.to_vec_with_witness();
    let detail_bytes = format!("original {} / {}; pruned {} / {}", gen::hex(&ob), gen::hex(&ow), gen::hex(&pb), gen::hex(&wb));

    // ---- what every plan node has become
    let orig = gen::align_redeem(&c.plan, &red);
    let aligned = match align_pruned(&c.plan, &pruned) {
        Ok(al) => al,
        Err(e) => {
            ctx.fail("prune-misaligned", &line, &e);
            ctx.op(&line, "ok misaligned");
            return true;
        }
    };

    // ---- is the pruned program typed principally?  (the plan of the pruned program, built alone in
    //      a fresh context, must get the arrows the pruned program has)
    let pruned_plan = Plan {
        nodes: c
            .plan
            .nodes
            .iter()
            .enumerate()
            .map(|(i, nd)| match (aligned[i].as_ref().map(|n| n.inner()), nd) {
                (Some(Inner::AssertL(_, h)), PNode::Case(a, _)) => PNode::AssertL(*a, h.to_byte_array()),
                (Some(Inner::AssertR(h, _)), PNode::Case(_, b)) => PNode::AssertR(h.to_byte_array(), *b),
                _ => nd.clone(),
            })
            .collect(),
    };
    let mut non_principal: Vec<String> = vec![];
    match gen::arrows_of_plan(&pruned_plan, None, true) {
        Ok((_, arrows)) => {
            for (i, n) in aligned.iter().enumerate() {
                if let (Some(n), Some((s, t))) = (n, &arrows[i]) {
                    if n.arrow().source.tmr() != s.tmr() || n.arrow().target.tmr() != t.tmr() {
                        non_principal.push(format!("node {i} ({}): pruned program {}, principal {} → {}", c.plan.nodes[i].kind(), n.arrow(), s, t));
                    }
                }
            }
        }
        Err(e) => ctx.fail("pruned-plan-ill-typed", &line, &format!("the pruned program rebuilt alone is rejected: {e}")),
    }
    let principal = non_principal.is_empty();

    // ---- same commitment: recomputed from the serialisation (libsimplicity's decoder, Rust's decoder)
    let cres = catch(|| ceval::run(&pb, &wb, ceval::CHECK_ALL, true, env.c_tx_env()));
    let cmr_text = match &cres {
        Ok(COut::Eval(_, ccmr, _)) | Ok(COut::Refused(_, _, Some(ccmr))) => {
            if ccmr != red.cmr().as_ref() {
                ctx.fail("cmr-changed", &line, &format!("original {}, libsimplicity computes {} for the serialised pruned program; {detail_bytes}", red.cmr(), gen::hex(ccmr)));
            }
            gen::hex(ccmr)
        }
        _ => "undecodable".to_string(),
    };
    if pruned.cmr() != red.cmr() {
        ctx.fail("cmr-changed", &line, &format!("original {}, pruned node {}", red.cmr(), pruned.cmr()));
    }
    // The pruned program may hold an `assertl x #h` and an `assertr #h x` with one identity root
    // (h = the commitment root of x itself: the two came from cases with equal branches whose types
    // became equal only through pruning).  The encoder writes one of them for both places, so the
    // serialised program is a different one.  That is a defect of its own (known finding), told
    // apart from every other way the serialised program can be refused.
    let assert_twins = {
        let mut l: std::collections::HashSet<simplicity::Ihr> = Default::default();
        let mut r: std::collections::HashSet<simplicity::Ihr> = Default::default();
        for d in simplicity::dag::DagLike::post_order_iter::<simplicity::dag::InternalSharing>(pruned.as_ref()) {
            match d.node.inner() {
                Inner::AssertL(..) => {
                    l.insert(d.node.ihr());
                }
                Inner::AssertR(..) => {
                    r.insert(d.node.ihr());
                }
                _ => {}
            }
        }
        l.intersection(&r).next().is_some()
    };
    if assert_twins {
        ctx.count("reach:pruned-assertl-assertr-one-identity");
    }
    let mut consequences: Vec<String> = vec![];
    let mut report = |ctx: &mut Ctx, class: &str, detail: String| {
        if assert_twins && matches!(class, "pruned-not-canonical" | "c-rejects-pruned" | "c-antidos-rejects") {
            ctx.fail("pruned-assertl-assertr-one-identity", &line, &format!("[{class}] {detail}"));
        } else if principal {
            ctx.fail(class, &line, &detail);
        } else {
            ctx.count(&format!("consequence-of-non-principal-types:{class}"));
            consequences.push(format!("[{class}] {}", detail.split("; original").next().unwrap_or("")));
        }
    };
    match catch(|| RedeemNode::decode::<_, _, Elements>(BitIter::from(&pb[..]), BitIter::from(&wb[..]))) {
        Ok(Ok(d)) => {
            if d.cmr() != red.cmr() {
                ctx.fail("cmr-changed", &line, &format!("original {}, decoded pruned program {}; {detail_bytes}", red.cmr(), d.cmr()));
            }
            if d.to_vec_with_witness() != (pb.clone(), wb.clone()) || d.ihr() != pruned.ihr() {
                report(ctx, "pruned-not-canonical", format!("decode(encode(pruned)) differs from pruned (IHR {} vs {}); {detail_bytes}", d.ihr(), pruned.ihr()));
            }
        }
        Ok(Err(e)) => report(ctx, "pruned-not-canonical", format!("the serialised pruned program does not decode: {e}; {detail_bytes}")),
        Err(p) => ctx.fail("panic-decode", &line, &p),
    }

    // ---- same behaviour
    match catch(|| exec(&pruned, &env)) {
        Ok(Ok(v)) => {
            if v != out0 {
                ctx.fail("output-differs", &line, &format!("original output {out0}, pruned output {v}"));
            }
        }
        Ok(Err(e)) => ctx.fail("pruned-fails", &line, &format!("the pruned program fails: {e}; {detail_bytes}")),
        Err(p) => ctx.fail("panic-exec-pruned", &line, &p),
    }

    // ---- libsimplicity with all anti-DoS checks (and the sharing check)
    let antidos = match &cres {
        Ok(COut::Eval(SimplicityErr::NoError, ..)) => "ok",
        Ok(COut::Eval(SimplicityErr::AntiDoS, ..)) => {
            report(ctx, "c-antidos-rejects", format!("evalTCOExpression(CHECK_ALL) = AntiDoS on the pruned program; {detail_bytes}"));
            "rejected"
        }
        Ok(other) => {
            report(ctx, "c-rejects-pruned", format!("libsimplicity on the pruned program: {other:?}; {detail_bytes}"));
            "refused"
        }
        Err(p) => {
            ctx.fail("panic-c-pipeline", &line, p);
            "refused"
        }
    };
    // the unpruned program, for contrast: how often does CHECK_ALL refuse it?
    match catch(|| ceval::run(&ob, &ow, ceval::CHECK_ALL, true, env.c_tx_env())) {
        Ok(COut::Eval(SimplicityErr::AntiDoS, ..)) => ctx.count("unpruned-refused-by-antidos"),
        Ok(COut::Eval(SimplicityErr::NoError, ..)) => ctx.count("unpruned-accepted-by-antidos"),
        _ => ctx.count("unpruned-other"),
    }

    // ---- idempotence
    match catch(|| pruned.prune(&env)) {
        Ok(Ok(p2)) => {
            if p2.to_vec_with_witness() != (pb.clone(), wb.clone()) || p2.ihr() != pruned.ihr() {
                let (p2b, p2w) = p2.to_vec_with_witness();
                report(ctx, "not-idempotent", format!("pruning again changes the program: {} / {} (IHR {} → {}); {detail_bytes}", gen::hex(&p2b), gen::hex(&p2w), pruned.ihr(), p2.ihr()));
            }
        }
        Ok(Err(e)) => ctx.fail("not-idempotent", &line, &format!("pruning the pruned program fails: {e}")),
        Err(p) => ctx.fail("panic-prune", &line, &format!("second prune: {p}")),
    }
    if !principal {
        // (before /repo ec3937b: `Pruner` converted *every* node of the original DAG in one inference
        // context, so the typing constraints of nodes that are no longer part of the pruned program
        // stayed in force; the oracle keeps the distinct class for exactly that shape)
        ctx.fail(
            "pruned-types-not-principal",
            &line,
            &format!("the pruned program is not typed principally: {}; consequences: {}; {detail_bytes}", non_principal.join(" | "), if consequences.is_empty() { "none observed".to_string() } else { consequences.join(" ") }),
        );
    }

    // ---- the construct-node route
    let fin = catch(|| {
        types::Context::with_context(|tctx| {
            let built = gen::build(&tctx, &c.plan, None, Some(&c.wits)).map_err(|e| format!("type:{e}"))?;
            let root = built[c.plan.root()].as_ref().unwrap();
            let unit = types::Type::unit(&tctx);
            tctx.unify(&root.arrow().source, &unit, "root source").map_err(|e| format!("type:{e}"))?;
            tctx.unify(&root.arrow().target, &unit, "root target").map_err(|e| format!("type:{e}"))?;
            root.finalize_pruned(&env).map_err(|e| format!("finalize_pruned:{e}"))
        })
    });
    match fin {
        Ok(Ok(f)) => {
            if f.to_vec_with_witness() != (pb.clone(), wb.clone()) || f.ihr() != pruned.ihr() {
                ctx.fail("finalize-pruned-differs", &line, "ConstructNode::finalize_pruned and RedeemNode::prune give different programs");
            }
            ctx.count("reach:finalize-pruned-route");
        }
        Ok(Err(e)) => ctx.fail("prune-failed", &line, &format!("finalize_pruned: {e}")),
        Err(p) => ctx.fail("panic-prune", &line, &format!("finalize_pruned: {p}")),
    }

    // ---- the structural oracles, and the description for the model
    let mut changed = false;
    let mut hidden = 0;
    let mut shrunk_wit = 0;
    for (i, n) in aligned.iter().enumerate() {
        let (Some(n), Some(o)) = (n, &orig[i]) else {
            if orig[i].is_some() {
                changed = true;
            }
            continue;
        };
        let le = |a: &simplicity::types::Final, b: &simplicity::types::Final| a.bit_width() <= b.bit_width() && (a.tmr() == b.tmr() || T::from_fin(a).le(&T::from_fin(b)));
        if !(le(&n.arrow().source, &o.arrow().source) && le(&n.arrow().target, &o.arrow().target)) {
            ctx.fail("types-not-shrunk", &line, &format!("node {i}: pruned arrow {} is not below the original {}", n.arrow(), o.arrow()));
        }
        if let (Inner::Witness(w), Inner::Witness(w0)) = (n.inner(), o.inner()) {
            if w.ty() != n.arrow().target.as_ref() {
                ctx.fail("witness-not-pruned", &line, &format!("node {i}: value of type {} at a node of target type {}", w.ty(), n.arrow().target));
            } else if w.ty() != w0.ty() {
                shrunk_wit += 1;
                if n.arrow().target.bit_width() <= 4096 && ref_prune(&v_of(w0), &T::from_fin(&n.arrow().target)) != Some(v_of(w)) {
                    ctx.fail("witness-not-pruned", &line, &format!("node {i}: {w} is not the prune of {w0} to {}", n.arrow().target));
                }
            } else if w != w0 {
                ctx.fail("witness-not-pruned", &line, &format!("node {i}: value changed without a type change: {w0} → {w}"));
            }
        }
        if matches!(n.inner(), Inner::AssertL(..) | Inner::AssertR(..)) && matches!(o.inner(), Inner::Case(..)) {
            hidden += 1;
        }
    }
    if hidden > 0 {
        ctx.count("reach:case-became-assertion");
        changed = true;
    }
    if shrunk_wit > 0 {
        ctx.count("reach:witness-value-shrunk");
        changed = true;
    }
    let answer = format!("ok {} cmr={cmr_text} principal={} antidos={}", describe(&c.plan, &aligned), if principal { "yes" } else { "no" }, if !principal { "n/a" } else if assert_twins { "shared-identity" } else { antidos });
    ctx.op(&line, &answer);
    ctx.case(if changed { Some(&line) } else { None });
    if !principal {
        ctx.count("pruned-program-not-principal");
    }

    // ---- coverage
    ctx.count("reach:successful-run-pruned");
    for k in &run.rec.kinds {
        ctx.count(&format!("reach:executed-{k}"));
    }
    let both_by_visits = vis.sides.values().filter(|(l, r)| *l > 0 && *r > 0).count();
    let multi = vis.sides.values().filter(|(l, r)| l + r > 1).count();
    let one_side = vis.sides.values().filter(|(l, r)| (*l > 0) != (*r > 0)).count();
    if both_by_visits > 0 {
        ctx.count("reach:case-identity-took-both-sides");
    }
    if multi > 0 {
        ctx.count("reach:case-identity-visited-repeatedly");
    }
    if one_side > 0 {
        ctx.count("reach:case-one-side-only");
    }
    let plan_cases: HashSet<usize> = c.plan.reachable().into_iter().filter(|i| matches!(c.plan.nodes[*i], PNode::Case(..))).collect();
    let distinct_ihr: HashSet<Ihr> = plan_cases.iter().filter_map(|i| orig[*i].as_ref().map(|n| n.ihr())).collect();
    if distinct_ihr.len() < plan_cases.len() {
        ctx.count("reach:two-case-nodes-one-identity");
    }
    if vis.case_visits >= 3 {
        ctx.count("reach:three-or-more-case-visits");
    }
    if vis.sides.len() < distinct_ihr.len() {
        ctx.count("reach:never-executed-case");
    }
    if run.rec.kinds.contains("disconnect") {
        ctx.count("reach:disconnect-pruned");
    }
    if !run.rec.calls.is_empty() {
        ctx.count("reach:jets-pruned");
    }
    if ctx.want_sample() && changed {
        ctx.sample(&format!("{line} -> {answer}"));
    }
    true
}

/// one case node used two or three times behind different witness selectors:
/// `comp (comp (pair sel1 iden) K) (comp (pair sel2 iden) K)` with `K = case s t`
fn shared_case_plan(ctx: &mut Ctx, cfg: GenCfg, depth: usize) -> Plan {
    let uses = 2 + ctx.rng.below(2) as usize;
    let x = gen::gen_t(&mut ctx.rng, 2);
    let y = gen::gen_t(&mut ctx.rng, 2);
    let mut g = gen::PlanGen::new(&mut ctx.rng, cfg);
    let s = g.gen(&T::prod(x.clone(), T::One), &T::One, depth);
    let t = g.gen(&T::prod(y.clone(), T::One), &T::One, depth);
    g.nodes.push(PNode::Case(s, t));
    let k = g.nodes.len() - 1;
    let mut root = None;
    for _ in 0..uses {
        let sel = g.witness_of(&T::sum(x.clone(), y.clone()));
        g.nodes.push(PNode::Iden);
        let id = g.nodes.len() - 1;
        g.nodes.push(PNode::Pair(sel, id));
        g.nodes.push(PNode::Comp(id + 1, k));
        let c = id + 2;
        root = Some(match root {
            None => c,
            Some(r) => {
                g.nodes.push(PNode::Comp(r, c));
                c + 1
            }
        });
    }
    g.finish()
}

pub fn gen_case(ctx: &mut Ctx, it: u64) -> Option<Case> {
    let depth = 2 + (it % 6) as usize;
    let mut cfg = GenCfg { fail: false, jets: it % 4 == 0, pin_witness: it % 3 != 0, share_16: if it % 2 == 0 { 8 } else { 4 }, words: it % 3 == 0, ..GenCfg::default() };
    if cfg.jets {
        cfg.jet_pool = progs::simple_jets();
    }
    let plan = if it % 5 == 0 { shared_case_plan(ctx, cfg, depth.min(4)) } else { gen::gen_program(&mut ctx.rng, cfg, depth) };
    if plan.nodes.len() > 120 {
        ctx.count("generator:too-large");
        return None;
    }
    let env_seed = if ctx.rng.chance(1, 6) { 0 } else { ctx.rng.next() >> 16 | 1 };
    let (_, einfo) = shared::gen_env(env_seed);
    let wits = match shared::witnesses_for(&plan, &mut ctx.rng, &einfo) {
        Ok(w) => w,
        Err(e) => {
            ctx.count(&format!("generator:{}", e.split(':').next().unwrap_or("?")));
            return None;
        }
    };
    Some(Case { plan, wits, env_seed })
}

pub fn parse_case(case: &str) -> Option<Case> {
    let toks: Vec<&str> = case.split_whitespace().collect();
    if toks.len() < 2 {
        return None;
    }
    let (plan, used) = Plan::parse(&toks[1..])?;
    let (wits, env_seed) = shared::parse_tail(&plan, &toks[1 + used..])?;
    Some(Case { plan, wits, env_seed })
}

pub fn replay(ctx: &mut Ctx, case: &str) {
    match parse_case(case) {
        Some(c) => {
            one(ctx, &c);
        }
        None => ctx.note("replay: case text not understood"),
    }
}

/// regression case of a defect this check found in the tree before commit ec3937b of /repo (class
/// `pruned-types-not-principal`; repaired there: `prune` now re-infers the pruned program in a context
/// of its own): the smallest program on which the typing constraints of a dropped branch stayed in
/// force — the shared `unit` node is also the end of `comp word unit` inside the right branch of the
/// case, which is never taken; the pruned witnesses were typed `2 + 1` and `2` instead of `2` and
/// `1`, the serialisation did not decode, libsimplicity refused it, pruning again changed it
pub const NON_PRINCIPAL_CASE: &str = "prune 10 unit wit wit pair,1,2 word,1,01 comp,4,0 unit comp,6,5 case,0,7 comp,3,8 W:1:00 W:2:1 E:0";

/// found by C12's thorough tier: `case unit unit` at two places, taken left at one and right at the
/// other; after pruning both have arrow 2 × 1 → 1 and the hidden root is the root of `unit` itself
const ASSERT_TWINS_CASE: &str = "prune 41 wit iden pair,0,1 unit unit case,3,4 comp,2,5 wit unit take,8 injl,9 unit take,11 unit take,13 injl,14 unit take,16 injr,17 case,15,18 iden unit pair,20,21 comp,22,19 drop,23 pair,12,24 take,25 injr,26 case,10,27 iden unit pair,29,30 comp,31,28 comp,7,32 iden pair,33,34 unit unit case,36,37 comp,35,38 comp,6,39 W:0:1 W:7:0";

pub fn run(ctx: &mut Ctx) {
    if let Some(c) = parse_case(NON_PRINCIPAL_CASE) {
        one(ctx, &c);
    }
    // known finding: two cases with equal branches, pruned to opposite sides, end with one identity root
    if let Some(c) = parse_case(ASSERT_TWINS_CASE) {
        one(ctx, &c);
    }
    let n = ctx.scale(1000, 20_000);
    let mut done = 0;
    let mut it = 0u64;
    while done < n && it < 30 * n {
        it += 1;
        let Some(c) = gen_case(ctx, it) else {
            ctx.count("generator:rejected");
            continue;
        };
        if one(ctx, &c) {
            done += 1;
            // the same plan with other witness values: other sides of the same case nodes
            if it % 3 == 0 {
                let (_, einfo) = shared::gen_env(c.env_seed);
                if let Ok(w2) = shared::witnesses_for(&c.plan, &mut ctx.rng, &einfo) {
                    one(ctx, &Case { plan: c.plan.clone(), wits: w2, env_seed: c.env_seed });
                }
            }
        }
    }
}
