// Registers every property module `src/cNN.rs` (one per property id) without a shared list to edit:
// generates `props.rs` with the `mod` declarations and the dispatch function.
use std::fmt::Write;
fn main() {
    let dir = std::env::var("CARGO_MANIFEST_DIR").unwrap();
    let mut names: Vec<String> = std::fs::read_dir(format!("{dir}/src"))
        .unwrap()
        .filter_map(|e| e.ok())
        .filter_map(|e| e.file_name().into_string().ok())
        .filter(|n| n.len() >= 6 && n.starts_with('c') && n.ends_with(".rs") && n[1..n.len() - 3].chars().all(|c| c.is_ascii_digit()))
        .map(|n| n[..n.len() - 3].to_string())
        .collect();
    names.sort();
    let mut s = String::new();
    for n in &names {
        writeln!(s, "#[path = \"{dir}/src/{n}.rs\"] pub mod {n};").unwrap();
    }
    s.push_str("pub fn dispatch(prop: &str, ctx: &mut crate::ctx::Ctx, case: Option<&str>) -> Option<&'static str> {\n    match prop {\n");
    for n in &names {
        let id = n.to_uppercase();
        writeln!(s, "        \"{id}\" => {{ match case {{ Some(c) => {n}::replay(ctx, c), None => {n}::run(ctx) }}; Some({n}::RULE) }}").unwrap();
    }
    s.push_str("        _ => None,\n    }\n}\n");
    let out = std::env::var("OUT_DIR").unwrap();
    std::fs::write(format!("{out}/props.rs"), s).unwrap();
    println!("cargo:rerun-if-changed=src");
    println!("cargo:rerun-if-changed=build.rs");
}
