#!/usr/bin/env python3
"""Prototype of the C14 translator: extracts the jet tables of the Rust side (src/jet/init/*.rs) and of
the C side (primitiveJetNode.inc, primitiveEnumJet.inc, decodeElementsJets.inc) and compares them."""
import re, sys, collections
REPO = sys.argv[1] if len(sys.argv) > 1 else "/repo"

def rust_table(path, enum):
    s = open(path).read()
    variants = re.search(r"pub enum %s \{(.*?)\n\}" % enum, s, re.S).group(1).replace(",", " ").split()
    def section(fn_sig, nxt):
        i = s.index(fn_sig); j = s.index(nxt, i); return s[i:j]
    cmr_sec = section("fn cmr(&self) -> Cmr", "fn source_ty")
    cmr = {m.group(1): bytes(int(x, 16) for x in re.findall(r"0x([0-9a-f]{2})", m.group(2))).hex()
           for m in re.finditer(r"%s::(\w+) => \[(.*?)\]," % enum, cmr_sec, re.S)}
    src = dict(re.findall(r'%s::(\w+) => b"([^"]*)"' % enum, section("fn source_ty(&self)", "fn target_ty")))
    tgt = dict(re.findall(r'%s::(\w+) => b"([^"]*)"' % enum, section("fn target_ty(&self)", "fn encode")))
    enc = {m.group(1): (int(m.group(2)), int(m.group(3))) for m in re.finditer(r"%s::(\w+) => \((\d+), (\d+)\)" % enum, section("fn encode(&self", "fn decode"))}
    cost = {m.group(1): int(m.group(2)) for m in re.finditer(r"%s::(\w+) => Cost::from_milliweight\((\d+)\)" % enum, section("fn cost(&self)", "fn parse"))}
    disp = dict(re.findall(r'%s::(\w+) => f.write_str\("([^"]*)"\)' % enum, s))
    frm = {m.group(2): m.group(1) for m in re.finditer(r'"([a-z0-9_]+)" => Ok\(%s::(\w+)\)' % enum, s)}
    cptr = dict(re.findall(r"%s::(\w+) => &simplicity_sys::c_jets::jets_wrapper::(\w+)" % enum, s))
    return variants, cmr, src, tgt, enc, cost, disp, frm, cptr

def c_table(repo):
    s = open(repo + "/simplicity-sys/depend/simplicity/elements/primitiveJetNode.inc").read()
    rows = {}
    for m in re.finditer(r"\[(\w+)\] =\s*\{ \.tag = JET\s*, \.jet = rustsimplicity_0_7_(\w+)\s*, \.cmr = \{\{(.*?)\}\}\s*, \.sourceIx = (\w+)\s*, \.targetIx = (\w+)\s*, \.cost = (\d+)", s, re.S):
        words = re.findall(r"0x([0-9a-f]{8})u", m.group(3))
        rows[m.group(1)] = dict(fn=m.group(2), cmr="".join(words), src=m.group(4), tgt=m.group(5), cost=int(m.group(6)))
    return rows

def camel_to_c(name):  # Add16 -> ADD_16 ; Sha256Ctx8Add1 -> SHA_256_CTX_8_ADD_1
    out = re.sub(r"(?<=[a-z])(?=[A-Z0-9])|(?<=[0-9])(?=[A-Za-z])|(?<=[A-Z])(?=[0-9])|(?<=[A-Za-z0-9])(?=[A-Z][a-z])", "_", name)
    return out.upper()

variants, cmr, src, tgt, enc, cost, disp, frm, cptr = rust_table(REPO + "/src/jet/init/elements.rs", "Elements")
ctab = c_table(REPO)
print("rust Elements variants:", len(variants), " cmr:", len(cmr), " src:", len(src), " tgt:", len(tgt), " enc:", len(enc), " cost:", len(cost), " display:", len(disp), " parse:", len(frm))
print("C rows:", len(ctab))
bad = 0; matched = 0
cnames = {k.replace("_", ""): k for k in ctab}
for v in variants:
    key = v.upper().replace("_", "")
    ck = cnames.get(key)
    if ck is None: print("no C row for", v); bad += 1; continue
    row = ctab[ck]; matched += 1
    if row["cmr"] != cmr[v]: print("CMR differs", v, row["cmr"], cmr[v]); bad += 1
    if row["cost"] != cost[v]: print("cost differs", v, row["cost"], cost[v]); bad += 1
    if disp.get(v) != row["fn"]: print("name differs", v, disp.get(v), row["fn"]); bad += 1
    if frm.get(v) != disp.get(v): print("parse/display differ", v); bad += 1
# prefix-freeness of the codes (value, bit length)
codes = sorted((format(val, "0%db" % ln) for val, ln in enc.values()))
pf = sum(1 for a, b in zip(codes, codes[1:]) if b.startswith(a))
print("matched", matched, "mismatches", bad, "prefix violations", pf, "distinct codes", len(set(codes)))
# Core vs Elements types/codes
cv, ccmr, csrc, ctgt, cenc, ccost, cdisp, cfrm, _ = rust_table(REPO + "/src/jet/init/core.rs", "Core")
tb = sum(1 for v in cv if csrc[v] != src.get(v) or ctgt[v] != tgt.get(v))
cb = 0
for v in cv:
    e = format(enc[v][0], "0%db" % enc[v][1]); c = format(cenc[v][0], "0%db" % cenc[v][1])
    if not (e[0] == "0" and e[1:] == c): cb += 1
print("Core jets", len(cv), "type mismatches vs Elements namesake", tb, "code mismatches behind the family prefix bit", cb)
bv = rust_table(REPO + "/src/jet/init/bitcoin.rs", "Bitcoin")
print("Bitcoin variants", len(bv[0]), "codes", len(bv[4]), "names", len(bv[6]))
