#!/usr/bin/env python3
"""Prototype for C14 (foreign bindings): arity of every Rust `extern "C"` function declaration in
simplicity-sys versus the C definition/prototype of the symbol it links to."""
import re, sys, glob, os
REPO = sys.argv[1] if len(sys.argv) > 1 else "/repo"
SYS = REPO + "/simplicity-sys"

def split_params(p):
    p = p.strip()
    if p in ("", "void"): return []
    out, depth, cur = [], 0, ""
    for ch in p:
        if ch in "(<[": depth += 1
        if ch in ")>]": depth -= 1
        if ch == "," and depth == 0: out.append(cur.strip()); cur = ""
        else: cur += ch
    if cur.strip(): out.append(cur.strip())
    return out

# ---- Rust side
rust = {}   # symbol -> (file, rust name, n params)
for f in glob.glob(SYS + "/src/**/*.rs", recursive=True):
    s = open(f).read()
    for blk in re.finditer(r'extern "C" \{(.*?)\n\s*\}', s, re.S):
        body = blk.group(1)
        for m in re.finditer(r'(?:#\[link_name = "([^"]+)"\]\s*)?pub fn (\w+)\s*\((.*?)\)\s*(?:->\s*[^;]+)?;', body, re.S):
            sym = m.group(1) or m.group(2)
            params = re.sub(r"//[^\n]*", "", m.group(3))
            rust[sym] = (os.path.relpath(f, REPO), m.group(2), len(split_params(params)))

# ---- C side: definitions and prototypes, plus WRAP_ expansion and the c_* helpers of depend/*.c
csrc = ""
for f in glob.glob(SYS + "/depend/**/*.[ch]", recursive=True) + glob.glob(SYS + "/depend/**/*.inc", recursive=True):
    csrc += "\n" + re.sub(r"/\*.*?\*/", "", open(f, errors="replace").read(), flags=re.S)
cdefs = {}
for m in re.finditer(r"\b(rustsimplicity_0_7_\w+|c_\w+)\s*\(([^;{}()]*(?:\([^()]*\)[^;{}()]*)*)\)\s*[;{]", csrc):
    name, params = m.group(1), m.group(2)
    if re.search(r"\b(return|if|while|for|sizeof)\b", params): continue
    n = len(split_params(params))
    cdefs.setdefault(name, set()).add(n)
for m in re.finditer(r"^WRAP_\((\w+)\)", csrc, re.M):
    cdefs.setdefault("rustsimplicity_0_7_c_" + m.group(1), set()).add(3)

missing, bad, ok = [], [], 0
for sym, (f, rname, n) in sorted(rust.items()):
    c = cdefs.get(sym)
    if c is None: missing.append((sym, f)); continue
    if n not in c: bad.append((sym, f, n, sorted(c)))
    else: ok += 1
print("rust extern fns:", len(rust), " matched arity:", ok, " arity mismatches:", len(bad), " C definition not found:", len(missing))
for b in bad: print("  MISMATCH", b)
for m in missing[:15]: print("  not found", m)
