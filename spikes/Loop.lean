import Spk.Machine2 -- (spike: module Spk.Machine2 = spikes/Machine.lean)
/-
Spike: the explicit call stack of `BitMachine::exec_with_tracker` is the defunctionalised `run`.
-/
namespace BM2

@[simp] theorem ok_bind'' {ε α β} (x : α) (f : α → Except ε β) : (Except.ok x >>= f) = f x := rfl
@[simp] theorem err_bind'' {ε α β} (e : ε) (f : α → Except ε β) :
    ((Except.error e : Except ε α) >>= f) = Except.error e := rfl
@[simp] theorem map_ok {ε α β} (f : α → β) (x : α) : f <$> (Except.ok x : Except ε α) = Except.ok (f x) := rfl
@[simp] theorem map_err {ε α β} (f : α → β) (e : ε) :
    f <$> (Except.error e : Except ε α) = Except.error e := rfl
@[simp] theorem pure_ok {ε α} (x : α) : (pure x : Except ε α) = Except.ok x := rfl

/-- a term with its types packed, as `CallStack::Goto(&RedeemNode)` -/
structure AnyTerm where
  a : Ty
  b : Ty
  t : Term a b

inductive Item
  | goto (t : AnyTerm)
  | moveWriteFrameToRead
  | dropReadFrame
  | back (n : Nat)

/-- the action of one node: machine update and the items pushed on the call stack, in the order in
which they will be *executed* (the Rust code pushes them in reverse) -/
def node : {a b : Ty} → Term a b → M → Except Err (M × List Item)
  | a, _, .iden, m => do let m ← copy a.bw m; pure (m, [])
  | _, _, .unit, m => pure (m, [])
  | _, _, @Term.injl _ b c t, m => do
      let m ← writeBit false m
      let m ← skip (padL b c) m
      pure (m, [.goto ⟨_, _, t⟩])
  | _, _, @Term.injr _ b c t, m => do
      let m ← writeBit true m
      let m ← skip (padR b c) m
      pure (m, [.goto ⟨_, _, t⟩])
  | _, _, .take t, m => pure (m, [.goto ⟨_, _, t⟩])
  | _, _, @Term.drop a _ _ t, m => do
      let m ← fwd a.bw m
      pure (m, [.goto ⟨_, _, t⟩, .back a.bw])
  | _, _, @Term.comp _ b _ s t, m => do
      let m ← newWrite b.bw m
      pure (m, [.goto ⟨_, _, s⟩, .moveWriteFrameToRead, .goto ⟨_, _, t⟩, .dropReadFrame])
  | _, _, @Term.case a b _ _ s t, m => do
      let bit ← peek m
      if bit then do
        let m ← fwd (1 + padR a b) m
        pure (m, [.goto ⟨_, _, t⟩, .back (1 + padR a b)])
      else do
        let m ← fwd (1 + padL a b) m
        pure (m, [.goto ⟨_, _, s⟩, .back (1 + padL a b)])
  | _, _, .pair s t, m => pure (m, [.goto ⟨_, _, s⟩, .goto ⟨_, _, t⟩])
  | _, _, .fail, _ => .error .fail

/-- the main loop, with fuel; `none` = out of fuel -/
def loop : Nat → List Item → M → Option (Except Err M)
  | 0, _, _ => none
  | _+1, [], m => some (.ok m)
  | f+1, .goto t :: st, m =>
    match node t.t m with
    | .error e => some (.error e)
    | .ok (m', items) => loop f (items ++ st) m'
  | f+1, .moveWriteFrameToRead :: st, m =>
    match moveWriteToRead m with
    | .error e => some (.error e)
    | .ok m' => loop f st m'
  | f+1, .dropReadFrame :: st, m =>
    match dropRead m with
    | .error e => some (.error e)
    | .ok m' => loop f st m'
  | f+1, .back n :: st, m =>
    match back n m with
    | .error e => some (.error e)
    | .ok m' => loop f st m'

theorem loop_mono : ∀ (f : Nat) (st : List Item) (m : M) (r : Except Err M),
    loop f st m = some r → loop (f+1) st m = some r := by
  intro f
  induction f with
  | zero => intro st m r h; simp [loop] at h
  | succ f ih =>
    intro st m r h
    cases st with
    | nil => simpa [loop] using h
    | cons it st =>
      cases it with
      | goto t =>
        simp only [loop] at h ⊢
        cases hn : node t.t m with
        | error e => simpa [hn] using h
        | ok p => obtain ⟨m', items⟩ := p; simp only [hn] at h ⊢; exact ih _ _ _ h
      | moveWriteFrameToRead =>
        simp only [loop] at h ⊢
        cases hn : moveWriteToRead m with
        | error e => simpa [hn] using h
        | ok m' => simp only [hn] at h ⊢; exact ih _ _ _ h
      | dropReadFrame =>
        simp only [loop] at h ⊢
        cases hn : dropRead m with
        | error e => simpa [hn] using h
        | ok m' => simp only [hn] at h ⊢; exact ih _ _ _ h
      | back n =>
        simp only [loop] at h ⊢
        cases hn : back n m with
        | error e => simpa [hn] using h
        | ok m' => simp only [hn] at h ⊢; exact ih _ _ _ h

theorem loop_mono' {f g : Nat} (hfg : f ≤ g) {st : List Item} {m : M} {r : Except Err M}
    (h : loop f st m = some r) : loop g st m = some r := by
  induction hfg with
  | refl => exact h
  | step _ ih => exact loop_mono _ _ _ _ ih

/-- fuel-free semantics of the loop: running the call stack `st` from `m` yields `r` -/
inductive Runs : List Item → M → Except Err M → Prop
  | nil {m} : Runs [] m (.ok m)
  | gotoErr {t st m e} : node t.t m = .error e → Runs (.goto t :: st) m (.error e)
  | gotoOk {t st m m' items r} : node t.t m = .ok (m', items) → Runs (items ++ st) m' r →
      Runs (.goto t :: st) m r
  | mvErr {st m e} : moveWriteToRead m = .error e → Runs (.moveWriteFrameToRead :: st) m (.error e)
  | mvOk {st m m' r} : moveWriteToRead m = .ok m' → Runs st m' r → Runs (.moveWriteFrameToRead :: st) m r
  | dropErr {st m e} : dropRead m = .error e → Runs (.dropReadFrame :: st) m (.error e)
  | dropOk {st m m' r} : dropRead m = .ok m' → Runs st m' r → Runs (.dropReadFrame :: st) m r
  | backErr {n st m e} : back n m = .error e → Runs (.back n :: st) m (.error e)
  | backOk {n st m m' r} : back n m = .ok m' → Runs st m' r → Runs (.back n :: st) m r

/-- the relation is what the fuelled loop computes -/
theorem loop_of_runs {st m r} (h : Runs st m r) : ∃ f, loop f st m = some r := by
  induction h with
  | nil => exact ⟨1, rfl⟩
  | gotoErr hn => exact ⟨1, by simp [loop, hn]⟩
  | gotoOk hn _ ih => obtain ⟨f, hf⟩ := ih; exact ⟨f+1, by simp [loop, hn, hf]⟩
  | mvErr hn => exact ⟨1, by simp [loop, hn]⟩
  | mvOk hn _ ih => obtain ⟨f, hf⟩ := ih; exact ⟨f+1, by simp [loop, hn, hf]⟩
  | dropErr hn => exact ⟨1, by simp [loop, hn]⟩
  | dropOk hn _ ih => obtain ⟨f, hf⟩ := ih; exact ⟨f+1, by simp [loop, hn, hf]⟩
  | backErr hn => exact ⟨1, by simp [loop, hn]⟩
  | backOk hn _ ih => obtain ⟨f, hf⟩ := ih; exact ⟨f+1, by simp [loop, hn, hf]⟩

theorem bind_ok_inv' {ε α β} {x : Except ε α} {f : α → Except ε β} {b : β}
    (h : (x >>= f) = .ok b) : ∃ a, x = .ok a ∧ f a = .ok b := by
  cases x with
  | error e => cases h
  | ok a => exact ⟨a, rfl, h⟩

theorem bind_err_inv {ε α β} {x : Except ε α} {f : α → Except ε β} {e : ε}
    (h : (x >>= f) = .error e) : x = .error e ∨ ∃ a, x = .ok a ∧ f a = .error e := by
  cases x with
  | error e' => left; cases h; rfl
  | ok a => right; exact ⟨a, rfl, h⟩

/-- executing `goto t` on top of a call stack is `run t` followed by the rest of the stack -/
theorem runs_goto : ∀ {a b : Ty} (t : Term a b) (m : M) (st : List Item),
    (∀ m' r, run t m = .ok m' → Runs st m' r → Runs (.goto ⟨a, b, t⟩ :: st) m r) ∧
    (∀ e, run t m = .error e → Runs (.goto ⟨a, b, t⟩ :: st) m (.error e)) := by
  intro a b t
  induction t with
  | iden =>
    intro m st
    constructor
    · intro m' r h hr
      exact .gotoOk (t := ⟨_, _, .iden⟩) (m' := m') (items := []) (by simp [node, show copy _ m = .ok m' from h]) hr
    · intro e h
      exact .gotoErr (t := ⟨_, _, .iden⟩) (by simp [node, show copy _ m = .error e from h])
  | unit =>
    intro m st
    constructor
    · intro m' r h hr; cases h
      exact .gotoOk (t := ⟨_, _, .unit⟩) (m' := m) (items := []) rfl hr
    · intro e h; cases h
  | @injl a b c t ih =>
    intro m st
    constructor
    · intro m' r h hr
      simp only [run] at h
      obtain ⟨m1, h1, h⟩ := bind_ok_inv' h
      obtain ⟨m2, h2, h⟩ := bind_ok_inv' h
      exact .gotoOk (t := ⟨_, _, .injl t⟩) (m' := m2) (items := [.goto ⟨_, _, t⟩])
        (by simp [node, h1, h2]) ((ih m2 st).1 m' r h hr)
    · intro e h
      simp only [run] at h
      rcases bind_err_inv h with h1 | ⟨m1, h1, h⟩
      · exact .gotoErr (t := ⟨_, _, .injl t⟩) (by simp [node, h1])
      · rcases bind_err_inv h with h2 | ⟨m2, h2, h⟩
        · exact .gotoErr (t := ⟨_, _, .injl t⟩) (by simp [node, h1, h2])
        · exact .gotoOk (t := ⟨_, _, .injl t⟩) (m' := m2) (items := [.goto ⟨_, _, t⟩])
            (by simp [node, h1, h2]) ((ih m2 st).2 e h)
  | @injr a b c t ih =>
    intro m st
    constructor
    · intro m' r h hr
      simp only [run] at h
      obtain ⟨m1, h1, h⟩ := bind_ok_inv' h
      obtain ⟨m2, h2, h⟩ := bind_ok_inv' h
      exact .gotoOk (t := ⟨_, _, .injr t⟩) (m' := m2) (items := [.goto ⟨_, _, t⟩])
        (by simp [node, h1, h2]) ((ih m2 st).1 m' r h hr)
    · intro e h
      simp only [run] at h
      rcases bind_err_inv h with h1 | ⟨m1, h1, h⟩
      · exact .gotoErr (t := ⟨_, _, .injr t⟩) (by simp [node, h1])
      · rcases bind_err_inv h with h2 | ⟨m2, h2, h⟩
        · exact .gotoErr (t := ⟨_, _, .injr t⟩) (by simp [node, h1, h2])
        · exact .gotoOk (t := ⟨_, _, .injr t⟩) (m' := m2) (items := [.goto ⟨_, _, t⟩])
            (by simp [node, h1, h2]) ((ih m2 st).2 e h)
  | take t ih =>
    intro m st
    constructor
    · intro m' r h hr
      exact .gotoOk (t := ⟨_, _, .take t⟩) (m' := m) (items := [.goto ⟨_, _, t⟩]) rfl
        ((ih m st).1 m' r h hr)
    · intro e h
      exact .gotoOk (t := ⟨_, _, .take t⟩) (m' := m) (items := [.goto ⟨_, _, t⟩]) rfl
        ((ih m st).2 e h)
  | @drop a b c t ih =>
    intro m st
    constructor
    · intro m' r h hr
      simp only [run] at h
      obtain ⟨m1, h1, h⟩ := bind_ok_inv' h
      obtain ⟨m2, h2, h⟩ := bind_ok_inv' h
      exact .gotoOk (t := ⟨_, _, .drop t⟩) (m' := m1) (items := [.goto ⟨_, _, t⟩, .back a.bw])
        (by simp [node, h1]) ((ih m1 (.back a.bw :: st)).1 m2 r h2 (.backOk h hr))
    · intro e h
      simp only [run] at h
      rcases bind_err_inv h with h1 | ⟨m1, h1, h⟩
      · exact .gotoErr (t := ⟨_, _, .drop t⟩) (by simp [node, h1])
      · rcases bind_err_inv h with h2 | ⟨m2, h2, h⟩
        · exact .gotoOk (t := ⟨_, _, .drop t⟩) (m' := m1) (items := [.goto ⟨_, _, t⟩, .back a.bw])
            (by simp [node, h1]) ((ih m1 _).2 e h2)
        · exact .gotoOk (t := ⟨_, _, .drop t⟩) (m' := m1) (items := [.goto ⟨_, _, t⟩, .back a.bw])
            (by simp [node, h1]) ((ih m1 _).1 m2 _ h2 (.backErr h))
  | @comp a b c s t ihs iht =>
    intro m st
    constructor
    · intro m' r h hr
      simp only [run] at h
      obtain ⟨m1, h1, h⟩ := bind_ok_inv' h
      obtain ⟨m2, h2, h⟩ := bind_ok_inv' h
      obtain ⟨m3, h3, h⟩ := bind_ok_inv' h
      obtain ⟨m4, h4, h⟩ := bind_ok_inv' h
      exact .gotoOk (t := ⟨_, _, .comp s t⟩) (m' := m1)
        (items := [.goto ⟨_, _, s⟩, .moveWriteFrameToRead, .goto ⟨_, _, t⟩, .dropReadFrame])
        (by simp [node, h1])
        ((ihs m1 _).1 m2 r h2 (.mvOk h3 ((iht m3 _).1 m4 r h4 (.dropOk h hr))))
    · intro e h
      simp only [run] at h
      rcases bind_err_inv h with h1 | ⟨m1, h1, h⟩
      · exact .gotoErr (t := ⟨_, _, .comp s t⟩) (by simp [node, h1])
      · refine .gotoOk (t := ⟨_, _, .comp s t⟩) (m' := m1)
          (items := [.goto ⟨_, _, s⟩, .moveWriteFrameToRead, .goto ⟨_, _, t⟩, .dropReadFrame])
          (by simp [node, h1]) ?_
        rcases bind_err_inv h with h2 | ⟨m2, h2, h⟩
        · exact (ihs m1 _).2 e h2
        · refine (ihs m1 _).1 m2 _ h2 ?_
          rcases bind_err_inv h with h3 | ⟨m3, h3, h⟩
          · exact .mvErr h3
          · refine .mvOk h3 ?_
            rcases bind_err_inv h with h4 | ⟨m4, h4, h⟩
            · exact (iht m3 _).2 e h4
            · exact (iht m3 _).1 m4 _ h4 (.dropErr h)
  | @case a b c d s t ihs iht =>
    intro m st
    constructor
    · intro m' r h hr
      simp only [run] at h
      obtain ⟨bit, hb, h⟩ := bind_ok_inv' h
      cases bit with
      | true =>
        simp only [if_true] at h
        obtain ⟨m1, h1, h⟩ := bind_ok_inv' h
        obtain ⟨m2, h2, h⟩ := bind_ok_inv' h
        exact .gotoOk (t := ⟨_, _, .case s t⟩) (m' := m1) (items := [.goto ⟨_, _, t⟩, .back (1 + padR a b)])
          (by simp [node, hb, h1]) ((iht m1 _).1 m2 r h2 (.backOk h hr))
      | false =>
        simp only [Bool.false_eq_true, if_false] at h
        obtain ⟨m1, h1, h⟩ := bind_ok_inv' h
        obtain ⟨m2, h2, h⟩ := bind_ok_inv' h
        exact .gotoOk (t := ⟨_, _, .case s t⟩) (m' := m1) (items := [.goto ⟨_, _, s⟩, .back (1 + padL a b)])
          (by simp [node, hb, h1]) ((ihs m1 _).1 m2 r h2 (.backOk h hr))
    · intro e h
      simp only [run] at h
      rcases bind_err_inv h with hb | ⟨bit, hb, h⟩
      · exact .gotoErr (t := ⟨_, _, .case s t⟩) (by simp [node, hb])
      · cases bit with
        | true =>
          simp only [if_true] at h
          rcases bind_err_inv h with h1 | ⟨m1, h1, h⟩
          · exact .gotoErr (t := ⟨_, _, .case s t⟩) (by simp [node, hb, h1])
          · refine .gotoOk (t := ⟨_, _, .case s t⟩) (m' := m1)
              (items := [.goto ⟨_, _, t⟩, .back (1 + padR a b)]) (by simp [node, hb, h1]) ?_
            rcases bind_err_inv h with h2 | ⟨m2, h2, h⟩
            · exact (iht m1 _).2 e h2
            · exact (iht m1 _).1 m2 _ h2 (.backErr h)
        | false =>
          simp only [Bool.false_eq_true, if_false] at h
          rcases bind_err_inv h with h1 | ⟨m1, h1, h⟩
          · exact .gotoErr (t := ⟨_, _, .case s t⟩) (by simp [node, hb, h1])
          · refine .gotoOk (t := ⟨_, _, .case s t⟩) (m' := m1)
              (items := [.goto ⟨_, _, s⟩, .back (1 + padL a b)]) (by simp [node, hb, h1]) ?_
            rcases bind_err_inv h with h2 | ⟨m2, h2, h⟩
            · exact (ihs m1 _).2 e h2
            · exact (ihs m1 _).1 m2 _ h2 (.backErr h)
  | pair s t ihs iht =>
    intro m st
    constructor
    · intro m' r h hr
      simp only [run] at h
      obtain ⟨m1, h1, h⟩ := bind_ok_inv' h
      exact .gotoOk (t := ⟨_, _, .pair s t⟩) (m' := m) (items := [.goto ⟨_, _, s⟩, .goto ⟨_, _, t⟩]) rfl
        ((ihs m _).1 m1 r h1 ((iht m1 st).1 m' r h hr))
    · intro e h
      simp only [run] at h
      refine .gotoOk (t := ⟨_, _, .pair s t⟩) (m' := m) (items := [.goto ⟨_, _, s⟩, .goto ⟨_, _, t⟩]) rfl ?_
      rcases bind_err_inv h with h1 | ⟨m1, h1, h⟩
      · exact (ihs m _).2 e h1
      · exact (ihs m _).1 m1 _ h1 ((iht m1 st).2 e h)
  | fail =>
    intro m st
    constructor
    · intro m' r h; cases h
    · intro e h; cases h
      exact .gotoErr (t := ⟨_, _, .fail⟩) rfl

/-- **the explicit call stack computes `run`**: starting the loop on `[goto t]` gives `run t m` -/
theorem loop_eq_run {a b : Ty} (t : Term a b) (m : M) :
    ∃ f, loop f [.goto ⟨a, b, t⟩] m = some (run t m) := by
  cases h : run t m with
  | ok m' => exact loop_of_runs ((runs_goto t m []).1 m' _ h .nil)
  | error e => exact loop_of_runs ((runs_goto t m []).2 e h)

#print axioms loop_eq_run
end BM2
