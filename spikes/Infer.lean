/-
Spike: reference unifier for Simplicity's type constraints and the invariants
that give soundness, "no solution on error" and leastness (= principal solution
with the remaining variables set to unit).
-/
namespace Inf

inductive Ty | one | sum (a b : Ty) | prod (a b : Ty)
deriving DecidableEq, Repr

inductive Tm | var (n : Nat) | one | sum (a b : Tm) | prod (a b : Tm)
deriving DecidableEq, Repr

def Tm.eval (ρ : Nat → Ty) : Tm → Ty
  | .var n => ρ n
  | .one => .one
  | .sum a b => .sum (a.eval ρ) (b.eval ρ)
  | .prod a b => .prod (a.eval ρ) (b.eval ρ)

def Tm.subst1 : Tm → Nat → Tm → Tm
  | .var n, x, t => if n = x then t else .var n
  | .one, _, _ => .one
  | .sum a b, x, t => .sum (a.subst1 x t) (b.subst1 x t)
  | .prod a b, x, t => .prod (a.subst1 x t) (b.subst1 x t)

def Tm.occurs : Tm → Nat → Bool
  | .var n, x => n = x
  | .one, _ => false
  | .sum a b, x => a.occurs x || b.occurs x
  | .prod a b, x => a.occurs x || b.occurs x

def Ty.size : Ty → Nat
  | .one => 1
  | .sum a b => 1 + a.size + b.size
  | .prod a b => 1 + a.size + b.size

abbrev Eqn := Tm × Tm
abbrev Bind := Nat × Tm

def Sol (ρ : Nat → Ty) (E : List Eqn) : Prop := ∀ e ∈ E, e.1.eval ρ = e.2.eval ρ
def SolS (ρ : Nat → Ty) (S : List Bind) : Prop := ∀ p ∈ S, ρ p.1 = p.2.eval ρ

inductive Res | ok (S : List Bind) | clash | occurs | fuel
deriving Repr

def substE (x : Nat) (t : Tm) (e : Eqn) : Eqn := (e.1.subst1 x t, e.2.subst1 x t)
def substS (x : Nat) (t : Tm) (p : Bind) : Bind := (p.1, p.2.subst1 x t)

def elim (unify : List Eqn → List Bind → Res) (x : Nat) (t : Tm) (E : List Eqn) (S : List Bind) : Res :=
  if t = .var x then unify E S
  else if t.occurs x then .occurs
  else unify (E.map (substE x t)) ((x, t) :: S.map (substS x t))

def unify : Nat → List Eqn → List Bind → Res
  | 0, _, _ => .fuel
  | _+1, [], S => .ok S
  | f+1, (s, t) :: E, S =>
    match s, t with
    | .var x, t => elim (unify f) x t E S
    | .one, .var x => elim (unify f) x .one E S
    | .sum a b, .var x => elim (unify f) x (.sum a b) E S
    | .prod a b, .var x => elim (unify f) x (.prod a b) E S
    | .one, .one => unify f E S
    | .sum a b, .sum c d => unify f ((a, c) :: (b, d) :: E) S
    | .prod a b, .prod c d => unify f ((a, c) :: (b, d) :: E) S
    | _, _ => .clash

/-! ### lemmas -/

theorem subst1_eval (ρ : Nat → Ty) (x : Nat) (t : Tm) (h : ρ x = t.eval ρ) (u : Tm) :
    (u.subst1 x t).eval ρ = u.eval ρ := by
  induction u with
  | var n =>
    simp only [Tm.subst1]
    split
    · next hn => subst hn; simp [Tm.eval, h]
    · rfl
  | one => rfl
  | sum a b iha ihb => simp [Tm.subst1, Tm.eval, iha, ihb]
  | prod a b iha ihb => simp [Tm.subst1, Tm.eval, iha, ihb]

theorem Ty.size_pos (t : Ty) : 0 < t.size := by cases t <;> simp [Ty.size] <;> omega

theorem occurs_size (ρ : Nat → Ty) (x : Nat) (t : Tm) (ho : t.occurs x = true) :
    (ρ x).size ≤ (t.eval ρ).size := by
  induction t with
  | var n => simp [Tm.occurs] at ho; subst ho; simp [Tm.eval]
  | one => simp [Tm.occurs] at ho
  | sum a b iha ihb =>
    simp only [Tm.occurs, Bool.or_eq_true] at ho
    simp only [Tm.eval, Ty.size]
    rcases ho with h | h
    · have := iha h; omega
    · have := ihb h; omega
  | prod a b iha ihb =>
    simp only [Tm.occurs, Bool.or_eq_true] at ho
    simp only [Tm.eval, Ty.size]
    rcases ho with h | h
    · have := iha h; omega
    · have := ihb h; omega

theorem occurs_no_sol (ρ : Nat → Ty) (x : Nat) (t : Tm) (hne : t ≠ .var x)
    (ho : t.occurs x = true) : ρ x ≠ t.eval ρ := by
  intro h
  cases t with
  | var n => simp [Tm.occurs] at ho; subst ho; exact hne rfl
  | one => simp [Tm.occurs] at ho
  | sum a b =>
    simp only [Tm.occurs, Bool.or_eq_true] at ho
    have hs : (ρ x).size = 1 + (a.eval ρ).size + (b.eval ρ).size := by rw [h]; rfl
    rcases ho with h' | h'
    · have := occurs_size ρ x a h'; omega
    · have := occurs_size ρ x b h'; omega
  | prod a b =>
    simp only [Tm.occurs, Bool.or_eq_true] at ho
    have hs : (ρ x).size = 1 + (a.eval ρ).size + (b.eval ρ).size := by rw [h]; rfl
    rcases ho with h' | h'
    · have := occurs_size ρ x a h'; omega
    · have := occurs_size ρ x b h'; omega

/-- the state `(E, S)` denotes the valuations solving both -/
def Den (ρ : Nat → Ty) (E : List Eqn) (S : List Bind) : Prop := Sol ρ E ∧ SolS ρ S

theorem sol_cons (ρ) (e : Eqn) (E : List Eqn) : Sol ρ (e :: E) ↔ e.1.eval ρ = e.2.eval ρ ∧ Sol ρ E := by
  simp [Sol]

theorem solS_cons (ρ) (p : Bind) (S : List Bind) : SolS ρ (p :: S) ↔ ρ p.1 = p.2.eval ρ ∧ SolS ρ S := by
  simp [SolS]

theorem sol_map_subst (ρ : Nat → Ty) (x : Nat) (t : Tm) (h : ρ x = t.eval ρ) (E : List Eqn) :
    Sol ρ (E.map (substE x t)) ↔ Sol ρ E := by
  simp only [Sol, List.mem_map, forall_exists_index, and_imp, forall_apply_eq_imp_iff₂, substE,
    subst1_eval ρ x t h]

theorem solS_map_subst (ρ : Nat → Ty) (x : Nat) (t : Tm) (h : ρ x = t.eval ρ) (S : List Bind) :
    SolS ρ (S.map (substS x t)) ↔ SolS ρ S := by
  simp only [SolS, List.mem_map, forall_exists_index, and_imp, forall_apply_eq_imp_iff₂, substS,
    subst1_eval ρ x t h]

/-- what a result says about the denotation of the state it was computed from -/
def Good (r : Res) (E : List Eqn) (S : List Bind) : Prop :=
  match r with
  | .ok S' => ∀ ρ, Den ρ E S ↔ SolS ρ S'
  | .clash => ∀ ρ, ¬ Den ρ E S
  | .occurs => ∀ ρ, ¬ Den ρ E S
  | .fuel => True

theorem good_of_iff {r : Res} {E E' : List Eqn} {S S' : List Bind}
    (h : ∀ ρ, Den ρ E S ↔ Den ρ E' S') (g : Good r E' S') : Good r E S := by
  cases r with
  | ok S'' => intro ρ; rw [h ρ]; exact g ρ
  | clash => intro ρ; rw [h ρ]; exact g ρ
  | occurs => intro ρ; rw [h ρ]; exact g ρ
  | fuel => trivial

theorem elim_good (u : List Eqn → List Bind → Res) (hu : ∀ E S, Good (u E S) E S)
    (x : Nat) (t : Tm) (E : List Eqn) (S : List Bind) :
    Good (elim u x t E S) ((.var x, t) :: E) S := by
  unfold elim
  split
  · next h =>
    subst h
    apply good_of_iff _ (hu E S)
    intro ρ; simp [Den, sol_cons]
  · split
    · next hne ho =>
      intro ρ hd
      have := (sol_cons ρ _ _).1 hd.1
      exact occurs_no_sol ρ x t hne ho this.1
    · apply good_of_iff _ (hu _ _)
      intro ρ
      simp only [Den, sol_cons, solS_cons, Tm.eval]
      constructor
      · rintro ⟨⟨hx, hE⟩, hS⟩
        exact ⟨(sol_map_subst ρ x t hx E).2 hE, hx, (solS_map_subst ρ x t hx S).2 hS⟩
      · rintro ⟨hE, hx, hS⟩
        exact ⟨⟨hx, (sol_map_subst ρ x t hx E).1 hE⟩, (solS_map_subst ρ x t hx S).1 hS⟩

theorem good_swap {r : Res} {x : Nat} {t : Tm} {E : List Eqn} {S : List Bind}
    (g : Good r ((.var x, t) :: E) S) : Good r ((t, .var x) :: E) S := by
  apply good_of_iff _ g
  intro ρ
  simp only [Den, sol_cons]
  constructor
  · rintro ⟨⟨h, hE⟩, hS⟩; exact ⟨⟨h.symm, hE⟩, hS⟩
  · rintro ⟨⟨h, hE⟩, hS⟩; exact ⟨⟨h.symm, hE⟩, hS⟩

/-- **soundness + exactness of errors** for every fuel: an `ok` result has exactly the
solutions of the input; `clash`/`occurs` mean the input has no (finite) solution. -/
theorem unify_good : ∀ (f : Nat) (E : List Eqn) (S : List Bind), Good (unify f E S) E S := by
  intro f
  induction f with
  | zero => intro E S; simp [unify, Good]
  | succ f ih =>
    intro E S
    cases E with
    | nil => simp [unify, Good, Den, Sol]
    | cons e E =>
      obtain ⟨s, t⟩ := e
      cases s with
      | var x => simp only [unify]; exact elim_good _ ih x t E S
      | one =>
        cases t with
        | var x => simp only [unify]; exact good_swap (elim_good _ ih x .one E S)
        | one =>
          simp only [unify]
          apply good_of_iff _ (ih E S); intro ρ; simp [Den, sol_cons]
        | sum c d => simp only [unify]; intro ρ hd; have := (sol_cons ρ _ _).1 hd.1; simp [Tm.eval] at this
        | prod c d => simp only [unify]; intro ρ hd; have := (sol_cons ρ _ _).1 hd.1; simp [Tm.eval] at this
      | sum a b =>
        cases t with
        | var x => simp only [unify]; exact good_swap (elim_good _ ih x (.sum a b) E S)
        | one => simp only [unify]; intro ρ hd; have := (sol_cons ρ _ _).1 hd.1; simp [Tm.eval] at this
        | sum c d =>
          simp only [unify]
          apply good_of_iff _ (ih _ S); intro ρ
          simp only [Den, sol_cons, Tm.eval, Ty.sum.injEq]
          constructor
          · rintro ⟨⟨⟨h1, h2⟩, hE⟩, hS⟩; exact ⟨⟨h1, h2, hE⟩, hS⟩
          · rintro ⟨⟨h1, h2, hE⟩, hS⟩; exact ⟨⟨⟨h1, h2⟩, hE⟩, hS⟩
        | prod c d => simp only [unify]; intro ρ hd; have := (sol_cons ρ _ _).1 hd.1; simp [Tm.eval] at this
      | prod a b =>
        cases t with
        | var x => simp only [unify]; exact good_swap (elim_good _ ih x (.prod a b) E S)
        | one => simp only [unify]; intro ρ hd; have := (sol_cons ρ _ _).1 hd.1; simp [Tm.eval] at this
        | sum c d => simp only [unify]; intro ρ hd; have := (sol_cons ρ _ _).1 hd.1; simp [Tm.eval] at this
        | prod c d =>
          simp only [unify]
          apply good_of_iff _ (ih _ S); intro ρ
          simp only [Den, sol_cons, Tm.eval, Ty.prod.injEq]
          constructor
          · rintro ⟨⟨⟨h1, h2⟩, hE⟩, hS⟩; exact ⟨⟨h1, h2, hE⟩, hS⟩
          · rintro ⟨⟨h1, h2, hE⟩, hS⟩; exact ⟨⟨⟨h1, h2⟩, hE⟩, hS⟩

#print axioms unify_good
end Inf
