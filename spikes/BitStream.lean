import Spk.Bytes
/-
Spike: C13 — `BitIter` (reader) and `BitWriter` over bytes, against the bit-list abstraction.
-/
namespace BitStream
open Bytes

/-- the 8 bits of a byte, most significant first -/
def byteBits (b : Nat) : List Bool := (List.range 8).map fun k => b.testBit (7 - k)

def bitsOf : List Nat → List Bool
  | [] => []
  | b :: bs => byteBits b ++ bitsOf bs

@[simp] theorem byteBits_length (b : Nat) : (byteBits b).length = 8 := by simp [byteBits]

theorem byteBits_get (b k : Nat) (hk : k < 8) : (byteBits b)[k]? = some (b.testBit (7 - k)) := by
  simp [byteBits, hk]

/-! ### reader -/

structure Reader where
  rest : List Nat
  cached : Nat
  readBits : Nat      -- 1..8 (8 initially: forces a fetch)
  total : Nat

def Reader.new (bytes : List Nat) : Reader := ⟨bytes, 0, 8, 0⟩

/-- the bits still to be delivered -/
def Reader.remaining (r : Reader) : List Bool := (byteBits r.cached).drop r.readBits ++ bitsOf r.rest

/-- `Iterator::next` -/
def Reader.next (r : Reader) : Option (Bool × Reader) :=
  if r.readBits < 8 then
    some (r.cached.testBit (8 - (r.readBits + 1)), { r with readBits := r.readBits + 1, total := r.total + 1 })
  else match r.rest with
    | [] => none
    | b :: rest => some (b.testBit 7, { rest := rest, cached := b, readBits := 1, total := r.total + 1 })

/-- `read_u8` -/
def Reader.readU8 (r : Reader) : Option (Nat × Reader) :=
  match r.rest with
  | [] => none
  | b :: rest => some (Bytes.readU8 r.cached b r.readBits, { r with rest := rest, cached := b, total := r.total + 8 })

/-- `close`: no bytes left and the unread bits of the cached byte are zero -/
def Reader.close (r : Reader) : Bool :=
  r.rest.isEmpty && (r.cached % 2 ^ (8 - r.readBits) == 0)

theorem drop_byteBits (b r : Nat) (hr : r < 8) :
    (byteBits b).drop r = b.testBit (7 - r) :: (byteBits b).drop (r + 1) := by
  rw [List.drop_eq_getElem_cons (by simp [hr])]
  congr 1
  have := byteBits_get b r hr
  rw [List.getElem?_eq_getElem (by simp [hr])] at this
  exact Option.some.inj this

theorem drop_byteBits_8 (b : Nat) : (byteBits b).drop 8 = [] := by
  apply List.drop_eq_nil_of_le; simp

/-- **reader, one bit**: `next` delivers the head of `remaining` and keeps the tail; the counter
advances by one; it fails exactly when nothing remains -/
theorem Reader.next_spec (r : Reader) (hr : r.readBits ≤ 8) :
    match r.next with
    | some (b, r') => r.remaining = b :: r'.remaining ∧ r'.total = r.total + 1 ∧
        1 ≤ r'.readBits ∧ r'.readBits ≤ 8
    | none => r.remaining = [] := by
  unfold Reader.next
  by_cases h : r.readBits < 8
  · rw [if_pos h]
    simp only [Reader.remaining]
    refine ⟨?_, by simp, by simp, by simp; omega⟩
    rw [drop_byteBits _ _ h]
    simp only [List.cons_append]
    congr 2
    omega
  · rw [if_neg h]
    have h8 : r.readBits = 8 := by omega
    cases hrest : r.rest with
    | nil => simp [Reader.remaining, hrest, h8, drop_byteBits_8, bitsOf]
    | cons b rest =>
      simp only [Reader.remaining, hrest, h8, drop_byteBits_8, bitsOf, List.nil_append]
      refine ⟨?_, by simp, by simp, by simp⟩
      have := drop_byteBits b 0 (by omega)
      simp only [List.drop_zero] at this
      rw [this]
      simp

/-- **reader, `close`**: accepted exactly when no byte is left and every remaining bit is zero -/
theorem Reader.close_spec (r : Reader) (h1 : 1 ≤ r.readBits) (hr : r.readBits ≤ 8) :
    r.close = true ↔ r.rest = [] ∧ ∀ b ∈ r.remaining, b = false := by
  unfold Reader.close Reader.remaining
  constructor
  · intro h
    simp only [Bool.and_eq_true, List.isEmpty_iff, beq_iff_eq] at h
    refine ⟨h.1, ?_⟩
    rw [h.1]
    simp only [bitsOf, List.append_nil]
    intro b hb
    obtain ⟨k, hk⟩ := List.getElem?_of_mem hb
    rw [List.getElem?_drop] at hk
    have hk8 : r.readBits + k < 8 := by
      rcases Nat.lt_or_ge (r.readBits + k) 8 with h' | h'
      · exact h'
      · rw [List.getElem?_eq_none (by simp; omega)] at hk; cases hk
    rw [byteBits_get _ _ hk8] at hk
    cases hk
    have : r.cached.testBit (7 - (r.readBits + k)) =
        (r.cached % 2 ^ (8 - r.readBits)).testBit (7 - (r.readBits + k)) := by
      rw [Nat.testBit_mod_two_pow]
      have : 7 - (r.readBits + k) < 8 - r.readBits := by omega
      simp [this]
    rw [this, h.2]; simp
  · rintro ⟨h1', h2⟩
    simp only [Bool.and_eq_true, List.isEmpty_iff, beq_iff_eq]
    refine ⟨h1', ?_⟩
    apply Nat.eq_of_testBit_eq
    intro i
    rw [Nat.testBit_mod_two_pow, Nat.zero_testBit]
    by_cases hi : i < 8 - r.readBits
    · simp only [hi, decide_true, Bool.true_and]
      apply h2
      rw [h1']
      simp only [bitsOf, List.append_nil]
      have hk : (byteBits r.cached)[7 - i]? = some (r.cached.testBit (7 - (7 - i))) :=
        byteBits_get _ _ (by omega)
      rw [show 7 - (7 - i) = i by omega] at hk
      have : ((byteBits r.cached).drop r.readBits)[7 - i - r.readBits]? = some (r.cached.testBit i) := by
        rw [List.getElem?_drop, show r.readBits + (7 - i - r.readBits) = 7 - i by omega]; exact hk
      exact List.mem_of_getElem? this
    · simp [hi]

theorem readU8_bits (c n r : Nat) (hc : c < 256) (hn : n < 256) (h1 : 1 ≤ r) (h8 : r ≤ 8) :
    byteBits (Bytes.readU8 c n r) = (byteBits c).drop r ++ (byteBits n).take r := by
  apply List.ext_getElem?
  intro k
  by_cases hk : k < 8
  · rw [byteBits_get _ _ hk, readU8_testBit c n r k hc hn h1 h8 hk]
    by_cases hlt : k + r < 8
    · rw [if_pos hlt, List.getElem?_append_left (by simp; omega), List.getElem?_drop,
        byteBits_get _ _ (by omega)]
      congr 2; omega
    · rw [if_neg hlt, List.getElem?_append_right (by simp; omega), List.getElem?_take]
      simp only [List.length_drop, byteBits_length]
      rw [if_pos (by omega), byteBits_get _ _ (by omega)]
      congr 2; omega
  · rw [List.getElem?_eq_none (by simp; omega), List.getElem?_eq_none (by simp; omega)]

/-- **reader, one byte**: `read_u8` delivers the next eight bits of `remaining`, at any alignment -/
theorem Reader.readU8_spec (r : Reader) (h1 : 1 ≤ r.readBits) (h8 : r.readBits ≤ 8)
    (hc : r.cached < 256) (hb : ∀ b ∈ r.rest, b < 256) :
    match r.readU8 with
    | some (v, r') => r.remaining = byteBits v ++ r'.remaining ∧ r'.total = r.total + 8 ∧
        r'.readBits = r.readBits
    | none => r.rest = [] := by
  unfold Reader.readU8
  cases hrest : r.rest with
  | nil => rfl
  | cons n rest =>
    simp only [Reader.remaining, hrest, bitsOf]
    refine ⟨?_, by simp, by simp⟩
    rw [readU8_bits _ _ _ hc (hb n (by simp [hrest])) h1 h8, List.append_assoc, ← List.append_assoc (List.take _ _),
      List.take_append_drop]

/-! ### writer -/

structure Writer where
  out : List Nat       -- bytes written so far
  cache : Nat
  cacheLen : Nat       -- 0..8
  total : Nat

def Writer.new : Writer := ⟨[], 0, 0, 0⟩

/-- `write_bit` -/
def Writer.writeBit (w : Writer) (b : Bool) : Writer :=
  if w.cacheLen < 8 then
    { w with cacheLen := w.cacheLen + 1, total := w.total + 1,
             cache := if b then w.cache ||| (1 <<< (8 - (w.cacheLen + 1))) else w.cache }
  else
    { out := w.out ++ [w.cache], cacheLen := 1, total := w.total + 1,
      cache := if b then 1 <<< 7 else 0 }

/-- `flush_all` -/
def Writer.flushAll (w : Writer) : Writer :=
  if w.cacheLen > 0 then { w with out := w.out ++ [w.cache], cache := 0, cacheLen := 0 } else w

/-- the bits written so far -/
def Writer.written (w : Writer) : List Bool := bitsOf w.out ++ (byteBits w.cache).take w.cacheLen

/-- the cache holds nothing below its `cacheLen` top bits -/
def Writer.Inv (w : Writer) : Prop := w.cacheLen ≤ 8 ∧ w.cache < 256 ∧ ∀ i, i < 8 - w.cacheLen → w.cache.testBit i = false

theorem bitsOf_append (a b : List Nat) : bitsOf (a ++ b) = bitsOf a ++ bitsOf b := by
  induction a with
  | nil => rfl
  | cons x xs ih => simp [bitsOf, ih]

theorem take_byteBits_succ (b k : Nat) (hk : k < 8) :
    (byteBits b).take (k + 1) = (byteBits b).take k ++ [b.testBit (7 - k)] := by
  rw [List.take_add_one, byteBits_get b k hk]; rfl

theorem byteBits_congr {a b : Nat} (n : Nat) (h : ∀ i, 8 - n ≤ i → i < 8 → a.testBit i = b.testBit i) :
    (byteBits a).take n = (byteBits b).take n := by
  apply List.ext_getElem?
  intro k
  rw [List.getElem?_take, List.getElem?_take]
  by_cases hk : k < n
  · simp only [hk, if_true]
    by_cases hk8 : k < 8
    · rw [byteBits_get _ _ hk8, byteBits_get _ _ hk8, h (7 - k) (by omega) (by omega)]
    · rw [List.getElem?_eq_none (by simp; omega), List.getElem?_eq_none (by simp; omega)]
  · simp [hk]

theorem testBit_lt_256 {c i : Nat} (hc : c < 256) (hi : 8 ≤ i) : c.testBit i = false := by
  apply Nat.testBit_lt_two_pow
  exact Nat.lt_of_lt_of_le hc (by
    have : (256 : Nat) = 2 ^ 8 := by decide
    rw [this]; exact Nat.pow_le_pow_right (by omega) hi)

/-- **writer, one bit**: `written` grows by exactly that bit, the counter by one -/
theorem Writer.writeBit_spec (w : Writer) (b : Bool) (h : w.Inv) :
    (w.writeBit b).written = w.written ++ [b] ∧ (w.writeBit b).total = w.total + 1 ∧ (w.writeBit b).Inv := by
  obtain ⟨h8, h256, hz⟩ := h
  unfold Writer.writeBit
  by_cases hc : w.cacheLen < 8
  · rw [if_pos hc]
    refine ⟨?_, rfl, ?_⟩
    · simp only [Writer.written]
      rw [take_byteBits_succ _ _ hc, ← List.append_assoc]
      have hpos : 8 - (w.cacheLen + 1) = 7 - w.cacheLen := by omega
      congr 1
      · congr 1
        apply byteBits_congr
        intro i hi1 hi2
        cases b with
        | false => rfl
        | true =>
          simp only [if_true, Nat.testBit_or, testBit_mask, hpos]
          have : ¬ (7 - w.cacheLen = i) := by omega
          simp [this]
      · cases b with
        | false =>
          simp only [Bool.false_eq_true, if_false]
          rw [hz (7 - w.cacheLen) (by omega)]
        | true => simp [Nat.testBit_or, testBit_mask, hpos]
    · refine ⟨by simp only []; omega, ?_, ?_⟩
      · cases b with
        | false => exact h256
        | true =>
          simp only [if_true]
          have : (256 : Nat) = 2 ^ 8 := by decide
          rw [this]
          apply Nat.or_lt_two_pow (by rw [← this]; exact h256)
          rw [Nat.one_shiftLeft]
          exact Nat.pow_lt_pow_right (by omega) (by omega)
      · intro i hi
        simp only [] at hi
        cases b with
        | false => exact hz i (by omega)
        | true =>
          simp only [if_true, Nat.testBit_or, testBit_mask]
          rw [hz i (by omega)]
          have : ¬ (8 - (w.cacheLen + 1) = i) := by omega
          simp only [this, decide_false, Bool.or_false]
  · rw [if_neg hc]
    have hc8 : w.cacheLen = 8 := by omega
    refine ⟨?_, rfl, ?_⟩
    · simp only [Writer.written, hc8]
      rw [bitsOf_append]
      simp only [bitsOf, List.append_nil]
      rw [List.take_of_length_le (l := byteBits w.cache) (by simp)]
      congr 1
      have := take_byteBits_succ (if b then 1 <<< 7 else 0) 0 (by omega)
      simp only [List.take_zero, List.nil_append, Nat.zero_add] at this
      rw [this]
      cases b with
      | false => simp
      | true => simp only [if_true]; congr 1
    · refine ⟨by simp, ?_, ?_⟩
      · cases b <;> simp
      · intro i hi
        simp only [] at hi
        cases b with
        | false => simp
        | true =>
          simp only [if_true, testBit_mask]
          have : ¬ (7 = i) := by omega
          simp [this]

/-- **writer, flush**: the bytes are the written bits followed by zero padding to a byte boundary -/
theorem Writer.flushAll_spec (w : Writer) (h : w.Inv) :
    ∃ pad, bitsOf w.flushAll.out = w.written ++ List.replicate pad false ∧ pad < 8 ∧
      (w.written.length + pad) % 8 = 0 ∨ (w.cacheLen = 0 ∧ w.flushAll = w) := by
  obtain ⟨h8, h256, hz⟩ := h
  by_cases hc : w.cacheLen > 0
  · refine ⟨8 - w.cacheLen, .inl ⟨?_, by omega, ?_⟩⟩
    · unfold Writer.flushAll
      rw [if_pos hc]
      simp only [Writer.written, bitsOf_append, bitsOf, List.append_nil, List.append_assoc]
      congr 1
      conv => lhs; rw [← List.take_append_drop w.cacheLen (byteBits w.cache)]
      congr 1
      apply List.ext_getElem?
      intro k
      rw [List.getElem?_drop]
      by_cases hk : k < 8 - w.cacheLen
      · rw [byteBits_get _ _ (by omega), hz _ (by omega)]
        simp [List.getElem?_replicate, hk]
      · rw [List.getElem?_eq_none (by simp; omega), List.getElem?_eq_none (by simp; omega)]
    · have hlen : ∀ bs : List Nat, (bitsOf bs).length = 8 * bs.length := by
        intro bs; induction bs with
        | nil => rfl
        | cons x xs ih => simp [bitsOf, ih]; omega
      simp only [Writer.written, List.length_append, hlen, List.length_take, byteBits_length]
      omega
  · exact ⟨0, .inr ⟨by omega, by unfold Writer.flushAll; rw [if_neg hc]⟩⟩

#print axioms Reader.next_spec
#print axioms Reader.close_spec
#print axioms Reader.readU8_spec
#print axioms Writer.writeBit_spec
#print axioms Writer.flushAll_spec
end BitStream
