use simplicity::dag::{Dag, DagLike, SharingTracker, NoSharing, InternalSharing};
use std::collections::HashMap;

struct Rng(u64);
impl Rng { fn next(&mut self) -> u64 { self.0 = self.0.wrapping_add(0x9E3779B97F4A7C15); let mut z = self.0; z = (z ^ (z >> 30)).wrapping_mul(0xBF58476D1CE4E5B9); z = (z ^ (z >> 27)).wrapping_mul(0x94D049BB133111EB); z ^ (z >> 31) }
 fn below(&mut self, n: usize) -> usize { (self.next() % n as u64) as usize } }

#[derive(Debug, Clone, Copy)]
enum Ch { Nul, Un(usize), Bin(usize, usize) }
#[derive(Debug)]
struct Nd { ch: Ch, key: Option<u32> }
#[derive(Clone, Copy)]
struct H<'a>(usize, &'a [Nd]);
impl<'a> DagLike for H<'a> {
    type Node = Nd;
    fn data(&self) -> &Nd { &self.1[self.0] }
    fn as_dag_node(&self) -> Dag<Self> { match self.1[self.0].ch { Ch::Nul => Dag::Nullary, Ch::Un(l) => Dag::Unary(H(l, self.1)), Ch::Bin(l, r) => Dag::Binary(H(l, self.1), H(r, self.1)) } }
}
#[derive(Default, Clone)]
struct KeySharing { map: HashMap<u32, usize> }
impl<'a> SharingTracker<H<'a>> for KeySharing {
    fn record(&mut self, d: &H<'a>, index: usize) -> Option<usize> { let k = d.data().key?; if let Some(i) = self.map.get(&k) { Some(*i) } else { self.map.insert(k, index); None } }
    fn seen_before(&self, d: &H<'a>) -> Option<usize> { d.data().key.and_then(|k| self.map.get(&k).copied()) }
}
#[derive(Debug, PartialEq, Clone)]
struct Out { node: usize, index: usize, l: Option<usize>, r: Option<usize> }

// reference: recursive visit with a generic key function
fn visit(nodes: &[Nd], keyf: &dyn Fn(usize) -> Option<u64>, i: usize, seen: &mut HashMap<u64, usize>, idx: &mut usize, outs: &mut Vec<Out>) -> usize {
    let sb = |seen: &HashMap<u64, usize>, c: usize| keyf(c).and_then(|k| seen.get(&k).copied());
    let (li, ri) = match nodes[i].ch {
        Ch::Nul => (None, None),
        Ch::Un(l) => { let sl = sb(seen, l); (Some(match sl { Some(x) => x, None => visit(nodes, keyf, l, seen, idx, outs) }), None) }
        Ch::Bin(l, r) => { let sl = sb(seen, l); let sr = sb(seen, r);
            let li = match sl { Some(x) => x, None => visit(nodes, keyf, l, seen, idx, outs) };
            let ri = match sr { Some(x) => x, None => visit(nodes, keyf, r, seen, idx, outs) };
            (Some(li), Some(ri)) }
    };
    match keyf(i).and_then(|k| seen.get(&k).copied()) {
        Some(x) => x,
        None => { if let Some(k) = keyf(i) { seen.insert(k, *idx); } outs.push(Out { node: i, index: *idx, l: li, r: ri }); *idx += 1; *idx - 1 }
    }
}

fn check(nodes: &[Nd], stats: &mut (u64, u64), congruent: bool) {
    let root = nodes.len() - 1;
    for pol in 0..3 {
        let got: Vec<Out> = match pol {
            0 => H(root, nodes).post_order_iter::<NoSharing>().map(|d| Out { node: d.node.0, index: d.index, l: d.left_index, r: d.right_index }).collect(),
            1 => H(root, nodes).post_order_iter::<InternalSharing>().map(|d| Out { node: d.node.0, index: d.index, l: d.left_index, r: d.right_index }).collect(),
            _ => H(root, nodes).post_order_iter::<KeySharing>().map(|d| Out { node: d.node.0, index: d.index, l: d.left_index, r: d.right_index }).collect(),
        };
        let keyf: Box<dyn Fn(usize) -> Option<u64>> = match pol { 0 => Box::new(|_| None), 1 => Box::new(|i| Some(i as u64)), _ => Box::new(|i| nodes[i].key.map(|k| k as u64)) };
        let (mut seen, mut idx, mut want) = (HashMap::new(), 0usize, vec![]);
        visit(nodes, &*keyf, root, &mut seen, &mut idx, &mut want);
        stats.0 += 1;
        if got != want { stats.1 += 1; if stats.1 < 5 { println!("C18 MISMATCH pol={pol} nodes={:?}\n got={:?}\n want={:?}", nodes, got, want); } }
        // property oracle on got: consecutive indices; children indices < own index and refer to items of same class as the actual child
        for (n, o) in got.iter().enumerate() {
            if o.index != n { stats.1 += 1; println!("C18 index not consecutive"); }
            let (cl, cr) = match nodes[o.node].ch { Ch::Nul => (None, None), Ch::Un(l) => (Some(l), None), Ch::Bin(l, r) => (Some(l), Some(r)) };
            for (c, ci) in [(cl, o.l), (cr, o.r)] { match (c, ci) { (None, None) => {}, (Some(c), Some(ci)) => { if ci >= o.index { stats.1 += 1; println!("C18 child after parent"); } else { let y = got[ci].node; let same = match keyf(c) { Some(k) => keyf(y) == Some(k), None => y == c }; if !same { stats.1 += 1; println!("C18 wrong child index pol={pol}"); } } }, _ => { stats.1 += 1; println!("C18 child arity"); } } }
        }
        // rtl mirror: rtl post order == post order of mirrored dag with l/r swapped back
        if pol == 1 {
            let rtl: Vec<Out> = H(root, nodes).rtl_post_order_iter::<InternalSharing>().map(|d| Out { node: d.node.0, index: d.index, l: d.left_index, r: d.right_index }).collect();
            let mirrored: Vec<Nd> = nodes.iter().map(|n| Nd { ch: match n.ch { Ch::Bin(l, r) => Ch::Bin(r, l), c => c }, key: n.key }).collect();
            let m: Vec<Out> = H(root, &mirrored).post_order_iter::<InternalSharing>().map(|d| { let bin = matches!(mirrored[d.node.0].ch, Ch::Bin(..)); Out { node: d.node.0, index: d.index, l: if bin { d.right_index } else { d.left_index }, r: if bin { d.left_index } else { d.right_index } } }).collect();
            if rtl != m { stats.1 += 1; println!("C18 RTL mismatch"); }
            let pre: Vec<usize> = H(root, nodes).pre_order_iter::<InternalSharing>().map(|d| d.0).collect();
            let mut a = pre.clone(); a.sort(); let mut b: Vec<usize> = got.iter().map(|o| o.node).collect(); b.sort();
            if a != b { stats.1 += 1; println!("C18 preorder set mismatch"); }
            // is_shared_as KeySharing iff pointer order == key order
            let ks: Vec<usize> = H(root, nodes).post_order_iter::<KeySharing>().map(|d| d.node.0).collect();
            let is: Vec<usize> = got.iter().map(|o| o.node).collect();
            let shared = H(root, nodes).is_shared_as::<KeySharing>();
            if congruent && shared != (ks == is) { stats.1 += 1; println!("C18 is_shared_as mismatch: {} vs {:?} {:?} nodes={:?}", shared, ks, is, nodes); }
        }
    }
}

fn main() {
    let seed: u64 = std::env::args().nth(1).unwrap().parse().unwrap();
    let iters: usize = std::env::args().nth(2).unwrap().parse().unwrap();
    let mut r = Rng(seed);
    let mut stats = (0u64, 0u64);
    for it in 0..iters {
        let n = 1 + r.below(if it % 10 == 0 { 40 } else { 7 });
        let mut nodes: Vec<Nd> = vec![];
        for i in 0..n {
            let ch = if i == 0 { Ch::Nul } else { match r.below(4) { 0 => Ch::Nul, 1 => Ch::Un(r.below(i)), _ => Ch::Bin(r.below(i), r.below(i)) } };
            nodes.push(Nd { ch, key: None });
        }
        // congruent keys: structural hash (same key iff same shape), sometimes None for leaves' ancestors
        let mode = r.below(3);
        let mut table: HashMap<(u8, Option<u32>, Option<u32>), u32> = HashMap::new();
        for i in 0..n {
            let (tag, l, rr) = match nodes[i].ch { Ch::Nul => (r.below(2) as u8, None, None), Ch::Un(l) => (2, nodes[l].key, None), Ch::Bin(l, rr) => (3, nodes[l].key, nodes[rr].key) };
            let child_none = match nodes[i].ch { Ch::Nul => false, Ch::Un(l) => nodes[l].key.is_none(), Ch::Bin(l, rr) => nodes[l].key.is_none() || nodes[rr].key.is_none() };
            let k = if child_none || (mode == 1 && matches!(nodes[i].ch, Ch::Nul) && r.below(4) == 0) { None } else { let next = table.len() as u32; Some(*table.entry((tag, l, rr)).or_insert(next)) };
            nodes[i].key = if mode == 2 { Some(r.below(4) as u32) } else { k }; // mode 2: arbitrary (non-congruent) keys
        }
        check(&nodes, &mut stats, mode != 2);
    }
    println!("C18 checks {} failures {}", stats.0, stats.1);
}
