// Probe for C10/C11: Value constructors/accessors/encodings/prune and ==/cmp/hash against an abstract model.
use simplicity::{Value, BitIter};
use simplicity::types::{Final, CompleteBound};
use std::sync::Arc;
use std::collections::hash_map::DefaultHasher;
use std::hash::{Hash, Hasher};

struct Rng(u64);
impl Rng { fn next(&mut self) -> u64 { self.0 = self.0.wrapping_add(0x9E3779B97F4A7C15); let mut z = self.0; z = (z ^ (z >> 30)).wrapping_mul(0xBF58476D1CE4E5B9); z = (z ^ (z >> 27)).wrapping_mul(0x94D049BB133111EB); z ^ (z >> 31) }
 fn below(&mut self, n: usize) -> usize { (self.next() % n as u64) as usize } fn bit(&mut self) -> bool { self.next() & 1 == 1 } }

#[derive(Clone, Debug, PartialEq, Eq, PartialOrd, Ord, Hash)]
enum T { One, Sum(Box<T>, Box<T>), Prod(Box<T>, Box<T>) }
#[derive(Clone, Debug, PartialEq, Eq, PartialOrd, Ord, Hash)]
enum V { Unit, L(Box<V>), R(Box<V>), P(Box<V>, Box<V>) }
impl T {
    fn bw(&self) -> usize { match self { T::One => 0, T::Sum(a, b) => 1 + a.bw().max(b.bw()), T::Prod(a, b) => a.bw() + b.bw() } }
    fn fin(&self) -> Arc<Final> { match self { T::One => Final::unit(), T::Sum(a, b) => Final::sum(a.fin(), b.fin()), T::Prod(a, b) => Final::product(a.fin(), b.fin()) } }
}
fn from_fin(f: &Final) -> T { match f.bound() { CompleteBound::Unit => T::One, CompleteBound::Sum(a,b) => T::Sum(Box::new(from_fin(a)), Box::new(from_fin(b))), CompleteBound::Product(a,b) => T::Prod(Box::new(from_fin(a)), Box::new(from_fin(b))) } }
fn gen_t(r: &mut Rng, d: usize) -> T { if d == 0 { return if r.below(3) == 0 { T::Sum(Box::new(T::One), Box::new(T::One)) } else { T::One }; }
    match r.below(5) { 0 => T::One, 1 | 2 => T::Sum(Box::new(gen_t(r, d-1)), Box::new(gen_t(r, d-1))), _ => T::Prod(Box::new(gen_t(r, d-1)), Box::new(gen_t(r, d-1))) } }
fn gen_v(r: &mut Rng, t: &T) -> V { match t { T::One => V::Unit, T::Sum(a, b) => if r.bit() { V::L(Box::new(gen_v(r, a))) } else { V::R(Box::new(gen_v(r, b))) }, T::Prod(a, b) => V::P(Box::new(gen_v(r, a)), Box::new(gen_v(r, b))) } }
// reference encodings
fn padded(t: &T, v: &V, out: &mut Vec<bool>, pad: &mut dyn FnMut() -> bool) { match (t, v) {
    (T::One, _) => {}, (T::Sum(a, b), V::L(x)) => { out.push(false); for _ in 0..(a.bw().max(b.bw()) - a.bw()) { out.push(pad()); } padded(a, x, out, pad); }
    (T::Sum(a, b), V::R(y)) => { out.push(true); for _ in 0..(a.bw().max(b.bw()) - b.bw()) { out.push(pad()); } padded(b, y, out, pad); }
    (T::Prod(a, b), V::P(x, y)) => { padded(a, x, out, pad); padded(b, y, out, pad); } _ => panic!("ill-typed reference value") } }
fn compact(v: &V, out: &mut Vec<bool>) { match v { V::Unit => {}, V::L(x) => { out.push(false); compact(x, out); }, V::R(y) => { out.push(true); compact(y, out); }, V::P(x, y) => { compact(x, out); compact(y, out); } } }
fn dec_padded(t: &T, bits: &[bool], pos: &mut usize) -> V { match t { T::One => V::Unit,
    T::Sum(a, b) => { let tag = bits[*pos]; *pos += 1; if !tag { *pos += a.bw().max(b.bw()) - a.bw(); V::L(Box::new(dec_padded(a, bits, pos))) } else { *pos += a.bw().max(b.bw()) - b.bw(); V::R(Box::new(dec_padded(b, bits, pos))) } }
    T::Prod(a, b) => { let x = dec_padded(a, bits, pos); let y = dec_padded(b, bits, pos); V::P(Box::new(x), Box::new(y)) } } }
fn ref_prune(v: &V, t: &T) -> Option<V> { match (v, t) { (_, T::One) => Some(V::Unit), (V::L(x), T::Sum(a, _)) => ref_prune(x, a).map(|x| V::L(Box::new(x))), (V::R(y), T::Sum(_, b)) => ref_prune(y, b).map(|y| V::R(Box::new(y))),
    (V::P(x, y), T::Prod(a, b)) => Some(V::P(Box::new(ref_prune(x, a)?), Box::new(ref_prune(y, b)?))), _ => None } }
fn le(a: &T, b: &T) -> bool { match (a, b) { (T::One, _) => true, (T::Sum(a1, a2), T::Sum(b1, b2)) | (T::Prod(a1, a2), T::Prod(b1, b2)) => le(a1, b1) && le(a2, b2), _ => false } }
fn shrink(r: &mut Rng, t: &T) -> T { if r.below(4) == 0 { return T::One; } match t { T::One => T::One, T::Sum(a, b) => T::Sum(Box::new(shrink(r, a)), Box::new(shrink(r, b))), T::Prod(a, b) => T::Prod(Box::new(shrink(r, a)), Box::new(shrink(r, b))) } }
fn bits_to_bytes(bits: &[bool]) -> Vec<u8> { let mut out = vec![0u8; (bits.len() + 7) / 8]; for (i, b) in bits.iter().enumerate() { if *b { out[i / 8] |= 1 << (7 - i % 8); } } out }
// build a library value by one of several routes
fn build(r: &mut Rng, t: &T, v: &V, route: usize) -> Value {
    let (r1, r2, r3) = (r.below(4), r.below(4), r.below(3));
    match route % 4 {
        0 => match (t, v) { (T::One, _) => Value::unit(), (T::Sum(a, b), V::L(x)) => Value::left(build(r, a, x, r1), b.fin()), (T::Sum(a, b), V::R(y)) => Value::right(a.fin(), build(r, b, y, r1)),
            (T::Prod(a, b), V::P(x, y)) => Value::product(build(r, a, x, r1), build(r, b, y, r2)), _ => unreachable!() },
        1 => { let mut bits = vec![]; compact(v, &mut bits); for _ in 0..r.below(9) { bits.push(r.bit()); } let bytes = bits_to_bytes(&bits); let mut it = BitIter::from(&bytes[..]); Value::from_compact_bits(&mut it, &t.fin()).unwrap() }
        2 => { let mut bits = vec![]; let mut rr = Rng(r.next()); padded(t, v, &mut bits, &mut || rr.bit()); for _ in 0..r.below(9) { bits.push(r.bit()); } let bytes = bits_to_bytes(&bits); let mut it = BitIter::from(&bytes[..]); Value::from_padded_bits(&mut it, &t.fin()).unwrap() }
        _ => { // as a sub-value of a bigger value (non-zero bit offset)
            let t2 = gen_t(r, 1); let v2 = gen_v(r, &t2); let big_t = T::Prod(Box::new(t2.clone()), Box::new(t.clone())); let big_v = V::P(Box::new(v2), Box::new(v.clone()));
            let big = build(r, &big_t, &big_v, r3); let (_, b) = big.as_product().unwrap(); b.to_value() }
    }
}
fn h(v: &Value) -> u64 { let mut s = DefaultHasher::new(); v.hash(&mut s); s.finish() }

fn main() {
    let seed: u64 = std::env::args().nth(1).unwrap().parse().unwrap();
    let iters: usize = std::env::args().nth(2).unwrap().parse().unwrap();
    let mut r = Rng(seed);
    let (mut checks, mut bad10, mut bad11, mut prunes) = (0u64, 0u64, 0u64, 0u64);
    let mut report = |what: &str, t: &T, v: &V| { println!("{what}: ty={:?} val={:?}", t, v); };
    for it in 0..iters {
        let t = gen_t(&mut r, 1 + it % 4); let v = gen_v(&mut r, &t);
        let route = r.below(4);
        let lib = build(&mut r, &t, &v, route);
        checks += 1;
        // type and lengths
        let mut cb = vec![]; compact(&v, &mut cb);
        if from_fin(lib.ty()) != t || lib.padded_len() != t.bw() || lib.compact_len() != cb.len() || !lib.is_of_type(&t.fin()) { bad10 += 1; report("C10 type/len", &t, &v); }
        // encodings
        let got_c: Vec<bool> = lib.iter_compact().collect(); if got_c != cb { bad10 += 1; report("C10 compact", &t, &v); }
        let got_p: Vec<bool> = lib.iter_padded().collect();
        if got_p.len() != t.bw() { bad10 += 1; report("C10 padded length", &t, &v); } else { let mut pos = 0; if dec_padded(&t, &got_p, &mut pos) != v || pos != t.bw() { bad10 += 1; report("C10 padded decode", &t, &v); } }
        // accessors
        match (&t, &v) {
            (T::Sum(a, _), V::L(x)) => { match lib.as_left() { Some(s) => { let sv = s.to_value(); let c: Vec<bool> = sv.iter_compact().collect(); let mut e = vec![]; compact(x, &mut e); if c != e || from_fin(sv.ty()) != **a { bad10 += 1; report("C10 as_left", &t, &v); } } None => { bad10 += 1; report("C10 as_left none", &t, &v); } } if lib.as_right().is_some() || lib.as_product().is_some() { bad10 += 1; report("C10 wrong accessor", &t, &v); } }
            (T::Sum(_, b), V::R(y)) => { match lib.as_right() { Some(s) => { let sv = s.to_value(); let c: Vec<bool> = sv.iter_compact().collect(); let mut e = vec![]; compact(y, &mut e); if c != e || from_fin(sv.ty()) != **b { bad10 += 1; report("C10 as_right", &t, &v); } } None => { bad10 += 1; report("C10 as_right none", &t, &v); } } if lib.as_left().is_some() || lib.as_product().is_some() { bad10 += 1; report("C10 wrong accessor", &t, &v); } }
            (T::Prod(a, b), V::P(x, y)) => { match lib.as_product() { Some((s1, s2)) => { let (v1, v2) = (s1.to_value(), s2.to_value()); let (c1, c2): (Vec<bool>, Vec<bool>) = (v1.iter_compact().collect(), v2.iter_compact().collect()); let (mut e1, mut e2) = (vec![], vec![]); compact(x, &mut e1); compact(y, &mut e2);
                    if c1 != e1 || c2 != e2 || from_fin(v1.ty()) != **a || from_fin(v2.ty()) != **b { bad10 += 1; report("C10 as_product", &t, &v); } } None => { bad10 += 1; report("C10 as_product none", &t, &v); } } if lib.as_left().is_some() || lib.as_right().is_some() { bad10 += 1; report("C10 wrong accessor", &t, &v); } }
            _ => { if lib.as_left().is_some() || lib.as_right().is_some() || lib.as_product().is_some() { bad10 += 1; report("C10 unit accessor", &t, &v); } }
        }
        // prune to a smaller type and to an arbitrary type
        let t2 = if r.bit() { shrink(&mut r, &t) } else { gen_t(&mut r, 1 + it % 3) };
        let want = ref_prune(&v, &t2); let got = lib.prune(&t2.fin()); prunes += 1;
        match (&want, &got) { (Some(w), Some(g)) => { let c: Vec<bool> = g.iter_compact().collect(); let mut e = vec![]; compact(w, &mut e); if c != e || from_fin(g.ty()) != t2 { bad10 += 1; report("C10 prune value", &t, &v); } }
            (None, None) => {}, _ => { bad10 += 1; println!("C10 prune definedness: want {:?} got {:?} from {:?} to {:?} (le={})", want.is_some(), got.is_some(), t, t2, le(&t2, &t)); } }
        if le(&t2, &t) && got.is_none() { bad10 += 1; report("C10 prune of smaller type failed", &t, &v); }
        // C11: a second, independently built copy and an unequal value
        let rt2 = r.below(4); let lib2 = build(&mut r, &t, &v, rt2);
        if lib != lib2 || lib.cmp(&lib2) != std::cmp::Ordering::Equal || h(&lib) != h(&lib2) { bad11 += 1; if bad11 < 6 { report("C11 equal values differ", &t, &v); } }
        let v3 = gen_v(&mut r, &t); let rt3 = r.below(4); let lib3 = build(&mut r, &t, &v3, rt3);
        if (v3 == v) != (lib3 == lib) { bad11 += 1; if bad11 < 6 { report("C11 eq disagrees with model", &t, &v); } }
        if lib.cmp(&lib3) != lib3.cmp(&lib).reverse() { bad11 += 1; report("C11 cmp not antisymmetric", &t, &v); }
        if (lib.cmp(&lib3) == std::cmp::Ordering::Equal) != (lib == lib3) { bad11 += 1; report("C11 cmp/eq inconsistent", &t, &v); }
    }
    println!("C10/C11 probe: values {checks} prunes {prunes} C10 failures {bad10} C11 failures {bad11}");
}
