// Probe for C04: soundness (independent rule checker on every node's final arrow), order independence
// (same plan built in several topological orders), rejection consistency.
use simplicity::{types::{self, Final, CompleteBound}, ConstructNode, CommitNode, Cmr, FailEntropy, Word};
use simplicity::node::{CoreConstructible, WitnessConstructible, DisconnectConstructible, Inner};
use simplicity::dag::{DagLike, InternalSharing};
use simplicity::jet::{Elements, Jet};
use std::sync::Arc;
type N<'b> = Arc<ConstructNode<'b>>;
struct Rng(u64);
impl Rng { fn next(&mut self) -> u64 { self.0 = self.0.wrapping_add(0x9E3779B97F4A7C15); let mut z = self.0; z = (z ^ (z >> 30)).wrapping_mul(0xBF58476D1CE4E5B9); z = (z ^ (z >> 27)).wrapping_mul(0x94D049BB133111EB); z ^ (z >> 31) }
 fn below(&mut self, n: usize) -> usize { (self.next() % n as u64) as usize } }
#[derive(Clone, Debug, PartialEq, Eq)]
enum T { One, Sum(Box<T>, Box<T>), Prod(Box<T>, Box<T>) }
fn from_fin(f: &Final) -> T { match f.bound() { CompleteBound::Unit => T::One, CompleteBound::Sum(a,b) => T::Sum(Box::new(from_fin(a)), Box::new(from_fin(b))), CompleteBound::Product(a,b) => T::Prod(Box::new(from_fin(a)), Box::new(from_fin(b))) } }
#[derive(Clone, Debug)]
enum P { Unit, Iden, InjL(usize), InjR(usize), Take(usize), Drop(usize), Comp(usize,usize), Case(usize,usize), Pair(usize,usize), Wit, Jet(usize), Word(u8,u64), AssertL(usize,[u8;32]), AssertR([u8;32],usize), Disc(usize,usize), Fail(u8) }
fn children(p: &P) -> Vec<usize> { match p { P::InjL(a)|P::InjR(a)|P::Take(a)|P::Drop(a)|P::AssertL(a,_)|P::AssertR(_,a) => vec![*a], P::Comp(a,b)|P::Case(a,b)|P::Pair(a,b) => vec![*a,*b], P::Disc(a,_) => vec![*a], _ => vec![] } }
fn plan(rng: &mut Rng, size: usize) -> Vec<P> {
    let mut pool = vec![P::Unit, P::Iden];
    for _ in 0..size { let a = rng.below(pool.len()); let b = rng.below(pool.len());
        let new = match rng.below(16) { 0 => P::Unit, 1 => P::Iden, 2 => P::InjL(a), 3 => P::InjR(a), 4 => P::Take(a), 5 => P::Drop(a), 6 | 7 => P::Comp(a,b), 8 => P::Case(a,b), 9 => P::Pair(a,b), 10 => P::Wit,
            11 => P::Jet(rng.below(Elements::ALL.len())), 12 => P::Word(rng.below(7) as u8, rng.next()),
            13 => { let mut h=[0u8;32]; for x in h.iter_mut(){*x=rng.next() as u8}; if rng.below(2)==0 { P::AssertL(a,h) } else { P::AssertR(h,a) } }
            14 => P::Disc(a,b), _ => P::Fail(rng.next() as u8) };
        pool.push(new); }
    let last = pool.len()-1; pool.push(P::Unit); let u = pool.len()-1; pool.push(P::Comp(last, u)); pool
}
// build reachable nodes in the given order (a topological order of the reachable set); Err(kind) on failure
fn build(pl: &[P], order: &[usize]) -> Result<Vec<(usize, T, T)>, String> {
    types::Context::with_context(|ctx| {
        let mut built: Vec<Option<N>> = vec![None; pl.len()];
        for &i in order {
            let g = |k: &usize| built[*k].clone().unwrap();
            let n = match &pl[i] {
                P::Unit => N::unit(&ctx), P::Iden => N::iden(&ctx), P::InjL(a) => N::injl(&g(a)), P::InjR(a) => N::injr(&g(a)), P::Take(a) => N::take(&g(a)), P::Drop(a) => N::drop_(&g(a)),
                P::Comp(a,b) => N::comp(&g(a),&g(b)).map_err(|_| "construct")?, P::Case(a,b) => N::case(&g(a),&g(b)).map_err(|_| "construct")?, P::Pair(a,b) => N::pair(&g(a),&g(b)).map_err(|_| "construct")?,
                P::Wit => N::witness(&ctx, None), P::Jet(j) => N::jet(&ctx, &Elements::ALL[*j]),
                P::Word(n,v) => { let w = match n {0=>Word::u1((v&1) as u8),1=>Word::u2((v&3) as u8),2=>Word::u4((v&15) as u8),3=>Word::u8(*v as u8),4=>Word::u16(*v as u16),5=>Word::u32(*v as u32),_=>Word::u64(*v)}; N::const_word(&ctx, w) }
                P::AssertL(a,h) => N::assertl(&g(a), Cmr::from_byte_array(*h)).map_err(|_| "construct")?, P::AssertR(h,a) => N::assertr(Cmr::from_byte_array(*h), &g(a)).map_err(|_| "construct")?,
                P::Disc(a,_) => N::disconnect(&g(a), &None).map_err(|_| "construct")?,
                P::Fail(x) => N::fail(&ctx, FailEntropy::from_byte_array([*x; 64])),
            };
            built[i] = Some(n);
        }
        let root = built[pl.len()-1].clone().unwrap();
        let commit = root.finalize_types().map_err(|e| { let s = e.to_string(); if s.contains("infinitely") { "occurs".to_string() } else { "type".to_string() } })?;
        // map commit nodes back to plan indices through post-order over the construct DAG (pointer sharing = plan sharing)
        let mut arrows = vec![];
        let cons: Vec<_> = root.as_ref().post_order_iter::<InternalSharing>().map(|d| d.node as *const ConstructNode).collect();
        let comm: Vec<_> = commit.as_ref().post_order_iter::<InternalSharing>().collect();
        assert_eq!(cons.len(), comm.len());
        for (k, d) in comm.iter().enumerate() { let idx = built.iter().position(|b| b.as_ref().map(|n| Arc::as_ptr(n) == cons[k]).unwrap_or(false)).unwrap(); arrows.push((idx, from_fin(&d.node.arrow().source), from_fin(&d.node.arrow().target))); }
        Ok(arrows)
    })
}
fn prod(a: &T, b: &T) -> T { T::Prod(Box::new(a.clone()), Box::new(b.clone())) }
fn w256() -> T { from_fin(&Final::two_two_n(8).unwrap()) }
// independent rule checker
fn check(pl: &[P], ar: &std::collections::HashMap<usize, (T, T)>) -> Result<(), String> {
    for (&i, (s, t)) in ar.iter() {
        let c = |k: &usize| ar.get(k).unwrap();
        let ok = match &pl[i] {
            P::Unit => *t == T::One, P::Iden => s == t,
            P::InjL(a) => matches!(t, T::Sum(l, _) if **l == c(a).1) && *s == c(a).0,
            P::InjR(a) => matches!(t, T::Sum(_, r) if **r == c(a).1) && *s == c(a).0,
            P::Take(a) => matches!(s, T::Prod(l, _) if **l == c(a).0) && *t == c(a).1,
            P::Drop(a) => matches!(s, T::Prod(_, r) if **r == c(a).0) && *t == c(a).1,
            P::Comp(a,b) => *s == c(a).0 && c(a).1 == c(b).0 && *t == c(b).1,
            P::Pair(a,b) => *s == c(a).0 && *s == c(b).0 && *t == prod(&c(a).1, &c(b).1),
            P::Case(a,b) => match s { T::Prod(xy, z) => match &**xy { T::Sum(x, y) => c(a).0 == prod(x, z) && c(b).0 == prod(y, z) && *t == c(a).1 && *t == c(b).1, _ => false }, _ => false },
            P::AssertL(a,_) => match s { T::Prod(xy, z) => match &**xy { T::Sum(x, _) => c(a).0 == prod(x, z) && *t == c(a).1, _ => false }, _ => false },
            P::AssertR(_,a) => match s { T::Prod(xy, z) => match &**xy { T::Sum(_, y) => c(a).0 == prod(y, z) && *t == c(a).1, _ => false }, _ => false },
            P::Disc(a,_) => match (&c(a).1, t) { (T::Prod(b1, _), T::Prod(b2, _)) => c(a).0 == prod(&w256(), s) && b1 == b2, _ => false },
            P::Wit | P::Fail(_) => true,
            P::Jet(j) => { let jet = Elements::ALL[*j]; *s == from_fin(&jet.source_ty().to_final()) && *t == from_fin(&jet.target_ty().to_final()) }
            P::Word(n, _) => *s == T::One && *t == from_fin(&Final::two_two_n(*n as usize).unwrap()),
        };
        if !ok { return Err(format!("node {i} {:?} : {:?} -> {:?}", pl[i], s, t)); }
    }
    Ok(())
}
fn main() {
    let seed: u64 = std::env::args().nth(1).unwrap().parse().unwrap();
    let iters: usize = std::env::args().nth(2).unwrap().parse().unwrap();
    let mut r = Rng(seed);
    let (mut n, mut accepted, mut rejected, mut unsound, mut order_dep, mut root_not_unit) = (0,0,0,0,0,0);
    for _ in 0..iters {
        let size = 3 + r.below(25); let pl = plan(&mut r, size);
        let mut reach = vec![false; pl.len()]; reach[pl.len()-1] = true;
        for i in (0..pl.len()).rev() { if reach[i] { for c in children(&pl[i]) { reach[c] = true; } } }
        let base: Vec<usize> = (0..pl.len()).filter(|i| reach[*i]).collect();
        n += 1;
        let mut results = vec![];
        for k in 0..4 {
            // random topological order: repeatedly pick a ready node
            let order = if k == 0 { base.clone() } else { let mut done = vec![false; pl.len()]; let mut ord = vec![]; let mut left: Vec<usize> = base.clone(); while !left.is_empty() { let ready: Vec<usize> = left.iter().copied().filter(|i| children(&pl[*i]).iter().all(|c| done[*c])).collect(); let pick = ready[r.below(ready.len())]; done[pick] = true; ord.push(pick); left.retain(|x| *x != pick); } ord };
            results.push(build(&pl, &order).map(|mut v| { v.sort_by_key(|x| x.0); v }));
        }
        match &results[0] { Ok(ar) => { accepted += 1; let m: std::collections::HashMap<usize,(T,T)> = ar.iter().map(|(i,s,t)| (*i,(s.clone(),t.clone()))).collect();
                if let Err(e) = check(&pl, &m) { unsound += 1; if unsound < 5 { println!("C04 UNSOUND {e}"); } }
                let root = m.get(&(pl.len()-1)).unwrap(); if root.0 != T::One || root.1 != T::One { root_not_unit += 1; } }
            Err(_) => rejected += 1 }
        for k in 1..4 { let same = match (&results[0], &results[k]) { (Ok(a), Ok(b)) => a == b, (Err(_), Err(_)) => true, _ => false }; if !same { order_dep += 1; if order_dep < 5 { println!("C04 ORDER DEPENDENCE: {:?} vs {:?}", results[0].as_ref().map(|_| ()), results[k].as_ref().map(|_| ())); } } }
    }
    println!("C04 probe: plans {n} accepted {accepted} rejected {rejected} unsound {unsound} root_not_unit {root_not_unit} order_dependent {order_dep}");
}
