// Probe for C13: naturals, bit reader/writer op sequences, windows, collect_bits — against a bit-list model.
use simplicity::{BitIter, BitWriter, BitCollector};
use simplicity::encode_natural;
struct Rng(u64);
impl Rng { fn next(&mut self) -> u64 { self.0 = self.0.wrapping_add(0x9E3779B97F4A7C15); let mut z = self.0; z = (z ^ (z >> 30)).wrapping_mul(0xBF58476D1CE4E5B9); z = (z ^ (z >> 27)).wrapping_mul(0x94D049BB133111EB); z ^ (z >> 31) }
 fn below(&mut self, n: u64) -> u64 { self.next() % n } fn bit(&mut self) -> bool { self.next() & 1 == 1 } }
fn bits_of(bytes: &[u8]) -> Vec<bool> { bytes.iter().flat_map(|b| (0..8).map(move |i| b & (1 << (7 - i)) != 0)).collect() }
// model of encode_natural
fn enc_nat(n: u64) -> Vec<bool> { fn suffix(n: u64, out: &mut Vec<bool>) { if n <= 1 { return; } let len = 63 - n.leading_zeros() as u64; suffix(len, out); for i in (0..len).rev() { out.push(n & (1 << i) != 0); } }
    fn depth(n: u64) -> u64 { if n <= 1 { 0 } else { 1 + depth(63 - n.leading_zeros() as u64) } }
    let mut out = vec![true; depth(n) as usize]; out.push(false); suffix(n, &mut out); out }
// model of read_natural on a bit list: (value, consumed) or error kind
fn dec_nat(bits: &[bool], bound: Option<u64>) -> Result<(u64, usize), &'static str> {
    let mut pos = 0; let mut depth = 0u32; loop { match bits.get(pos) { None => return Err("eof"), Some(true) => { depth += 1; pos += 1; } Some(false) => { pos += 1; break; } } }
    let mut len: u64 = 0; loop { let mut n: u64 = 1; for _ in 0..len { match bits.get(pos) { None => return Err("eof"), Some(b) => { n = 2 * n + *b as u64; pos += 1; } } }
        if depth == 0 { if let Some(b) = bound { if n > b { return Err("bound"); } } return Ok((n, pos)); }
        depth -= 1; if n > 31 { return Err("overflow"); } len = n; } }
fn main() {
    let seed: u64 = std::env::args().nth(1).unwrap().parse().unwrap();
    let iters: usize = std::env::args().nth(2).unwrap().parse().unwrap();
    let mut r = Rng(seed);
    let (mut nat, mut bad_nat, mut seqs, mut bad_seq, mut wins, mut bad_win, mut bad_close) = (0u64, 0u64, 0u64, 0u64, 0u64, 0u64, 0u64);
    // naturals: exhaustive small, boundaries of powers of two, random
    let mut cands: Vec<u64> = (1..70000).collect(); for p in 1..33u32 { for d in 0..65u64 { let b = 1u64 << p; cands.push(b.saturating_sub(d).max(1)); if b + d < (1u64 << 32) { cands.push(b + d); } } } for _ in 0..iters { cands.push(1 + r.below((1u64 << 32) - 1)); }
    for n in cands { if n >= (1u64 << 32) { continue; } nat += 1;
        let mut bytes = vec![]; let mut w = BitWriter::new(&mut bytes); encode_natural(n as usize, &mut w).unwrap(); let written = w.n_total_written(); w.flush_all().unwrap();
        let model = enc_nat(n); let got = bits_of(&bytes);
        if written != model.len() || got[..model.len()] != model[..] || got[model.len()..].iter().any(|b| *b) { bad_nat += 1; if bad_nat < 5 { println!("C13 encode_natural {n}: bits differ"); } }
        let mut it = BitIter::from(&bytes[..]); match it.read_natural::<u32>(None) { Ok(v) if v as u64 == n && it.n_total_read() == model.len() => {}, other => { bad_nat += 1; if bad_nat < 5 { println!("C13 read_natural {n}: {:?} read={}", other.map_err(|e| e.to_string()), it.n_total_read()); } } }
        // bounds n-1, n, n+1
        for b in [n.saturating_sub(1), n, n + 1] { if b > u32::MAX as u64 { continue; } let mut it = BitIter::from(&bytes[..]); let got = it.read_natural::<u32>(Some(b as u32)); if got.is_ok() != (n <= b) { bad_nat += 1; if bad_nat < 5 { println!("C13 bound n={n} b={b}"); } } }
    }
    // numbers of 33 bits and more must be rejected, never truncated
    fn bits_to_bytes(bits: &[bool]) -> Vec<u8> { let mut out = vec![0u8; (bits.len() + 7) / 8]; for (i, b) in bits.iter().enumerate() { if *b { out[i / 8] |= 1 << (7 - i % 8); } } out }
    let mut large: Vec<u64> = (0..200).map(|d| (1u64 << 32) + d).collect(); for p in 33..50u32 { for d in 0..8u64 { large.push((1u64 << p) + d); large.push((1u64 << p) - 1 - d); } } for _ in 0..2000 { large.push((1u64 << 32) + r.below(1u64 << 40)); }
    for n in large { nat += 1; let bytes = bits_to_bytes(&enc_nat(n)); let mut it = BitIter::from(&bytes[..]);
        let res = std::panic::catch_unwind(std::panic::AssertUnwindSafe(|| it.read_natural::<u32>(None).ok()));
        match res { Ok(None) => {}, Ok(Some(v)) => { bad_nat += 1; if bad_nat < 8 { println!("C13 large natural {n} accepted as {v}"); } } Err(_) => { bad_nat += 1; if bad_nat < 8 { println!("C13 large natural {n}: panic"); } } } }
    // arbitrary bit strings through read_natural vs model; accepted => canonical
    for _ in 0..iters * 4 { let len = 1 + r.below(6) as usize; let bytes: Vec<u8> = (0..len).map(|_| if r.below(3) == 0 { 0xff } else { r.next() as u8 }).collect(); let bits = bits_of(&bytes);
        let bound = if r.bit() { Some(r.below(100) as u32) } else { None };
        let mut it = BitIter::from(&bytes[..]); let got = it.read_natural::<u32>(bound); let want = dec_nat(&bits, bound.map(|b| b as u64)); nat += 1;
        match (&got, &want) { (Ok(v), Ok((n, used))) if *v as u64 == *n && it.n_total_read() == *used && *n < (1 << 32) => { if enc_nat(*n) != bits[..*used] { bad_nat += 1; println!("C13 non-canonical accepted {:02x?}", bytes); } }
            (Err(_), Err(_)) => {}, (Err(_), Ok((n, _))) if *n >= (1u64 << 32) => {}, _ => { bad_nat += 1; if bad_nat < 8 { println!("C13 read_natural mismatch {:02x?} bound={:?} got={:?} want={:?}", bytes, bound, got.as_ref().map_err(|e| e.to_string()), want); } } } }
    // writer op sequences then reader op sequences at all alignments
    for _ in 0..iters { seqs += 1; let mut model: Vec<bool> = vec![]; let mut bytes = vec![]; { let mut w = BitWriter::new(&mut bytes);
            for _ in 0..r.below(12) { match r.below(3) { 0 => { let b = r.bit(); w.write_bit(b).unwrap(); model.push(b); } 1 => { let len = r.below(65) as usize; let v = r.next(); w.write_bits_be(v, len).unwrap(); for i in (0..len).rev() { model.push(v & (1u64 << i) != 0); } }
                _ => { use std::io::Write; let bs: Vec<u8> = (0..r.below(3)).map(|_| r.next() as u8).collect(); w.write(&bs).unwrap(); model.extend(bits_of(&bs)); } }
                if w.n_total_written() != model.len() { bad_seq += 1; println!("C13 n_total_written"); } }
            w.flush_all().unwrap(); }
        let got = bits_of(&bytes); if got.len() != (model.len() + 7) / 8 * 8 || got[..model.len()] != model[..] || got[model.len()..].iter().any(|b| *b) { bad_seq += 1; println!("C13 writer bytes differ from written bits + zero padding"); }
        // collect_bits
        let (cb, cl) = model.iter().copied().collect_bits(); if cl != model.len() || cb != bytes { bad_seq += 1; println!("C13 collect_bits"); }
        // reader ops
        let mut it = BitIter::from(&bytes[..]); let mut pos = 0usize; let total = got.len();
        for _ in 0..r.below(14) { match r.below(3) { 0 => { let g = it.read_bit().ok(); let w = got.get(pos).copied(); if g != w { bad_seq += 1; println!("C13 read_bit"); } if w.is_some() { pos += 1; } }
            1 => { let g = it.read_u2().ok().map(u8::from); if pos + 2 <= total { let w = (got[pos] as u8) * 2 + got[pos + 1] as u8; if g != Some(w) { bad_seq += 1; println!("C13 read_u2"); } pos += 2; } else { if g.is_some() { bad_seq += 1; println!("C13 read_u2 past end"); } pos = total.min(pos + 2).max(pos); /* as two `next` calls: consumes what is there */ if it.n_total_read() != pos { bad_seq += 1; println!("C13 read_u2 eof counter"); } break; } }
            _ => { if pos == 0 { continue; } // read_u8 requires at least one bit read before (debug assertion in the code)
                let g = it.read_u8().ok(); if pos + 8 <= total { let w = (0..8).fold(0u8, |a, i| a * 2 + got[pos + i] as u8); if g != Some(w) { bad_seq += 1; println!("C13 read_u8 at {pos}: {:?} want {w}", g); } pos += 8; } else { if g.is_some() { bad_seq += 1; println!("C13 read_u8 past end"); } break; } } }
            if it.n_total_read() != pos { bad_seq += 1; println!("C13 n_total_read {} vs {pos}", it.n_total_read()); break; } }
        // close: ok iff all remaining bits zero
        let rest_zero = got[pos..].iter().all(|b| !*b); let at_byte_end = total - pos < 8 || pos == 0 && total == 0;
        let closed = it.close().is_ok(); let want_close = rest_zero && (total - pos < 8);
        let _ = at_byte_end; if closed != want_close { bad_close += 1; println!("C13 close: got {closed} want {want_close} pos={pos} total={total}"); }
    }
    // windows, exhaustively over small slices
    for len in 0..4usize { for _ in 0..(if len == 0 { 1 } else { 40 }) { let sl: Vec<u8> = (0..len).map(|_| r.next() as u8).collect(); let bits = bits_of(&sl);
        for s in 0..=len * 8 { for e in s..=len * 8 { wins += 1; let got: Vec<bool> = BitIter::byte_slice_window(&sl, s, e).collect(); if got != bits[s..e] { bad_win += 1; if bad_win < 4 { println!("C13 window ({s},{e}) of {:02x?}: {} bits, want {}", sl, got.len(), e - s); } } } } } }
    println!("C13 probe: naturals {nat} (bad {bad_nat}) sequences {seqs} (bad {bad_seq}, close {bad_close}) windows {wins} (bad {bad_win})");
}
