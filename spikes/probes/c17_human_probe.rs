// Probe for C05 (Bit Machine vs reference evaluator), C07 (debug assertions on bounds when built in debug),
// C09 (CMR across conversions), C10/C11 (value layout and equality). Prototype of the harness generators.
use simplicity::{types::{self, Final, CompleteBound}, Value, BitIter, BitMachine, ConstructNode, RedeemNode, CommitNode, BitCollector};
use simplicity::node::{CoreConstructible, WitnessConstructible, DisconnectConstructible, Converter, Inner, Commit, Redeem, RedeemData, NoWitness, NoDisconnect};
use simplicity::dag::PostOrderIterItem;
use simplicity::jet::CoreEnv;
use std::sync::Arc;
use std::collections::hash_map::DefaultHasher;
use std::hash::{Hash, Hasher};

pub struct Rng(pub u64);
impl Rng { pub fn next(&mut self) -> u64 { self.0 = self.0.wrapping_add(0x9E3779B97F4A7C15); let mut z = self.0; z = (z ^ (z >> 30)).wrapping_mul(0xBF58476D1CE4E5B9); z = (z ^ (z >> 27)).wrapping_mul(0x94D049BB133111EB); z ^ (z >> 31) }
 pub fn below(&mut self, n: usize) -> usize { (self.next() % n as u64) as usize } pub fn bit(&mut self) -> bool { self.next() & 1 == 1 } }

#[derive(Clone, Debug, PartialEq, Eq)]
enum T { One, Sum(Box<T>, Box<T>), Prod(Box<T>, Box<T>) }
#[derive(Clone, Debug, PartialEq, Eq)]
enum V { U, L(Box<V>), R(Box<V>), P(Box<V>, Box<V>) }
impl T {
    fn bw(&self) -> usize { match self { T::One => 0, T::Sum(a,b) => 1 + a.bw().max(b.bw()), T::Prod(a,b) => a.bw() + b.bw() } }
    fn fin(&self) -> Arc<Final> { match self { T::One => Final::unit(), T::Sum(a,b) => Final::sum(a.fin(), b.fin()), T::Prod(a,b) => Final::product(a.fin(), b.fin()) } }
    fn from_fin(f: &Final) -> T { match f.bound() { CompleteBound::Unit => T::One, CompleteBound::Sum(a,b) => T::Sum(Box::new(T::from_fin(a)), Box::new(T::from_fin(b))), CompleteBound::Product(a,b) => T::Prod(Box::new(T::from_fin(a)), Box::new(T::from_fin(b))) } }
    fn le(&self, o: &T) -> bool { match (self, o) { (T::One, _) => true, (T::Sum(a,b), T::Sum(c,d)) | (T::Prod(a,b), T::Prod(c,d)) => a.le(c) && b.le(d), _ => false } }
}
fn gen_t(r: &mut Rng, d: usize) -> T { if d == 0 || r.below(4) == 0 { T::One } else if r.bit() { T::Sum(Box::new(gen_t(r, d-1)), Box::new(gen_t(r, d-1))) } else { T::Prod(Box::new(gen_t(r, d-1)), Box::new(gen_t(r, d-1))) } }
fn gen_v(r: &mut Rng, t: &T) -> V { match t { T::One => V::U, T::Sum(a,b) => if r.bit() { V::L(Box::new(gen_v(r,a))) } else { V::R(Box::new(gen_v(r,b))) }, T::Prod(a,b) => V::P(Box::new(gen_v(r,a)), Box::new(gen_v(r,b))) } }
fn padded(t: &T, v: &V, r: &mut Option<&mut Rng>, out: &mut Vec<bool>) { match (t, v) { (T::One, V::U) => {}, (T::Sum(a,b), V::L(x)) => { out.push(false); for _ in 0..(a.bw().max(b.bw()) - a.bw()) { out.push(r.as_mut().map(|r| r.bit()).unwrap_or(false)); } padded(a, x, r, out) }, (T::Sum(a,b), V::R(x)) => { out.push(true); for _ in 0..(a.bw().max(b.bw()) - b.bw()) { out.push(r.as_mut().map(|r| r.bit()).unwrap_or(false)); } padded(b, x, r, out) }, (T::Prod(a,b), V::P(x,y)) => { padded(a,x,r,out); padded(b,y,r,out) }, _ => panic!("ill-typed ref value") } }
fn compact(v: &V, out: &mut Vec<bool>) { match v { V::U => {}, V::L(x) => { out.push(false); compact(x, out) }, V::R(x) => { out.push(true); compact(x, out) }, V::P(x,y) => { compact(x,out); compact(y,out) } } }
fn dec_compact(t: &T, bits: &mut dyn Iterator<Item=bool>) -> V { match t { T::One => V::U, T::Sum(a,b) => if !bits.next().unwrap() { V::L(Box::new(dec_compact(a, bits))) } else { V::R(Box::new(dec_compact(b, bits))) }, T::Prod(a,b) => { let x = dec_compact(a, bits); let y = dec_compact(b, bits); V::P(Box::new(x), Box::new(y)) } } }
fn restrict(v: &V, t: &T) -> Option<V> { match (v, t) { (_, T::One) => Some(V::U), (V::L(x), T::Sum(a,_)) => Some(V::L(Box::new(restrict(x,a)?))), (V::R(x), T::Sum(_,b)) => Some(V::R(Box::new(restrict(x,b)?))), (V::P(x,y), T::Prod(a,b)) => Some(V::P(Box::new(restrict(x,a)?), Box::new(restrict(y,b)?))), _ => None } }
fn lib_construct(t: &T, v: &V) -> Value { match (t, v) { (T::One, V::U) => Value::unit(), (T::Sum(a,b), V::L(x)) => Value::left(lib_construct(a,x), b.fin()), (T::Sum(a,b), V::R(x)) => Value::right(a.fin(), lib_construct(b,x)), (T::Prod(a,b), V::P(x,y)) => Value::product(lib_construct(a,x), lib_construct(b,y)), _ => panic!() } }
fn bytes_of(bits: &[bool]) -> Vec<u8> { bits.iter().copied().collect_bits().0 }
fn of_lib(val: &Value) -> (T, V) { let t = T::from_fin(val.ty()); let v = dec_compact(&t, &mut val.iter_compact()); (t, v) }
#[allow(dead_code)] fn hash_of(v: &Value) -> u64 { let mut h = DefaultHasher::new(); v.hash(&mut h); h.finish() }
#[allow(dead_code)] fn unused() { let _ = (restrict(&V::U, &T::One), T::One.le(&T::One)); }

type N<'b> = Arc<ConstructNode<'b>>;
fn gen_prog<'b>(ctx: &types::Context<'b>, r: &mut Rng, a: &T, b: &T, d: usize, stats: &mut [usize; 16]) -> N<'b> {
    let mut opts: Vec<u8> = vec![];
    if a == b { opts.push(0); opts.push(0); }
    if *b == T::One { opts.push(1); }
    if d > 0 {
        if let T::Sum(..) = b { opts.push(2); opts.push(3); }
        if let T::Prod(..) = b { opts.push(4); opts.push(4); }
        if let T::Prod(..) = a { opts.push(5); opts.push(6); }
        if let T::Prod(x, _) = a { if let T::Sum(..) = **x { opts.push(7); opts.push(7); opts.push(7); opts.push(10); } }
        opts.push(8); opts.push(11);
    }
    opts.push(9);
    if d == 0 && opts.len() > 1 { opts.retain(|o| *o != 9 || r.below(4) == 0); if opts.is_empty() { opts.push(9); } }
    let o = opts[r.below(opts.len())];
    stats[o as usize] += 1;
    match o {
        0 => N::iden(ctx), 1 => N::unit(ctx),
        2 => { if let T::Sum(x, _) = b { N::injl(&gen_prog(ctx, r, a, x, d-1, stats)) } else { unreachable!() } }
        3 => { if let T::Sum(_, y) = b { N::injr(&gen_prog(ctx, r, a, y, d-1, stats)) } else { unreachable!() } }
        4 => { if let T::Prod(x, y) = b { let s = gen_prog(ctx, r, a, x, d-1, stats); let t = gen_prog(ctx, r, a, y, d-1, stats); N::pair(&s, &t).unwrap() } else { unreachable!() } }
        5 => { if let T::Prod(x, _) = a { N::take(&gen_prog(ctx, r, x, b, d-1, stats)) } else { unreachable!() } }
        6 => { if let T::Prod(_, y) = a { N::drop_(&gen_prog(ctx, r, y, b, d-1, stats)) } else { unreachable!() } }
        7 | 10 => { if let T::Prod(xy, z) = a { if let T::Sum(x, y) = &**xy {
                let s = gen_prog(ctx, r, &T::Prod(x.clone(), z.clone()), b, d-1, stats);
                let t = gen_prog(ctx, r, &T::Prod(y.clone(), z.clone()), b, d-1, stats);
                if o == 7 { N::case(&s, &t).unwrap() } else if r.bit() { N::assertl(&s, t.cmr()).unwrap() } else { N::assertr(s.cmr(), &t).unwrap() }
            } else { unreachable!() } } else { unreachable!() } }
        8 => { let m = gen_t(r, 3); let s = gen_prog(ctx, r, a, &m, d-1, stats); let t = gen_prog(ctx, r, &m, b, d-1, stats); N::comp(&s, &t).unwrap() }
        11 => { if let T::Prod(b1, dd) = b {
                let c = gen_t(r, 2);
                let w256 = T::from_fin(&Final::two_two_n(8).unwrap());
                let s = gen_prog(ctx, r, &T::Prod(Box::new(w256), Box::new(a.clone())), &T::Prod(b1.clone(), Box::new(c.clone())), d-1, stats);
                let t = gen_prog(ctx, r, &c, dd, d-1, stats);
                { let _ = &t; N::disconnect(&s, &None).unwrap() }
            } else { stats[11] -= 1; stats[9] += 1; N::witness(ctx, None) } }
        _ => N::witness(ctx, None),
    }
}
struct RandWit<'a> { r: &'a mut Rng }
impl<'a> Converter<Commit, Redeem> for RandWit<'a> {
    type Error = ();
    fn convert_witness(&mut self, data: &PostOrderIterItem<&CommitNode>, _: &NoWitness) -> Result<Value, ()> { let t = T::from_fin(&data.node.arrow().target); let v = gen_v(self.r, &t); Ok(lib_construct(&t, &v)) }
    fn convert_disconnect(&mut self, _: &PostOrderIterItem<&CommitNode>, _: Option<&Arc<RedeemNode>>, _: &NoDisconnect) -> Result<Arc<RedeemNode>, ()> { Err(()) }
    fn convert_data(&mut self, data: &PostOrderIterItem<&CommitNode>, inner: Inner<&Arc<RedeemNode>, &Arc<RedeemNode>, &Value>) -> Result<Arc<RedeemData>, ()> {
        let converted = inner.map(|n| n.cached_data()).map_disconnect(|n| n.cached_data()).map_witness(Value::shallow_clone);
        Ok(Arc::new(RedeemData::new(data.node.arrow().shallow_clone(), converted))) }
}
#[derive(Debug, PartialEq)]
enum Fail { Assert, FailNode, Stuck }
fn ref_eval(n: &RedeemNode, v: &V) -> Result<V, Fail> {
    use simplicity::node::Inner as I;
    match n.inner() {
        I::Iden => Ok(v.clone()), I::Unit => Ok(V::U),
        I::InjL(t) => Ok(V::L(Box::new(ref_eval(t, v)?))), I::InjR(t) => Ok(V::R(Box::new(ref_eval(t, v)?))),
        I::Take(t) => if let V::P(x, _) = v { ref_eval(t, x) } else { Err(Fail::Stuck) },
        I::Drop(t) => if let V::P(_, y) = v { ref_eval(t, y) } else { Err(Fail::Stuck) },
        I::Comp(s, t) => { let m = ref_eval(s, v)?; ref_eval(t, &m) }
        I::Pair(s, t) => { let x = ref_eval(s, v)?; let y = ref_eval(t, v)?; Ok(V::P(Box::new(x), Box::new(y))) }
        I::Case(s, t) => match v { V::P(xy, z) => match &**xy { V::L(x) => ref_eval(s, &V::P(x.clone(), z.clone())), V::R(y) => ref_eval(t, &V::P(y.clone(), z.clone())), _ => Err(Fail::Stuck) }, _ => Err(Fail::Stuck) },
        I::AssertL(s, _) => match v { V::P(xy, z) => match &**xy { V::L(x) => ref_eval(s, &V::P(x.clone(), z.clone())), V::R(_) => Err(Fail::Assert), _ => Err(Fail::Stuck) }, _ => Err(Fail::Stuck) },
        I::AssertR(_, t) => match v { V::P(xy, z) => match &**xy { V::R(y) => ref_eval(t, &V::P(y.clone(), z.clone())), V::L(_) => Err(Fail::Assert), _ => Err(Fail::Stuck) }, _ => Err(Fail::Stuck) },
        I::Witness(w) => Ok(of_lib(w).1), I::Word(w) => Ok(of_lib(w.as_value()).1), I::Fail(_) => Err(Fail::FailNode),
        I::Disconnect(s, t) => {
            let w256 = T::from_fin(&Final::two_two_n(8).unwrap());
            let bits: Vec<bool> = t.cmr().as_ref().iter().flat_map(|b| (0..8).map(move |i| b & (1 << (7 - i)) != 0)).collect();
            let cw = dec_compact(&w256, &mut bits.into_iter());
            let out = ref_eval(s, &V::P(Box::new(cw), Box::new(v.clone())))?;
            if let V::P(b1, c) = out { let dd = ref_eval(t, &c)?; Ok(V::P(b1, Box::new(dd))) } else { Err(Fail::Stuck) } }
        I::Jet(_) => Err(Fail::Stuck),
    }
}

fn main() {
    use simplicity::human_encoding::Forest;
    use simplicity::jet::Core;
    let seed: u64 = std::env::args().nth(1).unwrap().parse().unwrap();
    let iters: usize = std::env::args().nth(2).unwrap().parse().unwrap();
    let mut r = Rng(seed);
    let mut stats = [0usize; 16];
    let (mut n, mut reparse_fail, mut cmr_diff, mut enc_diff, mut second_fail) = (0,0,0,0,0);
    for it in 0..iters {
        let (a, b) = if it % 2 == 0 { (T::One, T::One) } else { (gen_t(&mut r, 1 + it % 3), gen_t(&mut r, 1 + (it / 3) % 3)) };
        let commit = types::Context::with_context(|ctx| { let p = gen_prog(&ctx, &mut r, &a, &b, 1 + it % 6, &mut stats); p.finalize_types_non_program().ok() });
        let Some(commit) = commit else { continue };
        n += 1;
        let text = Forest::from_program(commit.clone()).string_serialize();
        match Forest::parse::<Core>(&text) {
            Err(e) => { reparse_fail += 1; if reparse_fail < 5 { println!("C17 reparse of rendered program failed: {}\n{}", e, text); } }
            Ok(f) => {
                let Some(main) = f.roots().get("main") else { reparse_fail += 1; if reparse_fail < 4 { println!("C17 no main root after reparse; roots={:?}\n{}", f.roots().keys().collect::<Vec<_>>(), text); } continue };
                if main.cmr() != commit.cmr() { cmr_diff += 1; if cmr_diff < 4 { println!("C17 CMR differs after reparse\n{}", text); } }
                if main.to_commit_node().to_vec_without_witness() != commit.to_vec_without_witness() { enc_diff += 1; if enc_diff < 4 { println!("C17 encoding differs after reparse\n{}", text); } }
                // render the parsed forest and parse again
                let text2 = f.string_serialize();
                match Forest::parse::<Core>(&text2) { Ok(f2) => { if f2.roots().get("main").map(|m| m.cmr()) != Some(commit.cmr()) { second_fail += 1; } } Err(e) => { second_fail += 1; if second_fail < 4 { println!("C17 second-generation reparse failed: {}\n{}", e, text2); } } }
            }
        }
    }
    println!("C17 probe: programs {n} reparse_fail {reparse_fail} cmr_diff {cmr_diff} encoding_diff {enc_diff} second_generation_fail {second_fail}");
}
