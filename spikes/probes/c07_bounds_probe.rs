// Probe for C05 (Bit Machine vs reference evaluator), C07 (debug assertions on bounds when built in debug),
// C09 (CMR across conversions), C10/C11 (value layout and equality). Prototype of the harness generators.
use simplicity::{types::{self, Final, CompleteBound}, Value, BitIter, BitMachine, ConstructNode, RedeemNode, CommitNode, BitCollector};
use simplicity::node::{CoreConstructible, WitnessConstructible, DisconnectConstructible, Converter, Inner, Commit, Redeem, RedeemData, NoWitness, NoDisconnect};
use simplicity::dag::PostOrderIterItem;
use simplicity::jet::CoreEnv;
use std::sync::Arc;
use std::collections::hash_map::DefaultHasher;
use std::hash::{Hash, Hasher};

pub struct Rng(pub u64);
impl Rng { pub fn next(&mut self) -> u64 { self.0 = self.0.wrapping_add(0x9E3779B97F4A7C15); let mut z = self.0; z = (z ^ (z >> 30)).wrapping_mul(0xBF58476D1CE4E5B9); z = (z ^ (z >> 27)).wrapping_mul(0x94D049BB133111EB); z ^ (z >> 31) }
 pub fn below(&mut self, n: usize) -> usize { (self.next() % n as u64) as usize } pub fn bit(&mut self) -> bool { self.next() & 1 == 1 } }

#[derive(Clone, Debug, PartialEq, Eq)]
enum T { One, Sum(Box<T>, Box<T>), Prod(Box<T>, Box<T>) }
#[derive(Clone, Debug, PartialEq, Eq)]
enum V { U, L(Box<V>), R(Box<V>), P(Box<V>, Box<V>) }
impl T {
    fn bw(&self) -> usize { match self { T::One => 0, T::Sum(a,b) => 1 + a.bw().max(b.bw()), T::Prod(a,b) => a.bw() + b.bw() } }
    fn fin(&self) -> Arc<Final> { match self { T::One => Final::unit(), T::Sum(a,b) => Final::sum(a.fin(), b.fin()), T::Prod(a,b) => Final::product(a.fin(), b.fin()) } }
    fn from_fin(f: &Final) -> T { match f.bound() { CompleteBound::Unit => T::One, CompleteBound::Sum(a,b) => T::Sum(Box::new(T::from_fin(a)), Box::new(T::from_fin(b))), CompleteBound::Product(a,b) => T::Prod(Box::new(T::from_fin(a)), Box::new(T::from_fin(b))) } }
    fn le(&self, o: &T) -> bool { match (self, o) { (T::One, _) => true, (T::Sum(a,b), T::Sum(c,d)) | (T::Prod(a,b), T::Prod(c,d)) => a.le(c) && b.le(d), _ => false } }
}
fn gen_t(r: &mut Rng, d: usize) -> T { if d == 0 || r.below(4) == 0 { T::One } else if r.bit() { T::Sum(Box::new(gen_t(r, d-1)), Box::new(gen_t(r, d-1))) } else { T::Prod(Box::new(gen_t(r, d-1)), Box::new(gen_t(r, d-1))) } }
fn gen_v(r: &mut Rng, t: &T) -> V { match t { T::One => V::U, T::Sum(a,b) => if r.bit() { V::L(Box::new(gen_v(r,a))) } else { V::R(Box::new(gen_v(r,b))) }, T::Prod(a,b) => V::P(Box::new(gen_v(r,a)), Box::new(gen_v(r,b))) } }
fn padded(t: &T, v: &V, r: &mut Option<&mut Rng>, out: &mut Vec<bool>) { match (t, v) { (T::One, V::U) => {}, (T::Sum(a,b), V::L(x)) => { out.push(false); for _ in 0..(a.bw().max(b.bw()) - a.bw()) { out.push(r.as_mut().map(|r| r.bit()).unwrap_or(false)); } padded(a, x, r, out) }, (T::Sum(a,b), V::R(x)) => { out.push(true); for _ in 0..(a.bw().max(b.bw()) - b.bw()) { out.push(r.as_mut().map(|r| r.bit()).unwrap_or(false)); } padded(b, x, r, out) }, (T::Prod(a,b), V::P(x,y)) => { padded(a,x,r,out); padded(b,y,r,out) }, _ => panic!("ill-typed ref value") } }
fn compact(v: &V, out: &mut Vec<bool>) { match v { V::U => {}, V::L(x) => { out.push(false); compact(x, out) }, V::R(x) => { out.push(true); compact(x, out) }, V::P(x,y) => { compact(x,out); compact(y,out) } } }
fn dec_compact(t: &T, bits: &mut dyn Iterator<Item=bool>) -> V { match t { T::One => V::U, T::Sum(a,b) => if !bits.next().unwrap() { V::L(Box::new(dec_compact(a, bits))) } else { V::R(Box::new(dec_compact(b, bits))) }, T::Prod(a,b) => { let x = dec_compact(a, bits); let y = dec_compact(b, bits); V::P(Box::new(x), Box::new(y)) } } }
fn restrict(v: &V, t: &T) -> Option<V> { match (v, t) { (_, T::One) => Some(V::U), (V::L(x), T::Sum(a,_)) => Some(V::L(Box::new(restrict(x,a)?))), (V::R(x), T::Sum(_,b)) => Some(V::R(Box::new(restrict(x,b)?))), (V::P(x,y), T::Prod(a,b)) => Some(V::P(Box::new(restrict(x,a)?), Box::new(restrict(y,b)?))), _ => None } }
fn lib_construct(t: &T, v: &V) -> Value { match (t, v) { (T::One, V::U) => Value::unit(), (T::Sum(a,b), V::L(x)) => Value::left(lib_construct(a,x), b.fin()), (T::Sum(a,b), V::R(x)) => Value::right(a.fin(), lib_construct(b,x)), (T::Prod(a,b), V::P(x,y)) => Value::product(lib_construct(a,x), lib_construct(b,y)), _ => panic!() } }
fn bytes_of(bits: &[bool]) -> Vec<u8> { bits.iter().copied().collect_bits().0 }
fn of_lib(val: &Value) -> (T, V) { let t = T::from_fin(val.ty()); let v = dec_compact(&t, &mut val.iter_compact()); (t, v) }
#[allow(dead_code)] fn hash_of(v: &Value) -> u64 { let mut h = DefaultHasher::new(); v.hash(&mut h); h.finish() }
#[allow(dead_code)] fn unused() { let _ = (restrict(&V::U, &T::One), T::One.le(&T::One)); }

type N<'b> = Arc<ConstructNode<'b>>;
thread_local! { static POOL: std::cell::RefCell<Vec<(T, T, usize)>> = std::cell::RefCell::new(vec![]); }
fn gen_prog<'b>(ctx: &types::Context<'b>, r: &mut Rng, a: &T, b: &T, d: usize, stats: &mut [usize; 16]) -> N<'b> {
    gen_prog_pool(ctx, r, a, b, d, stats, &mut vec![])
}
fn gen_prog_pool<'b>(ctx: &types::Context<'b>, r: &mut Rng, a: &T, b: &T, d: usize, stats: &mut [usize; 16], pool: &mut Vec<(T, T, N<'b>)>) -> N<'b> {
    if r.below(4) == 0 { let c: Vec<usize> = pool.iter().enumerate().filter(|(_, (x, y, _))| x == a && y == b).map(|(i, _)| i).collect(); if !c.is_empty() { stats[15] += 1; return pool[c[r.below(c.len())]].2.clone(); } }
    let n = gen_prog_inner(ctx, r, a, b, d, stats, pool);
    pool.push((a.clone(), b.clone(), n.clone()));
    n
}
fn gen_prog_inner<'b>(ctx: &types::Context<'b>, r: &mut Rng, a: &T, b: &T, d: usize, stats: &mut [usize; 16], pool: &mut Vec<(T, T, N<'b>)>) -> N<'b> {
    let mut opts: Vec<u8> = vec![];
    if a == b { opts.push(0); opts.push(0); }
    if *b == T::One { opts.push(1); }
    if d > 0 {
        if let T::Sum(..) = b { opts.push(2); opts.push(3); }
        if let T::Prod(..) = b { opts.push(4); opts.push(4); }
        if let T::Prod(..) = a { opts.push(5); opts.push(6); }
        if let T::Prod(x, _) = a { if let T::Sum(..) = **x { opts.push(7); opts.push(7); opts.push(7); opts.push(10); } }
        opts.push(8); opts.push(11); opts.push(12); opts.push(13); opts.push(13); opts.push(13);
    }
    opts.push(9);
    if d == 0 && opts.len() > 1 { opts.retain(|o| *o != 9 || r.below(4) == 0); if opts.is_empty() { opts.push(9); } }
    let o = opts[r.below(opts.len())];
    stats[o as usize] += 1;
    match o {
        0 => N::iden(ctx), 1 => N::unit(ctx),
        2 => { if let T::Sum(x, _) = b { N::injl(&gen_prog_pool(ctx, r, a, x, d-1, stats, pool)) } else { unreachable!() } }
        3 => { if let T::Sum(_, y) = b { N::injr(&gen_prog_pool(ctx, r, a, y, d-1, stats, pool)) } else { unreachable!() } }
        4 => { if let T::Prod(x, y) = b { let s = gen_prog_pool(ctx, r, a, x, d-1, stats, pool); let t = gen_prog_pool(ctx, r, a, y, d-1, stats, pool); N::pair(&s, &t).unwrap() } else { unreachable!() } }
        5 => { if let T::Prod(x, _) = a { N::take(&gen_prog_pool(ctx, r, x, b, d-1, stats, pool)) } else { unreachable!() } }
        6 => { if let T::Prod(_, y) = a { N::drop_(&gen_prog_pool(ctx, r, y, b, d-1, stats, pool)) } else { unreachable!() } }
        7 | 10 => { if let T::Prod(xy, z) = a { if let T::Sum(x, y) = &**xy {
                // the hidden branch of an assertion must not be built in this context: an abandoned
                // sibling sharing pooled nodes would constrain the program's types (C01's precondition)
                if o == 7 {
                    let s = gen_prog_pool(ctx, r, &T::Prod(x.clone(), z.clone()), b, d-1, stats, pool);
                    let t = gen_prog_pool(ctx, r, &T::Prod(y.clone(), z.clone()), b, d-1, stats, pool);
                    N::case(&s, &t).unwrap()
                } else {
                    let mut h = [0u8; 32]; for x in h.iter_mut() { *x = r.next() as u8; }
                    let hidden = simplicity::Cmr::from_byte_array(h);
                    if r.bit() { let s = gen_prog_pool(ctx, r, &T::Prod(x.clone(), z.clone()), b, d-1, stats, pool); N::assertl(&s, hidden).unwrap() }
                    else { let t = gen_prog_pool(ctx, r, &T::Prod(y.clone(), z.clone()), b, d-1, stats, pool); N::assertr(hidden, &t).unwrap() }
                }
            } else { unreachable!() } } else { unreachable!() } }
        8 => { let m = gen_t(r, 3); let s = gen_prog_pool(ctx, r, a, &m, d-1, stats, pool); let t = gen_prog_pool(ctx, r, &m, b, d-1, stats, pool); N::comp(&s, &t).unwrap() }
        11 => { if let T::Prod(b1, dd) = b {
                let c = gen_t(r, 2);
                let w256 = T::from_fin(&Final::two_two_n(8).unwrap());
                let s = gen_prog_pool(ctx, r, &T::Prod(Box::new(w256), Box::new(a.clone())), &T::Prod(b1.clone(), Box::new(c.clone())), d-1, stats, pool);
                let t = gen_prog_pool(ctx, r, &c, dd, d-1, stats, pool);
                N::disconnect(&s, &Some(t)).unwrap()
            } else { stats[11] -= 1; stats[9] += 1; N::witness(ctx, None) } }
        12 => { // comp (witness : a -> S) (comp jet (witness : T -> b)) : run a random Elements jet on a random input
            let j = simplicity::jet::Elements::ALL[r.below(simplicity::jet::Elements::ALL.len())];
            let w1 = N::witness(ctx, None); let jn = N::jet(ctx, &j); let w2 = N::witness(ctx, None);
            let _ = (a, b);
            N::comp(&w1, &N::comp(&jn, &w2).unwrap()).unwrap() }
        13 => { // comp (pair (witness : a -> X+Y) iden) (case s t) : a -> b   with s : X*a -> b, t : Y*a -> b
            let x = gen_t(r, 2); let y = gen_t(r, 2);
            let sel = N::witness(ctx, None);
            let p = N::pair(&sel, &N::iden(ctx)).unwrap();
            let s1 = gen_prog_pool(ctx, r, &T::Prod(Box::new(x.clone()), Box::new(a.clone())), b, d-1, stats, pool);
            let t1 = gen_prog_pool(ctx, r, &T::Prod(Box::new(y.clone()), Box::new(a.clone())), b, d-1, stats, pool);
            N::comp(&p, &N::case(&s1, &t1).unwrap()).unwrap() }
        _ => N::witness(ctx, None),
    }
}
struct RandWit<'a> { r: &'a mut Rng, cache: std::collections::HashMap<usize, Value> }
impl<'a> Converter<Commit, Redeem> for RandWit<'a> {
    type Error = ();
    fn convert_witness(&mut self, data: &PostOrderIterItem<&CommitNode>, _: &NoWitness) -> Result<Value, ()> {
        // one value per *node object*: `CommitNode::finalize` expands the DAG without sharing, and copies of a
        // shared node carrying different values would no longer be principally typed (C01's precondition)
        let key = data.node as *const CommitNode as usize;
        if let Some(v) = self.cache.get(&key) { return Ok(v.shallow_clone()); }
        let t = T::from_fin(&data.node.arrow().target); let v = gen_v(self.r, &t); let val = lib_construct(&t, &v);
        self.cache.insert(key, val.shallow_clone()); Ok(val) }
    fn convert_disconnect(&mut self, _: &PostOrderIterItem<&CommitNode>, _: Option<&Arc<RedeemNode>>, _: &NoDisconnect) -> Result<Arc<RedeemNode>, ()> { Err(()) }
    fn convert_data(&mut self, data: &PostOrderIterItem<&CommitNode>, inner: Inner<&Arc<RedeemNode>, &Arc<RedeemNode>, &Value>) -> Result<Arc<RedeemData>, ()> {
        let converted = inner.map(|n| n.cached_data()).map_disconnect(|n| n.cached_data()).map_witness(Value::shallow_clone);
        Ok(Arc::new(RedeemData::new(data.node.arrow().shallow_clone(), converted))) }
}
#[derive(Debug, PartialEq)]
enum Fail { Assert, FailNode, Stuck }
fn ref_eval(n: &RedeemNode, v: &V) -> Result<V, Fail> {
    use simplicity::node::Inner as I;
    match n.inner() {
        I::Iden => Ok(v.clone()), I::Unit => Ok(V::U),
        I::InjL(t) => Ok(V::L(Box::new(ref_eval(t, v)?))), I::InjR(t) => Ok(V::R(Box::new(ref_eval(t, v)?))),
        I::Take(t) => if let V::P(x, _) = v { ref_eval(t, x) } else { Err(Fail::Stuck) },
        I::Drop(t) => if let V::P(_, y) = v { ref_eval(t, y) } else { Err(Fail::Stuck) },
        I::Comp(s, t) => { let m = ref_eval(s, v)?; ref_eval(t, &m) }
        I::Pair(s, t) => { let x = ref_eval(s, v)?; let y = ref_eval(t, v)?; Ok(V::P(Box::new(x), Box::new(y))) }
        I::Case(s, t) => match v { V::P(xy, z) => match &**xy { V::L(x) => ref_eval(s, &V::P(x.clone(), z.clone())), V::R(y) => ref_eval(t, &V::P(y.clone(), z.clone())), _ => Err(Fail::Stuck) }, _ => Err(Fail::Stuck) },
        I::AssertL(s, _) => match v { V::P(xy, z) => match &**xy { V::L(x) => ref_eval(s, &V::P(x.clone(), z.clone())), V::R(_) => Err(Fail::Assert), _ => Err(Fail::Stuck) }, _ => Err(Fail::Stuck) },
        I::AssertR(_, t) => match v { V::P(xy, z) => match &**xy { V::R(y) => ref_eval(t, &V::P(y.clone(), z.clone())), V::L(_) => Err(Fail::Assert), _ => Err(Fail::Stuck) }, _ => Err(Fail::Stuck) },
        I::Witness(w) => Ok(of_lib(w).1), I::Word(w) => Ok(of_lib(w.as_value()).1), I::Fail(_) => Err(Fail::FailNode),
        I::Disconnect(s, t) => {
            let w256 = T::from_fin(&Final::two_two_n(8).unwrap());
            let bits: Vec<bool> = t.cmr().as_ref().iter().flat_map(|b| (0..8).map(move |i| b & (1 << (7 - i)) != 0)).collect();
            let cw = dec_compact(&w256, &mut bits.into_iter());
            let out = ref_eval(s, &V::P(Box::new(cw), Box::new(v.clone())))?;
            if let V::P(b1, c) = out { let dd = ref_eval(t, &c)?; Ok(V::P(b1, Box::new(dd))) } else { Err(Fail::Stuck) } }
        I::Jet(_) => Err(Fail::Stuck),
    }
}


mod ceval {
    use simplicity::ffi::tests::ffi::{SimplicityErr, bitstream::{CBitstream, simplicity_closeBitstream}, dag::{CDagNode, CCombinatorCounters, simplicity_fillWitnessData}, ty::CType, deserialize::simplicity_decodeMallocDag, elements::{simplicity_elements_decodeJet, simplicity_elements_mallocBoundVars}, type_inference::simplicity_mallocTypeInference};
    use simplicity::ffi::ffi::{UWORD, ubounded};
    use simplicity::ffi::CElementsTxEnv;
    extern "C" {
        // the C prototype has NINE parameters (min_cost before budget); simplicity-sys declares eight (F-C14)
        #[link_name = "rustsimplicity_0_7_evalTCOExpression"]
        fn eval_tco(flags: u8, output: *mut UWORD, input: *const UWORD, dag: *const CDagNode, type_dag: *mut CType, len: usize, min_cost: ubounded, budget: *const ubounded, env: *const CElementsTxEnv) -> SimplicityErr;
    }
    pub fn eval(program: &[u8], witness: &[u8], flags: u8, env: &CElementsTxEnv) -> Result<SimplicityErr, SimplicityErr> {
        let mut prog_stream = CBitstream::from(program);
        let mut wit_stream = CBitstream::from(witness);
        let mut census = CCombinatorCounters::default();
        unsafe {
            let mut dag = std::ptr::null_mut();
            let len = SimplicityErr::from_i32(simplicity_decodeMallocDag(&mut dag, simplicity_elements_decodeJet, &mut census, &mut prog_stream))? as usize;
            SimplicityErr::from_i32(simplicity_closeBitstream(&mut prog_stream))?;
            let mut type_dag = std::ptr::null_mut();
            simplicity_mallocTypeInference(&mut type_dag, simplicity_elements_mallocBoundVars, dag, len, &census).into_result()?;
            simplicity_fillWitnessData(dag, type_dag, len, &mut wit_stream).into_result()?;
            SimplicityErr::from_i32(simplicity_closeBitstream(&mut wit_stream))?;
            if (*dag.add(len - 1)).aux_types.types[0] != 0 || (*dag.add(len - 1)).aux_types.types[1] != 0 { return Err(SimplicityErr::TypeInferenceNotProgram); }
            Ok(eval_tco(flags, std::ptr::null_mut(), std::ptr::null(), dag, type_dag, len, 0, std::ptr::null(), env)) // dag/type_dag leaked (probe)
        }
    }
}
fn dummy_env() -> simplicity::jet::elements::ElementsEnv<Arc<simplicity::elements::Transaction>> {
    use simplicity::elements::{self, confidential, taproot::ControlBlock, AssetIssuance};
    use simplicity::jet::elements::{ElementsEnv, ElementsUtxo};
    let ctrl_blk: [u8; 33] = [0xc0, 0xeb, 0x04, 0xb6, 0x8e, 0x9a, 0x26, 0xd1, 0x16, 0x04, 0x6c, 0x76, 0xe8, 0xff, 0x47, 0x33, 0x2f, 0xb7, 0x1d, 0xda, 0x90, 0xff, 0x4b, 0xef, 0x53, 0x70, 0xf2, 0x52, 0x26, 0xd3, 0xbc, 0x09, 0xfc];
    ElementsEnv::new(
        Arc::new(elements::Transaction { version: 2, lock_time: elements::LockTime::ZERO, input: vec![elements::TxIn { previous_output: elements::OutPoint::default(), is_pegin: false, script_sig: elements::Script::new(), sequence: elements::Sequence::MAX, asset_issuance: AssetIssuance::default(), witness: elements::TxInWitness::default() }], output: vec![elements::TxOut { asset: confidential::Asset::Explicit(elements::AssetId::from_byte_array([7; 32])), value: confidential::Value::Explicit(1000), nonce: confidential::Nonce::Null, script_pubkey: elements::Script::from(vec![0x51]), witness: elements::TxOutWitness::default() }] }),
        vec![ElementsUtxo { script_pubkey: elements::Script::new(), asset: confidential::Asset::Null, value: confidential::Value::Null }],
        0, simplicity::Cmr::from_byte_array([0; 32]), ControlBlock::from_slice(&ctrl_blk).unwrap(), None, elements::BlockHash::from_byte_array([0u8; 32]))
}

fn main() {
    let seed: u64 = std::env::args().nth(1).unwrap().parse().unwrap();
    let iters: usize = std::env::args().nth(2).unwrap().parse().unwrap();
    let mut r = Rng(seed);
    let env = dummy_env();
    let mut stats = [0usize; 16];
    let (mut runs, mut failing, mut bad, mut tight_cells, mut tight_frames, mut max_cells_seen, mut max_frames_seen) = (0u64,0u64,0u64,0u64,0u64,0usize,0usize);
    for it in 0..iters {
        let (a, b) = if it % 3 == 0 { (T::One, T::One) } else { (gen_t(&mut r, 1 + it % 4), gen_t(&mut r, 1 + (it / 4) % 4)) };
        let commit = types::Context::with_context(|ctx| { let p = gen_prog(&ctx, &mut r, &a, &b, 2 + it % 8, &mut stats); p.finalize_types_non_program().ok() });
        let Some(commit) = commit else { continue };
        let red = match commit.finalize(&mut RandWit { r: &mut r, cache: Default::default() }) { Ok(x) => x, Err(_) => continue };
        let mut mac = match BitMachine::for_program(&red) { Ok(m) => m, Err(_) => continue };
        let sa = T::from_fin(&red.arrow().source);
        let input = gen_v(&mut r, &sa);
        mac.input(&lib_construct(&sa, &input)).unwrap();
        let res = std::panic::catch_unwind(std::panic::AssertUnwindSafe(|| mac.exec(&red, &env)));
        runs += 1;
        let io = red.arrow().source.bit_width() + red.arrow().target.bit_width();
        let bc = io + red.bounds().extra_cells; let bf = red.bounds().extra_frames + 2;
        match res { Err(_) => { bad += 1; println!("C07 PANIC during exec bounds={:?}", red.bounds()); continue } Ok(Err(_)) => failing += 1, Ok(Ok(_)) => {} }
        let (mc, mf) = (mac.verif_max_cells(), mac.verif_max_frames());
        if mc > bc || mf > bf || mc > mac.verif_capacity_cells() { bad += 1; if bad < 8 { println!("C07 BOUND EXCEEDED cells {mc} > {bc} or frames {mf} > {bf} prog={:02x?}", red.to_vec_with_witness()); } }
        if mc == bc { tight_cells += 1; } if mf == bf { tight_frames += 1; }
        max_cells_seen = max_cells_seen.max(mc); max_frames_seen = max_frames_seen.max(mf);
    }
    println!("C07 probe: runs {runs} (failing {failing}) bound violations {bad}; bound attained exactly: cells {tight_cells}, frames {tight_frames}; max cells {max_cells_seen}, max frames {max_frames_seen}");
}
