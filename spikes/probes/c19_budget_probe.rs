// Probe for C19: Cost::{is_budget_valid,get_padding,from_milliweight}, Weight conversions, against the
// formulas of the Lean model (Cost.lean) and the property's own oracle (padding sufficient and minimal).
use simplicity::Cost;
use simplicity::elements::bitcoin::Weight;
struct Rng(u64);
impl Rng { fn next(&mut self) -> u64 { self.0 = self.0.wrapping_add(0x9E3779B97F4A7C15); let mut z = self.0; z = (z ^ (z >> 30)).wrapping_mul(0xBF58476D1CE4E5B9); z = (z ^ (z >> 27)).wrapping_mul(0x94D049BB133111EB); z ^ (z >> 31) }
 fn below(&mut self, n: u64) -> u64 { self.next() % n } }
const MAX: u64 = 4_000_050_000;
fn cs(n: u64) -> u64 { if n <= 252 { 1 } else if n <= 65535 { 3 } else if n <= 4294967295 { 5 } else { 9 } }
fn stack_len(items: &[usize]) -> u64 { cs(items.len() as u64) + items.iter().map(|l| cs(*l as u64) + *l as u64).sum::<u64>() }
fn weight(c: u64) -> u64 { (c + 999).min(4294967295) / 1000 }
fn model_valid(c: u64, items: &[usize]) -> bool { c <= ((stack_len(items) + 50).min(4294967295) * 1000).min(4294967295) }
fn model_padding(c: u64, items: &[usize]) -> Option<u64> { let b = (stack_len(items) + 50).min(4294967295); let w = weight(c); if w <= b { return None; } let d = w - b;
    let p = if d <= 253 { d.saturating_sub(2) } else if d <= 255 { 252 } else if d <= 65538 { d - 4 } else if d <= 65540 { 65535 } else { d - 6 }; Some(1 + p) }
fn main() {
    let seed: u64 = std::env::args().nth(1).unwrap().parse().unwrap();
    let iters: usize = std::env::args().nth(2).unwrap().parse().unwrap();
    let mut r = Rng(seed);
    let (mut n, mut bad_model, mut bad_suff, mut bad_min, mut bad_w, mut padded) = (0u64, 0u64, 0u64, 0u64, 0u64, 0u64);
    // weight conversions on boundaries
    for c in (0..5000u64).chain((0..4000).map(|i| MAX - i)).chain((0..200).flat_map(|k| (0..3).map(move |d| k * 1000 + d + 999_000))) {
        let cost = Cost::from_milliweight(c as u32); let w: Weight = cost.into();
        if w.to_wu() != weight(c) { bad_w += 1; println!("C19 weight c={c} got {} want {}", w.to_wu(), weight(c)); }
        let back: Cost = w.into(); let wb: Weight = back.into(); if wb != w { bad_w += 1; println!("C19 weight round trip c={c}"); }
    }
    for it in 0..iters {
        // witness stack shapes: few items, item lengths around compact-size boundaries
        let nitems = match it % 7 { 0 => 0, 1 => 252 + r.below(3) as usize, _ => 1 + r.below(4) as usize };
        let items: Vec<usize> = (0..nitems).map(|_| match r.below(6) { 0 => 0, 1 => 250 + r.below(6) as usize, 2 => 65530 + r.below(10) as usize, 3 => r.below(70000) as usize, _ => r.below(300) as usize }).collect();
        let sl = stack_len(&items);
        // cost: near the budget boundary and near the deficit boundaries of the padding table
        let base = (sl + 50) * 1000;
        let c = match r.below(8) { 0 => r.below(MAX + 1), 1 => base.saturating_sub(r.below(3)), 2 => base + r.below(3), 3 => base + (250 + r.below(10)) * 1000 + r.below(3), 4 => base + (65530 + r.below(15)) * 1000 + r.below(1001), 5 => base + r.below(70000) * 1000, 6 => MAX - r.below(1000), _ => base + r.below(4_000_000) * 1000 }.min(MAX);
        let stack: Vec<Vec<u8>> = items.iter().map(|l| vec![0u8; *l]).collect();
        let cost = Cost::from_milliweight(c as u32);
        n += 1;
        let valid = cost.is_budget_valid(&stack); let pad = cost.get_padding(&stack);
        if valid != model_valid(c, &items) || pad.as_ref().map(|p| p.len() as u64) != model_padding(c, &items) { bad_model += 1; println!("C19 model mismatch c={c} items={:?} valid={valid} pad={:?}", items, pad.as_ref().map(|p| p.len())); }
        // the property itself: valid iff weight <= serialized + 50
        if valid != (weight(c) <= sl + 50) { bad_model += 1; println!("C19 valid_iff c={c} items={:?}", items); }
        if valid != pad.is_none() && !(valid && pad.is_none()) { /* valid <=> no padding, up to rounding: weight rounds up */ if valid && pad.is_some() { bad_model += 1; println!("C19 valid but padding c={c}"); } }
        if let Some(p) = pad { padded += 1;
            if p[0] != 0x50 || p[1..].iter().any(|b| *b != 0) { bad_suff += 1; println!("C19 annex bytes c={c}"); }
            let mut s2 = stack.clone(); s2.push(p.clone());
            if !cost.is_budget_valid(&s2) { bad_suff += 1; println!("C19 padding insufficient c={c} items={:?} pad={}", items, p.len()); }
            if cs(items.len() as u64 + 1) == cs(items.len() as u64) && p.len() > 1 { let mut s3 = stack.clone(); s3.push(p[..p.len() - 1].to_vec()); if cost.is_budget_valid(&s3) { bad_min += 1; println!("C19 padding not minimal c={c} items={:?} pad={}", items, p.len()); } }
        }
    }
    println!("C19 probe: cases {n} padded {padded} model mismatches {bad_model} insufficient {bad_suff} non-minimal {bad_min} weight {bad_w}");
}
