// Probe for C15: introspection jets return the fields of the supplied transaction.
use simplicity::{types, Cmr, BitMachine, ConstructNode, Value, Word};
use simplicity::node::{CoreConstructible, SimpleFinalizer};
use simplicity::jet::Elements;
use simplicity::jet::elements::{ElementsEnv, ElementsUtxo};
use simplicity::elements::{self, confidential, taproot::ControlBlock, AssetIssuance};
use simplicity::elements::bitcoin::hashes::{sha256, Hash};
use std::sync::Arc;
type N<'b> = Arc<ConstructNode<'b>>;
struct Rng(u64);
impl Rng { fn next(&mut self) -> u64 { self.0 = self.0.wrapping_add(0x9E3779B97F4A7C15); let mut z = self.0; z = (z ^ (z >> 30)).wrapping_mul(0xBF58476D1CE4E5B9); z = (z ^ (z >> 27)).wrapping_mul(0x94D049BB133111EB); z ^ (z >> 31) }
 fn below(&mut self, n: usize) -> usize { (self.next() % n as u64) as usize } fn bytes(&mut self, n: usize) -> Vec<u8> { (0..n).map(|_| self.next() as u8).collect() } fn bytes_r(&mut self, lo: usize, span: usize) -> Vec<u8> { let n = lo + self.below(span); self.bytes(n) } }

fn run(env: &ElementsEnv<Arc<elements::Transaction>>, jet: Elements, idx: Option<u32>) -> Vec<bool> {
    let red = types::Context::with_context(|ctx| {
        let j = N::jet(&ctx, &jet);
        let p = match idx { Some(i) => N::comp(&N::const_word(&ctx, Word::u32(i)), &j).unwrap(), None => j };
        p.finalize_types_non_program().unwrap().finalize(&mut SimpleFinalizer::new(std::iter::empty::<Value>())).unwrap()
    });
    let mut mac = BitMachine::for_program(&red).unwrap();
    mac.exec(&red, env).unwrap().iter_compact().collect()
}
fn bits_of(b: &[u8]) -> Vec<bool> { b.iter().flat_map(|x| (0..8).map(move |i| x & (1 << (7 - i)) != 0)).collect() }
fn opt(inner: Option<Vec<bool>>) -> Vec<bool> { match inner { None => vec![false], Some(mut v) => { v.insert(0, true); v } } }
fn u32b(x: u32) -> Vec<bool> { bits_of(&x.to_be_bytes()) }

fn main() {
    let seed: u64 = std::env::args().nth(1).unwrap().parse().unwrap();
    let iters: usize = std::env::args().nth(2).unwrap().parse().unwrap();
    let mut r = Rng(seed);
    let ctrl_blk: [u8; 33] = [0xc0, 0xeb, 0x04, 0xb6, 0x8e, 0x9a, 0x26, 0xd1, 0x16, 0x04, 0x6c, 0x76, 0xe8, 0xff, 0x47, 0x33, 0x2f, 0xb7, 0x1d, 0xda, 0x90, 0xff, 0x4b, 0xef, 0x53, 0x70, 0xf2, 0x52, 0x26, 0xd3, 0xbc, 0x09, 0xfc];
    let (mut checks, mut bad, mut annex_single) = (0u64, 0u64, 0u64); let mut single_checks = 0u64;
    for _ in 0..iters {
        let nin = 1 + r.below(3); let nout = r.below(4);
        let mut inputs = vec![]; let mut utxos = vec![]; let mut annexes: Vec<Option<Vec<u8>>> = vec![]; let mut single_item: Vec<bool> = vec![];
        for _ in 0..nin {
            let mut wit = elements::TxInWitness::default();
            let kind = r.below(4);
            let annex = match kind { 0 => { { let mut b = r.bytes(3); b[0] = 0x11; wit.script_witness = vec![b].into(); } None } // one ordinary item
                1 => { let mut a = r.bytes_r(1, 40); a[0] = 0x50; wit.script_witness = vec![r.bytes(5), a.clone()].into(); Some(a[1..].to_vec()) }
                2 => { let mut a = r.bytes_r(1, 5); a[0] = 0x50; wit.script_witness = vec![a.clone()].into(); None } // SINGLE item starting with 0x50: no annex per BIP-341
                _ => None };
            single_item.push(kind == 2);
            annexes.push(annex);
            let script_sig = elements::Script::from(r.bytes_r(0, 20));
            inputs.push(elements::TxIn { previous_output: elements::OutPoint { txid: elements::Txid::from_byte_array(r.bytes(32).try_into().unwrap()), vout: r.next() as u32 & 0x3fff_ffff }, is_pegin: false, script_sig, sequence: elements::Sequence(r.next() as u32), asset_issuance: AssetIssuance::default(), witness: wit });
            utxos.push(ElementsUtxo { script_pubkey: elements::Script::from(r.bytes_r(0, 30)), asset: confidential::Asset::Null, value: confidential::Value::Null });
        }
        let mut outputs = vec![];
        for _ in 0..nout {
            let fee = r.below(3) == 0;
            let asset = confidential::Asset::Explicit(elements::AssetId::from_byte_array(r.bytes(32).try_into().unwrap()));
            outputs.push(elements::TxOut { asset, value: confidential::Value::Explicit(r.next() >> 20), nonce: confidential::Nonce::Null, script_pubkey: if fee { elements::Script::new() } else { elements::Script::from(r.bytes_r(1, 30)) }, witness: elements::TxOutWitness::default() });
        }
        let tx = Arc::new(elements::Transaction { version: r.next() as u32, lock_time: elements::LockTime::from_consensus(r.next() as u32), input: inputs, output: outputs });
        let ix = r.below(nin) as u32;
        let genesis = elements::BlockHash::from_byte_array(r.bytes(32).try_into().unwrap());
        let cmr = Cmr::from_byte_array(r.bytes(32).try_into().unwrap());
        let env = ElementsEnv::new(tx.clone(), utxos.clone(), ix, cmr, ControlBlock::from_slice(&ctrl_blk).unwrap(), None, genesis);
        let mut chk = |name: &str, got: Vec<bool>, want: Vec<bool>, bad: &mut u64| { checks += 1; if got != want { *bad += 1; if *bad < 12 { println!("C15 MISMATCH {name}: got {} bits want {} bits; first diff at {:?}", got.len(), want.len(), got.iter().zip(want.iter()).position(|(a, b)| a != b)); } } };
        chk("version", run(&env, Elements::Version, None), u32b(tx.version), &mut bad);
        chk("lock_time", run(&env, Elements::LockTime, None), u32b(tx.lock_time.to_consensus_u32()), &mut bad);
        chk("num_inputs", run(&env, Elements::NumInputs, None), u32b(nin as u32), &mut bad);
        chk("num_outputs", run(&env, Elements::NumOutputs, None), u32b(nout as u32), &mut bad);
        chk("current_index", run(&env, Elements::CurrentIndex, None), u32b(ix), &mut bad);
        chk("current_sequence", run(&env, Elements::CurrentSequence, None), u32b(tx.input[ix as usize].sequence.0), &mut bad);
        chk("genesis", run(&env, Elements::GenesisBlockHash, None), bits_of(&genesis.to_byte_array()), &mut bad);
        chk("script_cmr", run(&env, Elements::ScriptCMR, None), bits_of(cmr.as_ref()), &mut bad);
        for i in 0..(nin as u32 + 2) {
            let inp = tx.input.get(i as usize);
            chk("input_sequence", run(&env, Elements::InputSequence, Some(i)), opt(inp.map(|x| u32b(x.sequence.0))), &mut bad);
            chk("input_prev_outpoint", run(&env, Elements::InputPrevOutpoint, Some(i)), opt(inp.map(|x| { let mut v = bits_of(&x.previous_output.txid.to_byte_array()); v.extend(u32b(x.previous_output.vout)); v })), &mut bad);
            chk("input_script_sig_hash", run(&env, Elements::InputScriptSigHash, Some(i)), opt(inp.map(|x| bits_of(&sha256::Hash::hash(x.script_sig.as_bytes()).to_byte_array()))), &mut bad);
            // annex: Some(Some(hash)) when annex present (BIP-341: at least two items), Some(None) otherwise, None out of range
            let got = run(&env, Elements::InputAnnexHash, Some(i));
            let want = opt(inp.map(|_| opt(annexes[i as usize].as_ref().map(|a| bits_of(&sha256::Hash::hash(a).to_byte_array())))));
            if inp.is_some() && single_item[i as usize] { single_checks += 1; if got != want { annex_single += 1; } } else { chk("input_annex_hash", got, want, &mut bad); }
        }
        for i in 0..(nout as u32 + 2) {
            let out = tx.output.get(i as usize);
            chk("output_script_hash", run(&env, Elements::OutputScriptHash, Some(i)), opt(out.map(|x| bits_of(&sha256::Hash::hash(x.script_pubkey.as_bytes()).to_byte_array()))), &mut bad);
            chk("output_is_fee", run(&env, Elements::OutputIsFee, Some(i)), opt(out.map(|x| vec![x.is_fee()])), &mut bad);
        }
    }
    println!("C15 probe: checks {checks} mismatches {bad}; single-0x50-item inputs reported as having an annex: {annex_single} of {single_checks}");
}
