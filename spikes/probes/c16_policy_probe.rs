// Probe for C16: policies — cmr consistency, satisfaction iff truth, satisfied program runs, sorting.
use simplicity::{types, Policy, Cmr, FailEntropy, BitMachine, Satisfier, Preimage32, ConstructNode};
use simplicity::jet::elements::{ElementsEnv, ElementsUtxo};
use simplicity::elements::{self, confidential, taproot::ControlBlock, AssetIssuance, secp256k1_zkp};
use simplicity::elements::bitcoin::key::{Keypair, XOnlyPublicKey};
use simplicity::elements::bitcoin::hashes::{sha256, Hash};
use std::collections::HashMap;
use std::sync::Arc;
type P = Policy<XOnlyPublicKey>;

struct Rng(u64);
impl Rng { fn next(&mut self) -> u64 { self.0 = self.0.wrapping_add(0x9E3779B97F4A7C15); let mut z = self.0; z = (z ^ (z >> 30)).wrapping_mul(0xBF58476D1CE4E5B9); z = (z ^ (z >> 27)).wrapping_mul(0x94D049BB133111EB); z ^ (z >> 31) }
 fn below(&mut self, n: usize) -> usize { (self.next() % n as u64) as usize } fn bit(&mut self) -> bool { self.next() & 1 == 1 } }

fn env_with(lock_height: u32, sequence: u32) -> ElementsEnv<Arc<elements::Transaction>> {
    let ctrl_blk: [u8; 33] = [0xc0, 0xeb, 0x04, 0xb6, 0x8e, 0x9a, 0x26, 0xd1, 0x16, 0x04, 0x6c, 0x76, 0xe8, 0xff, 0x47, 0x33, 0x2f, 0xb7, 0x1d, 0xda, 0x90, 0xff, 0x4b, 0xef, 0x53, 0x70, 0xf2, 0x52, 0x26, 0xd3, 0xbc, 0x09, 0xfc];
    ElementsEnv::new(
        Arc::new(elements::Transaction { version: 2, lock_time: elements::LockTime::from_height(lock_height).unwrap(), input: vec![elements::TxIn { previous_output: elements::OutPoint::default(), is_pegin: false, script_sig: elements::Script::new(), sequence: elements::Sequence(sequence), asset_issuance: AssetIssuance::default(), witness: elements::TxInWitness::default() }], output: Vec::default() }),
        vec![ElementsUtxo { script_pubkey: elements::Script::new(), asset: confidential::Asset::Null, value: confidential::Value::Null }],
        0, Cmr::from_byte_array([0; 32]), ControlBlock::from_slice(&ctrl_blk).unwrap(), None, elements::BlockHash::from_byte_array([0u8;32]))
}

struct Sat<'a, 'b> { ctx: types::Context<'b>, sigs: HashMap<XOnlyPublicKey, elements::SchnorrSig>, pre: HashMap<sha256::Hash, Preimage32>, tx: &'a elements::Transaction }
impl<'a, 'b> Satisfier<'b, XOnlyPublicKey> for Sat<'a, 'b> {
    fn inference_context(&self) -> &types::Context<'b> { &self.ctx }
    fn lookup_signature(&self, pk: &XOnlyPublicKey) -> Option<elements::SchnorrSig> { self.sigs.get(pk).copied() }
    fn lookup_sha256(&self, h: &sha256::Hash) -> Option<Preimage32> { self.pre.get(h).copied() }
    fn check_older(&self, s: elements::Sequence) -> bool { Satisfier::<XOnlyPublicKey>::check_older(&(&self.ctx, self.tx.input[0].sequence), s) }
    fn check_after(&self, l: elements::LockTime) -> bool { self.tx.input[0].sequence.0 != 0xffff_ffff && Satisfier::<XOnlyPublicKey>::check_after(&(&self.ctx, self.tx.lock_time), l) }
    fn lookup_asm_program(&self, _: Cmr) -> Option<Arc<ConstructNode<'b>>> { None }
}

fn gen_p(r: &mut Rng, d: usize, keys: &[XOnlyPublicKey], hashes: &[sha256::Hash]) -> P {
    let leaf = |r: &mut Rng| match r.below(7) { 0 => P::Trivial, 1 => P::Unsatisfiable(FailEntropy::from_byte_array([r.next() as u8; 64])), 2 | 3 => P::Key(keys[r.below(keys.len())]), 4 => P::Sha256(hashes[r.below(hashes.len())]), 5 => P::After(90 + r.below(20) as u32), _ => P::Older(5 + r.below(10) as u16) };
    if d == 0 { return leaf(r); }
    match r.below(6) { 0 | 1 => P::And { left: Arc::new(gen_p(r, d-1, keys, hashes)), right: Arc::new(gen_p(r, d-1, keys, hashes)) }, 2 | 3 => P::Or { left: Arc::new(gen_p(r, d-1, keys, hashes)), right: Arc::new(gen_p(r, d-1, keys, hashes)) },
        4 => { let n = 1 + r.below(4); let subs: Vec<P> = (0..n).map(|_| gen_p(r, d-1, keys, hashes)).collect(); P::Threshold(r.below(n + 1), subs) }, _ => leaf(r) }
}
fn truth(p: &P, sigs: &HashMap<XOnlyPublicKey, elements::SchnorrSig>, pre: &HashMap<sha256::Hash, Preimage32>, height: u32, seq: u32) -> bool {
    match p { P::Trivial => true, P::Unsatisfiable(_) => false, P::Key(k) => sigs.contains_key(k), P::Sha256(h) => pre.contains_key(h), P::After(n) => *n <= height && seq != 0xffff_ffff,
        P::Older(n) => { // relative lock in blocks: enabled when bit31 clear and bit22 clear
            seq & (1 << 31) == 0 && seq & (1 << 22) == 0 && (*n as u32) <= (seq & 0xffff) },
        P::And { left, right } => truth(left, sigs, pre, height, seq) && truth(right, sigs, pre, height, seq),
        P::Or { left, right } => truth(left, sigs, pre, height, seq) || truth(right, sigs, pre, height, seq),
        P::Threshold(k, subs) => subs.iter().filter(|s| truth(s, sigs, pre, height, seq)).count() >= *k }
}
fn shuffle(r: &mut Rng, p: &P) -> P { match p { P::And { left, right } => { let (l, rr) = (shuffle(r, left), shuffle(r, right)); if r.bit() { P::And { left: Arc::new(l), right: Arc::new(rr) } } else { P::And { left: Arc::new(rr), right: Arc::new(l) } } }
    P::Or { left, right } => { let (l, rr) = (shuffle(r, left), shuffle(r, right)); if r.bit() { P::Or { left: Arc::new(l), right: Arc::new(rr) } } else { P::Or { left: Arc::new(rr), right: Arc::new(l) } } }
    P::Threshold(k, subs) => { let mut v: Vec<P> = subs.iter().map(|s| shuffle(r, s)).collect(); for i in (1..v.len()).rev() { let j = r.below(i + 1); v.swap(i, j); } P::Threshold(*k, v) } x => x.clone() } }

fn main() {
    let seed: u64 = std::env::args().nth(1).unwrap().parse().unwrap();
    let iters: usize = std::env::args().nth(2).unwrap().parse().unwrap();
    let mut r = Rng(seed);
    let secp = secp256k1_zkp::Secp256k1::new();
    let keypairs: Vec<Keypair> = (1..=4u8).map(|i| Keypair::from_seckey_slice(&secp, &[i; 32]).unwrap()).collect();
    let keys: Vec<XOnlyPublicKey> = keypairs.iter().map(|k| k.x_only_public_key().0).collect();
    let preimages: Vec<[u8; 32]> = (0..3u8).map(|i| [i; 32]).collect();
    let hashes: Vec<sha256::Hash> = preimages.iter().map(|p| sha256::Hash::hash(p)).collect();
    let (mut n, mut cmr_bad, mut sat_bad, mut exec_bad, mut sort_idem_bad, mut sort_perm_bad, mut sat_true, mut panics) = (0,0,0,0,0,0,0,0);
    for it in 0..iters {
        let height = 95 + r.below(10) as u32; let seq = match r.below(4) { 0 => 0xffff_ffff, 1 => (1 << 22) | 8, _ => 5 + r.below(10) as u32 };
        let env = env_with(height, seq);
        let sighash = env.c_tx_env().sighash_all();
        let msg = secp256k1_zkp::Message::from_digest(sighash.to_byte_array());
        let mut sigs = HashMap::new(); for (i, kp) in keypairs.iter().enumerate() { if r.bit() { sigs.insert(keys[i], elements::SchnorrSig { sig: secp.sign_schnorr_no_aux_rand(&msg, kp), hash_ty: elements::SchnorrSighashType::All }); } }
        let mut pre = HashMap::new(); for (i, p) in preimages.iter().enumerate() { if r.bit() { pre.insert(hashes[i], *p); } }
        let p = gen_p(&mut r, 1 + it % 4, &keys, &hashes);
        n += 1;
        // sorting
        let s1 = p.clone().sorted(); if s1.clone().sorted() != s1 { sort_idem_bad += 1; }
        let q = shuffle(&mut r, &p); if q.sorted() != s1 { sort_perm_bad += 1; }
        // cmr
        let res = std::panic::catch_unwind(std::panic::AssertUnwindSafe(|| {
            let c1 = p.cmr(); let c2 = p.commit().cmr();
            let expect = truth(&p, &sigs, &pre, height, seq);
            let got = types::Context::with_context(|ctx| { let sat = Sat { ctx, sigs: sigs.clone(), pre: pre.clone(), tx: env.tx() }; p.satisfy(&sat, &env).map_err(|e| format!("{:?}", e)) });
            (c1, c2, expect, got)
        }));
        match res {
            Err(_) => { panics += 1; println!("C16 PANIC policy={p}"); }
            Ok((c1, c2, expect, got)) => {
                if c1 != c2 { cmr_bad += 1; println!("C16 cmr != commit cmr policy={p}"); }
                match got {
                    Ok(prog) => { if expect { sat_true += 1; } else { sat_bad += 1; println!("C16 satisfied although false policy={p}"); }
                        if prog.cmr() != c1 { cmr_bad += 1; println!("C16 satisfied cmr differs policy={p}"); }
                        let mut mac = BitMachine::for_program(&prog).unwrap(); if mac.exec(&prog, &env).is_err() { exec_bad += 1; println!("C16 satisfied program fails policy={p}"); } }
                    Err(e) => { if expect { sat_bad += 1; if sat_bad < 10 { println!("C16 NOT satisfied although true: {e} policy={p} height={height} seq={seq:#x} sigs={} pre={}", sigs.len(), pre.len()); } } }
                }
            }
        }
    }
    println!("policies {n} true&satisfied {sat_true} cmr_bad {cmr_bad} sat_mismatch {sat_bad} exec_bad {exec_bad} sort_idem_bad {sort_idem_bad} sort_perm_bad {sort_perm_bad} panics {panics}");
}
