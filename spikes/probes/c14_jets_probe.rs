// Probe for C14 (Rust side, through the real methods): every jet of every family encodes/decodes to itself,
// codes are prefix-free, names parse back, Core jets agree with their Elements namesakes.
use simplicity::jet::{Jet, Core, Elements, Bitcoin};
use simplicity::{BitIter, BitWriter};
use std::str::FromStr;
fn code<J: Jet>(j: &J) -> (Vec<u8>, usize) { let mut bytes: Vec<u8> = vec![]; let n; { let sink: &mut dyn std::io::Write = &mut bytes; let mut w = BitWriter::new(sink); n = j.encode(&mut w).unwrap(); w.flush_all().unwrap(); } (bytes, n) }
fn bits_of(bytes: &[u8], n: usize) -> Vec<bool> { (0..n).map(|i| bytes[i / 8] & (1 << (7 - i % 8)) != 0).collect() }
fn family<J: Jet + FromStr + std::fmt::Display + PartialEq + std::fmt::Debug>(name: &str, all: &[J]) -> (usize, usize) {
    let mut bad = 0; let mut codes: Vec<Vec<bool>> = vec![];
    for j in all {
        let (bytes, n) = code(j);
        let mut it = BitIter::from(&bytes[..]);
        match J::decode(&mut it) { Ok(j2) if &j2 == j && it.n_total_read() == n => {}, other => { bad += 1; println!("C14 {name} {j}: decode(encode) = {:?}, read {} of {n}", other.map_err(|e| e.to_string()), it.n_total_read()); } }
        match J::from_str(&j.to_string()) { Ok(j2) if &j2 == j => {}, _ => { bad += 1; println!("C14 {name} {j}: name does not parse back"); } }
        codes.push(bits_of(&bytes, n));
    }
    for (a, ca) in codes.iter().enumerate() { for (b, cb) in codes.iter().enumerate() { if a != b && cb.len() >= ca.len() && cb[..ca.len()] == ca[..] { bad += 1; println!("C14 {name}: code of {} is a prefix of code of {}", all[a], all[b]); } } }
    // arbitrary bit strings: whatever decodes re-encodes to the consumed prefix
    let mut s = 1u64; for _ in 0..20000 { s = s.wrapping_mul(6364136223846793005).wrapping_add(1442695040888963407); let bytes = s.to_be_bytes(); let mut it = BitIter::from(&bytes[..]);
        if let Ok(j) = J::decode(&mut it) { let used = it.n_total_read(); let (out, n) = code(&j); if n != used || bits_of(&out, n) != bits_of(&bytes, used) { bad += 1; println!("C14 {name}: non-canonical jet code accepted for {j}"); } } }
    (all.len(), bad)
}
fn main() {
    let (nc, bc) = family::<Core>("core", &Core::ALL);
    let (ne, be) = family::<Elements>("elements", &Elements::ALL);
    let (nb, bb) = family::<Bitcoin>("bitcoin", &Bitcoin::ALL);
    // Core vs Elements namesakes: same types and the same code behind the family prefix bit (C14 claims no more)
    let mut bad = 0; let mut differ_cmr_cost = 0;
    for c in Core::ALL { let name = c.to_string(); match Elements::from_str(&name) { Ok(e) => {
            if c.cmr() != e.cmr() || c.cost() != e.cost() { differ_cmr_cost += 1; }
            if c.source_ty().to_final() != e.source_ty().to_final() || c.target_ty().to_final() != e.target_ty().to_final() { bad += 1; if bad < 4 { println!("C14 core/elements differ for {name}: cmr {} src {} tgt {} cost {}", c.cmr() == e.cmr(), c.source_ty().to_final() == e.source_ty().to_final(), c.target_ty().to_final() == e.target_ty().to_final(), c.cost() == e.cost()); } }
            let (cb, cn) = code(&c); let (eb, en) = code(&e); let cc = bits_of(&cb, cn); let ec = bits_of(&eb, en);
            if ec.len() != cc.len() + 1 || ec[0] || ec[1..] != cc[..] { bad += 1; println!("C14 code of core {name} is not the elements code behind the prefix bit"); } }
        Err(_) => { bad += 1; println!("C14 core jet {name} has no elements namesake"); } } }
    println!("C14 probe: core {nc} (bad {bc}) elements {ne} (bad {be}) bitcoin {nb} (bad {bb}) core-vs-elements (types, code) bad {bad}; namesakes whose cmr or cost differ (not claimed by C14): {differ_cmr_cost}");
}
