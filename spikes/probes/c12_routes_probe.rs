// Probe for C12: every route that attaches witness data and finalises either returns a redeem program whose
// witness values have exactly their nodes' target types (and which serialises, decodes and runs), or an error.
use simplicity::{types, Value, ConstructNode, RedeemNode, BitIter, BitMachine};
use simplicity::node::{CoreConstructible, WitnessConstructible, Inner};
use simplicity::dag::{DagLike, InternalSharing};
use simplicity::types::{Final, CompleteBound};
use simplicity::jet::{Core, CoreEnv};
use simplicity::human_encoding::Forest;
use std::sync::Arc;
use std::collections::HashMap;
type N<'b> = Arc<ConstructNode<'b>>;
struct Rng(u64);
impl Rng { fn next(&mut self) -> u64 { self.0 = self.0.wrapping_add(0x9E3779B97F4A7C15); let mut z = self.0; z = (z ^ (z >> 30)).wrapping_mul(0xBF58476D1CE4E5B9); z = (z ^ (z >> 27)).wrapping_mul(0x94D049BB133111EB); z ^ (z >> 31) }
 fn below(&mut self, n: usize) -> usize { (self.next() % n as u64) as usize } fn bit(&mut self) -> bool { self.next() & 1 == 1 } }
#[derive(Clone, Debug, PartialEq, Eq)]
enum T { One, Sum(Box<T>, Box<T>), Prod(Box<T>, Box<T>) }
impl T { fn fin(&self) -> Arc<Final> { match self { T::One => Final::unit(), T::Sum(a, b) => Final::sum(a.fin(), b.fin()), T::Prod(a, b) => Final::product(a.fin(), b.fin()) } } }
fn from_fin(f: &Final) -> T { match f.bound() { CompleteBound::Unit => T::One, CompleteBound::Sum(a,b) => T::Sum(Box::new(from_fin(a)), Box::new(from_fin(b))), CompleteBound::Product(a,b) => T::Prod(Box::new(from_fin(a)), Box::new(from_fin(b))) } }
fn gen_t(r: &mut Rng, d: usize) -> T { if d == 0 { return if r.below(2) == 0 { T::Sum(Box::new(T::One), Box::new(T::One)) } else { T::One }; }
    match r.below(5) { 0 => T::One, 1 | 2 => T::Sum(Box::new(gen_t(r, d-1)), Box::new(gen_t(r, d-1))), _ => T::Prod(Box::new(gen_t(r, d-1)), Box::new(gen_t(r, d-1))) } }
fn gen_v(r: &mut Rng, t: &T) -> Value { match t { T::One => Value::unit(), T::Sum(a, b) => if r.bit() { Value::left(gen_v(r, a), b.fin()) } else { Value::right(a.fin(), gen_v(r, b)) }, T::Prod(a, b) => Value::product(gen_v(r, a), gen_v(r, b)) } }
// a program of type T -> 1 whose source type is forced to be T (leaves `1` stay free and are closed to unit)
fn sink<'b>(ctx: &types::Context<'b>, t: &T) -> N<'b> { match t {
    T::One => N::unit(ctx),
    T::Prod(a, b) => { let l = N::take(&sink(ctx, a)); let r = N::drop_(&sink(ctx, b)); N::comp(&N::pair(&l, &r).unwrap(), &N::unit(ctx)).unwrap() }
    T::Sum(a, b) => { let inp = N::pair(&N::iden(ctx), &N::unit(ctx)).unwrap(); let c = N::case(&N::take(&sink(ctx, a)), &N::take(&sink(ctx, b))).unwrap(); N::comp(&inp, &c).unwrap() } } }
fn check_redeem(r: &Arc<RedeemNode>, what: &str, bad: &mut u64) {
    for data in r.as_ref().post_order_iter::<InternalSharing>() { if let Inner::Witness(v) = data.node.inner() { if !v.is_of_type(&data.node.arrow().target) { *bad += 1; println!("C12 {what}: witness value of type {} at a node of target type {}", v.ty(), data.node.arrow().target); } } }
    let (p, w) = r.to_vec_with_witness();
    match RedeemNode::decode::<_, _, Core>(BitIter::from(&p[..]), BitIter::from(&w[..])) { Ok(r2) => { if r2.to_vec_with_witness() != (p, w) { *bad += 1; println!("C12 {what}: decode(serialise) differs"); } } Err(e) => { *bad += 1; println!("C12 {what}: own serialisation does not decode: {e}"); } }
    let run = std::panic::catch_unwind(std::panic::AssertUnwindSafe(|| { let mut m = BitMachine::for_program(r).unwrap(); m.exec(r, &CoreEnv::new()).is_ok() }));
    if run.is_err() { *bad += 1; println!("C12 {what}: execution panics"); }
}
fn main() {
    let seed: u64 = std::env::args().nth(1).unwrap().parse().unwrap();
    let iters: usize = std::env::args().nth(2).unwrap().parse().unwrap();
    let mut r = Rng(seed);
    let (mut n, mut bad, mut panics, mut oks, mut errs) = (0u64, 0u64, 0u64, 0u64, 0u64);
    std::panic::set_hook(Box::new(|_| {}));
    for it in 0..iters {
        let t = gen_t(&mut r, 1 + it % 3);
        // candidate value: right type, a different random type, a widened/narrowed variant, unit
        let cand_t = match r.below(4) { 0 | 1 => t.clone(), 2 => gen_t(&mut r, 1 + it % 3), _ => T::One };
        let cand = gen_v(&mut r, &cand_t);
        let executed = r.below(4) != 0;
        for route in 0..3 { n += 1;
            let res = std::panic::catch_unwind(std::panic::AssertUnwindSafe(|| types::Context::with_context(|ctx| {
                let wit = N::witness(&ctx, Some(cand.shallow_clone()));
                let body = N::comp(&wit, &sink(&ctx, &t)).unwrap();
                let root = if executed { body } else { let sel = N::pair(&N::injl(&N::unit(&ctx)), &N::unit(&ctx)).unwrap(); let c = N::case(&N::take(&N::unit(&ctx)), &N::drop_(&body)).unwrap(); N::comp(&sel, &c).unwrap() };
                match route {
                    0 => root.finalize_unpruned().map_err(|e| e.to_string()),
                    1 => root.finalize_pruned(&CoreEnv::new()).map_err(|e| e.to_string()),
                    _ => { // human-readable route: names -> values
                        let commit = root.finalize_types().map_err(|e| e.to_string())?;
                        let forest = Forest::from_program(commit); let text = forest.string_serialize();
                        let forest = Forest::parse::<Core>(&text).map_err(|e| e.to_string())?;
                        let mut names: HashMap<Arc<str>, Value> = HashMap::new();
                        for (_, rootn) in forest.roots() { for d in rootn.as_ref().post_order_iter::<InternalSharing>() { if let Inner::Witness(_) = d.node.inner() { names.insert(Arc::from(d.node.name().as_ref()), cand.shallow_clone()); } } }
                        types::Context::with_context(|ctx2| { let node = forest.to_witness_node(&ctx2, &names).ok_or("no main".to_string())?; node.finalize_pruned(&CoreEnv::new()).map_err(|e| e.to_string()) })
                    }
                }
            })));
            match res { Err(_) => { panics += 1; bad += 1; if panics < 6 { println!("C12 route {route}: PANIC for node type {:?} candidate type {:?} executed={executed}", t, cand_t); } }
                Ok(Ok(red)) => { oks += 1; check_redeem(&red, &format!("route {route}"), &mut bad); if cand_t == t && false { } }
                Ok(Err(_)) => { errs += 1; if cand_t == t { bad += 1; println!("C12 route {route}: well-typed witness rejected for {:?}", t); } } }
        }
    }
    let _ = from_fin;
    println!("C12 probe: route runs {n} ok {oks} errors {errs} panics {panics} failures {bad}");
}
