// Replays of the defects listed in DESIGN.md sec. 6; prints one line per finding: FAILS / ok.
use simplicity::{types::{self, Final}, Value, BitIter, BitMachine, ConstructNode, RedeemNode, Policy};
use simplicity::node::{CoreConstructible, WitnessConstructible};
use simplicity::jet::{Core, CoreEnv};
use simplicity::human_encoding::Forest;
use simplicity::elements::bitcoin::key::XOnlyPublicKey;
use std::sync::Arc;
use std::collections::HashMap;
type N<'b> = Arc<ConstructNode<'b>>;
fn report(id: &str, fails: bool, what: &str) { println!("{id}: {} — {what}", if fails { "FAILS" } else { "ok" }); }
fn main() {
    let which = std::env::args().nth(1).unwrap_or("all".into());
    if which == "deep-parse" { // F-C17c, run in a child process
        let s = format!("main := {}unit{}", "(".repeat(100000), ")".repeat(100000));
        let r = Forest::parse::<Core>(&s); println!("F-C17c: ok — parser returned {}", if r.is_ok() { "Ok" } else { "Err" }); return; }
    // F-C05
    let red = types::Context::with_context(|ctx| { let u = N::unit(&ctx); N::pair(&u, &u).unwrap().finalize_types_non_program().unwrap().finalize(&mut simplicity::node::SimpleFinalizer::new(std::iter::empty::<Value>())).unwrap() });
    let out = BitMachine::for_program(&red).unwrap().exec(&red, &CoreEnv::new()).unwrap();
    report("F-C05", !out.is_of_type(&red.arrow().target), "exec of `pair unit unit` returns a value of the target type 1×1");
    // F-C11
    let p = Value::product(Value::u1(0), Value::u1(1));
    let sub = p.as_product().unwrap().0.to_value();
    let ty = Final::sum(Final::unit(), Final::u8());
    let dirty = Value::from_padded_bits(&mut BitIter::from(&[0x7f, 0x80][..]), &ty).unwrap();
    report("F-C11", sub != Value::u1(0) || dirty != Value::left(Value::unit(), Final::u8()), "sub-value / dirty-padding values equal their constructed twins");
    // F-C12
    let r = std::panic::catch_unwind(|| types::Context::with_context(|ctx| {
        let wit = N::witness(&ctx, Some(Value::u16(0xffff)));
        let prog = N::comp(&N::comp(&wit, &N::jet(&ctx, &Core::Complement8)).unwrap(), &N::unit(&ctx)).unwrap();
        let a = match prog.finalize_unpruned() { Ok(red) => { let (p, w) = red.to_vec_with_witness(); RedeemNode::decode::<_,_,Core>(BitIter::from(&p[..]), BitIter::from(&w[..])).is_err() } Err(_) => false };
        let _ = prog.finalize_pruned(&CoreEnv::new());
        a }));
    report("F-C12", !matches!(r, Ok(false)), "ill-typed construction-time witness is rejected (no undecodable program, no panic)");
    // F-C13
    let data = [0x12u8, 0x23, 0x34];
    report("F-C13", BitIter::byte_slice_window(&data, 4, 20).count() != 16 || BitIter::byte_slice_window(&data, 0, 3).count() != 3, "byte_slice_window yields exactly end-start bits");
    // F-C16
    type P = Policy<XOnlyPublicKey>;
    let a = P::And { left: Arc::new(P::Or { left: Arc::new(P::After(1)), right: Arc::new(P::After(2)) }), right: Arc::new(P::After(3)) };
    let b = P::And { left: Arc::new(P::Or { left: Arc::new(P::After(2)), right: Arc::new(P::After(1)) }), right: Arc::new(P::After(3)) };
    report("F-C16", a.sorted() != b.sorted(), "sorted() is invariant under reordering nested children");
    // F-C17a
    let f = Forest::parse::<Core>("a := unit\nb := unit\nmain := comp (pair a b) unit").unwrap();
    let f2 = Forest::parse::<Core>("main := comp (pair iden iden) unit").unwrap();
    report("F-C17a", Forest::parse::<Core>(&f.string_serialize()).is_err() || Forest::parse::<Core>(&f2.string_serialize()).is_err(), "rendering of a parsed forest with equal sub-expressions parses again");
    // F-C17b
    let f = Forest::parse::<Core>("main := comp (disconnect (pair iden iden) ?hole) unit").unwrap();
    let main = f.roots().get("main").unwrap().to_commit_node();
    report("F-C17b", Forest::parse::<Core>(&Forest::from_program(main).string_serialize()).is_err(), "rendering of a committed program with disconnect parses again");
    // F-C04d
    let r = types::Context::with_context(|ctx| {
        let mut e = N::pair(&N::unit(&ctx), &N::unit(&ctx)).unwrap();
        for _ in 0..40 { e = N::pair(&e, &e).unwrap(); }
        let bt = N::comp(&N::unit(&ctx), &e).unwrap();
        let u2 = N::unit(&ctx); let c = N::case(&u2, &u2).unwrap();
        N::comp(&bt, &c).err().map(|e| { let (tx, rx) = std::sync::mpsc::channel(); std::thread::spawn(move || { let s = e.to_string(); let _ = tx.send(s.len()); }); rx.recv_timeout(std::time::Duration::from_secs(5)).ok() })
    });
    report("F-C04d", !matches!(r, Some(Some(n)) if n < 1_000_000), "type error on a 40-times doubled complete type displays in bounded time/space");
    // F-C17c in a child
    let exe = std::env::current_exe().unwrap();
    let st = std::process::Command::new(exe).arg("deep-parse").output().unwrap();
    report("F-C17c", !st.status.success(), "parser survives 100000 nested parentheses");
}
