// Probe for C05 (Bit Machine vs reference evaluator), C07 (debug assertions on bounds when built in debug),
// C09 (CMR across conversions), C10/C11 (value layout and equality). Prototype of the harness generators.
use simplicity::{types::{self, Final, CompleteBound}, Value, BitIter, BitMachine, ConstructNode, RedeemNode, CommitNode, BitCollector};
use simplicity::node::{CoreConstructible, WitnessConstructible, DisconnectConstructible, Converter, Inner, Commit, Redeem, RedeemData, NoWitness, NoDisconnect};
use simplicity::dag::PostOrderIterItem;
use simplicity::jet::CoreEnv;
use std::sync::Arc;
use std::collections::hash_map::DefaultHasher;
use std::hash::{Hash, Hasher};

pub struct Rng(pub u64);
impl Rng { pub fn next(&mut self) -> u64 { self.0 = self.0.wrapping_add(0x9E3779B97F4A7C15); let mut z = self.0; z = (z ^ (z >> 30)).wrapping_mul(0xBF58476D1CE4E5B9); z = (z ^ (z >> 27)).wrapping_mul(0x94D049BB133111EB); z ^ (z >> 31) }
 pub fn below(&mut self, n: usize) -> usize { (self.next() % n as u64) as usize } pub fn bit(&mut self) -> bool { self.next() & 1 == 1 } }

#[derive(Clone, Debug, PartialEq, Eq)]
enum T { One, Sum(Box<T>, Box<T>), Prod(Box<T>, Box<T>) }
#[derive(Clone, Debug, PartialEq, Eq)]
enum V { U, L(Box<V>), R(Box<V>), P(Box<V>, Box<V>) }
impl T {
    fn bw(&self) -> usize { match self { T::One => 0, T::Sum(a,b) => 1 + a.bw().max(b.bw()), T::Prod(a,b) => a.bw() + b.bw() } }
    fn fin(&self) -> Arc<Final> { match self { T::One => Final::unit(), T::Sum(a,b) => Final::sum(a.fin(), b.fin()), T::Prod(a,b) => Final::product(a.fin(), b.fin()) } }
    fn from_fin(f: &Final) -> T { match f.bound() { CompleteBound::Unit => T::One, CompleteBound::Sum(a,b) => T::Sum(Box::new(T::from_fin(a)), Box::new(T::from_fin(b))), CompleteBound::Product(a,b) => T::Prod(Box::new(T::from_fin(a)), Box::new(T::from_fin(b))) } }
    fn le(&self, o: &T) -> bool { match (self, o) { (T::One, _) => true, (T::Sum(a,b), T::Sum(c,d)) | (T::Prod(a,b), T::Prod(c,d)) => a.le(c) && b.le(d), _ => false } }
}
fn gen_t(r: &mut Rng, d: usize) -> T { if d == 0 || r.below(4) == 0 { T::One } else if r.bit() { T::Sum(Box::new(gen_t(r, d-1)), Box::new(gen_t(r, d-1))) } else { T::Prod(Box::new(gen_t(r, d-1)), Box::new(gen_t(r, d-1))) } }
fn gen_v(r: &mut Rng, t: &T) -> V { match t { T::One => V::U, T::Sum(a,b) => if r.bit() { V::L(Box::new(gen_v(r,a))) } else { V::R(Box::new(gen_v(r,b))) }, T::Prod(a,b) => V::P(Box::new(gen_v(r,a)), Box::new(gen_v(r,b))) } }
fn padded(t: &T, v: &V, r: &mut Option<&mut Rng>, out: &mut Vec<bool>) { match (t, v) { (T::One, V::U) => {}, (T::Sum(a,b), V::L(x)) => { out.push(false); for _ in 0..(a.bw().max(b.bw()) - a.bw()) { out.push(r.as_mut().map(|r| r.bit()).unwrap_or(false)); } padded(a, x, r, out) }, (T::Sum(a,b), V::R(x)) => { out.push(true); for _ in 0..(a.bw().max(b.bw()) - b.bw()) { out.push(r.as_mut().map(|r| r.bit()).unwrap_or(false)); } padded(b, x, r, out) }, (T::Prod(a,b), V::P(x,y)) => { padded(a,x,r,out); padded(b,y,r,out) }, _ => panic!("ill-typed ref value") } }
fn compact(v: &V, out: &mut Vec<bool>) { match v { V::U => {}, V::L(x) => { out.push(false); compact(x, out) }, V::R(x) => { out.push(true); compact(x, out) }, V::P(x,y) => { compact(x,out); compact(y,out) } } }
fn dec_compact(t: &T, bits: &mut dyn Iterator<Item=bool>) -> V { match t { T::One => V::U, T::Sum(a,b) => if !bits.next().unwrap() { V::L(Box::new(dec_compact(a, bits))) } else { V::R(Box::new(dec_compact(b, bits))) }, T::Prod(a,b) => { let x = dec_compact(a, bits); let y = dec_compact(b, bits); V::P(Box::new(x), Box::new(y)) } } }
fn restrict(v: &V, t: &T) -> Option<V> { match (v, t) { (_, T::One) => Some(V::U), (V::L(x), T::Sum(a,_)) => Some(V::L(Box::new(restrict(x,a)?))), (V::R(x), T::Sum(_,b)) => Some(V::R(Box::new(restrict(x,b)?))), (V::P(x,y), T::Prod(a,b)) => Some(V::P(Box::new(restrict(x,a)?), Box::new(restrict(y,b)?))), _ => None } }
fn lib_construct(t: &T, v: &V) -> Value { match (t, v) { (T::One, V::U) => Value::unit(), (T::Sum(a,b), V::L(x)) => Value::left(lib_construct(a,x), b.fin()), (T::Sum(a,b), V::R(x)) => Value::right(a.fin(), lib_construct(b,x)), (T::Prod(a,b), V::P(x,y)) => Value::product(lib_construct(a,x), lib_construct(b,y)), _ => panic!() } }
fn bytes_of(bits: &[bool]) -> Vec<u8> { bits.iter().copied().collect_bits().0 }
fn of_lib(val: &Value) -> (T, V) { let t = T::from_fin(val.ty()); let v = dec_compact(&t, &mut val.iter_compact()); (t, v) }
#[allow(dead_code)] fn hash_of(v: &Value) -> u64 { let mut h = DefaultHasher::new(); v.hash(&mut h); h.finish() }
#[allow(dead_code)] fn unused() { let _ = (restrict(&V::U, &T::One), T::One.le(&T::One)); }

type N<'b> = Arc<ConstructNode<'b>>;
thread_local! { static POOL: std::cell::RefCell<Vec<(T, T, usize)>> = std::cell::RefCell::new(vec![]); }
fn gen_prog<'b>(ctx: &types::Context<'b>, r: &mut Rng, a: &T, b: &T, d: usize, stats: &mut [usize; 16]) -> N<'b> {
    gen_prog_pool(ctx, r, a, b, d, stats, &mut vec![])
}
fn gen_prog_pool<'b>(ctx: &types::Context<'b>, r: &mut Rng, a: &T, b: &T, d: usize, stats: &mut [usize; 16], pool: &mut Vec<(T, T, N<'b>)>) -> N<'b> {
    if r.below(4) == 0 { let c: Vec<usize> = pool.iter().enumerate().filter(|(_, (x, y, _))| x == a && y == b).map(|(i, _)| i).collect(); if !c.is_empty() { stats[15] += 1; return pool[c[r.below(c.len())]].2.clone(); } }
    let n = gen_prog_inner(ctx, r, a, b, d, stats, pool);
    pool.push((a.clone(), b.clone(), n.clone()));
    n
}
fn gen_prog_inner<'b>(ctx: &types::Context<'b>, r: &mut Rng, a: &T, b: &T, d: usize, stats: &mut [usize; 16], pool: &mut Vec<(T, T, N<'b>)>) -> N<'b> {
    let mut opts: Vec<u8> = vec![];
    if a == b { opts.push(0); opts.push(0); }
    if *b == T::One { opts.push(1); }
    if d > 0 {
        if let T::Sum(..) = b { opts.push(2); opts.push(3); }
        if let T::Prod(..) = b { opts.push(4); opts.push(4); }
        if let T::Prod(..) = a { opts.push(5); opts.push(6); }
        if let T::Prod(x, _) = a { if let T::Sum(..) = **x { opts.push(7); opts.push(7); opts.push(7); opts.push(10); } }
        opts.push(8); opts.push(11);
    }
    opts.push(9);
    if d == 0 && opts.len() > 1 { opts.retain(|o| *o != 9 || r.below(4) == 0); if opts.is_empty() { opts.push(9); } }
    let o = opts[r.below(opts.len())];
    stats[o as usize] += 1;
    match o {
        0 => N::iden(ctx), 1 => N::unit(ctx),
        2 => { if let T::Sum(x, _) = b { N::injl(&gen_prog_pool(ctx, r, a, x, d-1, stats, pool)) } else { unreachable!() } }
        3 => { if let T::Sum(_, y) = b { N::injr(&gen_prog_pool(ctx, r, a, y, d-1, stats, pool)) } else { unreachable!() } }
        4 => { if let T::Prod(x, y) = b { let s = gen_prog_pool(ctx, r, a, x, d-1, stats, pool); let t = gen_prog_pool(ctx, r, a, y, d-1, stats, pool); N::pair(&s, &t).unwrap() } else { unreachable!() } }
        5 => { if let T::Prod(x, _) = a { N::take(&gen_prog_pool(ctx, r, x, b, d-1, stats, pool)) } else { unreachable!() } }
        6 => { if let T::Prod(_, y) = a { N::drop_(&gen_prog_pool(ctx, r, y, b, d-1, stats, pool)) } else { unreachable!() } }
        7 | 10 => { if let T::Prod(xy, z) = a { if let T::Sum(x, y) = &**xy {
                // the hidden branch of an assertion must not be built in this context: an abandoned
                // sibling sharing pooled nodes would constrain the program's types (C01's precondition)
                if o == 7 {
                    let s = gen_prog_pool(ctx, r, &T::Prod(x.clone(), z.clone()), b, d-1, stats, pool);
                    let t = gen_prog_pool(ctx, r, &T::Prod(y.clone(), z.clone()), b, d-1, stats, pool);
                    N::case(&s, &t).unwrap()
                } else {
                    let mut h = [0u8; 32]; for x in h.iter_mut() { *x = r.next() as u8; }
                    let hidden = simplicity::Cmr::from_byte_array(h);
                    if r.bit() { let s = gen_prog_pool(ctx, r, &T::Prod(x.clone(), z.clone()), b, d-1, stats, pool); N::assertl(&s, hidden).unwrap() }
                    else { let t = gen_prog_pool(ctx, r, &T::Prod(y.clone(), z.clone()), b, d-1, stats, pool); N::assertr(hidden, &t).unwrap() }
                }
            } else { unreachable!() } } else { unreachable!() } }
        8 => { let m = gen_t(r, 3); let s = gen_prog_pool(ctx, r, a, &m, d-1, stats, pool); let t = gen_prog_pool(ctx, r, &m, b, d-1, stats, pool); N::comp(&s, &t).unwrap() }
        11 => { if let T::Prod(b1, dd) = b {
                let c = gen_t(r, 2);
                let w256 = T::from_fin(&Final::two_two_n(8).unwrap());
                let s = gen_prog_pool(ctx, r, &T::Prod(Box::new(w256), Box::new(a.clone())), &T::Prod(b1.clone(), Box::new(c.clone())), d-1, stats, pool);
                let t = gen_prog_pool(ctx, r, &c, dd, d-1, stats, pool);
                N::disconnect(&s, &Some(t)).unwrap()
            } else { stats[11] -= 1; stats[9] += 1; N::witness(ctx, None) } }
        _ => N::witness(ctx, None),
    }
}
struct RandWit<'a> { r: &'a mut Rng, cache: std::collections::HashMap<usize, Value> }
impl<'a> Converter<Commit, Redeem> for RandWit<'a> {
    type Error = ();
    fn convert_witness(&mut self, data: &PostOrderIterItem<&CommitNode>, _: &NoWitness) -> Result<Value, ()> {
        // one value per *node object*: `CommitNode::finalize` expands the DAG without sharing, and copies of a
        // shared node carrying different values would no longer be principally typed (C01's precondition)
        let key = data.node as *const CommitNode as usize;
        if let Some(v) = self.cache.get(&key) { return Ok(v.shallow_clone()); }
        let t = T::from_fin(&data.node.arrow().target); let v = gen_v(self.r, &t); let val = lib_construct(&t, &v);
        self.cache.insert(key, val.shallow_clone()); Ok(val) }
    fn convert_disconnect(&mut self, _: &PostOrderIterItem<&CommitNode>, _: Option<&Arc<RedeemNode>>, _: &NoDisconnect) -> Result<Arc<RedeemNode>, ()> { Err(()) }
    fn convert_data(&mut self, data: &PostOrderIterItem<&CommitNode>, inner: Inner<&Arc<RedeemNode>, &Arc<RedeemNode>, &Value>) -> Result<Arc<RedeemData>, ()> {
        let converted = inner.map(|n| n.cached_data()).map_disconnect(|n| n.cached_data()).map_witness(Value::shallow_clone);
        Ok(Arc::new(RedeemData::new(data.node.arrow().shallow_clone(), converted))) }
}
#[derive(Debug, PartialEq)]
enum Fail { Assert, FailNode, Stuck }
fn ref_eval(n: &RedeemNode, v: &V) -> Result<V, Fail> {
    use simplicity::node::Inner as I;
    match n.inner() {
        I::Iden => Ok(v.clone()), I::Unit => Ok(V::U),
        I::InjL(t) => Ok(V::L(Box::new(ref_eval(t, v)?))), I::InjR(t) => Ok(V::R(Box::new(ref_eval(t, v)?))),
        I::Take(t) => if let V::P(x, _) = v { ref_eval(t, x) } else { Err(Fail::Stuck) },
        I::Drop(t) => if let V::P(_, y) = v { ref_eval(t, y) } else { Err(Fail::Stuck) },
        I::Comp(s, t) => { let m = ref_eval(s, v)?; ref_eval(t, &m) }
        I::Pair(s, t) => { let x = ref_eval(s, v)?; let y = ref_eval(t, v)?; Ok(V::P(Box::new(x), Box::new(y))) }
        I::Case(s, t) => match v { V::P(xy, z) => match &**xy { V::L(x) => ref_eval(s, &V::P(x.clone(), z.clone())), V::R(y) => ref_eval(t, &V::P(y.clone(), z.clone())), _ => Err(Fail::Stuck) }, _ => Err(Fail::Stuck) },
        I::AssertL(s, _) => match v { V::P(xy, z) => match &**xy { V::L(x) => ref_eval(s, &V::P(x.clone(), z.clone())), V::R(_) => Err(Fail::Assert), _ => Err(Fail::Stuck) }, _ => Err(Fail::Stuck) },
        I::AssertR(_, t) => match v { V::P(xy, z) => match &**xy { V::R(y) => ref_eval(t, &V::P(y.clone(), z.clone())), V::L(_) => Err(Fail::Assert), _ => Err(Fail::Stuck) }, _ => Err(Fail::Stuck) },
        I::Witness(w) => Ok(of_lib(w).1), I::Word(w) => Ok(of_lib(w.as_value()).1), I::Fail(_) => Err(Fail::FailNode),
        I::Disconnect(s, t) => {
            let w256 = T::from_fin(&Final::two_two_n(8).unwrap());
            let bits: Vec<bool> = t.cmr().as_ref().iter().flat_map(|b| (0..8).map(move |i| b & (1 << (7 - i)) != 0)).collect();
            let cw = dec_compact(&w256, &mut bits.into_iter());
            let out = ref_eval(s, &V::P(Box::new(cw), Box::new(v.clone())))?;
            if let V::P(b1, c) = out { let dd = ref_eval(t, &c)?; Ok(V::P(b1, Box::new(dd))) } else { Err(Fail::Stuck) } }
        I::Jet(_) => Err(Fail::Stuck),
    }
}

fn main() {
    use simplicity::ffi::tests::{ffi::SimplicityErr, run_program, TestUpTo};
    use simplicity::hashes::sha256::Midstate;
    use simplicity::jet::Elements;
    let seed: u64 = std::env::args().nth(1).unwrap().parse().unwrap();
    let iters: usize = std::env::args().nth(2).unwrap().parse().unwrap();
    let mut r = Rng(seed);
    let mut stats = [0usize; 16];
    let (mut progs, mut rt_fail, mut c_mismatch, mut root_mismatch, mut mutants, mut noncanon, mut shared) = (0,0,0,0,0,0,0);
    for it in 0..iters {
        let commit = types::Context::with_context(|ctx| { let p = gen_prog(&ctx, &mut r, &T::One, &T::One, 2 + it % 7, &mut stats); p.finalize_types().ok() });
        let Some(commit) = commit else { continue };
        let red = match commit.finalize(&mut RandWit { r: &mut r, cache: Default::default() }) { Ok(x) => x, Err(_) => continue };
        progs += 1;
        let (pb, wb) = red.to_vec_with_witness();
        match RedeemNode::decode::<_,_,Elements>(BitIter::from(&pb[..]), BitIter::from(&wb[..])) {
            Ok(r2) => { let (pb2, wb2) = r2.to_vec_with_witness(); if pb2 != pb || wb2 != wb || r2.cmr() != red.cmr() || r2.amr() != red.amr() || r2.ihr() != red.ihr() { rt_fail += 1; if rt_fail < 5 { println!("C01 ROUNDTRIP MISMATCH prog={:02x?} wit={:02x?}", pb, wb); } } }
            Err(e) => { rt_fail += 1; if rt_fail < 5 { println!("C01 ROUNDTRIP DECODE FAIL err={} prog={:02x?} wit={:02x?}", e, pb, wb); } }
        }
        for m in 0..5 {
            let (mut p2, mut w2) = (pb.clone(), wb.clone());
            if m > 0 { mutants += 1; let which = r.below(3);
                if which == 0 || w2.is_empty() { let i = r.below(p2.len()*8); p2[i/8] ^= 1 << (i%8); } else if which == 1 { let i = r.below(w2.len()*8); w2[i/8] ^= 1 << (i%8); } else if r.bit() { p2.push(r.next() as u8) } else { p2.pop(); } }
            let c = run_program(&p2, &w2, TestUpTo::CheckOneOne, None, None);
            let rr = RedeemNode::decode::<_,_,Elements>(BitIter::from(&p2[..]), BitIter::from(&w2[..]));
            match (c, rr) {
                (Ok(_), Err(e)) => { c_mismatch += 1; if c_mismatch < 8 { println!("C03 C ok, Rust err {} : prog={:02x?} wit={:02x?}", e, p2, w2); } }
                (Err(SimplicityErr::FailCode), Ok(_)) => {}
                (Err(e), Ok(_)) => { c_mismatch += 1; if c_mismatch < 8 { println!("C03 Rust ok, C err {} : prog={:02x?} wit={:02x?}", e, p2, w2); } }
                (Err(_), Err(_)) => {}
                (Ok(cd), Ok(rd)) => {
                    let ok = &Midstate::from(cd.cmr).to_parts().0 == rd.cmr().as_ref() && &Midstate::from(cd.amr).to_parts().0 == rd.amr().as_ref() && &Midstate::from(cd.ihr).to_parts().0 == rd.ihr().as_ref();
                    if !ok { root_mismatch += 1; if root_mismatch < 5 { println!("C03 ROOT MISMATCH prog={:02x?} wit={:02x?}", p2, w2); } }
                    if let Ok(cd2) = run_program(&p2, &w2, TestUpTo::ComputeCostUnbounded, None, None) { if simplicity::Cost::from_milliweight(cd2.cost_bound) != rd.bounds().cost { root_mismatch += 1; if root_mismatch < 5 { println!("C03 COST MISMATCH c={} rust={} prog={:02x?}", cd2.cost_bound, rd.bounds().cost, p2);} } }
                    if m > 0 { let (p3, w3) = rd.to_vec_with_witness(); if p3 != p2 || w3 != w2 { noncanon += 1; if noncanon < 5 { println!("C02 NONCANONICAL ACCEPTED prog={:02x?} wit={:02x?}", p2, w2);} } }
                }
            }
        }
        shared = stats[15];
    }
    println!("C01/C02/C03 probe v2: programs {progs} (pool reuses {shared}) roundtrip_fail {rt_fail} mutants {mutants} verdict_mismatch {c_mismatch} root/cost_mismatch {root_mismatch} noncanonical {noncanon} stats={:?}", &stats[..12]);
}
