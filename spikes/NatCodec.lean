namespace Spk

/-- big-endian low `len` bits of `n` -/
def bitsBE (n : Nat) : Nat → List Bool
  | 0 => []
  | len+1 => n.testBit len :: bitsBE n len

/-- number of leading ones -/
def pre (n : Nat) : Nat :=
  if h : n.log2 = 0 then 0 else 1 + pre n.log2
termination_by n
decreasing_by
  have h0 : n ≠ 0 := by intro h0; subst h0; simp at h
  exact (Nat.log2_lt h0).2 Nat.lt_two_pow_self

def suf (n : Nat) : List Bool :=
  if h : n.log2 = 0 then [] else suf n.log2 ++ bitsBE n n.log2
termination_by n
decreasing_by
  have h0 : n ≠ 0 := by intro h0; subst h0; simp at h
  exact (Nat.log2_lt h0).2 Nat.lt_two_pow_self

def encodeNat (n : Nat) : List Bool :=
  List.replicate (pre n) true ++ false :: suf n

inductive Err | eof | overflow
deriving DecidableEq, Repr

/-- read `len` bits, accumulating `acc := 2*acc + bit` -/
def readBits : Nat → Nat → List Bool → Except Err (Nat × List Bool)
  | 0, acc, bs => .ok (acc, bs)
  | _+1, _, [] => .error .eof
  | len+1, acc, b :: bs => readBits len (2*acc + b.toNat) bs

def decLoop : Nat → Nat → List Bool → Except Err (Nat × List Bool)
  | d, len, bs =>
    match readBits len 1 bs with
    | .error e => .error e
    | .ok (v, rest) =>
      match d with
      | 0 => if v < 2^32 then .ok (v, rest) else .error .overflow
      | d'+1 => if v > 31 then .error .overflow else decLoop d' v rest

def countOnes : List Bool → Except Err (Nat × List Bool)
  | [] => .error .eof
  | false :: bs => .ok (0, bs)
  | true :: bs => match countOnes bs with
    | .error e => .error e
    | .ok (k, r) => .ok (k+1, r)

def decodeNat (bs : List Bool) : Except Err (Nat × List Bool) :=
  match countOnes bs with
  | .error e => .error e
  | .ok (d, rest) => decLoop d 0 rest

theorem countOnes_replicate (k : Nat) (rest : List Bool) :
    countOnes (List.replicate k true ++ false :: rest) = .ok (k, rest) := by
  induction k with
  | zero => simp [countOnes]
  | succ k ih => simp [List.replicate_succ, countOnes, ih]

theorem readBits_bitsBE (n len acc : Nat) (rest : List Bool) :
    readBits len acc (bitsBE n len ++ rest) = .ok (acc * 2^len + n % 2^len, rest) := by
  induction len generalizing acc with
  | zero => simp [readBits, bitsBE, Nat.mod_one]
  | succ len ih =>
    simp only [bitsBE, List.cons_append, readBits, ih]
    congr 2
    have h := Nat.testBit_eq_decide_div_mod_eq (x := n) (i := len)
    have hb : (n.testBit len).toNat = n / 2^len % 2 := by
      rw [h]; rcases Nat.mod_two_eq_zero_or_one (n / 2^len) with h0 | h1
      · simp [h0]
      · simp [h1]
    rw [hb]
    have : n % 2^(len+1) = 2^len * (n / 2^len % 2) + n % 2^len := by
      rw [Nat.pow_succ, Nat.mod_mul]; omega
    rw [this, Nat.pow_succ]
    generalize 2^len = p
    generalize n / p % 2 = q
    generalize n % p = r
    rw [Nat.add_mul, Nat.mul_comm 2 acc, Nat.mul_assoc, Nat.mul_comm 2 p, Nat.mul_comm q p]
    omega


theorem decLoop_suf (n : Nat) (hn : 1 ≤ n) (hlt : n < 2^32) (d : Nat) (rest : List Bool) :
    decLoop (pre n + d) 0 (suf n ++ rest) =
      match d with
      | 0 => .ok (n, rest)
      | d'+1 => if n > 31 then .error .overflow else decLoop d' n rest := by
  induction n using Nat.strongRecOn generalizing d rest with
  | _ n ih =>
    by_cases h : n.log2 = 0
    · have hn1 : n = 1 := by
        have h0 : n ≠ 0 := by omega
        have := (Nat.log2_eq_iff h0).1 h
        omega
      subst hn1
      have l1 : Nat.log2 1 = 0 := by rw [Nat.log2_def]; simp
      rw [pre, suf]
      simp only [l1, dite_true, Nat.zero_add, List.nil_append]
      conv => lhs; unfold decLoop
      simp only [readBits]
      cases d <;> simp
    · have h0 : n ≠ 0 := by omega
      have hm1 : 1 ≤ n.log2 := by omega
      have hmlt : n.log2 < n := (Nat.log2_lt h0).2 Nat.lt_two_pow_self
      have hm32 : n.log2 < 32 := (Nat.log2_lt h0).2 hlt
      have hmlt32 : n.log2 < 2^32 := by omega
      rw [pre, suf]
      simp only [h, dite_false, List.append_assoc]
      have := ih n.log2 hmlt hm1 hmlt32 (d+1) (bitsBE n n.log2 ++ rest)
      rw [show 1 + pre n.log2 + d = pre n.log2 + (d+1) by omega, this]
      simp only
      rw [if_neg (by omega)]
      conv => lhs; unfold decLoop
      rw [readBits_bitsBE]
      have hval : 1 * 2 ^ n.log2 + n % 2 ^ n.log2 = n := by
        have hle := Nat.log2_self_le h0
        have hlt2 := @Nat.lt_log2_self n
        rw [Nat.pow_succ] at hlt2
        have : n / 2^n.log2 = 1 := by
          apply Nat.div_eq_of_lt_le <;> omega
        have := Nat.div_add_mod n (2^n.log2)
        rw [‹n / 2^n.log2 = 1›] at this
        omega
      simp only [hval]
      cases d with
      | zero => simp [hlt]
      | succ d' => rfl

theorem decode_encode (n : Nat) (hn : 1 ≤ n) (hlt : n < 2^32) (rest : List Bool) :
    decodeNat (encodeNat n ++ rest) = .ok (n, rest) := by
  unfold decodeNat encodeNat
  rw [List.append_assoc, List.cons_append, countOnes_replicate]
  simpa using decLoop_suf n hn hlt 0 rest

#print axioms decode_encode
end Spk
